"""C18 — Resource specs cannot be mixed silently and memory settings mean what they say.

corr   : real `convert_to_bytes` / `cubed.Spec(...)` / `Spec.__eq__` / `check_array_specs`  vs  Lean model (drivers/C18.lean)
         on generated size literals (strings, ints, floats), spec pairs and argument lists.
oracle : independent of Lean —
         (a) every accepted literal equals the exact value computed from the string with fractions/decimal;
         (b) API sweep: every public multi-array entry point with pairs of specs differing in one field must raise
             ValueError("Arrays must have same spec") at build time, unless no returned array's plan contains both inputs
             and the only argument evaluated eagerly is an index argument;
         (b') history independence: after two distinct-but-equal Specs were combined and one was freed, a differing Spec
             allocated at the freed address must still be rejected (verdict depends on the specs' values only);
         (c) for accepted plans every op's allowed_mem/reserved_mem in the finalized plan is the spec's, and the
             admission decision is the one computed from the spec's budget.
"""
from __future__ import annotations

import decimal
import inspect
import os
import re
import shutil
import tempfile
from fractions import Fraction

import sys

if hasattr(sys, "set_int_max_str_digits"):
    sys.set_int_max_str_digits(0)   # exact values of literals such as 1e-5000 are printed in failure messages

DRIVER = "C18"
RULE = ("size literals: seeded generator over plain/huge integers (up to 40 digits, >= 2^53), decimals with > 15 significant "
        "digits, exponents |e| <= 30, up to +-2000, on the boundary of the range test (most significant digit at 10^+-998..1002), and huge (5-30 digits, incl. the limits of decimal.Decimal), single/misplaced underscores, units {'',B,kB..PB} and wrong-case/unknown units, spaces and "
        "ASCII whitespace/control characters at any position, signs, inf/nan words, malformed strings, random one-character "
        "mutations of valid literals; ints and floats (incl. inf/nan/-0.0/subnormal/2^k); spec pairs: every single-field "
        "difference over pools of 3-6 values per field plus equal and multi-field pairs; API sweep: every entry of the call "
        "table (introspected binary functions and operators + hand table) x 8 one-field spec differences x every argument "
        "position; non-trivial = literal with unit/fraction/exponent/underscore or > 15 digits, spec pair differing in exactly "
        "one field, sweep case with differing specs; distinct by request text / case description")
ASSUMPTIONS = [
    "size strings are ASCII in the Lean correspondence (Python's float()/Fraction() also accept non-ASCII digits and spaces; those are covered by the direct oracle only)",
    "literals are shorter than Python's int<->str limit (4300 digits)",
    "Python `==` on the values of the compared Spec fields is an equivalence relation (model: value classes)",
    "the optimizer replaces ops only by fused ops that copy allowed_mem/reserved_mem from a constituent op (FusedFrom; shape extracted from fuse/fuse_multiple and checked on every finalized plan of the sweep)",
]
TRUSTED = [
    "modelled not verified: Python's float() and decimal.Decimal() string grammars and the representability limits of Decimal (MAX_EMAX, MIN_ETINY) — the Lean lexer `lexNumber`/`decimalOk` is tied to them by the literal correspondence only",
    "the static site table (harness/extract_c18.py) is a heuristic dataflow; completeness of 'every public function' rests on the introspecting API sweep",
]

SPEC_MSG = "Arrays must have same spec"


# ------------------------------------------------------------------------------------------------
# size literals
# ------------------------------------------------------------------------------------------------

UNITS = ["", "B", "kB", "MB", "GB", "TB", "PB"]
BAD_UNITS = ["KB", "kb", "Kb", "mB", "Mb", "mb", "gB", "GiB", "KiB", "kiB", "EB", "ZB", "b", "k", "M", "G", "BB", "kBB", "Bk", "kB.", "kB0"]
WS = ["\t", "\n", "\x0b", "\x0c", "\r", "\x1c", "\x1d", "\x1e", "\x1f", "\x00", "\x7f"]
ALPHABET = "0123456789" * 3 + "..__eE+-- \tBkMGTPbKinfaty"
FIXED = ["1e1000", "1e1001", "10e1000", "0.1e1001", "0.1e1002", "9.99e1000", "1e-1000", "1e-1001", "0.001e-997", "0.001e-998",
         "0e9999", "0.0e-5000", "-0e5000", "00010e1000", "0010e999", "0.00100e1003", "1e1000kB", "1e998PB", "1e1001B", ".5e1001", "5.e1000",
         "123456e995", "123456e996", "1e10_00", "1e1_001", "1e+1000", "1E-1001", "-1e1001", "-1e1000", "1e1000 kB", "1.5e2000", "1e-2000MB",
         "", " ", "  ", "B", "kB", " kB", ".", "..", "-", "+", "_", "e", "e5", "1e", "1e+", "1e-", "0x10", "1,000", "1/2", "abc",
         "5kBB", "B5", "5 k B", "5k B", "- 5", "-\t5", "1__0", "_1", "1_", "1._5", "1_.5", "._5", ".5", "5.", ".e2", "1.e2", "+.5e1",
         "1e1_0", "1e_1", "1_e1", "-0", "-0.0", "+0", "-0kB", "-1e-400", "0e0", "00012", "0.0", "1.0", "1.50 kB", "inf", "-inf",
         "+inf", "nan", "-nan", "NaN", "iNfInItY", "infinit", "infinityy", "infB", "nankB", "INFINITYB", "in f", "T", "TB", "1T", "1TB",
         "9007199254740993", "9007199254740992", "9007199254740991", "18014398509481985", "100000000000000000000001B",
         "1.0000000000000001kB", "1.0000000000000001", "0.30000000000000004kB", "1.1MB", "0.1kB", "0.001kB", "0.0001kB",
         "123456789.123456789GB", "1e-3kB", "1e-4kB", "1e3", "1E3", "1e+3", "2.5e-1kB", "1_000", "1_000_000B", "1 000", "1 0 0 M B",
         "5kB\t", "\t5kB", "5\tkB", "5\x1ckB", "\x1c5", "5\x0b", "\n5\n", "5 B", "5BB", "1KB", "1kb", "100MB", "2GB", "4 TB", "1PB"]
NONASCII = ["١٢٣", "１２", "1\xa0kB", " 5kB", "１２kB", "٣MB", "5 ", "1٠", "²", "1²", "５.５kB", "१०B"]


def _digits(rng, n):
    return "".join(rng.choice("0123456789") for _ in range(n))


def _with_underscores(rng, ds):
    out = []
    for i, ch in enumerate(ds):
        out.append(ch)
        if i + 1 < len(ds) and rng.random() < 0.2:
            out.append("_")
    return "".join(out)


def gen_number(rng):
    kind = rng.random()
    if kind < 0.2:
        ip = str(rng.randint(0, 10 ** rng.randint(1, 6)))
        fp = None
    elif kind < 0.35:
        ip = str(rng.choice([2 ** 53 + rng.randint(-2, 3), 2 ** 64 + rng.randint(0, 5), 10 ** rng.randint(16, 39) + rng.randint(0, 9),
                             rng.randint(2 ** 53, 10 ** 30)]))
        fp = None
    elif kind < 0.6:
        ip = _digits(rng, rng.randint(0, 4)).lstrip("0") if rng.random() < 0.8 else ""
        fp = _digits(rng, rng.randint(0, 20))
    elif kind < 0.8:   # whole after scaling
        k = rng.randint(1, 5)
        n = rng.randint(0, 10 ** rng.randint(1, 18))
        s = str(n).rjust(3 * k + 1, "0")
        ip, fp = s[:-rng.randint(1, 3 * k)], None
        cut = len(ip)
        fp = s[cut:]
    else:
        ip = _digits(rng, rng.randint(1, 25))
        fp = _digits(rng, rng.randint(0, 25)) if rng.random() < 0.5 else None
    if rng.random() < 0.15:
        ip = _with_underscores(rng, ip)
    if fp is not None and rng.random() < 0.1:
        fp = _with_underscores(rng, fp)
    s = ip + ("." + fp if fp is not None else "")
    r = rng.random()
    if r < 0.3:
        e = rng.randint(-30, 30)
        s += rng.choice("eE") + (rng.choice(["", "+"]) if e >= 0 else "") + str(e)
    elif r < 0.38:
        e = rng.randint(-2000, 2000)
        s += rng.choice("eE") + (rng.choice(["", "+"]) if e >= 0 else "") + str(e)
    elif r < 0.46 and re.search(r"\d", s):
        # boundary of `abs(Decimal.adjusted()) > 1000`: place the most significant digit at 998..1002 (either sign)
        try:
            adj0 = decimal.Decimal(s.replace("_", "")).adjusted()
            e = rng.choice([1, -1]) * rng.choice([998, 999, 1000, 1000, 1001, 1001, 1002]) - adj0
            s += rng.choice("eE") + (rng.choice(["", "+"]) if e >= 0 else "") + str(e)
        except decimal.InvalidOperation:
            pass
    r = rng.random()
    if r < 0.08:
        s = "-" + s
    elif r < 0.14:
        s = "+" + s
    return s


def gen_literal(rng):
    r = rng.random()
    if r < 0.12:
        return rng.choice(FIXED)
    if r < 0.17:
        w = rng.choice(["inf", "nan", "infinity", "Inf", "NAN", "INFINITY", "iNf"])
        return rng.choice(["", "-", "+"]) + w + rng.choice(UNITS + ["", ""])
    s = gen_number(rng)
    u = rng.random()
    unit = rng.choice(UNITS) if u < 0.85 else rng.choice(BAD_UNITS)
    sep = rng.choice(["", "", "", " ", "  ", "\t"]) if rng.random() < 0.5 else ""
    s = s + sep + unit
    if rng.random() < 0.12:   # spaces / whitespace anywhere
        for _ in range(rng.randint(1, 3)):
            i = rng.randint(0, len(s))
            s = s[:i] + (" " if rng.random() < 0.6 else rng.choice(WS)) + s[i:]
    if rng.random() < 0.1:
        s = rng.choice([" ", "\t", "\n", "\r\n"]) + s + rng.choice(["", " ", "\n", "\t"])
    if rng.random() < 0.15 and s:   # one-character mutation
        i = rng.randrange(len(s))
        m = rng.random()
        if m < 0.4:
            s = s[:i] + s[i + 1:]
        elif m < 0.7:
            s = s[:i] + rng.choice(ALPHABET) + s[i:]
        else:
            s = s[:i] + rng.choice(ALPHABET) + s[i + 1:]
    return s[:120]


_BIG_EXP = re.compile(r"[eE][+-]?[\d_]{5,}")


def bounded(s):
    """Exponent with at most four digits: safe to evaluate in this process and to send to the `denote` request
    (which materialises 10^e).  Longer exponents are answered by the real code through `guarded_outcomes`."""
    return not _BIG_EXP.search(re.sub(r"\s", "", s))


BIG = ["1e999999999", "1e-999999999", "1e999999999kB", "-1e999999999", "0e999999999", "0.000e-99999999", "-0e99999PB", "1e99999",
       "1e-99999", "12345e99999kB", "1e10000", "0.1e10001", "1e1_00000",
       "1e999999999999999999", "1e1000000000000000000", "10e999999999999999998", "10e999999999999999999",
       "0.1e1000000000000000000", "0.1e1000000000000000001", "0.01e1000000000000000001", "0e999999999999999999",
       "0e1000000000000000000", "0.0e1000000000000000000", "0.0e1000000000000000001", "00e1000000000000000000",
       "1e-1999999999999999997", "1e-1999999999999999998", "0.1e-1999999999999999996", "0.1e-1999999999999999997",
       "12e-1999999999999999997", "12e-1999999999999999998", "0e-1999999999999999997", "0e-1999999999999999998",
       "0.0e-1999999999999999996", "0.0e-1999999999999999997", "1e9223372036854775807", "1e9223372036854775808",
       "1e-9223372036854775808", "1e" + "9" * 30, "1e-" + "9" * 30, "0e" + "9" * 30, "0e-" + "9" * 30, "1e" + "9" * 30 + "kB",
       "5e999999999B", "1.5e+123456789 MB", "1E999999999", " 1e999999999 "]


def gen_big(rng):
    s = gen_number(rng).split("e")[0].split("E")[0]
    e = str(rng.randint(10 ** 4, 10 ** rng.randint(5, 25)))
    if rng.random() < 0.2:
        s = rng.choice(["0", "0.0", "00", ".0", "-0"])
    return s + rng.choice("eE") + rng.choice(["", "+", "-", "-"]) + e + rng.choice(UNITS)


_WORKER = r"""
import sys, json
sys.path.insert(0, sys.argv[1])
from cubed.utils import convert_to_bytes
for line in sys.stdin:
    s = json.loads(line)
    try:
        r = convert_to_bytes(s)
        out = ("ok-nonint %r" % (r,)) if (isinstance(r, bool) or not isinstance(r, int)) else ("ok %d" % r if r < 10 ** 400 else "ok-huge %d" % len(str(r)))
    except ValueError as e:
        m = str(e)
        out = ("error format" if "Expected the string to be a numeric value" in m else "error noninteger" if "non-integer number of bytes" in m
               else "error negative" if "Must be a positive value" in m else "error range" if "Exponent is out of range" in m
               else "error other:ValueError:" + m[:40])
    except IndexError:
        out = "error index"
    except BaseException as e:
        out = "error other:" + type(e).__name__
    print(out, flush=True)
"""


def guarded_outcomes(lits, timeout=5.0):
    """Outcome of the real `convert_to_bytes` for each literal, computed in a child process so that a call that does not
    return within `timeout` seconds is reported as 'timeout' instead of hanging the check."""
    import json
    import select
    import subprocess
    import sys

    from common import REPO
    out, proc = [], None

    def start():
        env = dict(os.environ)
        env["PYTHONINTMAXSTRDIGITS"] = "0"
        return subprocess.Popen([sys.executable, "-c", _WORKER, REPO], stdin=subprocess.PIPE, stdout=subprocess.PIPE,
                                stderr=subprocess.DEVNULL, text=True, bufsize=1, env=env)

    timeouts = 0
    for s in lits:
        if timeouts >= 3:
            out.append("skipped")     # the regression is established; do not spend 5 s on each remaining literal
            continue
        if proc is None or proc.poll() is not None:
            proc = start()
        try:
            proc.stdin.write(json.dumps(s) + "\n")
            proc.stdin.flush()
            ready, _, _ = select.select([proc.stdout], [], [], timeout if len(out) else timeout + 20)   # first call pays the import
            line = proc.stdout.readline() if ready else ""
        except (BrokenPipeError, OSError):
            line = ""
        if not line:
            out.append("timeout" if proc.poll() is None else "crashed")
            timeouts += 1
            proc.kill()
            proc = None
        else:
            out.append(line.rstrip("\n"))
    if proc is not None:
        try:
            proc.stdin.close()
            proc.wait(timeout=5)
        except Exception:
            proc.kill()
    return out


def big_sample(ctx, n):
    out = list(BIG)
    seen = set(out)
    while len(out) < n:
        s = gen_big(ctx.rng)
        if s not in seen and s.isascii():
            seen.add(s)
            out.append(s)
    return out


def _short(v, n=70):
    t = str(v)
    return t if len(t) <= n else "%s…(%d chars)…%s" % (t[: n // 2], len(t), t[-n // 2:])


def cps(s):
    return ",".join(str(ord(c)) for c in s) if s else "-"


def classify(fn, *a, **kw):
    """Outcome of the real code as the model reports it."""
    try:
        r = fn(*a, **kw)
    except ValueError as e:
        m = str(e)
        if "Expected the string to be a numeric value" in m:
            return "error format"
        if "non-integer number of bytes" in m:
            return "error noninteger"
        if "Must be a positive value" in m:
            return "error negative"
        if "Exponent is out of range" in m:
            return "error range"
        return "error other:ValueError:" + m[:40]
    except IndexError:
        return "error index"
    except Exception as e:   # anything else is reported verbatim and will disagree
        return "error other:" + type(e).__name__
    if isinstance(r, bool) or not isinstance(r, int):
        return "ok-nonint %r" % (r,)
    return "ok %d" % r


HUGE = "huge"
NUM_RE = re.compile(r"([+-]?)(?:(\d+(?:_\d+)*)(?:\.((?:\d+(?:_\d+)*)?))?|\.(\d+(?:_\d+)*))(?:[eE]([+-]?\d+(?:_\d+)*))?")


def exact_value(s):
    """Independent reading of a size string: None if it denotes nothing, else the exact Fraction of bytes."""
    t = s.replace(" ", "")
    unit = 0
    for u, k in (("kB", 1), ("MB", 2), ("GB", 3), ("TB", 4), ("PB", 5)):
        if t.endswith(u):
            t, unit = t[:-2], k
            break
    else:
        if t.endswith("B"):
            t = t[:-1]
    t = t.strip("".join(c for c in set(t) if c in "\t\n\x0b\x0c\r" or (ord(c) > 127 and c.isspace())))   # what float() strips
    m = NUM_RE.fullmatch(t)
    if not m:
        return None
    sign, ip, fp1, fp2, ex = m.groups()
    ip = (ip or "").replace("_", "")
    fp = (fp1 or fp2 or "").replace("_", "")
    e = int(ex.replace("_", "")) if ex else 0
    mant = int(ip + fp) if (ip + fp) else 0
    if mant == 0:
        return Fraction(0)
    if abs(e) > 200000:
        return HUGE   # denotes a number this evaluator will not materialise
    val = Fraction(mant) * Fraction(10) ** (e - len(fp)) * 1000 ** unit
    val = -val if sign == "-" else val
    # second opinion through decimal (ASCII only)
    if t.isascii() and abs(e) <= 5000:
        with decimal.localcontext() as c:
            c.prec = 12000
            c.Emax = decimal.MAX_EMAX
            c.Emin = decimal.MIN_EMIN
            d = decimal.Decimal(t.replace("_", "")) * (1000 ** unit)
            if Fraction(d) != val:
                raise AssertionError("harness: the two independent evaluators disagree on %r" % s)
    return val


def literal_nontrivial(s):
    return bool(re.search(r"[._eEkMGTP]", s)) or sum(ch.isdigit() for ch in s) > 15


def lit_kind(s, out):
    tag = "unit" if re.search(r"[kMGTP]B\s*$", s.replace(" ", "")) else "B" if s.rstrip().endswith("B") else "plain"
    return "lit:%s:%s" % (tag, out.split(" ")[0] + ("-" + out.split(" ")[1].split(":")[0] if out.startswith("error") else ""))


def literal_sample(ctx, n):
    out = list(FIXED)
    seen = set(out)
    while len(out) < n:
        s = gen_literal(ctx.rng)
        if s not in seen and s.isascii() and bounded(s):
            seen.add(s)
            out.append(s)
    # every ASCII control / whitespace character around a number
    for c in range(0, 48):
        for pat in ("%s5kB", "5kB%s", "5%skB", "5k%sB"):
            s = pat % chr(c)
            if s not in seen:
                seen.add(s)
                out.append(s)
    return out


def corr_literals_a(ctx):
    from cubed.utils import convert_to_bytes

    lits = literal_sample(ctx, ctx.budget(3000, 30000))
    ctx._lits = lits
    impl = [classify(convert_to_bytes, s) for s in lits]
    big = big_sample(ctx, ctx.budget(150, 1200))          # exponents with >= 5 digits: real code in a guarded child process
    impl = impl + guarded_outcomes(big)
    lits = lits + big
    reqs = ["bytes|" + cps(s) for s in lits]
    _reqs = reqs

    def finish(ans):
        for s, rq, e, a in zip(lits, reqs, impl, ans):
            if e == "skipped":
                continue
            ctx.count({"literal": s, "impl": e[:80]}, nontrivial=literal_nontrivial(s), kind=lit_kind(s, e))
            if e != a:
                ctx.disagree("convertStr = convert_to_bytes(str)", {"literal": s, "request": rq}, a, e)
        ctx.traces += len(lits)
    return _reqs, finish


def corr_literals_b(ctx):
    # the denotation itself against the independent Python reading
    lits = ctx._lits
    sub = lits[: ctx.budget(800, 6000)]
    _reqs = ["denote|" + cps(s) for s in sub]

    def finish(ans):
        for s, a in zip(sub, ans):
            v = exact_value(s)
            if v == HUGE:
                continue
            want = "none" if v is None else "some %d/%d" % (v.numerator, v.denominator)
            ctx.count({"denote": s, "ref": want[:80]}, nontrivial=literal_nontrivial(s), kind="denote:" + want.split(" ")[0])
            if a != want:
                ctx.disagree("denote = independent exact reading (fractions/decimal)", {"literal": s}, a, want)
    return _reqs, finish


def gen_numbers(rng, n):
    import math
    out = [0, 1, -1, 5, 2 ** 53 + 1, 2 ** 70, -2 ** 70, 10 ** 30, 0.0, -0.0, 1.0, 1.5, -1.0, -2.5, 1e300, 2.0 ** 53, 2.0 ** 60,
           5e-324, 0.1, 1e16, 123456789.0, float("inf"), float("-inf"), float("nan"), 4503599627370497.0, 1e22, 1e23]
    while len(out) < n:
        r = rng.random()
        if r < 0.35:
            out.append(rng.randint(-10 ** 6, 10 ** rng.randint(1, 30)))
        elif r < 0.7:
            out.append(float(rng.randint(-100, 10 ** rng.randint(1, 20))))
        elif r < 0.85:
            out.append(rng.uniform(-10, 1e6))
        else:
            out.append(math.ldexp(rng.randint(1, 2 ** 53), rng.randint(-60, 200)))
    return out


def corr_numbers(ctx):
    import math
    from cubed.utils import convert_to_bytes

    nums = gen_numbers(ctx.rng, ctx.budget(300, 3000))
    reqs, impl = [], []
    for v in nums:
        if isinstance(v, int):
            reqs.append("int|%d" % v)
        elif math.isinf(v) or math.isnan(v):
            reqs.append("ratio|1|0")
        else:
            a, b = v.as_integer_ratio()
            reqs.append("ratio|%d|%d" % (a, b))
        impl.append(classify(convert_to_bytes, v))
    _reqs = reqs

    def finish(ans):
        for v, rq, e, a in zip(nums, reqs, impl, ans):
            ctx.count({"number": repr(v), "impl": e}, nontrivial=isinstance(v, float) or abs(v) >= 2 ** 53,
                      kind="num:%s:%s" % (type(v).__name__, e.split(" ")[0]))
            if e != a:
                ctx.disagree("convertInt/convertRatio = convert_to_bytes(number)", {"number": repr(v), "request": rq}, a, e)
    return _reqs, finish


def corr_meminit(ctx):
    import cubed

    pool = [None, "", "0", "100MB", "1.5 GB", "2GB", "1e3", "1kB", "0.5B", "-1", "inf", "12_000", "1KB", " ", "9007199254740993",
            "1.0000000000000001kB"]
    cases = [(a, r) for a in pool for r in pool]
    ctx.rng.shuffle(cases)
    cases = cases[: ctx.budget(120, 256)]
    for _ in range(ctx.budget(100, 1500)):
        cases.append((gen_literal(ctx.rng) if ctx.rng.random() < 0.8 else None, gen_literal(ctx.rng) if ctx.rng.random() < 0.6 else None))
    cases = [(a, r) for a, r in cases if (a is None or (a.isascii() and bounded(a))) and (r is None or (r.isascii() and bounded(r)))]
    reqs, impl = [], []

    def mem(a, r):
        s = cubed.Spec(allowed_mem=a, reserved_mem=r)
        if not (type(s.allowed_mem) is int and type(s.reserved_mem) is int):
            raise TypeError("non-int memory setting")
        return s

    for a, r in cases:
        reqs.append("meminit|%s|%s" % ("none" if a is None else cps(a), "none" if r is None else cps(r)))
        try:
            s = mem(a, r)
            impl.append("ok %d %d" % (s.allowed_mem, s.reserved_mem))
        except Exception:
            impl.append(classify(mem, a, r))
    _reqs = reqs

    def finish(ans):
        for (a, r), rq, e, m in zip(cases, reqs, impl, ans):
            ctx.count({"Spec": {"allowed_mem": a, "reserved_mem": r}, "impl": e}, nontrivial=a is not None and r is not None,
                      kind="meminit:" + e.split(" ")[0])
            if e != m:
                ctx.disagree("Spec.memInit = cubed.Spec(allowed_mem=…, reserved_mem=…)", {"allowed_mem": a, "reserved_mem": r, "request": rq}, m, e)
    return _reqs, finish


# ------------------------------------------------------------------------------------------------
# specs
# ------------------------------------------------------------------------------------------------

FIELDS = ["work_dir", "intermediate_store", "allowed_mem", "reserved_mem", "executor", "storage_options", "zarr_compressor"]


class Pools:
    """Value pools for the Spec constructor; `code(field, value)` = equivalence class of the value under Python `==`."""

    def __init__(self, tmp):
        from zarr.storage import LocalStore, MemoryStore

        from cubed.runtime.executors.local import SingleThreadedExecutor, ThreadsExecutor
        self.tmp = tmp
        self.kw = {
            "work_dir": [{"work_dir": None}, {"work_dir": os.path.join(tmp, "w1")}, {"work_dir": os.path.join(tmp, "w2")},
                         {"work_dir": "s3://bucket/x"}],
            "intermediate_store": [{"intermediate_store": None}, {"intermediate_store": LocalStore(os.path.join(tmp, "s1"))},
                                   {"intermediate_store": LocalStore(os.path.join(tmp, "s2"))}, {"intermediate_store": MemoryStore()}],
            "allowed_mem": [{"allowed_mem": v} for v in (None, 0, 1000, "1kB", 1000.0, "2GB", 2 * 10 ** 9, "200MB", 2 ** 53 + 1)],
            "reserved_mem": [{"reserved_mem": v} for v in (0, None, "0", "1MB", 10 ** 6, 1000.0, "1kB")],
            "executor": [{}, {"executor": SingleThreadedExecutor()}, {"executor": ThreadsExecutor()},
                         {"executor": ThreadsExecutor(max_workers=2)}, {"executor_name": "threads"},
                         {"executor_name": "single-threaded"}, {"executor_name": "threads", "executor_options": {"max_workers": 2}}],
            "storage_options": [{"storage_options": None}, {"storage_options": {}}, {"storage_options": {"anon": True}},
                                {"storage_options": {"anon": False}}],
            "zarr_compressor": [{}, {"zarr_compressor": None}, {"zarr_compressor": "auto"},
                                {"zarr_compressor": {"name": "zstd", "configuration": {"level": 1}}}],
        }
        self.reps = {f: [] for f in FIELDS}

    def code(self, f, v):
        if f in ("allowed_mem", "reserved_mem"):
            return int(v)
        for i, r in enumerate(self.reps[f]):
            try:
                if bool(r == v) and bool(v == r):
                    return i
            except Exception:
                pass
        self.reps[f].append(v)
        return len(self.reps[f]) - 1

    def make(self, choice):
        import cubed
        kw = {}
        for f in FIELDS:
            kw.update(self.kw[f][choice[f]])
        return cubed.Spec(**kw)

    def codes(self, spec):
        return [self.code(f, getattr(spec, f)) for f in FIELDS]

    def describe(self, choice):
        kw = {}
        for f in FIELDS:
            kw.update(self.kw[f][choice[f]])
        return {k: (v if isinstance(v, (int, float, str, type(None), dict)) else repr(v)) for k, v in kw.items()}


def spec_pairs(ctx, pools, n):
    rng = ctx.rng
    for _ in range(n):
        base = {f: rng.randrange(len(pools.kw[f])) for f in FIELDS}
        r = rng.random()
        other = dict(base)
        if r < 0.65:
            f = rng.choice(FIELDS)
            other[f] = rng.randrange(len(pools.kw[f]))
            label = "one:" + f
        elif r < 0.8:
            label = "same"
        else:
            for f in rng.sample(FIELDS, rng.randint(2, 4)):
                other[f] = rng.randrange(len(pools.kw[f]))
            label = "several"
        yield base, other, label


def corr_speceq(ctx, pools):
    reqs, impl, meta = [], [], []
    for base, other, label in spec_pairs(ctx, pools, ctx.budget(400, 4000)):
        a, b = pools.make(base), pools.make(other)
        ca, cb = pools.codes(a), pools.codes(b)
        reqs.append("speceq|%s|%s" % (",".join(map(str, ca)), ",".join(map(str, cb))))
        try:
            impl.append("true" if (a == b) else "false")
        except Exception as e:
            impl.append("raised " + type(e).__name__)
        ndiff = sum(x != y for x, y in zip(ca, cb))
        meta.append(({"a": pools.describe(base), "b": pools.describe(other), "differs_in": [f for f, x, y in zip(FIELDS, ca, cb) if x != y]}, label, ndiff))
    _reqs = reqs

    def finish(ans):
        for rq, e, a, (case, label, ndiff) in zip(reqs, impl, ans, meta):
            ctx.count({"speceq": rq, "impl": e}, nontrivial=ndiff == 1, kind="speceq:%s:%s" % (label.split(":")[0], e))
            if e != a:
                ctx.disagree("specEq = Spec.__eq__", dict(case, request=rq), a, e)
        # Spec == non-Spec is False
        import cubed
        s = cubed.Spec()
        for other in (None, 1, "x", object()):
            if (s == other) is not False:
                ctx.disagree("Spec.__eq__(non-Spec) = False", {"other": repr(other)}, "false", repr(s == other))
    return _reqs, finish


class _NoSpec:
    name = "nospec"


class _Arr:
    def __init__(self, spec):
        self.spec = spec


def corr_check(ctx, pools):
    from cubed.core.array import check_array_specs
    rng = ctx.rng
    reqs, impl, descs = [], [], []
    for _ in range(ctx.budget(300, 3000)):
        k = rng.choice([0, 1, 1, 2, 2, 2, 3, 3, 4, 5])
        base = {f: rng.randrange(len(pools.kw[f])) for f in FIELDS}
        specs = []
        for _ in range(k):
            r = rng.random()
            if r < 0.12:
                specs.append(None)
                continue
            ch = dict(base)
            if r < 0.4:
                f = rng.choice(FIELDS)
                ch[f] = rng.randrange(len(pools.kw[f]))
            specs.append(pools.make(ch))
        arrays = [_NoSpec() if s is None else _Arr(s) for s in specs]
        codes = [None if s is None else pools.codes(s) for s in specs]
        reqs.append("check|" + ";".join("-" if c is None else ",".join(map(str, c)) for c in codes))
        try:
            r = check_array_specs(arrays)
            impl.append("ok " + ",".join(map(str, pools.codes(r))))
        except ValueError as e:
            impl.append("error mismatch" if SPEC_MSG in str(e) else "error other:" + str(e)[:40])
        except IndexError:
            impl.append("error index")
        except AttributeError:
            impl.append("error attribute")
        except Exception as e:
            impl.append("error other:" + type(e).__name__)
        descs.append(len([c for c in codes if c is not None]))
    _reqs = reqs

    def finish(ans):
        for rq, e, a, nspec in zip(reqs, impl, ans, descs):
            ctx.count({"check": rq, "impl": e}, nontrivial=nspec >= 2, kind="check:" + " ".join(e.split(" ")[:2]) if e.startswith("error") else "check:ok")
            if e != a:
                ctx.disagree("checkArraySpecs = check_array_specs", {"request": rq}, a, e)
    return _reqs, finish


# ------------------------------------------------------------------------------------------------
# API sweep
# ------------------------------------------------------------------------------------------------

def _np_role(role):
    import numpy as np
    return {
        "f": (np.arange(4, dtype="float64") + 1.0, 2),
        "i": (np.arange(4, dtype="int64") + 1, 2),
        "b": (np.array([True, False, True, True]), 2),
        "m": (np.arange(16, dtype="float64").reshape(4, 4) + 1.0, (2, 2)),
        "x": (np.array([0, 2, 1, 3], dtype="int64"), 2),          # index array
        "s": (np.array([1.0, 2.0, 3.0, 4.0]), 2),                    # sorted
        "g": (np.array([0, 1, 0, 1], dtype="int64"), 2),            # group labels
        "M": (np.arange(16, dtype="float64").reshape(4, 4) + 1.0, (2, 4)),
    }[role]


def mk(role, spec):
    import cubed.array_api as xp
    a, ch = _np_role(role)
    return xp.asarray(a, chunks=ch, spec=spec)


def _dummy(*a, **k):
    return a[0]


def call_table(tmp):
    """[(name, function object (for signature / parameter names), roles, call)]"""
    import numpy as np

    import cubed
    import cubed.array_api as xp
    from cubed.array_api import linalg
    from cubed.core import groupby as cg
    from cubed.core import ops as co
    from cubed.core import plan as cp
    counter = [0]

    def path():
        counter[0] += 1
        return os.path.join(tmp, "out%d.zarr" % counter[0])

    T = []
    # binary element-wise functions and two-array linear algebra, by introspection
    for modname, mod in (("xp", xp), ("linalg", linalg)):
        for n in sorted(dir(mod)):
            f = getattr(mod, n)
            if not inspect.isfunction(f) or n.startswith("_"):
                continue
            try:
                ps = list(inspect.signature(f).parameters.values())
            except (TypeError, ValueError):
                continue
            pos = [p.name for p in ps if p.kind in (p.POSITIONAL_ONLY, p.POSITIONAL_OR_KEYWORD) and p.default is p.empty]
            if pos == ["x1", "x2"] and n not in ("searchsorted",):
                roles = ["mm"] if n in ("matmul", "tensordot") else ["ff", "ii", "bb"]
                T.append(("%s.%s" % (modname, n), f, tuple(roles), lambda a, b, f=f: f(a, b)))
    # operators of the Array class
    for n in sorted(dir(xp.asarray(1).__class__)):
        if n.startswith("__") and n.endswith("__"):
            f = getattr(cubed.Array, n, None)
            if not inspect.isfunction(f):
                continue
            ps = list(inspect.signature(f).parameters)
            if ps == ["self", "other"] and n not in ("__eq__", "__ne__") or n in ("__eq__", "__ne__"):
                roles = ["mm"] if "matmul" in n else ["ff", "ii", "bb"]
                T.append(("Array." + n, f, tuple(roles), lambda a, b, n=n: getattr(a, n)(b)))
    T += [
        ("Array.__getitem__", cubed.Array.__getitem__, ["fx"], lambda a, b: a[b]),
        ("xp.where", xp.where, ["bff"], lambda c, x, y: xp.where(c, x, y)),
        ("xp.clip", xp.clip, ["fff"], lambda x, lo, hi: xp.clip(x, lo, hi)),
        ("xp.clip[min]", xp.clip, ["ff"], lambda x, lo: xp.clip(x, min=lo)),
        ("xp.clip[max]", xp.clip, ["ff"], lambda x, hi: xp.clip(x, max=hi)),
        ("xp.concat", xp.concat, ["ff", "fff"], lambda *a: xp.concat(list(a))),
        ("xp.concat[axis=None]", xp.concat, ["ff"], lambda *a: xp.concat(list(a), axis=None)),
        ("xp.stack", xp.stack, ["ff", "fff"], lambda *a: xp.stack(list(a))),
        ("xp.searchsorted", xp.searchsorted, ["sf"], lambda a, b: xp.searchsorted(a, b)),
        ("xp.isin", xp.isin, ["ff"], lambda a, b: xp.isin(a, b)),
        ("xp.take", xp.take, ["fx"], lambda a, b: xp.take(a, b, axis=0)),
        ("xp.broadcast_arrays", xp.broadcast_arrays, ["ff", "fm", "fff"], lambda *a: xp.broadcast_arrays(*a)),
        ("xp.meshgrid", xp.meshgrid, ["ff", "fff"], lambda *a: xp.meshgrid(*a)),
        ("xp.diff[prepend]", xp.diff, ["ff"], lambda a, b: xp.diff(a, prepend=b)),
        ("xp.diff[append]", xp.diff, ["ff"], lambda a, b: xp.diff(a, append=b)),
        ("xp.diff[both]", xp.diff, ["fff"], lambda a, b, c: xp.diff(a, prepend=b, append=c)),
        ("xp.vecdot", xp.vecdot, ["ff", "mm"], lambda a, b: xp.vecdot(a, b)),
        ("cubed.map_blocks", cubed.map_blocks, ["ff", "fff"], lambda *a: cubed.map_blocks(_dummy, *a, dtype=a[0].dtype)),
        ("cubed.apply_gufunc", cubed.apply_gufunc, ["ff"],
         lambda a, b: cubed.apply_gufunc(_dummy, "(),()->()", a, b, output_dtypes=a.dtype)),
        ("cubed.map_overlap", cubed.map_overlap, ["ff"],
         lambda a, b: cubed.map_overlap(_dummy, a, b, dtype=a.dtype, chunks=a.chunks, depth=1, boundary=0)),
        ("cubed.compute", cubed.compute, ["ff", "fff"], lambda *a: cubed.compute(*a)),
        ("cubed.plan", cubed.plan, ["ff"], lambda *a: cubed.plan(*a)),
        ("cubed.visualize", cubed.visualize, ["ff"], lambda *a: cubed.visualize(*a, filename=os.path.join(tmp, "viz"), format="dot")),
        ("cubed.store", cubed.store, ["ff", "fff"], lambda *a: cubed.store(list(a), [path() for _ in a])),
        ("cubed.store[compute=False]", cubed.store, ["ff"], lambda *a: cubed.store(list(a), [path() for _ in a], compute=False)),
        ("plan.arrays_to_plan", cp.arrays_to_plan, ["ff"], lambda *a: cp.arrays_to_plan(*a)),
        ("plan.arrays_to_dag", cp.arrays_to_dag, ["ff"], lambda *a: cp.arrays_to_dag(*a)),
        ("ops.elemwise", co.elemwise, ["ff", "fff"], lambda *a: co.elemwise(np.add, *a, dtype=a[0].dtype)),
        ("ops.blockwise", co.blockwise, ["ff"], lambda a, b: co.blockwise(np.add, "i", a, "i", b, "i", dtype=a.dtype)),
        ("ops.general_blockwise", co.general_blockwise, ["ff"],
         lambda a, b: co.general_blockwise(np.add, lambda k: None, a, b, shapes=[a.shape], dtypes=[a.dtype], chunkss=[a.chunks])),
        ("ops.unify_chunks", co.unify_chunks, ["ff"], lambda a, b: co.unify_chunks(a, "i", b, "i")[1]),
        ("groupby.groupby_reduction", cg.groupby_reduction, ["Mg"],
         lambda a, b: cg.groupby_reduction(a, b, func=_dummy, combine_func=_dummy, aggregate_func=_dummy, axis=0,
                                           intermediate_dtype=a.dtype, dtype=a.dtype, num_groups=2)),
    ]
    try:
        import icechunk  # noqa: F401

        from cubed.icechunk import store_icechunk  # noqa: F401
    except Exception:
        pass
    return T


def one_field_variants(pools):
    """base spec kwargs and, per field, kwargs of a spec differing from base in exactly that field."""
    from zarr.storage import LocalStore

    from cubed.runtime.executors.local import SingleThreadedExecutor, ThreadsExecutor
    tmp = pools.tmp
    base = dict(work_dir=os.path.join(tmp, "w1"), allowed_mem="200MB", reserved_mem="1MB")
    var = {
        "allowed_mem": dict(base, allowed_mem="100MB"),
        "reserved_mem": dict(base, reserved_mem=0),
        "work_dir": dict(base, work_dir=os.path.join(tmp, "w2")),
        "executor": dict(base, executor=ThreadsExecutor()),
        "executor_name": dict(base, executor_name="single-threaded"),
        "storage_options": dict(base, storage_options={"anon": True}),
        "zarr_compressor": dict(base, zarr_compressor=None),
        "intermediate_store": dict(base, intermediate_store=LocalStore(os.path.join(tmp, "s1"))),
    }
    _ = SingleThreadedExecutor
    return base, var


def flatten_arrays(r):
    from cubed.core.array import CoreArray
    out = []

    def go(v, depth=0):
        if isinstance(v, CoreArray):
            out.append(v)
        elif isinstance(v, (tuple, list)) and depth < 3:
            for x in v:
                go(x, depth + 1)
        elif hasattr(v, "dag") and hasattr(v.dag, "nodes"):
            out.append(v)   # a Plan / FinalizedPlan
        elif hasattr(v, "nodes") and callable(getattr(v, "nodes", None)):
            out.append(v)   # a bare dag
    go(r)
    return out


def dag_nodes(v):
    if hasattr(v, "_plan"):
        return set(v._plan.dag.nodes)
    if hasattr(v, "dag"):
        return set(v.dag.nodes)
    return set(v.nodes)


INDEX_HINTS = ("ind", "key", "idx")


class EagerTrace:
    """Record arrays computed while a function builds its result (harness-process monkey patch of cubed.core.array.compute)."""

    def __enter__(self):
        import cubed.core.array as ca
        self.ca = ca
        self.orig = ca.compute
        self.computed = []

        def wrapper(*arrays, **kw):
            self.computed.extend(arrays)
            return self.orig(*arrays, **kw)
        ca.compute = wrapper
        return self

    def __exit__(self, *exc):
        self.ca.compute = self.orig
        return False


def param_of(fobj, call_args, target):
    """Name of the parameter of `fobj` that received `target` (best effort, by position in the table's call)."""
    try:
        ps = [p for p in inspect.signature(fobj).parameters.values()]
    except (TypeError, ValueError):
        return "?"
    names = [p.name for p in ps if p.kind in (p.POSITIONAL_ONLY, p.POSITIONAL_OR_KEYWORD, p.VAR_POSITIONAL)]
    i = next(k for k, x in enumerate(call_args) if x is target)   # Array.__eq__ is element-wise
    if i < len(names):
        return names[i]
    return names[-1] if names else "?"


def sweep_case(ctx, name, fobj, call, roles, specs, odd, field, desc, top_level=False):
    """Run one entry point with arrays of the given specs; return 'rejected' / 'accepted-ok' / None (not callable)."""
    try:
        arrs = [mk(r, s) for r, s in zip(roles, specs)]
    except Exception as e:
        ctx.notes.append("sweep: cannot build arguments for %s: %r" % (name, e))
        return None
    case = {"function": name, "roles": roles, "differs_in": field, "odd_argument": odd, "specs": desc}
    with EagerTrace() as tr:
        try:
            res = call(*arrs)
            exc = None
        except Exception as e:
            res, exc = None, e
    if exc is not None:
        if isinstance(exc, ValueError) and SPEC_MSG in str(exc):
            return "rejected"
        if isinstance(exc, TypeError) and "dtypes are allowed" in str(exc) or isinstance(exc, TypeError) and "promoted" in str(exc):
            return None   # wrong dtype for this function: try the next role set
        return ("raised", exc)
    if field is None:
        return ("accepted", res, arrs)
    # accepted although the specs differ: allowed only if no returned array's plan contains both inputs ...
    odd_arr = arrs[odd]
    others = [a for i, a in enumerate(arrs) if i != odd]
    outs = flatten_arrays(res)
    if name in ("cubed.compute", "cubed.store", "cubed.visualize") or (not outs and top_level):
        ctx.fail("%s accepted arrays whose specs differ in %s" % (name, field), case)
        return "accepted-bad"
    for o in outs:
        nodes = dag_nodes(o)
        if odd_arr.name in nodes and any(x.name in nodes for x in others):
            ctx.fail("%s combined arrays whose specs differ in %s into one plan" % (name, field), case)
            return "accepted-bad"
    # ... and the only arguments evaluated eagerly are index arguments
    for c in tr.computed:
        nodes = dag_nodes(c) if hasattr(c, "_plan") else set()
        for i, a in enumerate(arrs):
            if a.name in nodes:
                p = param_of(fobj, arrs, a)
                if not any(h in p.lower() for h in INDEX_HINTS):
                    ctx.fail("%s evaluated its argument %r eagerly and used it under another spec (specs differ in %s)" % (name, p, field), case)
                    return "accepted-bad"
    return "accepted-ok"


def check_budget(ctx, name, res, spec, want_allowed, want_reserved, case):
    """(c) every op of the finalized plan(s) of the accepted result carries the spec's memory settings."""
    from cubed.core.array import CoreArray
    outs = [o for o in flatten_arrays(res) if isinstance(o, CoreArray) or hasattr(o, "exceeds_memory")]
    n = 0
    for o in outs:
        for opt in (True, False):
            try:
                fp = o if hasattr(o, "exceeds_memory") else o.plan(optimize_graph=opt)
            except Exception as e:
                ctx.fail("%s: plan() of an accepted result raised %r" % (name, e), case)
                continue
            exceeding = set()
            for node, d in fp.dag.nodes(data=True):
                op = d.get("primitive_op")
                if op is None:
                    continue
                n += 1
                if op.allowed_mem != want_allowed or op.reserved_mem != want_reserved:
                    ctx.fail("%s: op %s of the finalized plan has allowed_mem=%r reserved_mem=%r, the arrays' spec says %r / %r"
                             % (name, node, op.allowed_mem, op.reserved_mem, want_allowed, want_reserved), dict(case, optimize_graph=opt))
                    return n
                if op.projected_mem > want_allowed:
                    exceeding.add(node)
            if bool(fp.exceeds_memory) != bool(exceeding):
                ctx.fail("%s: admission says exceeds_memory=%r but with the spec's budget %d ops exceed" % (name, fp.exceeds_memory, len(exceeding)),
                         dict(case, optimize_graph=opt))
    ctx.traces += n
    return n


def oracle_sweep(ctx, pools, full=False):
    import cubed
    base_kw, variants = one_field_variants(pools)
    table = call_table(pools.tmp)
    fields = list(variants)
    exercised = set()
    for name, fobj, role_sets, call in table:
        usable = None
        for roles in role_sets:
            # 1. equal specs must be accepted (validates the table entry) and (c) the plan carries the spec's budget
            s = cubed.Spec(**base_kw)
            r = sweep_case(ctx, name, fobj, call, roles, [s] * len(roles), None, None, None)
            if r is None:
                continue
            if isinstance(r, tuple) and r[0] == "raised":
                if usable is None and roles == role_sets[-1]:
                    ctx.notes.append("sweep: %s raised %r with equal specs (entry skipped)" % (name, r[1]))
                continue
            usable = roles
            _, res, arrs = r
            ctx.count({"sweep": name, "roles": roles, "specs": "equal"}, nontrivial=False, kind="sweep:equal-accepted")
            check_budget(ctx, name, res, s, 200_000_000, 1_000_000, {"function": name, "roles": roles, "spec": {k: str(v) for k, v in base_kw.items()}})
            # 2. one-field differences, the odd spec at every position
            flds = fields if (full or ctx.tier == "thorough" or len(roles) <= 2) else ctx.rng.sample(fields, 4)
            for f in flds:
                for odd in range(len(roles)):
                    sa, sb = cubed.Spec(**base_kw), cubed.Spec(**variants[f])
                    specs = [sb if i == odd else sa for i in range(len(roles))]
                    desc = {"others": {k: str(v) for k, v in base_kw.items()}, "odd": {k: str(v) for k, v in variants[f].items()}}
                    out = sweep_case(ctx, name, fobj, call, roles, specs, odd, f, desc, top_level=True)
                    kind = out if isinstance(out, str) else "raised-other"
                    ctx.count({"sweep": name, "roles": roles, "differs_in": f, "odd": odd}, nontrivial=True, kind="sweep:" + str(kind))
                    if isinstance(out, tuple):
                        ctx.fail("%s with specs differing in %s raised %r instead of rejecting with %r" % (name, f, out[1], SPEC_MSG),
                                 {"function": name, "roles": roles, "differs_in": f, "odd_argument": odd, "specs": desc})
                    exercised.add(name)
            # default spec from config vs explicit spec
            s1 = cubed.Spec(**base_kw)
            for odd in range(len(roles)):
                specs = [None if i == odd else s1 for i in range(len(roles))]
                out = sweep_case(ctx, name, fobj, call, roles, specs, odd, "config-default-vs-explicit",
                                 {"others": {k: str(v) for k, v in base_kw.items()}, "odd": "spec=None (from config)"}, top_level=True)
                ctx.count({"sweep": name, "roles": roles, "differs_in": "default", "odd": odd}, nontrivial=True,
                          kind="sweep:" + (out if isinstance(out, str) else "raised-other"))
                if isinstance(out, tuple):
                    ctx.fail("%s with default vs explicit spec raised %r" % (name, out[1]), {"function": name, "roles": roles, "odd_argument": odd})
            if isinstance(role_sets, tuple):
                break   # alternatives: the first usable role set is enough
        if usable is None:
            ctx.notes.append("sweep: no usable argument roles for %s" % name)
    ctx.extra["sweep_entry_points"] = len(table)
    ctx.extra["sweep_exercised"] = len(exercised)
    generic_sweep(ctx, pools, {t[0].split("[")[0].split(".")[-1] for t in table}, base_kw, variants)


def generic_sweep(ctx, pools, known, base_kw, variants):
    """Public functions that are not in the call table: try f(a, b) generically, so that a new multi-array function
    that forgets the check is still exercised."""
    import cubed
    import cubed.array_api as xp
    from cubed.array_api import linalg
    from cubed.core import ops as co
    tried = 0
    for modname, mod in (("cubed", cubed), ("xp", xp), ("linalg", linalg), ("ops", co)):
        for n in sorted(dir(mod)):
            f = getattr(mod, n)
            if n.startswith("_") or not inspect.isfunction(f) or n in known or not (f.__module__ or "").startswith("cubed"):
                continue
            try:
                ps = list(inspect.signature(f).parameters.values())
            except (TypeError, ValueError):
                continue
            npos = sum(1 for p in ps if p.kind in (p.POSITIONAL_ONLY, p.POSITIONAL_OR_KEYWORD) and p.default is p.empty)
            var = any(p.kind == p.VAR_POSITIONAL for p in ps)
            if npos < 2 and not var:
                continue
            for roles in ("ff", "mm", "ii"):
                sa, sb = cubed.Spec(**base_kw), cubed.Spec(**variants["allowed_mem"])
                try:
                    a, b = mk(roles[0], sa), mk(roles[1], sb)
                    res = f(a, b)
                except Exception:
                    continue
                tried += 1
                for o in flatten_arrays(res):
                    nodes = dag_nodes(o)
                    if a.name in nodes and b.name in nodes:
                        ctx.fail("%s.%s combined arrays whose specs differ in allowed_mem into one plan" % (modname, n),
                                 {"function": "%s.%s" % (modname, n), "call": "f(a, b)", "roles": roles, "differs_in": "allowed_mem"})
                ctx.count({"generic": "%s.%s" % (modname, n), "roles": roles}, nontrivial=True, kind="sweep:generic")
                break
    ctx.extra["sweep_generic_calls"] = tried


def oracle_budget(ctx, pools):
    """(c) admission uses the spec's budget: the same expression is admitted under a large budget and refused under a
    small one given as a string, and the ops carry exactly the value the string denotes."""
    import cubed
    import cubed.array_api as xp
    rng = ctx.rng
    for _ in range(ctx.budget(12, 80)):
        lit, want = rng.choice([("100MB", 10 ** 8), ("0.1GB", 10 ** 8), ("1e8", 10 ** 8), (" 2 GB", 2 * 10 ** 9), ("250_000kB", 25 * 10 ** 7),
                                (3 * 10 ** 8, 3 * 10 ** 8), (5e8, 5 * 10 ** 8), ("40MB", 4 * 10 ** 7), ("12.5MB", 125 * 10 ** 5)])
        rlit, rwant = rng.choice([(0, 0), ("1MB", 10 ** 6), ("500kB", 5 * 10 ** 5), (None, 0), ("2e6", 2 * 10 ** 6)])
        side = rng.choice([500, 1000, 1500])
        case = {"allowed_mem": lit, "reserved_mem": rlit, "expr": "add(ones((%d,%d)), ones) ; matmul" % (side, side)}
        try:
            spec = cubed.Spec(work_dir=os.path.join(pools.tmp, "w1"), allowed_mem=lit, reserved_mem=rlit)
        except ValueError:
            ctx.count(dict(case, spec="rejected"), nontrivial=True, kind="budget:spec-rejected")   # "or rejected" is allowed
            continue
        if spec.allowed_mem != want or spec.reserved_mem != rwant:
            ctx.fail("Spec(allowed_mem=%r, reserved_mem=%r) stores %r / %r, the literals denote %r / %r"
                     % (lit, rlit, spec.allowed_mem, spec.reserved_mem, want, rwant), case)
            continue
        try:
            a = xp.ones((side, side), chunks=(side, side), spec=spec)
            b = xp.ones((side, side), chunks=(side, side), spec=spec)
            c = xp.add(a, b)
            d = xp.matmul(c, b) if rng.random() < 0.5 else xp.sum(c, axis=0)
        except Exception as e:
            ctx.count(dict(case, build_raised=type(e).__name__), nontrivial=True, kind="budget:build-raised")
            continue
        n = check_budget(ctx, "budget-probe", d, spec, want, rwant, case)
        ctx.count(dict(case, ops=n), nontrivial=True, kind="budget:checked")


# ------------------------------------------------------------------------------------------------
# history independence: the verdict on (specA, specB) depends only on the specs' values
# ------------------------------------------------------------------------------------------------

def _history_session(op_name, op, field, base_kw, other_kw, freed_first, max_alloc=20000):
    """One session in this process:  (1) two distinct-but-equal Spec objects are combined (accepted);  (2) one of them and
    every array referencing it is freed;  (3) Specs that differ in `field` are allocated until one lands on the freed
    address;  (4) an array under it is combined with an array under the surviving spec -> must raise.
    Objects live in a dict, not in locals (cubed snapshots callers' frame locals for array naming).
    Returns ('ok'|'no-reuse'|'bad-setup', detail) or ('accepted', detail)."""
    import gc

    import cubed
    import cubed.array_api as xp
    st = {}
    st["sa"] = cubed.Spec(**base_kw)
    st["sb"] = cubed.Spec(**base_kw)
    if st["sa"] is st["sb"] or not (st["sa"] == st["sb"]):
        return "bad-setup", "equal kwargs do not give equal distinct specs"
    mkarr = lambda sp: xp.ones((4, 4), chunks=(2, 2), spec=sp)   # noqa: E731
    st["a"], st["b"] = mkarr(st["sa"]), mkarr(st["sb"])
    try:
        st["c"] = op(st["b"], st["a"]) if freed_first else op(st["a"], st["b"])
    except Exception as e:
        return "bad-setup", "equal specs rejected: %r" % (e,)
    old_id = id(st["sb"])
    del st["b"], st["c"], st["sb"]
    gc.collect()
    st["keep"] = []
    for n in range(max_alloc):
        st["sc"] = cubed.Spec(**other_kw)
        if id(st["sc"]) == old_id:
            break
        st["keep"].append(st.pop("sc"))
    else:
        return "no-reuse", None
    del st["keep"]
    if st["sc"] == st["sa"]:
        return "bad-setup", "specs meant to differ in %s are equal" % field
    st["b2"] = mkarr(st["sc"])
    try:
        st["d"] = op(st["b2"], st["a"]) if freed_first else op(st["a"], st["b2"])
    except ValueError as e:
        if SPEC_MSG in str(e):
            return "ok", n
        return "accepted", "raised another ValueError: %s" % str(e)[:80]
    except Exception as e:
        return "accepted", "raised %r instead of the spec ValueError" % (e,)
    d = st["d"]
    under = getattr(getattr(d, "spec", None), field if field != "executor_name" else "executor", None)
    return "accepted", "accepted; allocations until address reuse: %d; result spec.%s = %r" % (n, field, under)


def oracle_history(ctx, pools, seconds=6.0):
    import time

    import cubed
    import cubed.array_api as xp
    from cubed.core.array import check_array_specs
    w1 = os.path.join(pools.tmp, "w1")
    base = dict(work_dir=w1, allowed_mem=100_000, reserved_mem=1_000)
    variants = {
        "allowed_mem": dict(base, allowed_mem=200_000),
        "reserved_mem": dict(base, reserved_mem=2_000),
        "work_dir": dict(base, work_dir=os.path.join(pools.tmp, "w2")),
        "executor_name": dict(base, executor_name="single-threaded"),
    }
    ops = [("add", xp.add), ("concat", lambda x, y: xp.concat([x, y])), ("stack", lambda x, y: xp.stack([x, y])),
           ("matmul", xp.matmul), ("plan", lambda x, y: cubed.plan(x, y)),
           ("check_array_specs", lambda x, y: check_array_specs([x, y]))]
    combos = [(f, o, ff) for f in variants for o in ops for ff in (False, True)]
    ctx.rng.shuffle(combos)
    # every field and every op at least once early on
    t0 = time.time()
    reused = 0
    for i, (field, (op_name, op), freed_first) in enumerate(combos):
        if time.time() - t0 > seconds and i >= 8:
            break
        out, detail = _history_session(op_name, op, field, base, variants[field], freed_first)
        case = {"session": ["specA = Spec(%s); specB = Spec(same kwargs)  (distinct objects)" % base,
                            "%s(%s) with arrays ones((4,4), chunks=(2,2)) under specA / specB  -> accepted" % (op_name, "b, a" if freed_first else "a, b"),
                            "del specB and every array under it; gc.collect()",
                            "allocate Spec(%s) until id() equals the freed spec's id" % {k: v for k, v in variants[field].items() if base.get(k) != v},
                            "%s(%s) with the new array under that spec -> must raise ValueError(%r)" % (op_name, "b2, a" if freed_first else "a, b2", SPEC_MSG)],
                "differs_in": field, "op": op_name, "freed_spec_is_first_argument": freed_first}
        ctx.count({"history": op_name, "field": field, "freed_first": freed_first, "outcome": out}, nontrivial=out in ("ok", "accepted"),
                  kind="history:" + out)
        if out in ("ok", "accepted"):
            reused += 1
        if out == "accepted":
            ctx.fail("history dependence: %s of arrays whose specs differ in %s is accepted after an equal pair was combined and one "
                     "spec's address was reused (%s)" % (op_name, field, detail), case)
        elif out == "bad-setup":
            ctx.notes.append("history oracle: %s/%s: %s" % (op_name, field, detail))
    ctx.extra["history_sessions_with_address_reuse"] = reused
    if reused == 0:
        ctx.notes.append("history oracle: no Spec address was reused in %d sessions (nothing checked)" % (i + 1))


# ------------------------------------------------------------------------------------------------
# direct oracle on literals
# ------------------------------------------------------------------------------------------------

def oracle_literals(ctx):
    import math

    import cubed
    from cubed.utils import convert_to_bytes

    lits = literal_sample(ctx, ctx.budget(2500, 25000)) + NONASCII + ["١e١٠٠١", "１e１０００", "1e١٠٠٠"]
    for e in (60, 120, 400, -60, -400, 999, 1000, 1001, -1000, -1001, 2000):
        lits += ["1e%d" % e, "12345e%dkB" % e, "1.%se%d" % ("0" * 30 + "1", e)]
    # exponents with >= 5 digits: the call must return promptly (child process, 5 s per call)
    big = big_sample(ctx, ctx.budget(150, 1200)) + ["١e٩٩٩٩٩٩٩٩٩", "1e" + "９" * 12]
    for s, out in zip(big, guarded_outcomes(big)):
        if out == "skipped":
            continue
        ctx.count({"oracle_literal": s, "impl": out[:40]}, nontrivial=True, kind="oracle-big:" + " ".join(out.split(" ")[:2])[:24])
        if out in ("timeout", "crashed"):
            ctx.fail("convert_to_bytes(%r) did not return within 5 s (%s): neither interpreted nor rejected" % (s, out), {"literal": s, "outcome": out})
        elif out.startswith("ok"):
            v = exact_value(s)
            if not (out.startswith("ok ") and v is not None and v != HUGE and v == int(out[3:])):
                ctx.fail("convert_to_bytes(%r) returned %s, the string denotes %s" % (s, out[:60], "nothing" if v is None else str(v)[:60]),
                         {"literal": s, "returned": out[:80]})
        elif out.startswith("error other"):
            ctx.fail("convert_to_bytes(%r) raised %s (neither a value nor a ValueError)" % (s, out), {"literal": s})
    for s in lits:
        try:
            r = convert_to_bytes(s)
        except (ValueError, IndexError):
            ctx.count({"oracle_literal": s, "impl": "rejected"}, nontrivial=literal_nontrivial(s), kind="oracle-lit:rejected")
            continue
        except Exception as e:
            ctx.fail("convert_to_bytes(%r) raised %r (neither a value nor a ValueError)" % (s, e), {"literal": s})
            continue
        v = exact_value(s)
        ctx.count({"oracle_literal": s, "impl": str(r)[:60]}, nontrivial=literal_nontrivial(s), kind="oracle-lit:accepted")
        if type(r) is not int or v is None or v == HUGE or v != r or r < 0:
            ctx.fail("convert_to_bytes(%r) returned %s, the string denotes %s" % (s, _short(r), "nothing" if v is None else _short(v)),
                     {"literal": s, "returned": _short(r, 400), "exact": None if v is None else _short(v, 400)})
            continue
        if ctx.rng.random() < 0.2:
            sp = cubed.Spec(allowed_mem=s, reserved_mem=s)
            if sp.allowed_mem != r or sp.reserved_mem != r:
                ctx.fail("Spec(allowed_mem=%r).allowed_mem is %r, the literal denotes %d" % (s, sp.allowed_mem, r), {"literal": s})
    for x in gen_numbers(ctx.rng, ctx.budget(300, 3000)):
        try:
            r = convert_to_bytes(x)
        except ValueError:
            ctx.count({"oracle_number": repr(x), "impl": "rejected"}, nontrivial=True, kind="oracle-num:rejected")
            continue
        except Exception as e:
            ctx.fail("convert_to_bytes(%r) raised %r" % (x, e), {"number": repr(x)})
            continue
        ctx.count({"oracle_number": repr(x), "impl": str(r)}, nontrivial=True, kind="oracle-num:accepted")
        ok = isinstance(r, int) and r >= 0 and (not isinstance(x, float) or not (math.isinf(x) or math.isnan(x))) and Fraction(x) == r
        if not ok:
            ctx.fail("convert_to_bytes(%r) returned %r" % (x, r), {"number": repr(x), "returned": repr(r)})


# ------------------------------------------------------------------------------------------------

class _Tmp:
    def __enter__(self):
        self.d = tempfile.mkdtemp(prefix="c18-")
        return self.d

    def __exit__(self, *exc):
        shutil.rmtree(self.d, ignore_errors=True)
        return False


def corr(ctx):
    """All parts prepare their requests first; one driver run answers them; then every part compares."""
    with _Tmp() as tmp:
        pools = Pools(tmp)
        parts = [corr_literals_a(ctx), corr_literals_b(ctx), corr_numbers(ctx), corr_meminit(ctx),
                 corr_speceq(ctx, pools), corr_check(ctx, pools)]
        flat = [r for reqs, _ in parts for r in reqs]
        ans = ctx.lean.drive(DRIVER, flat)
        i = 0
        for reqs, finish in parts:
            finish(ans[i:i + len(reqs)])
            i += len(reqs)


def _guard(ctx, what, fn, *a, **kw):
    """An oracle part must not take the failures found so far down with it."""
    try:
        fn(*a, **kw)
    except Exception as e:   # noqa: BLE001
        import traceback
        ctx.fail("oracle part %s crashed: %r" % (what, e), {"part": what, "traceback": traceback.format_exc()[-1500:]})


def oracle(ctx):
    _guard(ctx, "literals", oracle_literals, ctx)
    with _Tmp() as tmp:
        pools = Pools(tmp)
        _guard(ctx, "history", oracle_history, ctx, pools)
        _guard(ctx, "sweep", oracle_sweep, ctx, pools)
        _guard(ctx, "budget", oracle_budget, ctx, pools)


def search(ctx):
    """A proof obligation or a correspondence no longer checks: look harder for a concrete failing input."""
    ctx.rng.seed(ctx.seed + 7919)
    tier = ctx.tier
    ctx.tier = "thorough"
    try:
        _guard(ctx, "literals", oracle_literals, ctx)
        with _Tmp() as tmp:
            pools = Pools(tmp)
            _guard(ctx, "history", oracle_history, ctx, pools, seconds=20.0)
            _guard(ctx, "sweep", oracle_sweep, ctx, pools, full=True)
            _guard(ctx, "budget", oracle_budget, ctx, pools)
            # disagreeing spec pairs lifted to an end-to-end case: add(a, b) must reject what the model calls unequal
            import cubed
            import cubed.array_api as xp
            for base, other, label in spec_pairs(ctx, pools, 300):
                a, b = pools.make(base), pools.make(other)
                if pools.codes(a) != pools.codes(b):
                    try:
                        xp.add(xp.asarray([1.0, 2.0], chunks=1, spec=a), xp.asarray([1.0, 2.0], chunks=1, spec=b))
                    except ValueError as e:
                        if SPEC_MSG in str(e):
                            continue
                    except Exception:
                        continue
                    ctx.fail("add(a, b) accepted arrays whose specs differ in %s" % [f for f, x, y in zip(FIELDS, pools.codes(a), pools.codes(b)) if x != y],
                             {"a": pools.describe(base), "b": pools.describe(other)})
            _ = cubed
    finally:
        ctx.tier = tier
