"""C13 — Plan task counts match execution; callbacks see each event exactly once in order.

corr   : Lean model (drivers/C07.lean, Model/Sched.lean) vs the real code
           * the callback event list of REAL computations on {single-threaded, threads, processes} x optimize_graph x
             compute_arrays_in_parallel x batch_size is accepted by `accepts` for the model's schedule with
             n = the *advertised* num_tasks of each op (theorem C13_accepts_sound: then it is in the language of
             C13_events_in_language); perturbed lists (end before last task end, missing task end, doubled start) rejected;
           * `ChunkKeys.__iter__`, `math.prod(len(c) …)`, `ChunkKeys.range(start, stop)` vs `chunkKeys`, `numTasks`,
             `chunkKeysRange` on random grids (rank 0-4, empty axes included);
           * `FinalizedPlan.num_tasks` vs `planTotal` of the advertised counts; region stores: advertised / real count vs
             `regionAdvertised` / `regionReal`.
oracle : independent of Lean: for every op of every finalized plan advertised num_tasks == len(list(pipeline.mappable)) ==
         number of task-end notifications; plan total == sum; exactly one compute start (first) / end (last); exactly one
         operation start / end per executed op, start before and end after all of its task ends; no events for skipped ops.
"""
from __future__ import annotations

import math

import schedtrace as st

DRIVER = "C07"
RULE = ("programs: 10 DAG shapes incl. multi-output (unstack, qr), region stores (aligned, 35% with source chunks != target "
        "chunks — must hold since the source is rechunked), to_zarr, rechunk, reductions, fused/unfused (optimize_graph on/off), create-arrays always; configurations: "
        "executor in {single-threaded, threads, processes(sampled)} x compute_arrays_in_parallel x batch_size{None,1,2,3} x "
        "max_workers{1,2,4} x resume(12%); grids for ChunkKeys: rank 0-4, 0-4 blocks per axis, every start, stop in "
        "[start, n+1]; non-trivial = plan with >= 2 executed ops or a grid with > 1 block; distinct by request / case")
ASSUMPTIONS = [
    "hypotheses Topo / Gens on networkx's orders — validated on every real DAG by checkGens",
    "one result per submitted input from async_map_unordered (C08) — observed: task-end count per op",
    "TaskEndEvent.num_tasks > 1 would count as that many notifications (local executors always send 1)",
]
TRUSTED = ["modelled not verified: aiostream stream draining / merging, concurrent.futures pools (observed through the callback trace only)"]

def classify(case, what=""):
    """No known defects: the region-store count mismatch (source chunks != target chunks) was fixed in the repository
    (commit ba97b91, `_store_array` rechunks the source); mismatched-chunk region programs are must-hold cases and a
    recurrence is a violation."""
    return None


# ----------------------------------------------------------------------------------------------
# cases
# ----------------------------------------------------------------------------------------------

def gen_cases(rng, n, nproc):
    cases = []
    kinds = st.PROGRAM_KINDS
    for i in range(n):
        kind = kinds[i % len(kinds)] if i < 2 * len(kinds) else rng.choice(kinds + ["region", "unstack", "qr"])
        prog = st.gen_program(rng, kind, mismatch=True)
        ex = "single-threaded" if rng.random() < 0.3 else "threads"
        cases.append((prog, st.gen_config(rng, ex)))
    for i in range(nproc):
        prog = st.gen_program(rng, rng.choice(["unstack", "qr", "mixed", "region", "reduce"]), mismatch=True)
        cfg = st.gen_config(rng, "processes")
        cfg["max_workers"] = rng.choice([1, 2])
        cases.append((prog, cfg))
    return cases


def run_cases(ctx, cases, latency=0.004):
    out = []
    for prog, cfg in cases:
        seed = ctx.rng.randrange(10 ** 6)
        r = st.run_case(prog, cfg, seed=seed, max_latency=latency)
        r["case"] = st.describe(prog, cfg, seed, latency)
        st.cleanup(r)
        out.append(r)
    return out


def cases_of(ctx):
    if getattr(ctx, "_c13_runs", None) is None:
        ctx._c13_runs = run_cases(ctx, gen_cases(ctx.rng, ctx.budget(50, 450), ctx.budget(2, 10)))
    return ctx._c13_runs


def executed(f):
    return [o for o in f["pipeline"] if o not in f["computed"]]


def kind_of(r):
    cfg = r["case"]["config"]
    return "%s:%s:%s:%s%s" % (cfg["executor"], "par" if st.is_parallel(cfg) else "seq", "opt" if cfg.get("optimize_graph") else "noopt",
                              r["case"]["program"]["kind"], ":resume" if cfg.get("resume") else "")


# ----------------------------------------------------------------------------------------------
# correspondence
# ----------------------------------------------------------------------------------------------

def perturbations(toks):
    out = []
    # operation end before its last task end
    for i in range(len(toks) - 1, 0, -1):
        if toks[i].startswith("oe"):
            o = toks[i][2:]
            js = [j for j in range(i) if toks[j] == "te" + o]
            if js:
                j = js[-1]
                out.append(("operation end before the last task end", toks[:j] + toks[j + 1:i + 1] + [toks[j]] + toks[i + 1:]))
                out.append(("a missing task end", toks[:j] + toks[j + 1:]))
                break
    for i, t in enumerate(toks):
        if t.startswith("os"):
            out.append(("a doubled operation start", toks[:i] + [t] + toks[i:]))
            break
    if toks and toks[-1] == "ce":
        out.append(("a missing compute end", toks[:-1]))
    return out


def gen_grid(rng):
    nd = rng.choice([0, 1, 1, 2, 2, 2, 3, 3, 4])
    return [rng.choice([0, 1, 1, 2, 2, 3, 4]) if rng.random() < 0.9 else 1 for _ in range(nd)]


def show_keys(ks):
    return ";".join("()" if len(k) == 0 else ",".join(str(int(c)) for c in k) for k in ks)


def corr_keys(ctx, n):
    from cubed.primitive.blockwise import ChunkKeys
    reqs, exp = [], []
    for _ in range(n):
        nb = gen_grid(ctx.rng)
        chunks_normal = tuple((1,) * b for b in nb)
        ck = ChunkKeys(chunks_normal)
        total = math.prod(len(c) for c in chunks_normal)
        nbs = ",".join(map(str, nb))
        reqs.append("keys|%s" % nbs)
        exp.append("n=%d keys=%s" % (total, show_keys(list(ck))))
        for _ in range(3):
            start = ctx.rng.randint(0, total + 1)
            stop = None if ctx.rng.random() < 0.4 else ctx.rng.randint(start, total + 1)
            reqs.append("range|%s|%d|%s" % (nbs, start, "-" if stop is None else stop))
            exp.append("keys=%s" % show_keys(list(ck.range(start, stop))))
    ans = ctx.lean.drive(DRIVER, reqs)
    for rq, e, a in zip(reqs, exp, ans):
        ctx.count({"grid": rq}, nontrivial=e.count(";") > 0, kind="corr:" + rq.split("|")[0])
        if e != a:
            ctx.disagree("chunkKeys / numTasks / chunkKeysRange = ChunkKeys.__iter__ / math.prod / ChunkKeys.range", {"request": rq}, a, e)


def region_request(r):
    p = r["case"]["program"]
    axes = ";".join("%d,%d,%d,%d" % (lo, hi, sc, tc) for (lo, hi), sc, tc in zip(p["region"], p["chunks"], p["tchunks"]))
    return "region|" + axes


def corr(ctx):
    runs = cases_of(ctx)
    reqs, expect, meta = [], [], []
    for r in runs:
        f = r["facts"]
        if f is None or r["error"]:
            continue
        cfg = r["case"]["config"]
        par = st.is_parallel(cfg)
        ex = executed(f)
        adv = {o: f["advertised"].get(o, 0) for o in f["pipeline"]}
        dag = st.encode_dag(f, adv)
        order = st.encode_order(f, par)
        counts_agree = all(adv[o] == f["real"][o] for o in ex)
        ctx.count({"corr": r["case"]}, nontrivial=len(ex) >= 2, kind="corr:" + kind_of(r))
        toks = st.encode_trace(r["log"], f, accesses=False)
        reqs.append("accepts|%s|%s|%s" % (dag, order, " ".join(toks)))
        expect.append("ok" if counts_agree else "reject")
        meta.append(("callback event list is in the model's language with n = advertised num_tasks", r))
        ctx.traces += 1
        if counts_agree:
            for name, pt in perturbations(toks):
                reqs.append("accepts|%s|%s|%s" % (dag, order, " ".join(pt)))
                expect.append("reject")
                meta.append(("model rejects " + name, r))
        reqs.append("total|%s" % ",".join(str(f["advertised"][o]) for o in sorted(f["advertised"])))
        expect.append(str(f["plan_total"]))
        meta.append(("planTotal = FinalizedPlan.num_tasks", r))
        if r["case"]["program"]["kind"] == "region" and f["visit_nodes"]:
            o = f["visit_nodes"][-1]
            reqs.append(region_request(r))
            expect.append("advertised=%d real=%d" % (f["advertised"][o], f["real"][o]))
            meta.append(("regionAdvertised / regionReal = source.npartitions / len(OutputBlocksIterable)", r))
    ans = ctx.lean.drive(DRIVER, reqs)
    for rq, e, a, (rel, r) in zip(reqs, expect, ans, meta):
        if e != a:
            ctx.disagree(rel, {"case": r["case"], "request": rq[:3000]}, a, e)
    corr_keys(ctx, ctx.budget(150, 1500))


# ----------------------------------------------------------------------------------------------
# direct oracle
# ----------------------------------------------------------------------------------------------

def check_run(ctx, r):
    case = r["case"]
    f = r["facts"]
    key = classify(case)
    if r["error"] or f is None:
        ctx.fail("computation failed: %s" % r["error"], case, key=key)
        return
    names = f["names"]
    ex = executed(f)
    ctx.count({"oracle": case}, nontrivial=len(ex) >= 2, kind="oracle:" + kind_of(r))
    evs = r["events"]
    # (1) advertised == length of the task iterable, for every op of the plan
    for o in f["pipeline"]:
        if f["advertised"].get(o) != f["real"][o]:
            ctx.fail("op %s (%s) advertises num_tasks=%s but its task iterable has %d elements"
                     % (names[o], f["kinds"][o], f["advertised"].get(o), f["real"][o]), dict(case, op=names[o]), key=key)
            return
    # (2) plan total == sum of the advertised counts
    if f["plan_total"] is not None and f["plan_total"] != sum(f["advertised"].values()):
        ctx.fail("FinalizedPlan.num_tasks=%s but the ops advertise %s in total" % (f["plan_total"], sum(f["advertised"].values())), case)
        return
    # (3) compute start / end exactly once, first and last
    kinds = [k for k, _ in evs]
    if kinds.count("computeStart") != 1 or kinds.count("computeEnd") != 1 or kinds[0] != "computeStart" or kinds[-1] != "computeEnd":
        ctx.fail("compute start/end not exactly once at the ends: %s…%s" % (kinds[:2], kinds[-2:]), case)
        return
    # (4) per executed op: one start, one end, advertised many task ends, in order; nothing for other names
    exnames = {names[o]: o for o in ex}
    seen = {}
    for i, (k, n) in enumerate(evs):
        if k in ("computeStart", "computeEnd"):
            continue
        if n not in exnames:
            ctx.fail("event %s for %s, which is not an executed operation of the plan" % (k, n), dict(case, op=n))
            return
        seen.setdefault(n, {"opStart": [], "taskEnd": [], "opEnd": []})[k].append(i)
    for n, o in exnames.items():
        s = seen.get(n, {"opStart": [], "taskEnd": [], "opEnd": []})
        if len(s["opStart"]) != 1 or len(s["opEnd"]) != 1:
            ctx.fail("op %s: %d start and %d end notifications" % (n, len(s["opStart"]), len(s["opEnd"])), dict(case, op=n))
            return
        if len(s["taskEnd"]) != f["advertised"][o]:
            ctx.fail("op %s advertises %d tasks, callbacks saw %d task ends" % (n, f["advertised"][o], len(s["taskEnd"])), dict(case, op=n), key=key)
            return
        if s["taskEnd"] and not (s["opStart"][0] < min(s["taskEnd"]) and max(s["taskEnd"]) < s["opEnd"][0]):
            ctx.fail("op %s: task-end notifications outside its start/end bracket" % n, dict(case, op=n))
            return
        if not s["opStart"][0] < s["opEnd"][0]:
            ctx.fail("op %s: end before start" % n, dict(case, op=n))
            return


def oracle_keys(ctx, n):
    """ChunkKeys against plain itertools / slicing (rank >= 1; see C13_range_eq_drop_fails for rank 0)."""
    import itertools

    from cubed.primitive.blockwise import ChunkKeys
    for _ in range(n):
        nb = gen_grid(ctx.rng)
        chunks_normal = tuple((1,) * b for b in nb)
        allk = [list(t) for t in itertools.product(*[range(b) for b in nb])]
        got = list(ChunkKeys(chunks_normal))
        ctx.count({"keys": nb}, nontrivial=len(allk) > 1, kind="oracle:keys")
        if got != allk or len(allk) != math.prod(nb):
            ctx.fail("ChunkKeys enumerates %d keys, grid has %d blocks" % (len(got), math.prod(nb)), {"numblocks": nb})
            return
        if nb:
            start = ctx.rng.randint(0, len(allk) + 1)
            stop = ctx.rng.randint(start, len(allk) + 1)
            got = list(ChunkKeys(chunks_normal).range(start, stop))
            if got != allk[start:stop]:
                ctx.fail("ChunkKeys.range(%d, %d) != keys[%d:%d]" % (start, stop, start, stop), {"numblocks": nb, "start": start, "stop": stop})
                return


def oracle(ctx):
    for r in cases_of(ctx):
        check_run(ctx, r)
    oracle_keys(ctx, ctx.budget(200, 2000))


def search(ctx):
    ctx.rng.seed(ctx.seed + 7919)
    cases = gen_cases(ctx.rng, ctx.budget(70, 250), ctx.budget(2, 6))
    for r in run_cases(ctx, cases):
        check_run(ctx, r)
        if len([f for f in ctx.failures if not f["key"]]) >= 3:
            break
    oracle_keys(ctx, 2000)


def replay(ctx, body):
    case = body.get("case", {})
    if "program" in case:
        r = st.run_case(case["program"], case["config"], case.get("store_seed", 0), case.get("max_latency", 0.004))
        r["case"] = case
        st.cleanup(r)
        check_run(ctx, r)
        for fl in ctx.failures:
            print("REPLAY failure:", fl["what"])
        if not ctx.failures:
            print("REPLAY: no failure on this tree")
