"""C08 — task failures are retried and surfaced, never dropped; one result per task.

corr   : the REAL `async_map_unordered` coroutine, driven on a virtual-time event loop by scripted futures (outcome and
         completion time per submission, ties included), against the Lean model (drivers/C08.lean), which returns the *set* of
         outcomes over all iteration orders of `finished` / `copy(pending)`; the real outcome (result multiset, identity of the
         raised exception, input of every submission) must be a member.  Also the real tenacity wrapper of
         `threads_create_futures_func` against the model of the retry loop.
oracle : independent of the Lean model: the property itself on scripted runs (exactly one result per input on completion,
         a raise only when no submission of that input has succeeded, at most two submissions per input, no other exception,
         no hang), with and without a consumer that lets the loop run between results; end to end: small cubed computations on
         the real threads / processes executors over a store that fails the first k accesses of one chunk key.
"""
from __future__ import annotations

import contextlib
import io
import itertools
import os
import shutil
import tempfile

DRIVER = "C08"
RULE = ("scripted runs of async_map_unordered: n inputs, per submission (ok|error, duration in virtual seconds), use_backups "
        "{on,off}, batch_size {none, <n, >=n}; small family n<=4 (thorough: every outcome assignment x every tie pattern "
        "(ordered set partitions, two time scales) x every batch size 1..n+1 x backups on/off; quick: seeded sample), large "
        "family n in 10..30 with stragglers so that backups launch, twins tie or fail, batch_size>=10 with backups, plus a "
        "sub-family (3 of 8) where the original of a straggler fails while its slow backup is still pending for further rounds; "
        "non-trivial = at least one failure, tie, backup or batch refill; distinct by case text. end to end: 3..30-chunk "
        "computations, retries {default,0,1,2} (as compute() argument and as executor option) x k in 0..3 injected failures x "
        "get/set x executor; the budget cases k in {r, r+1, always failing} for every r are always run")
ASSUMPTIONS = [
    "asyncio.wait(FIRST_COMPLETED, timeout) returns exactly the pending futures that are done when it wakes; futures with equal deadlines complete in one loop turn (validated on the virtual-time loop)",
    "create_futures_func returns one fresh future per input (threads/processes_create_futures_func: list comprehension over the inputs)",
    "batch_size >= 1 (batch_size = 0 is a ValueError of batched(), a configuration error outside the property)",
    "liveness is checked, not proved: every scripted run terminates; the theorems are safety properties of every finite prefix of rounds",
]
TRUSTED = [
    "modelled not verified: float arithmetic of should_launch_backup (modelled on integers; the virtual clock only produces integers), tenacity's Retrying loop (modelled as stop_after_attempt recursion, compared with the real threads wrapper and the real processes worker-side wrapper on every call pattern up to length 5), backup.cancel() (shown never to be observed again)",
    "harness/vloop.py virtual-time event loop (subclass of asyncio.SelectorEventLoop; only time() and the idle jump are overridden)",
]

CAP = 6000          # exploration steps per request before the model answers INCONCLUSIVE
DEFAULT = (True, 1)


# ----------------------------------------------------------------------------------------------
# cases
# ----------------------------------------------------------------------------------------------

def mk_case(n, script, ub, bs, delay=None):
    c = {"n": n, "script": [[int(bool(o)), int(d)] for o, d in script], "use_backups": bool(ub), "batch_size": bs}
    if delay is not None:
        c["consumer_delay"] = delay
    return c


def surjections(n):
    """rank patterns: all functions {0..n-1} -> {1..k} that are onto, for every k (= ordered set partitions)"""
    for k in range(1, n + 1):
        for f in itertools.product(range(1, k + 1), repeat=n):
            if len(set(f)) == k:
                yield f


def small_cases(n):
    if n == 0:
        for ub in (0, 1):
            for bs in (None, 1, 3):
                yield mk_case(0, [], ub, bs)
        return
    for outs in itertools.product([1, 0], repeat=n):
        for ranks in surjections(n):
            for scale in (1, 3):
                for bs in [None] + list(range(1, n + 2)):
                    for ub in (0, 1):
                        yield mk_case(n, [(o, r * scale) for o, r in zip(outs, ranks)], ub, bs)


def witness_cases():
    """the runs of the three historical witnesses of Properties/C08.lean (C08_witness_*) and their variations; on the tree
    under test they must satisfy the property"""
    out = []
    # batch refill with backups: 20 inputs, batches of 10, six fast tasks, then a timeout round
    for slow in (10, 7, 30):
        out.append(mk_case(20, [(1, 1)] * 6 + [(1, slow)] * 4 + [(1, 1)] * 10, True, 10))
    out.append(mk_case(30, [(1, 1 + (i % 3)) for i in range(30)], True, 10))
    # a straggler and its backup finishing in the same round: nine fast tasks, original takes 6, backup (launched at 5) takes 1
    for o9, o10 in ((1, 1), (1, 0), (0, 1), (0, 0)):
        out.append(mk_case(10, [(1, 1)] * 9 + [(o9, 6), (o10, 1)], True, None))
        out.append(mk_case(12, [(1, 1)] * 9 + [(o9, 6), (1, 2), (o9, 7), (o10, 1), (o10, 2)], True, None))
    # the original of a straggler FAILS while its backup is still running, and the backup keeps straggling for further
    # rounds (then succeeds / fails / is slow again): the survivor must not get another backup (<= 2 submissions per input)
    for n, fast in ((10, 1), (12, 1), (14, 2)):
        for d_orig, d_backup in ((7, 10), (8, 20), (12, 9), (9, 40)):
            for o_backup in (1, 0):
                for third in ((1, 1), (0, 1), (1, 30)):
                    sc = [(1, fast)] * (n - 1) + [(0, d_orig * fast), (o_backup, d_backup * fast), third, third]
                    out.append(mk_case(n, sc, True, None))
    # ... the same with the straggler in the middle, another straggler that succeeds, and under batching
    out.append(mk_case(12, [(1, 1)] * 4 + [(0, 8)] + [(1, 1)] * 6 + [(1, 30), (1, 12), (1, 5), (1, 1), (0, 1)], True, None))
    out.append(mk_case(20, [(1, 1)] * 9 + [(0, 8)] + [(1, 2)] * 10 + [(1, 15), (1, 1), (1, 1)], True, 10))
    out.append(mk_case(22, [(0, 9)] + [(1, 1)] * 10 + [(1, 2)] * 11 + [(0, 25), (1, 1), (1, 1)], True, 11))
    return out


def gen_small(rng):
    n = rng.choice([1, 2, 3, 3, 4, 4, 4])
    script = [(rng.random() < 0.7, rng.choice([1, 1, 2, 2, 3, 4, 5, 7])) for _ in range(n)]
    bs = rng.choice([None, None] + list(range(1, n + 2)))
    return mk_case(n, script, rng.random() < 0.5, bs)


def gen_twinfail(rng):
    """one or two stragglers whose ORIGINAL fails while the backup is still pending; the backup is itself slow (several
    more wait rounds) and then succeeds or fails; whatever is submitted after that is quick, slow or failing.  This is the
    situation in which only the `backups` entry of the pair keeps the input from being submitted a third time."""
    n = rng.randint(10, 16)
    unit = rng.choice([1, 1, 2])
    fast = rng.choice([[1], [1, 1, 2], [1, 2]])
    nslow = rng.choice([1, 1, 1, 2])
    slow = set(rng.sample(range(n), nslow))
    script = []
    for i in range(n):
        if i in slow:
            script.append((rng.random() < 0.15, unit * rng.choice([7, 8, 9, 10, 12, 16])))
        else:
            script.append((rng.random() < 0.98, unit * rng.choice(fast)))
    for j in range(nslow):          # the backups of the stragglers: slow
        script.append((rng.random() < 0.6, unit * rng.choice([8, 10, 14, 20, 30, 45])))
    for _ in range(5):              # anything submitted after that
        script.append((rng.random() < 0.7, unit * rng.choice([1, 1, 2, 5, 12, 30])))
    bs = rng.choice([None, None, None, n, n + 5, 10])
    return mk_case(n, script, True, bs)


def gen_big(rng):
    """>= 10 inputs so that should_launch_backup can fire; a few stragglers; backups that tie with / beat / lose to
    their original, or fail; optional batching (>= 10 so that the first batch alone allows backups)."""
    kind = rng.choice(["plain", "plain", "batch", "batch", "fail", "twinfail", "twinfail", "twinfail"])
    if kind == "twinfail":
        return gen_twinfail(rng)
    if kind == "batch":
        bs = rng.choice([10, 10, 11, 12, 15])
        n = rng.randint(bs, 30)
    else:
        bs = rng.choice([None, None, None, 3, 40])
        n = rng.randint(10, 16)
    fast = rng.choice([[1, 2], [1, 1, 2, 3], [2, 3], [1, 2, 3, 4]])
    nslow = rng.randint(1, 3)
    slow = set(rng.sample(range(n), nslow))
    script = []
    for i in range(n):
        if i in slow:
            ok = rng.random() < (0.5 if kind == "fail" else 0.8)
            script.append((ok, rng.choice([6, 7, 8, 9, 10, 11, 12, 14, 20, 40])))
        else:
            ok = rng.random() < (0.97 if kind != "fail" else 0.9)
            script.append((ok, rng.choice(fast)))
    # submissions after the originals are backups (when no batching) or later batches / backups (with batching)
    extra = []
    for _ in range(6):
        extra.append((rng.random() < 0.7, rng.choice([1, 1, 2, 3, 4, 5, 6])))
    if bs is None or bs >= n:
        script += extra
    return mk_case(n, script, rng.random() < 0.9, bs)


# ----------------------------------------------------------------------------------------------
# real runs
# ----------------------------------------------------------------------------------------------

def run_real(case):
    from vloop import Script, run_script
    sc = Script([(bool(o), d) for o, d in case["script"]], default=DEFAULT)
    return run_script(list(range(case["n"])), sc, use_backups=case["use_backups"], batch_size=case["batch_size"],
                      return_stats=bool(case.get("return_stats", False)), consumer_delay=case.get("consumer_delay"))


def nums(xs):
    return ",".join(str(x) for x in xs)


def canon_real(res):
    subs = nums(i for _, i, _ in res["subs"])
    out = nums(sorted(k for _, k in res["results"]))
    if res["outcome"] == "done":
        return f"D res={out} subs={subs}"
    if res["outcome"] == "raised":
        return f"R f={res['raised']} subs={subs}"
    msg = res["crash"] or ""
    if "StopIteration" in msg:
        return "C StopIteration"
    return "C " + msg.split(":")[0]


def request(case, variant="gen"):
    sc = ",".join(f"{o}:{d}" for o, d in case["script"]) or "-"
    bs = "-" if case["batch_size"] is None else str(case["batch_size"])
    return (f"run|n={case['n']}|bs={bs}|ub={int(case['use_backups'])}|var={variant}|script={sc}|"
            f"dflt={int(DEFAULT[0])}:{DEFAULT[1]}|cap={CAP}")


def nontrivial(case, res):
    durs = [d for _, d in case["script"][:case["n"]]]
    return (any(not o for o, _ in case["script"][:len(res["subs"])]) or len(set(durs)) < len(durs)
            or len(res["subs"]) > case["n"] or (case["batch_size"] is not None and case["batch_size"] < case["n"]))


def kind_of(case, res):
    k = "small" if case["n"] <= 4 else "big"
    if len(res["subs"]) > case["n"]:
        k += "+backup"
    if case["batch_size"] is not None and case["batch_size"] < case["n"]:
        k += "+batched"
    return f"{k}:{res['outcome']}"


# ----------------------------------------------------------------------------------------------
# the property itself, evaluated on one real run (no model involved)
# ----------------------------------------------------------------------------------------------

def property_violations(case, res):
    """list of human-readable violations of C08 by the observed run"""
    bad = []
    n = case["n"]
    script = [(bool(o), d) for o, d in case["script"]]

    def entry(k):
        return script[k] if k < len(script) else DEFAULT

    subs = res["subs"]                      # (submission, input, submit time)
    per_input = {}
    for k, i, t in subs:
        per_input.setdefault(i, []).append(k)
    for i, ks in per_input.items():
        if len(ks) > 2:
            bad.append(f"input {i} was submitted {len(ks)} times (submissions {ks})")
    if res["outcome"] == "crash":
        bad.append(f"the map ended with an exception that is not a task's error: {res['crash']}")
        return bad
    inp_of = {k: i for k, i, _ in subs}
    t_sub = {k: t for k, _, t in subs}
    for i, k in res["results"]:
        if k not in inp_of or inp_of[k] != i:
            bad.append(f"result {(i, k)} does not belong to a submission of input {i}")
        elif not entry(k)[0]:
            bad.append(f"result delivered for submission {k} of input {i}, which failed")
    got = sorted(i for i, _ in res["results"])
    if res["outcome"] == "done":
        if got != list(range(n)):
            dup = sorted({i for i in got if got.count(i) > 1})
            missing = sorted(set(range(n)) - set(got))
            bad.append(f"finished normally with results for inputs {got}: duplicated {dup}, missing {missing}")
    else:
        r = res["raised"]
        T = res["end_time"]
        if r not in inp_of:
            bad.append(f"raised the error of unknown submission {r}")
        else:
            i = inp_of[r]
            if entry(r)[0]:
                bad.append(f"raised the error of submission {r}, which succeeded")
            for k in per_input[i]:
                if k == r:
                    continue
                ok, d = entry(k)
                finished = t_sub[k] + d <= T
                if ok and finished:
                    bad.append(f"raised the error of submission {r} of input {i} although its other submission {k} had succeeded")
                elif not finished:
                    bad.append(f"raised the error of submission {r} of input {i} while its other submission {k} was still running")
            if i in got:
                bad.append(f"raised the error of submission {r} of input {i} after delivering a result for that input")
        if len(got) != len(set(got)):
            bad.append(f"two results delivered for one input before raising: {got}")
    return bad


def check_run(ctx, case, res):
    v = property_violations(case, res)
    if v:
        ctx.fail("; ".join(v[:3]), case)
    return not v


# ----------------------------------------------------------------------------------------------
# correspondence
# ----------------------------------------------------------------------------------------------

def corr_scripts(ctx, cases):
    reqs, reals, keep = [], [], []
    for case in cases:
        res = run_real(case)
        reqs.append(request(case))
        reals.append(canon_real(res))
        keep.append((case, res))
    ans = ctx.lean.drive(DRIVER, reqs)
    incon = 0
    for (case, res), real, a in zip(keep, reals, ans):
        ctx.count({"script": case, "impl": real}, nontrivial=nontrivial(case, res), kind=kind_of(case, res))
        if a == "INCONCLUSIVE":
            incon += 1
            ctx.dist["inconclusive(cap)"] += 1
            continue
        ctx.traces += 1
        outs = set(a[len("outs="):].split(" ; ")) if a.startswith("outs=") else set()
        if real not in outs:
            ctx.disagree("outcome of async_map_unordered ∈ outcomes of MapUnordered.run over all iteration orders",
                         case, a[:600], real)
    return incon


def real_retry(retries, bits):
    """calls made and success of ONE future created by the real threads_create_futures_func"""
    import asyncio
    import concurrent.futures

    from cubed.runtime.executors.local import threads_create_futures_func
    from vloop import ScriptError
    calls = [0]

    def fn(i, **kw):
        calls[0] += 1
        k = calls[0]
        if k <= len(bits) and bits[k - 1]:
            return ("res", i)
        raise ScriptError(k, i)

    class Inline:
        def submit(self, f, *a, **kw):
            fut = concurrent.futures.Future()
            try:
                fut.set_result(f(*a, **kw))
            except BaseException as e:  # noqa
                fut.set_exception(e)
            return fut

    async def go():
        cf = threads_create_futures_func(Inline(), fn, retries)
        [(i, fut)] = cf([7], name="op", config=None)
        try:
            await fut
            return True
        except ScriptError:
            return False

    ok = asyncio.run(go())
    return ok, calls[0]


_RETRY = {"calls": 0, "bits": ()}


def _scripted_task(i, **kw):
    """module-level (pickled by reference) so that the call counter survives the unpickling done on every attempt"""
    from vloop import ScriptError
    _RETRY["calls"] += 1
    k = _RETRY["calls"]
    if k <= len(_RETRY["bits"]) and _RETRY["bits"][k - 1]:
        return ("res", i)
    raise ScriptError(k, i)


def real_retry_processes(retries, bits):
    """calls made and success of ONE future created by the real processes_create_futures_func (the worker-side wrapper is
    run inline by a stub executor, so no process is spawned)"""
    import asyncio
    import concurrent.futures

    from cubed.runtime.executors.local import processes_create_futures_func
    from vloop import ScriptError
    _RETRY["calls"] = 0
    _RETRY["bits"] = tuple(bits)

    class Inline:
        def submit(self, f, *a, **kw):
            fut = concurrent.futures.Future()
            try:
                fut.set_result(f(*a, **kw))
            except BaseException as e:  # noqa
                fut.set_exception(e)
            return fut

    async def go():
        cf = processes_create_futures_func(Inline(), _scripted_task, retries)
        [(i, fut)] = cf([7], name="op", config=None)
        try:
            await fut
            return True
        except ScriptError:
            return False

    ok = asyncio.run(go())
    return ok, _RETRY["calls"]


REAL_RETRY = {"threads": real_retry, "processes": real_retry_processes}


def retry_cases():
    for retries in range(0, 4):
        for ln in range(0, 6):
            for bits in itertools.product([0, 1], repeat=ln):
                yield retries, bits


def corr_retry(ctx):
    reqs, real, who = [], [], []
    for exe, fn in REAL_RETRY.items():
        for retries, bits in retry_cases():
            ok, calls = fn(retries, bits)
            reqs.append(f"retry|retries={retries}|succ={''.join(map(str, bits))}")
            real.append(f"ok={int(ok)} calls={calls}")
            who.append(exe)
    ans = ctx.lean.drive(DRIVER, reqs)
    for rq, r, a, exe in zip(reqs, real, ans, who):
        ctx.count({"retry": rq, "executor": exe, "impl": r}, nontrivial="0" in rq.split("succ=")[1], kind=f"retry-wrapper:{exe}")
        if r != a:
            ctx.disagree(f"callWithRetries = {exe}_create_futures_func wrapper (success, number of calls)",
                         {"request": rq, "executor": exe}, a, r)


def corr(ctx):
    cases = []
    if ctx.tier == "thorough":
        for n in range(0, 5):
            cases.extend(small_cases(n))
        ctx.exhaustive = True
        ctx.notes.append("thorough: small family exhaustive for n<=4 (%d cases)" % len(cases))
        cases.extend(gen_big(ctx.rng) for _ in range(1500))
    else:
        cases.extend(small_cases(0))
        cases.extend(small_cases(1))
        cases.extend(small_cases(2))
        cases.extend(gen_small(ctx.rng) for _ in range(1200))
        cases.extend(gen_big(ctx.rng) for _ in range(250))
    cases.extend(witness_cases())
    incon = 0
    t0 = ctx.elapsed()
    for i in range(0, len(cases), 8000):
        incon += corr_scripts(ctx, cases[i:i + 8000])
    if incon:
        ctx.notes.append(f"{incon} scripted cases exceeded the exploration cap of the model (inconclusive, skipped)")
    corr_retry(ctx)
    ctx.notes.append(f"phase walls: build+audit {t0:.0f}s, correspondence {ctx.elapsed() - t0:.0f}s")


# ----------------------------------------------------------------------------------------------
# direct oracle
# ----------------------------------------------------------------------------------------------

def oracle_scripts(ctx, n_small, n_big):
    for j in range(n_small + n_big):
        case = gen_small(ctx.rng) if j < n_small else gen_big(ctx.rng)
        r = ctx.rng.random()
        if r < 0.35:
            case["consumer_delay"] = ctx.rng.choice([0, 1, 1, 2, 3])   # the loop runs while the generator is suspended
        if ctx.rng.random() < 0.3:
            case["return_stats"] = True
        res = run_real(case)
        ctx.count({"oracle-script": case, "impl": canon_real(res)}, nontrivial=nontrivial(case, res),
                  kind="oracle:" + kind_of(case, res) + ("+delay" if "consumer_delay" in case else ""))
        check_run(ctx, case, res)
    for case in witness_cases():
        for delay in (None, 1):
            c = dict(case)
            if delay is not None:
                c["consumer_delay"] = delay
            res = run_real(c)
            ctx.count({"oracle-script": c, "impl": canon_real(res)}, nontrivial=True, kind="oracle:historical-witness")
            check_run(ctx, c, res)
    # an empty input under batch_size (repaired: used to end with StopIteration -> RuntimeError)
    for ub, bs in ((False, 2), (True, 2), (True, 1), (False, 10)):
        case = mk_case(0, [], ub, bs)
        res = run_real(case)
        ctx.count({"oracle-script": case, "impl": canon_real(res)}, nontrivial=True, kind="oracle:empty+batched")
        check_run(ctx, case, res)


def oracle_retry(ctx):
    for exe, fn in REAL_RETRY.items():
        for retries, bits in retry_cases():
            try:
                ok, calls = fn(retries, bits)
            except Exception as e:  # e.g. the wrapper does not accept `retries`
                ctx.fail(f"{exe}_create_futures_func(retries={retries}) raised {type(e).__name__}: {e}"[:200],
                         {"executor": exe, "retries": retries, "succeeds_on_call": list(bits)})
                break
            first = next((k + 1 for k, b in enumerate(bits) if b), None)
            want_calls = min(first, retries + 1) if first is not None else retries + 1
            want_ok = first is not None and first <= retries + 1
            case = {"executor": exe, "retries": retries, "succeeds_on_call": list(bits)}
            ctx.count({"retry": case}, nontrivial=0 in bits, kind=f"oracle:retry-wrapper:{exe}")
            if calls > retries + 1:
                ctx.fail(f"{exe}: a submission made {calls} attempts with retries={retries}", case)
            elif (ok, calls) != (want_ok, want_calls):
                ctx.fail(f"{exe}: retries={retries}: success={ok} after {calls} calls, expected success={want_ok} after {want_calls}", case)


# ---- end to end -------------------------------------------------------------------------------------

def e2e_case(executor, retries, k, op, nchunks=3, use_backups=None, batch_size=None, via=None):
    """`via`: how `retries` reaches the executor — None: compute(..., retries=r); "options": Executor(retries=r)"""
    c = {"executor": executor, "retries": retries, "k": k, "fault_op": op, "nchunks": nchunks}
    if via is not None:
        c["via"] = via
    if use_backups is not None:
        c["use_backups"] = use_backups
    if batch_size is not None:
        c["batch_size"] = batch_size
    return c


def default_retries():
    """the documented budget ("up to a total of three attempts"), read from the tree under test"""
    import inspect

    from cubed.runtime.executors.local import threads_create_futures_func
    return inspect.signature(threads_create_futures_func).parameters["retries"].default


def run_e2e(case):
    """negative(asarray) -> flip, unfused, over a FaultStore failing the first k `fault_op` accesses of chunk 1 of the
    intermediate array.  Returns dict(outcome, error, accesses, fails, events, num_tasks, equal)."""
    import numpy as np
    import zarr

    import cubed
    import cubed.array_api as xp
    from c08_faultstore import FaultStore, make_counter, read_log
    from cubed.runtime.executors.local import ProcessesExecutor, ThreadsExecutor

    d = tempfile.mkdtemp(prefix="c08-")
    try:
        log = os.path.join(d, "log")
        store = FaultStore(zarr.storage.LocalStore(os.path.join(d, "store")), log=log, match=None, op=case["fault_op"], k=case["k"])
        spec = cubed.Spec(intermediate_store=store, allowed_mem="200MB", reserved_mem=0)
        nch = case["nchunks"]
        an = np.arange(2.0 * nch)
        a = xp.asarray(an, chunks=(2,), spec=spec)
        b = xp.negative(a)
        c = xp.flip(b)
        store._match = f"{b.name}/c/1"
        cnt = make_counter()
        kw = {}
        for key in ("retries", "use_backups", "batch_size"):
            if case.get(key) is not None:
                kw[key] = case[key]
        xkw = {}
        if case.get("via") == "options" and "retries" in kw:
            xkw["retries"] = kw.pop("retries")        # executor_options instead of a compute() argument
        exe = ThreadsExecutor(**xkw) if case["executor"] == "threads" else ProcessesExecutor(**xkw)
        out = {"outcome": "ok", "error": None, "equal": None}
        try:
            with contextlib.redirect_stdout(io.StringIO()):      # cubed prints when it launches a backup
                r = c.compute(executor=exe, callbacks=[cnt], optimize_graph=False, **kw)
            out["equal"] = bool(np.array_equal(r, np.flip(-an)))
        except BaseException as e:  # noqa
            out["outcome"] = "raised"
            out["error"] = f"{type(e).__name__}: {e}"[:160]
        lg = read_log(log)
        out["accesses"] = len(lg)
        out["fails"] = sum(1 for l in lg if l[3] == "FAIL")
        out["events"] = dict(cnt.tasks)
        out["num_tasks"] = dict(cnt.num_tasks)
        return out
    finally:
        shutil.rmtree(d, ignore_errors=True)


def check_e2e(ctx, case):
    out = run_e2e(case)
    for _ in range(2):
        # a worker process that dies (killed from outside, import of a tree that is being rewritten) is not the code under
        # test: repeat; a persistent BrokenProcessPool is reported like any other failure
        if "BrokenProcessPool" not in (out.get("error") or ""):
            break
        ctx.dist["e2e:retried-after-BrokenProcessPool"] += 1
        out = run_e2e(case)
    R = case["retries"] if case.get("retries") is not None else default_retries()
    k = case["k"]
    ctx.count({"e2e": case, "impl": {x: out[x] for x in ("outcome", "accesses", "fails")}}, nontrivial=k > 0,
              kind=f"e2e:{case['executor']}:{out['outcome']}")
    bad = []
    # with real backups (>= 10 tasks, real clocks) a backup of the faulty task may add attempts: only bounds are checked then
    may_backup = bool(case.get("use_backups")) and case["nchunks"] >= 10
    if k <= R:
        if out["outcome"] != "ok":
            bad.append(f"{k} injected failures <= retries={R} but compute() raised {out['error']}")
        else:
            if not out["equal"]:
                bad.append("compute() returned values different from NumPy")
            if out["accesses"] != k + 1 and not (may_backup and k + 1 <= out["accesses"] <= k + 2):
                bad.append(f"{out['accesses']} accesses to the faulty chunk, expected {k + 1}")
            for op, nt in out["num_tasks"].items():
                if out["events"].get(op, 0) != nt:
                    bad.append(f"op {op}: {out['events'].get(op, 0)} task-end notifications for {nt} tasks")
    else:
        if out["outcome"] == "ok":
            bad.append(f"{k} injected failures > retries={R} but compute() finished normally")
        elif "InjectedIOError" not in (out["error"] or ""):
            bad.append(f"compute() raised {out['error']} instead of the task's error")
        elif out["accesses"] != R + 1 and not may_backup:
            # both local executors re-raise only after exactly retries+1 attempts (C08_retry_spec)
            bad.append(f"{out['accesses']} attempts on the faulty chunk with retries={R}")
        for op, nt in out["num_tasks"].items():
            if out["events"].get(op, 0) > nt:
                bad.append(f"op {op}: {out['events'].get(op, 0)} task-end notifications for {nt} tasks")
    if out["accesses"] > (2 if may_backup else 1) * (R + 1):
        bad.append(f"{out['accesses']} attempts on one chunk exceed the budget (retries={R})")
    if bad:
        ctx.fail("; ".join(dict.fromkeys(bad)), case)


def run_empty_region(batch_size):
    """an operation with zero tasks: store of an empty array into an empty region of an existing array"""
    import numpy as np
    import zarr

    import cubed
    import cubed.array_api as xp
    from cubed.runtime.executors.local import ThreadsExecutor
    d = tempfile.mkdtemp(prefix="c08-")
    try:
        z = zarr.open_array(os.path.join(d, "t.zarr"), mode="w", shape=(4,), chunks=(2,), dtype="float64")
        z[:] = 7
        spec = cubed.Spec(work_dir=d, allowed_mem="200MB", reserved_mem=0)
        a = xp.asarray(np.zeros((0,)), chunks=(2,), spec=spec)
        kw = {} if batch_size is None else {"batch_size": batch_size}
        try:
            cubed.to_zarr(a + 1, z, region=(slice(0, 0),), executor=ThreadsExecutor(), **kw)
        except BaseException as e:  # noqa
            return f"{type(e).__name__}: {e}"[:160]
        return None if list(z[:]) == [7, 7, 7, 7] else "target modified"
    finally:
        shutil.rmtree(d, ignore_errors=True)


def core_e2e_cases(executors=("threads",)):
    """always run, both tiers: the retry budget through the real executor entry points (compute(..., retries=r) and
    Executor(retries=r)) for every explicit r in {0,1,2} and the default: a chunk access that fails k = r times must
    succeed on attempt r+1; one that always fails (k = 3) must raise the task's error after exactly r+1 attempts"""
    out = []
    for exe in executors:
        j = 0
        for r in (0, 1, 2, None):
            R = 2 if r is None else r
            for k in sorted({R, R + 1, 3}):
                j += 1
                out.append(e2e_case(exe, r, k, "set" if j % 2 else "get", via="options" if (j % 3 == 0 and r is not None) else None))
    return out


def oracle_e2e(ctx, deep=False):
    thorough = ctx.tier == "thorough" or deep
    cases = core_e2e_cases(("threads",))
    for retries in (None, 0, 1, 2):
        for k in (0, 1, 2, 3):
            for op in ("set", "get"):
                if thorough or ctx.rng.random() < 0.6:
                    cases.append(e2e_case("threads", retries, k, op, use_backups=ctx.rng.choice([None, True, False]),
                                          batch_size=ctx.rng.choice([None, 1, 2, 5])))
    # >= 10 tasks, backups on, batch_size >= 10 (the repaired KeyError), with a transient failure
    for _ in range(6 if thorough else 2):
        cases.append(e2e_case("threads", ctx.rng.choice([None, 1, 2]), ctx.rng.choice([0, 1]), ctx.rng.choice(["set", "get"]),
                              nchunks=ctx.rng.choice([12, 25, 30]), use_backups=True, batch_size=ctx.rng.choice([10, 11])))
    # regression triggers of the repaired processes-executor defects: one transient chunk IO failure with default retries
    # must succeed; the `retries=` option must be accepted and honoured
    pc = [e2e_case("processes", None, 1, "set"), e2e_case("processes", 0, 1, "get"), e2e_case("processes", 1, 3, "set"),
          e2e_case("processes", 2, 2, "get", via="options"), e2e_case("processes", 0, 3, "set", via="options")]
    if thorough:
        pc += core_e2e_cases(("processes",))
        pc += [e2e_case("processes", 2, 1, "get"), e2e_case("processes", None, 3, "get")]
        pc += [e2e_case("processes", None, 1, "get", nchunks=12, use_backups=True, batch_size=10)]
    cases += pc
    for case in cases:
        check_e2e(ctx, case)
    for bs in (None, 2):
        err = run_empty_region(bs)
        case = {"e2e": "to_zarr(empty array, region=(slice(0,0),))", "batch_size": bs, "executor": "threads"}
        ctx.count(dict(case, impl=err), nontrivial=True, kind="e2e:zero-task-op")
        if err is not None:
            ctx.fail(f"an operation with zero tasks ended with {err}", case)


def oracle(ctx):
    t0 = ctx.elapsed()
    oracle_scripts(ctx, ctx.budget(1500, 20000), ctx.budget(500, 6000))
    oracle_retry(ctx)
    t1 = ctx.elapsed()
    oracle_e2e(ctx)
    ctx.notes.append(f"phase walls: scripted oracle {t1 - t0:.0f}s, end-to-end {ctx.elapsed() - t1:.0f}s")


def search(ctx):
    """a proof obligation or the correspondence broke: look harder for an input on which the property itself fails"""
    import random
    for s in range(3):
        ctx.rng = random.Random(ctx.seed * 1000 + 7919 + s)
        oracle_scripts(ctx, 3000, 3000)
        if any(f["key"] is None for f in ctx.failures):
            break
    # the disagreeing inputs themselves, with and without a yielding consumer
    for d in ctx.disagreements[:50]:
        case = d["case"]
        if isinstance(case, dict) and "script" in case:
            for delay in (None, 1):
                c = dict(case)
                if delay is not None:
                    c["consumer_delay"] = delay
                check_run(ctx, c, run_real(c))
    # exhaustive small family
    if not any(f["key"] is None for f in ctx.failures):
        for n in range(1, 4):
            for case in small_cases(n):
                check_run(ctx, case, run_real(case))
    oracle_retry(ctx)
    if not any(f["key"] is None for f in ctx.failures):
        oracle_e2e(ctx, deep=True)


def replay(ctx, body):
    case = body.get("case")
    print("replaying", case)
    if isinstance(case, dict) and "script" in case:
        res = run_real(case)
        print("observed:", canon_real(res))
        for v in property_violations(case, res):
            print("violation:", v)
    elif isinstance(case, dict) and "executor" in case and "k" in case:
        print("observed:", run_e2e(case))
    elif isinstance(case, dict) and "retries" in case:
        print("observed:", REAL_RETRY[case.get("executor", "threads")](case["retries"], case["succeeds_on_call"]))
