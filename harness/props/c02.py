"""C02 — graph optimization (operation fusion) never changes any computed value.

corr   : the real optimizers (multiple_inputs_optimize_dag with any limits / always / never, fuse_all, fuse_only,
         legacy simple_optimize_dag) on real plan DAGs  vs  the Lean structural model (drivers/C02.lean);
         hypotheses used by the theorems (networkx order is topological) validated on every dag.
oracle : values of compute(optimize_graph=False) vs compute(optimize_function=F) for every F (and vs NumPy), and
         every requested array fully materialized in storage afterwards.
"""
from __future__ import annotations

import functools
import shutil
import tempfile

import numpy as np

import dagexport as dx

DRIVER = "C02"
RULE = ("random DAG programs over square integer arrays built through the public API (chains, diamonds, repeated "
        "arguments, mixed levels, unstack/stack multi-output, reductions, selections, rechunks, lazy stores, matmul), "
        "random requested subsets incl. intermediates; optimizer configurations: default, max_total_source_arrays in 1..8, "
        "max_total_num_input_blocks in {None,1,2,4,10,50}, random always/never subsets, fuse_all, fuse_only(random), legacy "
        "simple; non-trivial = the optimizer changed the dag; distinct by (program, configuration)")
ASSUMPTIONS = [
    "networkx topological_sort returns a topological order (checked on every dag); dag.copy() isolates the optimized copy",
    "hypotheses of fuse_step_preserves (SSA array names, ReadsFrom, NameIndep, Unfused) — structural parts validated by the "
    "correspondence of canFuse guards; key-function parts (ReadsFrom, NameIndep, Unfused) validated on the real key functions of every op of every generated plan",
]
TRUSTED = ["modelled not verified: networkx MultiDiGraph operations (modelled as list/multiset operations), NumPy kernels"]


def configs(rng, opnames, tier):
    """(label, mode, kwargs for the real optimizer, request fields)"""
    out = [("default", "multi", {}, (4, 10, None, None))]
    k = 4 if tier == "quick" else 8
    for _ in range(k):
        ms = rng.choice([1, 2, 3, 4, 5, 8])
        mb = rng.choice([None, 1, 2, 4, 10, 50])
        al = rng.sample(opnames, rng.randint(0, len(opnames))) if rng.random() < 0.4 else None
        nv = rng.sample(opnames, rng.randint(0, len(opnames))) if rng.random() < 0.4 else None
        kw = {"max_total_source_arrays": ms, "max_total_num_input_blocks": mb, "always_fuse": al, "never_fuse": nv}
        out.append(("multi", "multi", kw, (ms, mb, al, nv)))
    out.append(("fuseall", "fuseall", {}, (4, 10, None, None)))
    only = rng.sample(opnames, rng.randint(0, len(opnames)))
    out.append(("fuseonly", "fuseonly", {"only_fuse": only}, (4, 10, only, None)))
    out.append(("simple", "simple", {}, (4, 10, None, None)))
    return out


def real_optimizer(mode, kw):
    from cubed.core import optimization as O
    if mode == "multi":
        return functools.partial(O.multiple_inputs_optimize_dag, **kw)
    if mode == "fuseall":
        return O.fuse_all_optimize_dag
    if mode == "fuseonly":
        return functools.partial(O.fuse_only_optimize_dag, **kw)
    if mode == "simple":
        return O.simple_optimize_dag
    raise ValueError(mode)


def check_hypotheses(ctx, dag, prog):
    """Validate, on the real key functions of every op of a real plan, the hypotheses the theorems put on key
    functions: ReadsFrom (only blocks of declared source arrays are designated), NameIndep (result labelled with the out
    key's name; arguments independent of that name) and Unfused (single keys, flat lists or flat streams)."""
    import itertools
    from collections.abc import Iterator

    from cubed.primitive.blockwise import BlockwiseSpec, ChunkKey, FunctionArgs

    def flat(t, kinds):
        if isinstance(t, ChunkKey):
            kinds.append("K")
            return [t]
        if isinstance(t, list):
            kinds.append("L")
            items = t
        elif isinstance(t, Iterator):
            kinds.append("I")
            items = list(t)
        else:
            kinds.append("?")
            return []
        if not all(isinstance(x, ChunkKey) for x in items):
            kinds.append("nested")
        return [x for x in items if isinstance(x, ChunkKey)]

    for name, d in dag.nodes(data=True):
        pop = d.get("primitive_op")
        if pop is None or not isinstance(pop.pipeline.config, BlockwiseSpec):
            continue
        # hypotheses of C02_guards_imply_side_conditions / C02_structural_step_preserves on the record dag
        # (`Describes`: every source array of the op is an in-edge of its node; `hsrc`), checked on the unoptimized dag
        ine = {u for u, _ in dag.in_edges(name)}
        ctx.dist["hyp:sources-are-in-edges"] += 1
        missing = [a for a in pop.source_array_names if a not in ine]
        if missing and not d.get("fused"):
            ctx.fail("hypothesis Describes violated: source arrays %s of op %s are not in-edges of its dag node" % (missing, name),
                     {"program": prog, "op": d.get("op_name")})
        f = pop.pipeline.config.back_key_function
        coords = list(itertools.islice(iter(pop.pipeline.mappable), 12))
        for c in coords:
            c = tuple(c)
            try:
                fa1 = f(ChunkKey("out", c))
                fa2 = f(ChunkKey(name + "-other", c))
            except Exception as e:
                ctx.dist["keyfn-raises:" + type(e).__name__] += 1
                continue
            ctx.traces += 1
            if not isinstance(fa1, FunctionArgs) or fa1.output_name != "out" or fa2.output_name != name + "-other":
                ctx.fail("hypothesis NameIndep violated: key function of %s does not label its result with the out key's name" % name,
                         {"program": prog, "op": d.get("op_name"), "coords": c})
                continue
            k1, k2 = [], []
            l1 = [flat(a, k1) for a in fa1.args]
            l2 = [flat(a, k2) for a in fa2.args]
            if "?" in k1 or "nested" in k1:
                ctx.fail("hypothesis Unfused violated: key function of %s returns a nested / unknown argument structure %s" % (name, k1),
                         {"program": prog, "op": d.get("op_name"), "coords": c})
            if [[(k.name, tuple(k.coords)) for k in a] for a in l1] != [[(k.name, tuple(k.coords)) for k in a] for a in l2] or k1 != k2:
                ctx.fail("hypothesis NameIndep violated: key function of %s depends on the out key's name" % name,
                         {"program": prog, "op": d.get("op_name"), "coords": c})
            bad = [k.name for a in l1 for k in a if k.name not in pop.source_array_names]
            if bad:
                ctx.fail("hypothesis ReadsFrom violated: op %s designates blocks of %s which are not among its source arrays" % (name, bad),
                         {"program": prog, "op": d.get("op_name"), "coords": c})


def corr(ctx):
    import cubed
    from cubed.core.plan import arrays_to_plan

    spec = cubed.Spec(allowed_mem="500MB", reserved_mem=0)
    reqs, exp, metas = [], [], []
    nprog = ctx.budget(60, 300)
    for _ in range(nprog):
        prog = dx.gen_dag_program(ctx.rng)
        try:
            vals = dx.build(prog, spec)
        except Exception as e:  # a build-time decline of the generated program is not C02's concern
            ctx.dist["build-declined:" + type(e).__name__] += 1
            continue
        arrays = [vals[i] for i in prog["outputs"]]
        plan = arrays_to_plan(*arrays)
        dag = plan.dag
        names = tuple(a.name for a in arrays)
        ops, order, nodes_order, virtual = dx.export_dag(dag)
        if not dx.check_topo(dag, order):
            ctx.fail("networkx topological_sort is not topological (hypothesis Topo)", {"program": prog})
        check_hypotheses(ctx, dag, prog)
        opnames = [n for n in dag.nodes() if n.startswith("op-")]
        for label, mode, kw, (ms, mb, al, nv) in configs(ctx.rng, opnames, ctx.tier):
            fn = real_optimizer(mode, kw)
            try:
                odag = fn(dag, array_names=names)
                got = "ops=" + dx.canon_dag(odag)
            except Exception as e:
                got = "raises"
                ctx.dist["optimizer-raises:" + type(e).__name__] += 1
            reqs.append(dx.opt_request(mode, names, ms, mb, al, nv, nodes_order if mode == "simple" else order, virtual, ops))
            exp.append(got)
            metas.append({"program": prog, "config": [label, ms, mb, al, nv], "changed": got != "ops=" + dx.canon_dag(dag)})
    ans = ctx.lean.drive(DRIVER, reqs)
    for rq, e, a, m in zip(reqs, exp, ans, metas):
        ctx.count({"program": m["program"], "config": m["config"]}, nontrivial=m["changed"], kind="opt:" + m["config"][0])
        a_ops = a.split(" admit=")[0]
        if a_ops != e:
            ctx.disagree("Opt.optimize = real optimizer (nodes, sources, in-edges, num_input_blocks, projected_mem, num_tasks, flags)",
                         {"program": m["program"], "config": m["config"], "request": rq[:2000]}, a_ops[:1500], e[:1500])


# ------------------------------------------------------------------------------------------------------

def classify(label, exc):
    if label == "simple" and isinstance(exc, AttributeError) and "coords" in str(exc):
        return "legacy-fuse-stream"
    return None


class Declined(Exception):
    pass


def run_config(prog, label, mode, kw_builder, expect, work):
    """Build afresh, compute the requested arrays under one optimizer, return None or (what, key)."""
    import cubed
    from cubed.runtime.create import create_executor
    spec = cubed.Spec(work_dir=work, allowed_mem="500MB", reserved_mem=0, executor=create_executor("single-threaded"))
    try:
        vals = dx.build(prog, spec, store_dir=work)
    except Exception as e:  # cubed declines (or fails) while building: not C02's concern (C17 owns it)
        raise Declined(type(e).__name__)
    arrays = [vals[i] for i in prog["outputs"]]
    kwargs = {}
    if mode == "none":
        kwargs["optimize_graph"] = False
    else:
        from cubed.core.plan import arrays_to_plan
        dag = arrays_to_plan(*arrays).dag
        opnames = [n for n in dag.nodes() if n.startswith("op-")]
        kwargs["optimize_function"] = real_optimizer(mode, kw_builder(opnames))
    try:
        res = cubed.compute(*arrays, **kwargs)
    except Exception as e:
        return ("compute raised %s: %s" % (type(e).__name__, str(e)[:200]), classify(label, e))
    for r, want, i in zip(res, expect, prog["outputs"]):
        if r.shape != want.shape or not np.array_equal(r, want):
            return ("requested value %d differs from the unoptimized / NumPy value under optimizer %s" % (i, label), None)
    # every requested array is materialized: all chunks of its backing array are present
    for a, i in zip(arrays, prog["outputs"]):
        z = a._zarray
        try:
            z = z.open() if hasattr(z, "open") else z
        except Exception as e:
            return ("requested array %d is not in storage after compute under %s: %r" % (i, label, e), None)
        if hasattr(z, "nchunks_initialized") and z.ndim > 0 and z.nchunks_initialized != z.nchunks:
            return ("requested array %d has %d of %d chunks in storage after compute under %s" % (i, z.nchunks_initialized, z.nchunks, label), None)
    return None


def oracle_configs(rng, tier):
    cfgs = [("none", "none", lambda ops: {}), ("default", "multi", lambda ops: {}), ("fuseall", "fuseall", lambda ops: {}),
            ("simple", "simple", lambda ops: {})]

    def rnd(ops, ms, mb, fa, fn):
        return {"max_total_source_arrays": ms, "max_total_num_input_blocks": mb,
                "always_fuse": [o for j, o in enumerate(ops) if (fa >> j) & 1] if fa is not None else None,
                "never_fuse": [o for j, o in enumerate(ops) if (fn >> j) & 1] if fn is not None else None}
    for _ in range(2 if tier == "quick" else 5):
        ms, mb = rng.choice([1, 2, 4, 8]), rng.choice([None, 1, 4, 10, 50])
        fa = rng.getrandbits(16) if rng.random() < 0.5 else None
        fn = rng.getrandbits(16) if rng.random() < 0.4 else None
        cfgs.append(("multi(%s,%s,%s,%s)" % (ms, mb, fa, fn), "multi", functools.partial(rnd, ms=ms, mb=mb, fa=fa, fn=fn)))
    only = rng.getrandbits(16)
    cfgs.append(("fuseonly(%d)" % only, "fuseonly", lambda ops: {"only_fuse": [o for j, o in enumerate(ops) if (only >> j) & 1]}))
    return cfgs


# minimized past failures / witnesses of listed findings: run first on every check
CORPUS = [
    # legacy-fuse-stream: x - mean(astype(x), axis=0) with one block along axis 0 — the reduction (num_tasks equal to its
    # elementwise predecessor astype) is fused by simple_optimize_dag and fuse() takes .args[0] of a stream of keys
    {"n": 4, "inputs": [{"chunks": [4, 2], "salt": 0}], "steps": [{"op": "mean0", "a": 0, "b": 0, "c": 0, "chunks": [4, 2]}], "outputs": [1]},
    {"n": 4, "inputs": [{"chunks": [2, 2], "salt": 0}], "steps": [{"op": "addself", "a": 0, "b": 0, "c": 0, "chunks": [2, 2]},
     {"op": "mul3", "a": 1, "b": 1, "c": 0, "chunks": [2, 2]}, {"op": "sum0", "a": 2, "b": 0, "c": 0, "chunks": [2, 2]}], "outputs": [1, 3]},
]


def oracle(ctx, nprog=None):
    nprog = nprog or ctx.budget(16, 70)
    progs = list(CORPUS) if not getattr(ctx, "_c02_corpus_done", False) else []
    ctx._c02_corpus_done = True
    for j in range(len(progs) + nprog):
        prog = progs[j] if j < len(progs) else dx.gen_dag_program(ctx.rng)
        try:
            expect_all = dx.numpy_values(prog)
        except Exception:
            continue
        expect = [expect_all[i] for i in prog["outputs"]]
        for label, mode, kwb in oracle_configs(ctx.rng, ctx.tier):
            work = tempfile.mkdtemp(prefix="c02-")
            try:
                try:
                    r = run_config(prog, label, mode, kwb, expect, work)
                except Declined as e:
                    ctx.dist["declined:" + str(e)] += 1
                    break  # build-time decline: nothing to compare for this program
                ctx.count({"program": prog, "optimizer": label}, nontrivial=mode != "none", kind="oracle:" + mode)
                if r is not None:
                    what, key = r
                    ctx.fail(what, {"program": prog, "optimizer": label}, key=key)
            finally:
                shutil.rmtree(work, ignore_errors=True)


def search(ctx):
    ctx.rng.seed(ctx.seed + 104729)
    oracle(ctx, nprog=ctx.budget(80, 400))


def replay(ctx, body):
    case = body.get("case", {})
    prog = case.get("program")
    if not prog:
        print("replay file has no program")
        return
    expect_all = dx.numpy_values(prog)
    expect = [expect_all[i] for i in prog["outputs"]]
    for label, mode, kwb in oracle_configs(ctx.rng, "quick")[:4]:
        work = tempfile.mkdtemp(prefix="c02-")
        try:
            print(label, "->", run_config(prog, label, mode, kwb, expect, work))
        finally:
            shutil.rmtree(work, ignore_errors=True)
