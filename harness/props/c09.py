"""C09 — Resume after a crash gives the same result and never trusts an incomplete array.

corr   : generated small programs (elementwise chains, reductions, multi-output unstack, rechunk with several stored
         chunks per task, 0-d results, structured-dtype intermediates, several computed arrays; fused and unfused).
         For EVERY crash point j (a store that lets j writes — metadata documents and chunks — through and then fails)
         the real crashed store and the real `compute(resume=True)` are compared with the Lean model (drivers/C09.lean):
         the write sequence of the clean run, the store at the crash (must be a prefix state of that sequence),
         refuse/complete, the operations executed on resume and the nodes marked `computed`, the writes of the resumed
         run, the chunks kept by the create step, the arrays that are complete.  zarr issues the stored-chunk writes
         of one task concurrently, so sequences are compared per task as sets (the model returns the groups).
oracle : the same experiments judged without the model: resumed result == uninterrupted result == NumPy; final store
         bytes == clean store bytes; an op is skipped only if every chunk of every output was present; ops that had
         finished before the crash are not re-run (except create-arrays and 0-d outputs); nothing is deleted, chunks
         present before resume are present with the same bytes after the create step; refusal only for plans with
         structured-dtype storage, up front (no op started, store untouched).
"""
from __future__ import annotations

import itertools
import math
import os
import shutil
import tempfile
import time

DRIVER = "C09"
RULE = ("fixed branching-resume scenarios first (first compute stores one branch with the shared intermediate fused away, resume adds a sibling branch; plus every crash point of the first compute; single-threaded and threads; vs NumPy); then fixed corpus, outside any time box, every crash point: unstack, qr (fused and unfused), svd — operations one "
        "task of which writes several output arrays; for every multi-output operation the crash points 'one output complete, "
        "a sibling incomplete' are additionally resumed with the threads executor, and the corpus is also crashed under the "
        "threads executor at every 2nd point; then generated "
        "programs: 1-2-d int64/float64 arrays of <=24 elements in <=12 chunks; kinds {chain, reduce, reduce0d, unstack, "
        "rechunk, two-outputs, concat, mean, argmax, zero(fill-only chunks), qr, svd} x optimize_graph in {False, True}; every "
        "crash point j in 0..total writes (metadata documents and chunk writes) with the single-threaded executor; resume "
        "with single-threaded at every point, threads at every 3rd point, processes at a few points; extra crashes under "
        "the threads executor (several tasks in flight); non-trivial = at least one chunk present at the crash and at "
        "least one operation still to run; distinct by (program, optimize, j, executor)")
ASSUMPTIONS = [
    "a chunk write is atomic: the injected crash happens between two store `set` calls, never inside one (zarr LocalStore writes a temporary file and renames; MemoryStore assigns a dict entry)",
    "zarr nchunks_initialized counts exactly the expected chunk keys present in the store (zarr 3.3.0 _shards_initialized)",
    "hypotheses of the theorems — single writer per stored chunk, topological order, tasks write exactly the chunks of their outputs — are evaluated by the driver on every real plan (wf=111)",
    "tasks are deterministic functions of the chunks they read",
]
TRUSTED = [
    "modelled not verified: zarr create_array/open_group behaviour per open mode (transcribed from open_zarr_v3_array and probed), executors' concurrency is covered by the interleaving theorem under the C07 hypothesis",
    "harness/crashstore.py (crash-injecting WrapperStore) and the callbacks used to observe executed operations",
]

EXECUTORS = ("single-threaded", "threads", "processes")


# ------------------------------------------------------------------------------------------------
# program generator
# ------------------------------------------------------------------------------------------------

def _chunks_for(rng, shape):
    return [rng.randint(1, s) if rng.random() < 0.8 else s for s in shape]


def gen_program(rng, kind=None):
    kinds = ["chain", "chain", "reduce", "reduce", "reduce0d", "unstack", "unstack", "rechunk", "rechunk", "two",
             "concat", "mean", "argmax", "zero", "qr", "svd"]
    kind = kind or rng.choice(kinds)
    if kind in ("qr", "svd"):
        # tall and skinny, one column block, row chunks = a multiple of the column count (the other shapes are C12's business)
        ncol = rng.choice([1, 2])
        rows_per_chunk = ncol * rng.choice([1, 2]) if ncol == 1 else 2
        nblocks = rng.randint(2, 4)
        return {"kind": kind, "shape": [rows_per_chunk * nblocks, ncol], "chunks": [rows_per_chunk, ncol], "steps": []}
    nd = 2 if kind in ("unstack", "rechunk", "concat", "argmax", "mean") else rng.choice([1, 2, 2])
    shape = [rng.randint(2, 4), rng.randint(2, 6)][:nd] if nd == 2 else [rng.randint(2, 8)]
    while math.prod(shape) > 24:
        shape[-1] -= 1
    chunks = _chunks_for(rng, shape)
    while math.prod(math.ceil(s / c) for s, c in zip(shape, chunks)) > 12:
        i = rng.randrange(nd)
        chunks[i] = min(shape[i], chunks[i] + 1)
    steps = []
    for _ in range(rng.randint(0, 2) if kind != "chain" else rng.randint(1, 4)):
        steps.append(rng.choice([["add", rng.randint(1, 5)], ["mul", rng.randint(2, 3)], ["neg"], ["addbase"]]))
    d = {"kind": kind, "shape": shape, "chunks": chunks, "steps": steps}
    if kind in ("reduce", "mean", "argmax"):
        d["axis"] = rng.randrange(nd)
        d["post"] = rng.random() < 0.5
    if kind == "reduce0d":
        d["post"] = rng.random() < 0.6
    if kind == "unstack":
        d["axis"] = rng.randrange(nd)
        n = shape[d["axis"]]
        k = rng.randint(1, n)
        d["pick"] = sorted(rng.sample(range(n), k))
        d["post"] = rng.random() < 0.4
    if kind == "rechunk":
        new = list(chunks)
        for _ in range(5):
            new = _chunks_for(rng, shape)
            if new != chunks:
                break
        d["newchunks"] = new
        d["post"] = rng.random() < 0.6
    if kind == "zero":
        d["post"] = rng.random() < 0.5
    if kind == "concat":
        d["axis"] = rng.randrange(nd)
    return d


def build(desc, spec):
    """-> (list of cubed arrays to compute together, list of NumPy expected values)."""
    import numpy as np

    import cubed.array_api as xp

    shape, chunks = tuple(desc["shape"]), tuple(desc["chunks"])
    if desc["kind"] in ("qr", "svd"):
        # several output arrays written by the same task; compared with the uninterrupted run (expected = None)
        base = (np.arange(1, math.prod(shape) + 1, dtype="float64").reshape(shape) ** 1.5) + np.eye(*shape)
        a = xp.asarray(base, chunks=chunks, spec=spec)
        if desc["kind"] == "qr":
            q, r = xp.linalg.qr(a)
            return [q, r], None
        u, sv, vh = xp.linalg.svd(a, full_matrices=False)
        return [u, sv, vh], None
    dtype = "float64" if desc["kind"] == "mean" else "int64"
    base = ((np.arange(math.prod(shape)) * 5) % 11 - 3).astype(dtype).reshape(shape)
    a = xp.asarray(base, chunks=chunks, spec=spec)
    x, xn = a, base
    first = True
    for st in desc["steps"]:
        if st[0] == "add":
            x, xn = xp.add(x, st[1]), xn + st[1]
        elif st[0] == "mul":
            x, xn = xp.multiply(x, st[1]), xn * st[1]
        elif st[0] == "neg":
            x, xn = xp.negative(x), -xn
        elif st[0] == "addbase":
            x, xn = xp.add(x, a), xn + base
        first = False
    if first and desc["kind"] in ("chain",):
        x, xn = xp.add(x, 1), xn + 1
    k = desc["kind"]
    if k == "chain":
        return [x], [xn]
    if k == "zero":
        z, zn = xp.multiply(x, 0), xn * 0          # every chunk equals the fill value
        if desc.get("post"):
            z, zn = xp.add(z, a), zn + base
        return [z], [zn]
    if k == "reduce":
        r, rn = xp.sum(x, axis=desc["axis"]), xn.sum(axis=desc["axis"])
        if desc.get("post"):
            r, rn = xp.add(r, 1), rn + 1
        return [r], [rn]
    if k == "reduce0d":
        r, rn = xp.sum(x), xn.sum()
        if desc.get("post"):
            r, rn = xp.add(r, 1), rn + 1
        return [r], [np.asarray(rn)]
    if k == "mean":
        r, rn = xp.mean(x, axis=desc["axis"]), xn.mean(axis=desc["axis"])
        if desc.get("post"):
            r, rn = xp.add(r, 1), rn + 1
        return [r], [rn]
    if k == "argmax":
        r, rn = xp.argmax(x, axis=desc["axis"]), xn.argmax(axis=desc["axis"])
        if desc.get("post"):
            r, rn = xp.add(r, 1), rn + 1
        return [r], [rn]
    if k == "unstack":
        parts = xp.unstack(x, axis=desc["axis"])
        pn = [np.take(xn, i, axis=desc["axis"]) for i in range(xn.shape[desc["axis"]])]
        outs, exp = [], []
        for j, i in enumerate(desc["pick"]):
            p, q = parts[i], pn[i]
            if desc.get("post") and j == 0:
                p, q = xp.add(p, 1), q + 1
            outs.append(p)
            exp.append(q)
        return outs, exp
    if k == "rechunk":
        r = x.rechunk(tuple(desc["newchunks"]))
        rn = xn
        if desc.get("post"):
            r, rn = xp.negative(r), -rn
        return [r], [rn]
    if k == "two":
        c, cn = xp.multiply(x, 2), xn * 2
        d, dn = xp.sum(c, axis=0), cn.sum(axis=0)
        return [c, d], [cn, dn]
    if k == "concat":
        y, yn = xp.add(a, 7), base + 7
        r, rn = xp.concat([x, y], axis=desc["axis"]), np.concatenate([xn, yn], axis=desc["axis"])
        return [r], [rn]
    raise ValueError(k)


# ------------------------------------------------------------------------------------------------
# one program under observation
# ------------------------------------------------------------------------------------------------

class Subject:
    """A program built once (same array objects, same plan for the crashed and the resumed compute) on a CrashStore
    whose wrapped store is replaced for every crash point."""

    def __init__(self, desc, optimize, local=False):
        import cubed
        import crashstore as cs

        self.cs = cs
        self.desc, self.optimize, self.local = desc, optimize, local
        self.tmpdirs = []
        self.store = cs.CrashStore(self._fresh_inner())
        self.spec = cubed.Spec(intermediate_store=self.store, allowed_mem="50MB", reserved_mem=0)
        self.arrays, self.expected = build(desc, self.spec)
        self.case = {"program": desc, "optimize_graph": optimize}

    def _fresh_inner(self):
        from zarr.storage import LocalStore, MemoryStore
        if self.local:
            d = tempfile.mkdtemp(prefix="c09-")
            self.tmpdirs.append(d)
            return LocalStore(d)
        return MemoryStore()

    def reset_store(self):
        self.store._store = self._fresh_inner()
        while len(self.tmpdirs) > 2:
            shutil.rmtree(self.tmpdirs.pop(0), ignore_errors=True)

    def close(self):
        for d in self.tmpdirs:
            shutil.rmtree(d, ignore_errors=True)

    def compute(self, executor="single-threaded", resume=None, callbacks=None):
        import cubed
        from cubed.runtime.create import create_executor
        opts = {"max_workers": 2} if executor == "processes" else {"max_workers": 4} if executor == "threads" else None
        return cubed.compute(*self.arrays, executor=create_executor(executor, opts), optimize_graph=self.optimize,
                             resume=resume, callbacks=callbacks)

    # -- the clean, traced run -------------------------------------------------------------------
    def clean(self):
        """Uninterrupted single-threaded run with get/set tracing.  Fills self.trace, self.tasks, self.plan,
        self.clean_snap, self.clean_values, self.total."""
        cs = self.cs
        self.reset_store()
        self.store.arm(None)
        self.store.state.trace_gets = True
        tr = make_tracer(self.store)
        try:
            vals = self.compute(callbacks=[tr])
        finally:
            self.store.state.trace_gets = False
        self.store.quiesce()
        events = list(self.store.state.events)
        self.trace = [("D:" if not cs.is_chunk_key(k) else "C:") + k for kind, k in events if kind == "set"]
        self.total = len(self.trace)
        self.clean_values = vals
        self.clean_snap = cs.snapshot(self.store)
        self.clean_docs = cs.metadata_keys(self.store)
        self._plan_info(events)
        return vals

    def _plan_info(self, events):
        import networkx as nx

        from cubed.core.array import plan as make_plan
        from cubed.storage.zarr import LazyZarrArray, open_if_lazy_zarr_array

        fin = make_plan(*self.arrays, optimize_graph=self.optimize)
        dag = fin.dag
        nodes = dict(dag.nodes(data=True))
        # tasks from the trace
        tasks, cur_op, reads, outs = {}, None, [], []
        for kind, k in events:
            if kind == "op":
                cur_op, reads, outs = k, [], []
                tasks.setdefault(k, [])
            elif kind == "get":
                if k not in reads:
                    reads.append(k)
            elif kind == "set":
                if self.cs.is_chunk_key(k):
                    outs.append(k)
            elif kind == "task":
                if outs:
                    tasks[cur_op].append(([r for r in reads if r not in outs], list(outs)))
                reads, outs = [], []
        arrays, ops = {}, []
        by_target = {}
        for n, d in nodes.items():
            t = d.get("target", None)
            if t is not None:
                by_target[id(t)] = n
        for name in nx.topological_sort(dag):
            d = nodes[name]
            if d.get("type") != "op":
                continue
            outputs = []
            for succ in dag.successors(name):
                t = nodes[succ].get("target", None)
                if t is None or d.get("pipeline") is None:
                    continue    # nodes without a pipeline (virtual in-memory inputs) have nothing in storage
                outputs.append(succ)
                if succ not in arrays:
                    arrays[succ] = self._array_info(succ, t, open_if_lazy_zarr_array)
            creates = []
            if name == "create-arrays":
                for lza in d["pipeline"].mappable:
                    an = by_target.get(id(lza))
                    if an is None:
                        continue
                    creates.append(an)
                    if an not in arrays:
                        arrays[an] = self._array_info(an, lza, open_if_lazy_zarr_array)
            ops.append({"name": name, "pipeline": d.get("pipeline") is not None, "outputs": outputs, "creates": creates,
                        "tasks": tasks.get(name, []), "num_tasks": getattr(d.get("primitive_op"), "num_tasks", None)})
        self.plan = {"arrays": arrays, "ops": ops}

    def _array_info(self, name, target, opener):
        path = getattr(target, "path", None) or name
        dtype = target.dtype
        structured = getattr(dtype, "fields", None) is not None
        z = opener(target)
        grid = []
        if structured:
            fields = list(dtype.fields)
            for f in fields:
                grid += _grid_keys(f"{path}/{f}", z[f])
            fdocs = [f"{path}/{f}/zarr.json" for f in fields]
            ndim = len(target.shape)
        else:
            grid = _grid_keys(path, z)
            fdocs = []
            ndim = z.ndim
        return {"name": name, "ndim": ndim, "structured": structured, "doc": f"{path}/zarr.json",
                "parents": ["zarr.json"], "fields": fdocs, "grid": grid,
                "nchunks": None if structured else int(z.nchunks)}

    # -- protocol ----------------------------------------------------------------------------------
    def plan_text(self):
        def lst(xs):
            return ",".join(xs) if xs else "-"
        arrs = ";".join("%s:%d:%d:%s:%s:%s:%s" % (a["name"], a["ndim"], int(a["structured"]), a["doc"], lst(a["parents"]),
                                                 lst(a["fields"]), lst(a["grid"])) for a in self.plan["arrays"].values())
        ops = ";".join("%s:%d:%s:%s:%s" % (o["name"], int(o["pipeline"]), lst(o["outputs"]), lst(o["creates"]),
                                           "~".join("%s>%s" % (lst(r), lst(w)) for r, w in o["tasks"]) or "-")
                       for o in self.plan["ops"])
        return (arrs or "-") + "|" + (ops or "-")

    # -- one crash point ---------------------------------------------------------------------------
    def crash(self, j, executor="single-threaded"):
        """Fresh store, let j writes through, fail afterwards.  -> observation dict of the interrupted compute."""
        cs = self.cs
        self.reset_store()
        import threading
        self.store.arm(j)
        tr = make_tracer(self.store)
        crashed, err = False, None
        before_threads = {t.ident for t in threading.enumerate()}
        try:
            self.compute(executor=executor, callbacks=[tr])
        except cs.InjectedCrash:
            crashed = True
        except BaseException as e:  # noqa: BLE001  (executors may wrap the failure)
            crashed = True
            err = type(e).__name__
        self.store.quiesce()
        if executor != "single-threaded":
            # a real crash kills the workers; here the in-flight tasks of the pool keep failing (and being retried) against
            # the downed store: wait until the pool's threads are gone before the store is brought up again
            t0 = time.time()
            while time.time() - t0 < 15:
                alive = [t for t in threading.enumerate() if t.ident not in before_threads
                         and t.name.startswith("ThreadPoolExecutor") and t.is_alive()]
                if not alive:
                    break
                time.sleep(0.01)
            self.store.quiesce()
        events = list(self.store.state.events)
        finished = []
        started = [k for kind, k in events if kind == "op"]
        for kind, k in events:
            if kind == "opend":
                finished.append(k)
        snap = cs.snapshot(self.store)
        docs = cs.metadata_keys(self.store)
        self.history = (getattr(self, "history", []) + [("crash", j, executor, list(self.store.state.debug))])[-4:]
        self.store.disarm()
        return {"j": j, "crashed": crashed, "wrapped_error": err, "snap": snap, "docs": docs,
                "ops_started": started, "ops_finished": finished,
                "writes": [k for kind, k in events if kind == "set"]}

    def resume(self, executor):
        """compute(resume=True) on whatever the store holds.  -> observation dict."""
        import numpy as np
        cs = self.cs
        before = cs.snapshot(self.store)
        self.store.disarm()
        rec = make_tracer(self.store, snap_after_create=True)
        out = {"executor": executor, "exception": None, "values_ok": None}
        try:
            vals = self.compute(executor=executor, resume=True, callbacks=[rec])
            out["values_ok"] = all(np.array_equal(v, e) and np.array_equal(v, c)
                                   for v, e, c in zip(vals, self.expected, self.clean_values))
            if not out["values_ok"]:
                out["values"] = [np.asarray(v).tolist() for v in vals]
        except BaseException as e:  # noqa: BLE001
            out["exception"] = type(e).__name__
            out["message"] = str(e)[:160]
        self.store.quiesce()
        events = list(self.store.state.events)
        out["ops_started"] = [k for kind, k in events if kind == "op"]
        out["computed_flags"] = rec.computed
        out["writes"] = [("D:" if not cs.is_chunk_key(k) else "C:") + k for kind, k in events if kind == "set"]
        out["deletes"] = [(kind, k) for kind, k in events if kind in ("delete", "delete_dir", "clear")]
        self.history = (getattr(self, "history", []) + [("resume", executor, list(self.store.state.debug))])[-4:]
        out["debug"] = list(self.history)
        out["before"] = before
        out["after_create"] = rec.after_create
        out["after"] = cs.snapshot(self.store)
        out["docs_after"] = cs.metadata_keys(self.store)
        return out


def _grid_keys(path, z):
    shape = tuple(getattr(z, "cdata_shape", ()))
    if len(shape) == 0:
        return [f"{path}/c"]
    return [f"{path}/c/" + "/".join(map(str, idx)) for idx in itertools.product(*[range(n) for n in shape])]


def make_tracer(store, snap_after_create=False):
    from cubed.runtime.types import Callback

    import crashstore as cs

    class Tracer(Callback):
        def __init__(self):
            self.after_create = None
            self.computed = None

        def on_compute_start(self, event):
            try:
                self.computed = {n: bool(d.get("computed", False)) for n, d in event.dag.nodes(data=True)
                                 if d.get("type") == "op"}
            except Exception:  # noqa: BLE001
                self.computed = None

        def on_operation_start(self, event):
            store.mark("op", event.name)

        def on_operation_end(self, event):
            store.mark("opend", event.name)
            if snap_after_create and event.name == "create-arrays":
                store.quiesce()
                self.after_create = cs.snapshot(store)

        def on_task_end(self, event):
            store.mark("task", event.name)

    return Tracer()


# ------------------------------------------------------------------------------------------------
# model answers
# ------------------------------------------------------------------------------------------------

def parse_answer(line):
    out = {}
    for part in line.split(" "):
        if "=" in part:
            k, v = part.split("=", 1)
            if k == "writes":
                out[k] = parse_groups(v)
            else:
                out[k] = [] if v == "-" else v.split(",")
    return out


def parse_groups(text):
    return [] if text == "-" else [g.split(",") for g in text.split(";")]


def matches_groups(groups, seq):
    """`seq` is the concatenation of the groups, each in some order (zarr issues the chunk writes of one task
    concurrently, so their order is not determined)."""
    i = 0
    for g in groups:
        if sorted(seq[i:i + len(g)]) != sorted(g):
            return False
        i += len(g)
    return i == len(seq)


def canon_state(docs, snap):
    return sorted(docs), sorted(snap)


# ------------------------------------------------------------------------------------------------
# direct oracle on one (crash, resume) observation — no model involved
# ------------------------------------------------------------------------------------------------

def judge(ctx, subj, cr, rs):
    case = dict(subj.case, crash_after_writes=cr["j"], crash_executor=cr.get("executor", "single-threaded"),
                resume_executor=rs["executor"], chunks_at_crash=sorted(cr["snap"]))
    plan = subj.plan
    arrays = plan["arrays"]
    has_structured = any(a["structured"] for a in arrays.values())
    present = set(cr["snap"])
    # nothing may ever be deleted by resume
    if rs["deletes"]:
        ctx.fail("resume deleted keys: %r" % (rs["deletes"][:4],), case)
    # chunks present before resume: still there, same bytes, after the create step and at the end
    for label, snap in (("after the create step", rs["after_create"]), ("at the end of the resumed compute", rs["after"])):
        if snap is None:
            continue
        lost = [k for k in rs["before"] if k not in snap]
        if lost:
            ctx.fail("chunks present before resume are gone %s: %r" % (label, lost[:4]), case)
        elif label == "after the create step":
            changed = [k for k, b in rs["before"].items() if snap.get(k) != b]
            if changed:
                ctx.fail("chunks present before resume changed bytes %s: %r" % (label, changed[:4]), case)
    if rs["exception"] is not None:
        # refusal: only for storage that cannot report completeness, explicit, up front
        ok_kind = rs["exception"] in ("NotImplementedError", "GroupNotFoundError", "KeyError")
        if not has_structured or not ok_kind:
            ctx.fail("compute(resume=True) raised %s: %s" % (rs["exception"], rs.get("message", "")), case)
        else:
            if rs["ops_started"] or rs["writes"]:
                ctx.fail("resume refused (%s) but not up front: operations started %r, writes %r"
                         % (rs["exception"], rs["ops_started"], rs["writes"][:4]), case)
            if rs["after"] != rs["before"]:
                ctx.fail("resume refused but the store changed", case)
        return
    # completed: same values as the uninterrupted run / NumPy
    if not rs["values_ok"]:
        ctx.fail("resumed compute returned values different from the uninterrupted run: %r" % (rs.get("values"),), case)
    # the whole store equals the store of the uninterrupted run (every array of the plan)
    if sorted(rs["after"]) != sorted(subj.clean_snap):
        ctx.fail("chunk keys after resume differ from the uninterrupted run: missing %r extra %r"
                 % (sorted(set(subj.clean_snap) - set(rs["after"]))[:4], sorted(set(rs["after"]) - set(subj.clean_snap))[:4]), case)
    else:
        diff = [k for k, b in subj.clean_snap.items() if rs["after"][k] != b]
        if diff:
            ctx.fail("chunk bytes after resume differ from the uninterrupted run: %r" % (diff[:4],), case)
    started = set(rs["ops_started"])
    for o in plan["ops"]:
        if not o["pipeline"]:
            continue
        outs = [arrays[a] for a in o["outputs"]]
        if o["name"] not in started:
            # skipped: every chunk of every output must have been there
            if not outs:
                ctx.fail("operation %s without stored outputs was skipped on resume" % o["name"], case)
            for a in outs:
                missing = [k for k in a["grid"] if k not in present]
                if missing:
                    ctx.fail("operation %s was skipped on resume although chunks %r of its output %s were missing"
                             % (o["name"], missing[:4], a["name"]), dict(case, skipped=o["name"]))
        else:
            # re-run: allowed only for create-arrays, 0-d outputs, or an op that had not finished
            if o["name"] == "create-arrays" or not outs or any(a["ndim"] == 0 for a in outs):
                continue
            finished = o["name"] in cr["ops_finished"]
            complete = all(k in present for a in outs for k in a["grid"])
            if finished or complete:
                ctx.fail("operation %s had %s before the interruption but was recomputed on resume"
                         % (o["name"], "finished" if finished else "all chunks of all outputs stored"),
                         dict(case, recomputed=o["name"]))


# ------------------------------------------------------------------------------------------------
# running the experiments
# ------------------------------------------------------------------------------------------------

_CACHE = {"obs": 0}


def decisive(plan, present):
    """Names of multi-output operations of which, in the store `present`, one output is complete and a sibling is not —
    the states in which 'all outputs must be complete' differs from 'some output is complete'."""
    out = []
    for o in plan["ops"]:
        outs = [plan["arrays"][a] for a in o["outputs"]]
        if len(outs) < 2:
            continue
        comp = [bool(a["grid"]) and all(k in present for k in a["grid"]) for a in outs]
        if any(comp) and not all(comp):
            out.append(o["name"])
    return out


def run_subject(ctx, desc, optimize, with_model, budget_deadline, procs_left, pending, corpus=False):
    """All crash points of one program.  Returns number of crash points evaluated; requests for the model are
    appended to `pending` (answered in one driver run per batch, see `flush`)."""
    subj = Subject(desc, optimize)
    n = 0
    try:
        try:
            subj.clean()
        except Exception as e:  # noqa: BLE001
            ctx.fail("uninterrupted compute failed: %r" % (e,), subj.case)
            return 0
        import numpy as np
        if subj.expected is None:
            subj.expected = [np.asarray(v) for v in subj.clean_values]
        elif not all(np.array_equal(v, e) for v, e in zip(subj.clean_values, subj.expected)):
            # wrong values without any crash are C01's business; resume is compared with the clean run
            ctx.notes.append("clean run differs from NumPy for %r (not a C09 matter)" % (desc,))
            subj.expected = [np.asarray(v) for v in subj.clean_values]
        plan_text = subj.plan_text()
        ctx.traces += 1
        reqs, what = [], []
        if with_model:
            reqs.append("trace|" + plan_text)
            what.append(("trace", None, None))
        has_structured = any(a["structured"] for a in subj.plan["arrays"].values())
        for j in range(subj.total + 1):
            if time.time() > budget_deadline:
                ctx.notes.append("time box reached inside %r" % (desc,))
                break
            execs = ["single-threaded"]
            if j % 5 == 2:
                execs.append("threads")
            for ex in execs:
                cr = subj.crash(j)
                dec = decisive(subj.plan, cr["snap"])
                if dec and ex == "single-threaded" and "threads" not in execs:
                    execs.append("threads")     # one output complete, a sibling not: also resume in parallel
                rs = subj.resume(ex)
                n += 1
                judge(ctx, subj, cr, rs)
                nontrivial = bool(cr["snap"]) and cr["crashed"]
                if dec:
                    ctx.dist["decisive:one-output-complete-sibling-incomplete"] += 1
                ctx.count({"program": desc, "optimize": optimize, "j": j, "executor": ex, "decisive_ops": dec,
                           "resumed_ops": rs["ops_started"], "outcome": rs["exception"] or "done"},
                          nontrivial=nontrivial,
                          kind="%s/%s/%s" % (desc["kind"], "fused" if optimize else "unfused", ex))
                if with_model:
                    reqs.append("crash|%s|%d|%s|%s" % (plan_text, j, ",".join(cr["docs"]) or "-",
                                                      ",".join(sorted(cr["snap"])) or "-"))
                    what.append(("crash", cr, rs))
        # crashes with several tasks in flight: the store at the crash is not a prefix of the sequential trace
        if not has_structured and subj.total >= 6 and time.time() < budget_deadline:
            js = sorted({subj.total // 2, subj.total - 2})
            if corpus:
                js = list(range(1, subj.total, 2))      # the corpus: several tasks in flight at every 2nd point
            for j in js:
                cr = subj.crash(j, executor="threads")
                cr["executor"] = "threads"
                rs = subj.resume("single-threaded")
                n += 1
                judge(ctx, subj, cr, rs)
                if decisive(subj.plan, cr["snap"]):
                    ctx.dist["decisive:one-output-complete-sibling-incomplete"] += 1
                ctx.count({"program": desc, "optimize": optimize, "threads_crash_after": j, "chunks": sorted(cr["snap"])},
                          nontrivial=bool(cr["snap"]), kind="%s/threads-crash" % desc["kind"])
                if with_model:
                    reqs.append("state|%s|%s|%s" % (plan_text, ",".join(cr["docs"]) or "-", ",".join(sorted(cr["snap"])) or "-"))
                    what.append(("state", cr, rs))
        if with_model and reqs:
            pending.append((subj, what, reqs))
    finally:
        subj.close()
    # a few points with the processes executor on a LocalStore
    if procs_left[0] > 0 and time.time() < budget_deadline:
        subj2 = Subject(desc, optimize, local=True)
        try:
            subj2.clean()
            js = sorted({subj2.total // 2, max(0, subj2.total - 1)})[: procs_left[0]]
            for j in js:
                procs_left[0] -= 1
                cr = subj2.crash(j)
                rs = subj2.resume("processes")
                n += 1
                judge(ctx, subj2, cr, rs)
                ctx.count({"program": desc, "optimize": optimize, "j": j, "executor": "processes",
                           "resumed_ops": rs["ops_started"]}, nontrivial=bool(cr["snap"]),
                          kind="%s/%s/processes" % (desc["kind"], "fused" if optimize else "unfused"))
        except Exception as e:  # noqa: BLE001
            ctx.fail("processes executor experiment failed: %r" % (e,), subj2.case)
        finally:
            subj2.close()
    return n


def compare(ctx, subj, what, ans):
    """Correspondence: model answers vs the implementation's observations."""
    case0 = subj.case
    for (kind, cr, rs), a in zip(what, ans):
        if kind == "trace":
            seq, _, rest = a.partition(" wf=")
            wf, _, flat = rest.partition(" flat=")
            model = parse_groups(seq)
            if not matches_groups(model, subj.trace):
                ctx.disagree("trace: write sequence of the uninterrupted sequential run (order inside one task free)",
                             case0, model[:40], subj.trace[:40])
            if wf != "111":
                ctx.disagree("hypotheses single-writer/topological/exact-cover hold on the real plan (wf bits)", case0, "111", wf)
            if flat != "1":
                ctx.disagree("driver: grouped sequence = Resume.trace", case0, flat, "1")
            continue
        m = parse_answer(a)
        case = dict(case0, j=cr["j"], resume_executor=rs["executor"])
        if kind == "crash":
            docs, chunks = canon_state(cr["docs"], cr["snap"])
            if m.get("prefix") != ["1"]:
                ctx.disagree("crash: store after j writes = a prefix of the write sequence", case,
                             "not a prefix state", {"docs": docs, "chunks": chunks})
        outcome = (m.get("outcome") or ["?"])[0]
        if rs["exception"] is not None:
            impl = "refused:" + ("NotImplementedError" if rs["exception"] == "NotImplementedError" else "structured-not-created"
                                 if rs["exception"] in ("GroupNotFoundError", "KeyError") else rs["exception"])
            if outcome != impl:
                ctx.disagree("resume: refuse / complete", case, outcome, impl)
            continue
        if outcome != "done":
            ctx.disagree("resume: refuse / complete", case, outcome, "done")
            continue
        if m.get("run") != rs["ops_started"]:
            ctx.disagree("resume: operations executed (toRun)", case, m.get("run"), rs["ops_started"])
        if rs["computed_flags"] is not None:
            skipped_model = sorted(o["name"] for o in subj.plan["ops"] if o["name"] not in (m.get("run") or []))
            skipped_impl = sorted(n for n, f in rs["computed_flags"].items() if f)
            if skipped_model != skipped_impl:
                ctx.disagree("resume: nodes marked computed (already_computed)", case, skipped_model, skipped_impl)
        mw = m.get("writes") or []
        flat = [w for g in mw for w in g]
        if rs["executor"] == "single-threaded":
            if not matches_groups(mw, rs["writes"]):
                ctx.disagree("resume: write sequence of the resumed run (order inside one task free)",
                             dict(case, debug=rs.get("debug", [])[:60]), mw[:40], rs["writes"][:40])
        elif sorted(flat) != sorted(rs["writes"]):
            ctx.disagree("resume: writes of the resumed run (as a multiset)", case, sorted(flat)[:40], sorted(rs["writes"])[:40])
        if m.get("lost") != ["0"]:
            ctx.disagree("create step keeps every chunk (model side)", case, m.get("lost"), "0")
        if m.get("refines") != ["1"]:
            ctx.disagree("model: resumed store = uninterrupted store on this instance", case, m.get("refines"), "1")
        complete_impl = sorted(a_["name"] for a_ in subj.plan["arrays"].values()
                               if a_["grid"] and all(k in cr["snap"] for k in a_["grid"]))
        if sorted(m.get("complete") or []) != complete_impl:
            ctx.disagree("complete arrays at the crash", case, sorted(m.get("complete") or []), complete_impl)


def flush(ctx, pending):
    """One driver run for all pending requests."""
    if not pending:
        return
    reqs = [r for _, _, rs in pending for r in rs]
    ans = ctx.lean.drive(DRIVER, reqs)
    i = 0
    for subj, what, rs in pending:
        compare(ctx, subj, what, ans[i:i + len(rs)])
        i += len(rs)
    del pending[:]


# operations one task of which writes several output arrays: every crash point, in every tier, before any time box
CORPUS = [
    ({"kind": "unstack", "shape": [3, 4], "chunks": [3, 2], "steps": [], "axis": 0, "pick": [0, 2], "post": False}, False),
    ({"kind": "qr", "shape": [8, 2], "chunks": [2, 2], "steps": []}, False),
    ({"kind": "qr", "shape": [6, 2], "chunks": [2, 2], "steps": []}, True),
    ({"kind": "svd", "shape": [6, 2], "chunks": [2, 2], "steps": []}, False),
]


def run_corpus(ctx, with_model, pending):
    n = 0
    never = time.time() + 10 ** 6
    for desc, optimize in CORPUS:
        n += run_subject(ctx, desc, optimize, with_model, never, [0], pending, corpus=True)
    return n


def campaign(ctx, n_programs, with_model, seconds, procs, corpus=True):
    import logging
    logging.getLogger("asyncio").setLevel(logging.CRITICAL)   # in-flight futures of a crashed threads run
    procs_left = [procs]
    pending = []
    total0 = run_corpus(ctx, with_model, pending) if corpus else 0
    deadline = time.time() + seconds
    kinds_first = ["chain", "reduce", "unstack", "rechunk", "reduce0d", "mean", "two", "zero", "argmax", "concat"]
    total = total0
    for i in range(n_programs):
        if time.time() > deadline:
            ctx.notes.append("time box reached after %d programs" % i)
            break
        desc = gen_program(ctx.rng, kinds_first[i] if i < len(kinds_first) else None)
        optimize = bool(i % 2) if i < 2 * len(kinds_first) else bool(ctx.rng.getrandbits(1))
        if i < len(kinds_first):
            optimize = (i % 2 == 1)
        total += run_subject(ctx, desc, optimize, with_model, deadline, procs_left, pending)
        # the same program with the other optimizer setting, for a third of the programs
        if ctx.rng.random() < 0.34 and time.time() < deadline:
            total += run_subject(ctx, desc, not optimize, with_model, deadline, procs_left, pending)
        if sum(len(r) for _, _, r in pending) > 1200:
            flush(ctx, pending)
    flush(ctx, pending)
    _CACHE["obs"] += total
    return total


def corr(ctx):
    from common import use_repo
    use_repo()
    n = campaign(ctx, ctx.budget(14, 120), True, ctx.budget(50, 520), ctx.budget(1, 8))
    ctx.notes.append("corr: %d (crash, resume) experiments, each also judged by the direct oracle" % n)
    if ctx.tier == "thorough":
        ctx.exhaustive = False


def oracle(ctx):
    """Direct oracle.  corr() already judged every experiment it ran with `judge` (which does not use the model); when
    corr did not run (the Lean build is broken) the same campaign is run here without the model."""
    from common import use_repo
    use_repo()
    branching_resume(ctx)
    if _CACHE["obs"] == 0:
        n = campaign(ctx, ctx.budget(14, 120), False, ctx.budget(50, 520), ctx.budget(1, 8))
        ctx.notes.append("oracle: %d (crash, resume) experiments without the model" % n)
    else:
        # an additional independent sample with fresh programs
        n = campaign(ctx, ctx.budget(4, 30), False, ctx.budget(15, 120), 0, corpus=False)
        ctx.notes.append("oracle: %d additional (crash, resume) experiments without the model" % n)
    fresh_resume(ctx)


def branching_resume(ctx):
    """Fixed must-hold scenarios, run first in every tier: a first compute stores one branch of a branching graph with the
    shared intermediate fused away (absent from storage); a second compute resumes with a sibling branch that needs that
    intermediate.  Resume must not mark the producer of the absent intermediate as computed.  Values vs NumPy."""
    import numpy as np

    import cubed
    import cubed.array_api as xp
    import crashstore as cs
    from cubed.runtime.create import create_executor
    from zarr.storage import MemoryStore

    xn = (np.arange(12, dtype="int64").reshape(3, 4) * 5) % 11 - 3
    an, bn = xn + 1, -(xn + 1)
    cn, en = an * 3, bn + 1
    dn = bn + cn

    def graph():
        store = cs.CrashStore(MemoryStore())
        spec = cubed.Spec(intermediate_store=store, allowed_mem="50MB", reserved_mem=0)
        x = xp.asarray(xn, chunks=(2, 2), spec=spec)
        a = xp.add(x, 1)
        b = xp.negative(a)
        c = xp.multiply(a, 3)
        d = xp.add(b, c)
        e = xp.add(b, 1)
        return store, {"b": b, "c": c, "d": d, "e": e}

    want = {"b": bn, "c": cn, "d": dn, "e": en}

    def ex(name):
        return create_executor(name, {"max_workers": 4} if name == "threads" else None)

    def second(case, arrs, names, executor, optimize):
        try:
            vals = cubed.compute(*[arrs[n] for n in names], executor=ex(executor), resume=True, optimize_graph=optimize)
        except BaseException as e_:  # noqa: BLE001
            ctx.fail("branching resume raised %s: %s" % (type(e_).__name__, str(e_)[:120]), case)
            return
        for n, v in zip(names, vals):
            if not np.array_equal(v, want[n]):
                ctx.fail("resume with a sibling branch returned wrong values for %s: %r (expected %r) — the producer of an "
                         "intermediate that is absent from storage was treated as computed"
                         % (n, np.asarray(v).tolist(), want[n].tolist()), case)
                return

    for executor in ("single-threaded", "threads"):
        for names, optimize in ((("b", "c"), True), (("d",), False), (("b", "c"), False), (("d",), True)):
            store, arrs = graph()
            case = {"scenario": "branching-resume", "graph": "a=x+1; b=-a; c=a*3; d=b+c", "first": "b.compute() (optimize on: a fused away)",
                    "second": "cubed.compute(%s, resume=True, optimize_graph=%s)" % (", ".join(names), optimize),
                    "executor": executor}
            try:
                arrs["b"].compute(executor=ex("single-threaded"))
            except BaseException as e_:  # noqa: BLE001
                ctx.fail("first compute failed: %r" % (e_,), case)
                continue
            store.quiesce()
            case["chunks_after_first"] = sorted(cs.snapshot(store))
            second(case, arrs, names, executor, optimize)
            ctx.count(case, nontrivial=True, kind="branching/%s" % executor)

    # crash variant: the first compute (b and e = b+1) is interrupted at every write; resume adds the sibling branch c
    store, arrs = graph()
    store.arm(None)
    cubed.compute(arrs["b"], arrs["e"], executor=ex("single-threaded"))
    store.quiesce()
    total = store.state.sets
    for j in range(total + 1):
        for executor in (("single-threaded", "threads") if j % 3 == 0 or j >= total - 2 else ("single-threaded",)):
            store, arrs = graph()
            store.arm(j)
            try:
                cubed.compute(arrs["b"], arrs["e"], executor=ex("single-threaded"))
            except cs.InjectedCrash:
                pass
            except BaseException:  # noqa: BLE001
                pass
            store.quiesce()
            snap = sorted(cs.snapshot(store))
            store.disarm()
            case = {"scenario": "branching-resume-after-crash", "graph": "a=x+1; b=-a; c=a*3; e=b+1",
                    "first": "cubed.compute(b, e) interrupted after %d writes" % j, "chunks_at_crash": snap,
                    "second": "cubed.compute(b, c, e, resume=True)", "executor": executor}
            second(case, arrs, ("b", "c", "e"), executor, True)
            ctx.count(case, nontrivial=bool(snap), kind="branching-crash/%s" % executor)


def fresh_resume(ctx):
    """resume=True on a store that was never written (crash before the first write) and on a completely computed
    store, for one program of each kind: special cases worth a named check."""
    for kind in ("chain", "unstack", "rechunk"):
        desc = gen_program(ctx.rng, kind)
        subj = Subject(desc, bool(ctx.rng.getrandbits(1)))
        try:
            subj.clean()
            for j in (0, subj.total):
                cr = subj.crash(j)
                rs = subj.resume("single-threaded")
                judge(ctx, subj, cr, rs)
                ctx.count({"program": desc, "edge": j}, nontrivial=False, kind="edge")
        except Exception as e:  # noqa: BLE001
            ctx.fail("edge experiment failed: %r" % (e,), subj.case)
        finally:
            subj.close()


def search(ctx):
    """A proof obligation or a correspondence relation no longer checks: look harder for a failing input."""
    from common import use_repo
    use_repo()
    ctx.rng.seed(ctx.seed + 7919)
    campaign(ctx, 40, False, 150 if ctx.tier == "quick" else 400, 2, corpus=False)


def replay(ctx, body):
    """Re-run the crash point described in a replay file and print what happens."""
    from common import use_repo
    use_repo()
    case = body.get("case", {})
    desc, opt = case.get("program"), case.get("optimize_graph", True)
    if not desc:
        print("replay file has no program")
        return
    subj = Subject(desc, opt, local=case.get("resume_executor") == "processes")
    try:
        subj.clean()
        j = case.get("crash_after_writes", case.get("j", 0))
        cr = subj.crash(j, executor=case.get("crash_executor", "single-threaded"))
        rs = subj.resume(case.get("resume_executor", "single-threaded"))
        print("program", desc, "optimize_graph", opt)
        print("crash after", j, "writes; chunks present:", sorted(cr["snap"]))
        print("resume:", rs["exception"] or "completed", "ops executed:", rs["ops_started"], "values_ok:", rs["values_ok"])
        n0 = len(ctx.failures)
        judge(ctx, subj, cr, rs)
        for f in ctx.failures[n0:]:
            print("FAIL:", f["what"])
    finally:
        subj.close()
