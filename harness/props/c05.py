"""C05 — Every stored chunk has exactly one writer task, written whole; outputs covered.

Observation: a tracing zarr store (Spec(intermediate_store=...), user targets wrapped too) plus a sequential
adversarial executor that marks the current task (harness/writetrace.py).  For a whole-chunk write zarr issues
one `set` and no `get`; for a partial one it does get-modify-set — that makes overlap observable.

corr   : (a) the real helpers `normalize_chunks`, `get_item`, `split_chunksizes`, `_fix_copy_chunks` vs the Lean
             model on generated numbers;
         (b) end-to-end traces: for every task of every operation, the chunk keys it `set` (and which of them it
             read first) vs the model's `taskWrites stored write coords`; stored grid of every rechunk stage vs
             `splitChunksizes` / `regular`; region stores: acceptance verdict (steps, `slice.indices`, alignment),
             task list and well-formedness vs the model's `regionAccept` / `RegionAxis.effective`; stores into
             existing arrays: `storeGuard` vs "a rechunk was inserted"; validates the planner hypotheses of
             C05_rechunk_regular_single_writer and C05_store_single_writer_holds on every real plan.
oracle : independent of Lean, on the same traces: every chunk key of the grid of every produced array is `set`
         by exactly one task, once, with no prior `get` by that task, nothing else is set, the computation does
         not die mid-run; region/store targets hold the source values inside and the sentinel outside.
"""
from __future__ import annotations

import itertools
import math
import warnings

DRIVER = "C05"
RULE = ("programs: elementwise/reduction chains (<=3 ops, 1-3 dims, sizes<=20, optimizer on/off), multi-output ops "
        "(unstack, qr), rechunks (1-3 dims, sizes<=60, both planners, budgets 5.2x..1000x the largest chunk and explicit "
        "min_mem to force 1-5 stages; patterns: general, thin strips spanning an axis, strips that neither span nor divide "
        "the axis), plus a plan-level sample of regular plans (no execution) whose every stage is checked, stores into new / existing arrays of equal, coarser, finer and sharded chunking "
        "(lazy and materialised sources, store and to_zarr), region stores (aligned / unaligned regions, equal and "
        "different source chunking, None / negative / beyond-the-end bounds, steps None/1/2/3/-1); task order forward/reverse/shuffled.  non-trivial = more than one "
        "task writes the array or a task writes more than one stored chunk; distinct by case description. "
        "numeric: n<=200, chunk sizes<=n+5, grids of <=3 axes with <=8 chunks")
ASSUMPTIONS = [
    "zarr-python turns a region write that covers a stored chunk (or shard) entirely into one `set` with no prior `get`, and a partial one into get-modify-set (observed on every trace: model 'whole' <=> no get-before-set)",
    "planner invariant used by C05_rechunk_regular_single_writer (copy chunk multiple of the stored chunk or spanning the axis) — validated on every real regular plan generated; proved for `_fix_copy_chunks`, the remaining stages belong to C14",
    "planner invariant used by C05_store_single_writer_holds (final copy chunks of the rechunk that _store_array inserts are multiples of the target chunks or span the axis: consolidate_chunks, C14) — validated on every traced store that inserts a rechunk",
    "arrays with a zero-length axis and empty regions are excluded (rechunk/store return early or write nothing)",
]
TRUSTED = ["modelled not verified: zarr's chunk decomposition of a slice write (SliceDimIndexer / is_complete_chunk), validated by the trace correspondence",
           "harness/writetrace.py: sequential executor with a process-global current-task marker (exact attribution because nothing runs concurrently)"]



# ---------------------------------------------------------------------------------------------------
# small helpers
# ---------------------------------------------------------------------------------------------------

def nats(xs):
    xs = list(xs)
    return ",".join(str(int(x)) for x in xs) if xs else "-"


def grids_txt(gs):
    gs = list(gs)
    return ";".join(nats(g) for g in gs) if gs else "-"


def py_regular(n, c):
    """independent reading of a regular chunk grid (used by the oracle / classifiers only)"""
    if n == 0:
        return [0]
    out, x = [], 0
    while x < n:
        out.append(min(c, n - x))
        x += c
    return out


def grid_of(z):
    """stored-object grid of a zarr array (shards when sharded), per axis tuple of sizes"""
    return tuple(tuple(int(s) for s in ax) for ax in z.write_chunk_sizes)


def overhang_keys(z):
    """keys of edge shards that overhang the array bounds.  zarr's sharding codec re-reads such a shard even when
    the write covers all of its in-bounds part (its inner edge chunk is never 'complete'), so a get-before-set of
    these keys says nothing about the task layout; single-writer is still required of them."""
    shards = getattr(z, "shards", None)
    if not shards:
        return set()
    per_axis = []
    for n, sh in zip(z.shape, shards):
        nk = -(-int(n) // int(sh))
        per_axis.append([(k, (k + 1) * int(sh) > int(n)) for k in range(nk)])
    return {tuple(k for k, _ in combo) for combo in itertools.product(*per_axis) if any(o for _, o in combo)}


def prod(xs):
    return math.prod(xs) if xs else 1


# ---------------------------------------------------------------------------------------------------
# case generation  (a case is a small JSON-serialisable dict; run_case interprets it)
# ---------------------------------------------------------------------------------------------------

CHAIN_OPS = ["neg", "add", "sum0", "sumall", "mean", "transpose", "concat", "index", "expand", "matmul"]


def gen_shape(rng, nd, hi):
    return [rng.randint(1, hi) for _ in range(nd)]


def gen_chunks(rng, shape, allow_big=True):
    out = []
    for n in shape:
        r = rng.random()
        if r < 0.15:
            out.append(n)
        elif r < 0.25 and allow_big:
            out.append(n + rng.randint(1, 3))
        else:
            out.append(rng.randint(1, n))
    return out


def gen_chain(rng):
    nd = rng.choice([1, 1, 2, 2, 3])
    shape = gen_shape(rng, nd, 20 if nd == 1 else 8 if nd == 2 else 5)
    return {"kind": "chain", "shape": shape, "chunks": gen_chunks(rng, shape),
            "ops": [rng.choice(CHAIN_OPS) for _ in range(rng.randint(1, 3))], "optimize": rng.random() < 0.6}


def gen_multi(rng):
    if rng.random() < 0.6:
        nd = rng.choice([2, 3])
        shape = [rng.randint(2, 6) for _ in range(nd)]
        return {"kind": "multi", "op": "unstack", "shape": shape, "chunks": gen_chunks(rng, shape, False),
                "axis": rng.randrange(nd), "optimize": rng.random() < 0.6}
    ncol = rng.randint(1, 4)
    rc = rng.randint(ncol, ncol + 3)
    return {"kind": "multi", "op": "qr", "shape": [rc * rng.randint(1, 4), ncol], "chunks": [rc, ncol], "optimize": True}


def gen_rechunk(rng):
    nd = rng.choice([1, 2, 2, 2, 3])
    hi = 40 if nd <= 2 else 10
    shape = gen_shape(rng, nd, hi)
    r = rng.random()
    pattern = "general"
    if nd == 2 and r < 0.3:       # transposition of long thin chunks that span an axis: several stages under a small budget
        pattern = "thin"
        shape = [rng.randint(8, 48), rng.randint(8, 48)]
        a, b = rng.randint(1, 2), rng.randint(1, 2)
        src, tgt = [shape[0], a], [b, shape[1]]
    elif nd == 2 and r < 0.65:    # … whose long side does NOT span the axis and does not divide it: the consolidated read
        pattern = "strips"        # chunk must be re-aligned (`_fix_copy_chunks`) with the first intermediate grid
        shape = [rng.randint(12, 60), rng.randint(12, 60)]
        a, b = rng.randint(1, 2), rng.randint(1, 2)
        src, tgt = [rng.randint(3, shape[0] - 1), a], [b, shape[1] if rng.random() < 0.7 else rng.randint(3, shape[1] - 1)]
    else:
        src, tgt = gen_chunks(rng, shape, False), gen_chunks(rng, shape, False)
    if pattern != "general" and rng.random() < 0.5:
        shape, src, tgt = shape[::-1], src[::-1], tgt[::-1]
    if pattern != "general" and rng.random() < 0.3:
        src, tgt = tgt, src
    big = max(prod([min(c, n) for c, n in zip(src, shape)]), prod([min(c, n) for c, n in zip(tgt, shape)])) * 8
    factor = rng.choice([5.2, 5.5, 6, 6.25, 7, 8, 10] if pattern == "strips" else [5.2, 5.5, 6, 7, 8, 10, 12, 16, 30, 1000])
    case = {"kind": "rechunk", "shape": shape, "src": src, "tgt": tgt, "irregular": rng.random() < (0.35 if pattern == "strips" else 0.5),
            "allowed_mem": int(big * factor), "pre": rng.random() < 0.3, "min_mem": None}
    if rng.random() < (0.5 if pattern != "general" else 0.3):
        case["min_mem"] = max(8, (case["allowed_mem"] // 5) // rng.choice([2, 3, 4, 8]))
    return case


def gen_store(rng):
    nd = rng.choice([1, 1, 2])
    shape = [rng.randint(2, 16) for _ in range(nd)]
    case = {"kind": "store", "shape": shape, "lazy": rng.random() < 0.5, "api": rng.choice(["store", "to_zarr"]),
            "existing": rng.random() < 0.8, "shards": None}
    tgt = [rng.randint(1, n) for n in shape]
    r = rng.random()
    if r < 0.2:
        src = list(tgt)
    elif r < 0.7:          # compatible: multiple of the target chunk, or spanning
        src = [n if rng.random() < 0.3 else min(n + 2, t * rng.randint(1, max(1, n // t))) for n, t in zip(shape, tgt)]
        src = [s if (s % t == 0 or s >= n) else t for s, t, n in zip(src, tgt, shape)]
    else:                  # arbitrary (may hit the known defect)
        src = [rng.randint(1, n) for n in shape]
    case["src"], case["tgt"] = src, tgt
    if case["existing"] and rng.random() < 0.2:
        case["shards"] = [t * rng.randint(1, 3) for t in tgt]
    if not case["existing"]:
        case["tgt"] = None
    return case


def raw_slice(rng, a, b, n):
    """a raw slice request that `slice.indices(n)` normalizes to [a, b) — None / negative / beyond-the-end bounds"""
    r = rng.random()
    start = None if (a == 0 and r < 0.3) else (a - n if (a > 0 and r < 0.45) or (a == 0 and r < 0.4) else a)
    r = rng.random()
    stop = None if (b == n and r < 0.3) else (b - n if (b < n and r < 0.3) else (n + rng.randint(1, 5) if (b == n and r < 0.45) else b))
    r = rng.random()
    step = None if r < 0.82 else 1 if r < 0.93 else rng.choice([2, 3, -1])
    return [start, stop, step]


def gen_region(rng):
    nd = rng.choice([1, 1, 2])
    tchunks = [rng.randint(1, 6) for _ in range(nd)]
    tshape = [rng.randint(c, 4 * c + 3) for c in tchunks]
    region = []
    aligned = rng.random() < 0.8
    for n, c in zip(tshape, tchunks):
        nch = -(-n // c)
        if aligned:
            i = rng.randrange(nch)
            j = rng.randint(i + 1, nch)
            a, b = i * c, min(j * c, n)
        else:
            a = rng.randrange(n)
            b = rng.randint(a + 1, n)
        region.append([a, b])
    src = []
    for (a, b), c in zip(region, tchunks):
        src.append(c if rng.random() < 0.6 else rng.randint(1, b - a + 1))
    slices = [raw_slice(rng, a, b, n) for (a, b), n in zip(region, tshape)]
    return {"kind": "region", "tshape": tshape, "tchunks": tchunks, "region": region, "slices": slices,
            "src": src, "api": rng.choice(["store", "to_zarr"]), "lazy": rng.random() < 0.5, "shards": None}


GENS = {"chain": gen_chain, "multi": gen_multi, "rechunk": gen_rechunk, "store": gen_store, "region": gen_region}
WEIGHTS = {"chain": 18, "multi": 8, "rechunk": 36, "store": 18, "region": 20}

# regression cases that must hold: the triggers of the two defects repaired by d416aac / ba97b91 (Properties/C05.lean:
# storeWitness / storeRegression, regionWitness) and relatives, plus a few fixed healthy programs
FIXED = [
    {"kind": "store", "shape": [4, 4], "src": [1, 1], "tgt": [4, 4], "lazy": False, "api": "store", "existing": True, "shards": None},
    {"kind": "store", "shape": [8, 4], "src": [8, 3], "tgt": [3, 2], "lazy": True, "api": "store", "existing": True, "shards": None},
    {"kind": "store", "shape": [2, 4], "src": [1, 1], "tgt": [2, 4], "lazy": True, "api": "to_zarr", "existing": True, "shards": None},
    {"kind": "region", "tshape": [16], "tchunks": [4], "region": [[0, 8]], "slices": [[0, 8, None]], "src": [8],
     "api": "store", "lazy": False, "shards": None},
    {"kind": "region", "tshape": [16], "tchunks": [4], "region": [[0, 16]], "slices": [[0, 16, None]], "src": [8],
     "api": "store", "lazy": False, "shards": None},
    {"kind": "region", "tshape": [10], "tchunks": [4], "region": [[0, 8]], "slices": [[None, -2, None]], "src": [7],
     "api": "store", "lazy": False, "shards": None},
    {"kind": "region", "tshape": [16], "tchunks": [4], "region": [[4, 12]], "slices": [[4, 12, None]], "src": [2],
     "api": "to_zarr", "lazy": True, "shards": None},
    {"kind": "region", "tshape": [11], "tchunks": [6], "region": [[0, 11]], "slices": [[None, None, None]], "src": [3],
     "api": "to_zarr", "lazy": False, "shards": None},
    {"kind": "region", "tshape": [16], "tchunks": [4], "region": [[0, 8]], "slices": [[0, 8, 2]], "src": [4],
     "api": "store", "lazy": False, "shards": None},
    {"kind": "store", "shape": [16], "src": [4], "tgt": [2], "lazy": True, "api": "to_zarr", "existing": True, "shards": [8]},
    {"kind": "region", "tshape": [10], "tchunks": [4], "region": [[4, 10]], "slices": [[4, None, None]], "src": [4],
     "api": "to_zarr", "lazy": False, "shards": None},
    {"kind": "rechunk", "shape": [40, 30], "src": [40, 1], "tgt": [1, 30], "irregular": True, "allowed_mem": 4000, "pre": False, "min_mem": None},
    {"kind": "rechunk", "shape": [40, 30], "src": [40, 1], "tgt": [1, 30], "irregular": False, "allowed_mem": 4000, "pre": False, "min_mem": None},
    {"kind": "rechunk", "shape": [40, 30], "src": [7, 4], "tgt": [5, 9], "irregular": True, "allowed_mem": 8000, "pre": True, "min_mem": None},
    # column strips that neither span nor divide the axis, tight budget => 3 regular stages; the first copy chunk must be
    # re-aligned with the first intermediate grid ((26,2) -> (25,2) against stored chunk (5,2))
    {"kind": "rechunk", "shape": [60, 60], "src": [26, 1], "tgt": [1, 60], "irregular": False, "allowed_mem": 3000, "pre": False, "min_mem": None},
    {"kind": "rechunk", "shape": [60, 60], "src": [26, 1], "tgt": [1, 60], "irregular": True, "allowed_mem": 3000, "pre": False, "min_mem": None},
    {"kind": "rechunk", "shape": [60, 60], "src": [1, 26], "tgt": [60, 1], "irregular": False, "allowed_mem": 3000, "pre": True, "min_mem": None},
    {"kind": "rechunk", "shape": [50, 33], "src": [17, 2], "tgt": [2, 33], "irregular": False, "allowed_mem": 2800, "pre": False, "min_mem": 140},
    {"kind": "multi", "op": "qr", "shape": [8, 4], "chunks": [4, 4], "optimize": True},
    {"kind": "multi", "op": "unstack", "shape": [4, 6], "chunks": [2, 3], "axis": 0, "optimize": True},
]


def gen_case(rng, kinds=None):
    kinds = kinds or list(GENS)
    kind = rng.choices(kinds, weights=[WEIGHTS[k] for k in kinds])[0]
    case = GENS[kind](rng)
    case["order"] = rng.choice(["forward", "reverse", "shuffle"])
    case["xseed"] = rng.randrange(1000)
    return case


# ---------------------------------------------------------------------------------------------------
# running a case under the tracing store / executor
# ---------------------------------------------------------------------------------------------------

class Run:
    def __init__(self, case):
        self.case = case
        self.status = "ok"          # ok | refused:<msg> | crashed:<msg>
        self.ops = []               # dict(name, op_name, tasks=[coords], outputs=[dict(arr=(label,path), shape, stored, wchunks, wgrid)])
        self.trace = {}             # (label,path) -> task -> dict(set,get,rmw)
        self.stages = None          # rechunk: [(copy_chunks, target_chunks)]
        self.values_ok = None       # store / region: target content as expected
        self.values_note = ""
        self.region_expected = None  # region: set of target chunk coords the region meets (computed in python)
        self.target_arr = None       # (label, path) of the user target


def _np_source(shape):
    import numpy as np
    return (np.arange(prod(shape), dtype="float64") + 1.0).reshape(tuple(shape))


def run_case(case):
    """Interpret `case` on the tree under test; never raises (exceptions become the status)."""
    import numpy as np
    import zarr

    import cubed
    import cubed.array_api as xp
    import writetrace as wt

    wt.TRACE.reset()
    run = Run(case)
    inter = wt.memory_store("I")
    spec = cubed.Spec(intermediate_store=inter, allowed_mem=case.get("allowed_mem", 200_000_000), reserved_mem=0)
    ex = wt.trace_executor(case.get("order", "forward"), case.get("xseed", 0))
    kind = case["kind"]
    z = None
    src_np = None
    try:
        with warnings.catch_warnings():
            warnings.simplefilter("ignore")
            if kind == "chain":
                a = xp.asarray(_np_source(case["shape"]), chunks=tuple(case["chunks"]), spec=spec)
                for op in case["ops"]:
                    a = _apply_chain_op(xp, a, op)
                a.compute(executor=ex, optimize_graph=case["optimize"])
            elif kind == "multi":
                if case["op"] == "unstack":
                    a = xp.asarray(_np_source(case["shape"]), chunks=tuple(case["chunks"]), spec=spec)
                    outs = xp.unstack(xp.negative(a), axis=case["axis"])
                    cubed.compute(*outs, executor=ex, optimize_graph=case["optimize"])
                else:
                    rs = np.random.RandomState(case.get("xseed", 0))
                    a = xp.asarray(rs.rand(*case["shape"]), chunks=tuple(case["chunks"]), spec=spec)
                    q, r = xp.linalg.qr(a)
                    cubed.compute(q, r, executor=ex, optimize_graph=case["optimize"])
            elif kind in ("rechunk", "rechunk1"):
                a = xp.asarray(_np_source(case["shape"]), chunks=tuple(case["src"]), spec=spec)
                if case.get("pre"):
                    a = xp.negative(a)
                if kind == "rechunk":
                    from cubed.core.ops import _rechunk_plan
                    run.stages = [(tuple(c), tuple(t)) for c, t in
                                  _rechunk_plan(a, tuple(case["tgt"]), min_mem=case.get("min_mem"), allow_irregular=case["irregular"])]
                    b = a.rechunk(tuple(case["tgt"]), min_mem=case.get("min_mem"), allow_irregular=case["irregular"])
                else:       # one copy stage with given copy / target chunks (lifting of numeric disagreements)
                    from cubed.core.ops import _rechunk
                    run.stages = [(tuple(case["copy"]), tuple(case["target"]))]
                    b = _rechunk(a, tuple(case["copy"]), tuple(case["target"]), allow_irregular=case["irregular"])
                res = b.compute(executor=ex)
                want = -_np_source(case["shape"]) if case.get("pre") else _np_source(case["shape"])
                run.values_ok = bool(np.array_equal(res, want))
            elif kind == "store":
                src_np = _np_source(case["shape"])
                a = xp.asarray(src_np, chunks=tuple(case["src"]), spec=spec)
                if case["lazy"]:
                    a = xp.negative(a)
                    src_np = -src_np
                tstore = wt.memory_store("T")
                if case["existing"]:
                    wt.TRACE.on = False
                    z = zarr.create_array(tstore, shape=tuple(case["shape"]), chunks=tuple(case["tgt"]), dtype="float64",
                                          shards=tuple(case["shards"]) if case["shards"] else None, name="tgt", fill_value=-1.0)
                    wt.TRACE.on = True
                    target = z
                else:
                    target = tstore
                if case["api"] == "store":
                    cubed.store(a, target, executor=ex)
                else:
                    cubed.to_zarr(a, target, executor=ex)
                if z is None:
                    z = zarr.open_array(tstore)
                run.target_arr = ("T", z.path)
                run.values_ok = bool(np.array_equal(z[...], src_np))
            elif kind == "region":
                shape = [b - a_ for a_, b in case["region"]]
                src_np = _np_source(shape)
                a = xp.asarray(src_np, chunks=tuple(case["src"]), spec=spec)
                if case["lazy"]:
                    a = xp.negative(a)
                    src_np = -src_np
                tstore = wt.memory_store("T")
                wt.TRACE.on = False
                z = zarr.create_array(tstore, shape=tuple(case["tshape"]), chunks=tuple(case["tchunks"]), dtype="float64",
                                      shards=tuple(case["shards"]) if case["shards"] else None, name="tgt", fill_value=-1.0)
                wt.TRACE.on = True
                run.target_arr = ("T", z.path)
                region = tuple(slice(*sl) for sl in case["slices"])
                if case["api"] == "store":
                    cubed.store(a, z, regions=region, executor=ex)
                else:
                    cubed.to_zarr(a, z, region=region, executor=ex)
            else:
                raise AssertionError("unknown case kind %r" % kind)
    except Exception as e:  # noqa: BLE001 - the status is the observation
        msg = "%s: %s" % (type(e).__name__, str(e)[:120])
        run.status = ("crashed:" if wt.TRACE.ops else "refused:") + msg
    wt.TRACE.task = None
    wt.TRACE.on = False
    # target content (even after a crash: shows what was left behind)
    if kind == "region" and z is not None and not run.status.startswith("refused"):
        try:
            full = z[...]
            want = np.full(tuple(case["tshape"]), -1.0)
            want[tuple(slice(lo, hi) for lo, hi in case["region"])] = src_np
            run.values_ok = bool(np.array_equal(full, want))
        except Exception as e:  # noqa: BLE001
            run.values_ok = False
            run.values_note = repr(e)[:80]
    # what each operation was supposed to write
    from cubed.utils import normalize_chunks
    for op in wt.TRACE.ops:
        o = {"name": op["name"], "op_name": op["op_name"], "tasks": [t for t in op["inputs"]], "outputs": []}
        for _, proxy in op["writes"]:
            try:
                obj = proxy.open()
            except Exception:  # noqa: BLE001 - array never created (crash before)
                continue
            arrs = list(obj.values()) if isinstance(obj, dict) else [obj]
            for za in arrs:
                shape = tuple(int(s) for s in za.shape)
                try:
                    wgrid = tuple(tuple(int(x) for x in ax) for ax in normalize_chunks(proxy.chunks, shape=shape, dtype=za.dtype))
                except Exception:  # noqa: BLE001
                    wgrid = None
                o["outputs"].append({"arr": (getattr(za.store, "label", "?"), za.path), "shape": shape, "stored": grid_of(za),
                                     "overhang": overhang_keys(za), "wchunks": _chunks_repr(proxy.chunks), "wgrid": wgrid})
        run.ops.append(o)
    run.trace = wt.per_task()
    wt.TRACE.on = True
    return run


def _chunks_repr(chunks):
    try:
        return tuple(int(c) for c in chunks)
    except TypeError:       # not a regular chunk size (only a broken tree puts a rectangular grid here)
        return tuple(tuple(int(x) for x in c) if isinstance(c, (tuple, list)) else c for c in chunks)


def _apply_chain_op(xp, a, op):
    if op == "neg":
        return xp.negative(a)
    if op == "add":
        return xp.add(a, a)
    if op == "sum0" and a.ndim >= 1:
        return xp.sum(a, axis=0)
    if op == "sumall":
        return xp.sum(a)
    if op == "mean" and a.ndim >= 1:
        return xp.mean(a, axis=-1)
    if op == "transpose" and a.ndim >= 2:
        return xp.permute_dims(a, tuple(reversed(range(a.ndim))))
    if op == "concat" and a.ndim >= 1:
        return xp.concat([a, a], axis=0)
    if op == "index" and a.ndim >= 1 and a.shape[0] > 1:
        return a[1:]
    if op == "expand":
        return xp.expand_dims(a, axis=0)
    if op == "matmul" and a.ndim == 2:
        return xp.matmul(a, xp.permute_dims(a, (1, 0)))
    return xp.negative(a)


# ---------------------------------------------------------------------------------------------------
# no known defects are left for this property: both former findings are fixed in /repo (d416aac, ba97b91), so every
# oracle failure is unclassified (a VIOLATION)
# ---------------------------------------------------------------------------------------------------

def as_store(case):
    """the plain-store reading of a case: a store, or a 'region' whose slices are all slice(None) (which
    `_store_array` treats as no region at all)"""
    if case["kind"] == "store":
        return case
    if case["kind"] == "region" and all(sl == [None, None, None] for sl in case["slices"]):
        return {"kind": "store", "shape": case["tshape"], "src": case["src"], "tgt": case["tchunks"], "existing": True,
                "shards": case.get("shards")}
    return None


def classify(case, what):
    return None


# ---------------------------------------------------------------------------------------------------
# direct oracle on one run (independent of the Lean model)
# ---------------------------------------------------------------------------------------------------

def expected_keys(case, out, target_arr):
    """chunk keys the computation must write in array `out`: the whole grid, or — region store target — the
    chunks that meet the region."""
    ranges = [range(len(ax)) for ax in out["stored"]]
    if case["kind"] == "region" and out["arr"] == target_arr:
        sel = []
        for ax, (a, b) in zip(out["stored"], case["region"]):
            offs = [0]
            for s in ax:
                offs.append(offs[-1] + s)
            sel.append([k for k in range(len(ax)) if max(offs[k], a) < min(offs[k + 1], b)])
        ranges = sel
    return set(itertools.product(*ranges))


def oracle_run(ctx, run):
    case = run.case
    found = []          # (what, detail)
    if run.status.startswith("crashed"):
        found.append(("crash", "the computation died mid-run: " + run.status[8:]))
    if run.status.startswith("refused"):
        return found
    seen_arrays = {}
    for op in run.ops:
        for out in op["outputs"]:
            seen_arrays.setdefault(out["arr"], out)
    for arr, out in seen_arrays.items():
        writers = {}
        for task, v in run.trace.get(arr, {}).items():
            for c in set(v["set"]):
                writers.setdefault(c, []).append((task, v["set"].count(c), c in v["rmw"]))
        exp = expected_keys(case, out, run.target_arr)
        for k in sorted(exp):
            w = writers.get(k, [])
            if not w:
                if not run.status.startswith("crashed"):
                    found.append(("never-written", "chunk %s of %s is never written" % (list(k), arr[1])))
            elif len(w) > 1:
                found.append(("several-writers", "chunk %s of %s is written by %d tasks: %s" % (list(k), arr[1], len(w), [t[0][:2] + (list(t[0][2]),) for t in w][:4])))
            else:
                if w[0][1] != 1:
                    found.append(("written-twice", "chunk %s of %s is set %d times by task %s" % (list(k), arr[1], w[0][1], w[0][0])))
                if w[0][2] and k in out["overhang"]:
                    ctx.dist["zarr-edge-shard-reread"] += 1
                elif w[0][2]:
                    found.append(("partial-write", "chunk %s of %s is written by read-modify-write (task %s)" % (list(k), arr[1], w[0][0])))
        for k in sorted(set(writers) - exp):
            found.append(("outside", "chunk %s of %s is written although it is not part of the output region" % (list(k), arr[1])))
    if run.values_ok is False:
        found.append(("values", "target content differs from the source values inside / sentinel outside the written region " + run.values_note))
    # one report per kind of failure
    seen, res = set(), []
    for what, detail in found:
        if what not in seen:
            seen.add(what)
            res.append((what, detail))
    return res


def report(ctx, run, fails):
    for what, detail in fails:
        ctx.fail("%s: %s" % (what, detail), dict(run.case), key=classify(run.case, what))


def nontrivial(run):
    for arr, d in run.trace.items():
        writers = [t for t, v in d.items() if v["set"]]
        if len(writers) > 1 or any(len(set(v["set"])) > 1 for v in d.values()):
            return True
    return False


# ---------------------------------------------------------------------------------------------------
# the shared sample of traced runs
# ---------------------------------------------------------------------------------------------------

def sample_runs(ctx, n, kinds=None, fixed=True):
    runs = []
    cases = ([dict(c, order="reverse", xseed=0) for c in FIXED] if fixed else []) + [gen_case(ctx.rng, kinds) for _ in range(n)]
    for case in cases:
        run = run_case(case)
        ctx.traces += 1
        stat = run.status.split(":")[0]
        sub = case["kind"] + (":irregular" if case.get("irregular") else ":regular" if case["kind"].startswith("rechunk") else "")
        ctx.count({"case": case, "status": run.status[:60]}, nontrivial=nontrivial(run), kind="%s:%s" % (sub, stat))
        if run.stages is not None:
            ctx.dist["rechunk-stages:%d" % len(run.stages)] += 1
        runs.append(run)
    return runs


def get_runs(ctx):
    if not hasattr(ctx, "_c05_runs"):
        ctx._c05_runs = sample_runs(ctx, ctx.budget(260, 3200))
    return ctx._c05_runs


# ---------------------------------------------------------------------------------------------------
# correspondence
# ---------------------------------------------------------------------------------------------------

def corr_numeric(ctx):
    """real helper functions vs the model on generated numbers"""
    import numpy as np  # noqa: F401

    from cubed.core.ops import split_chunksizes
    from cubed.core.rechunk import _fix_copy_chunks
    from cubed.utils import get_item, normalize_chunks

    rng = ctx.rng
    reqs, exp, rel, cases = [], [], [], []
    n_each = ctx.budget(600, 6000)
    for i in range(n_each):
        n = rng.randint(0, 12) if i % 10 == 0 else rng.randint(1, 200)
        sc, tc = rng.randint(1, n + 5), rng.randint(1, n + 5)
        if rng.random() < 0.3:
            sc = tc * rng.randint(1, 4)
        reqs.append("split|%d|%d|%d" % (n, sc, tc))
        exp.append(nats(split_chunksizes(n, sc, tc)))
        rel.append("splitChunksizes = split_chunksizes")
        cases.append({"n": n, "sc": sc, "tc": tc})
    for i in range(n_each):
        n = rng.randint(1, 200)
        cc, tc = rng.randint(1, n), rng.randint(1, n)
        if rng.random() < 0.2:
            cc = n
        reqs.append("fix|%d|%d|%d" % (n, cc, tc))
        exp.append(str(int(_fix_copy_chunks((n,), (cc,), (tc,))[0])))
        rel.append("fixCopy = _fix_copy_chunks")
        cases.append({"n": n, "cc": cc, "tc": tc})
    for i in range(n_each // 2):
        n = rng.randint(0, 3) if i % 15 == 0 else rng.randint(1, 200)
        c = rng.randint(1, n + 5)
        reqs.append("regular|%d|%d" % (n, c))
        exp.append(nats(normalize_chunks((c,), shape=(n,), dtype="float64")[0]))
        rel.append("regular = normalize_chunks")
        cases.append({"n": n, "c": c})
    for i in range(n_each // 2):
        nd = rng.randint(0, 3)
        grids = [[rng.randint(1, 9) for _ in range(rng.randint(1, 8))] for _ in range(nd)]
        idx = [rng.randrange(len(g) + (1 if rng.random() < 0.1 else 0)) for g in grids]
        reqs.append("getitem|%s|%s" % (grids_txt(grids), nats(idx)))
        try:
            sl = get_item(tuple(tuple(g) for g in grids), tuple(idx))
            e = ",".join("%d:%d" % (s.start, s.stop) for s in sl) if sl else "-"
        except IndexError:
            e = "IndexError"
        exp.append(e)
        rel.append("getItemN = get_item")
        cases.append({"grids": grids, "idx": idx})
    for i in range(n_each // 2):
        n = rng.randint(0, 30)
        a = rng.choice([None, rng.randint(-n - 5, n + 5)])
        b = rng.choice([None, rng.randint(-n - 5, n + 5)])
        lo, hi = slice(a, b).indices(n)[:2]
        reqs.append("slice|%d|%s|%s" % (n, "N" if a is None else a, "N" if b is None else b))
        exp.append("%d:%d" % (lo, hi))
        rel.append("sliceIndices = slice.indices")
        cases.append({"n": n, "start": a, "stop": b})
    ans = ctx.lean.drive(DRIVER, reqs)
    for rq, e, a, r, c in zip(reqs, exp, ans, rel, cases):
        ctx.count({"numeric": rq}, nontrivial=True, kind="numeric:" + rq.split("|")[0])
        if e != a:
            ctx.disagree(r, dict(c, request=rq), a, e)


def observed_writes(run, arr, task, overhang=()):
    v = run.trace.get(arr, {}).get(task)
    if not v or not v["set"]:
        return "-"
    return ";".join("%s:%s" % (",".join(map(str, c)), "P" if (c in v["rmw"] and c not in overhang) else "W")
                    for c in sorted(set(v["set"])))


def corr_traces(ctx, runs):
    reqs, exp, rel, cases = [], [], [], []
    cap = ctx.budget(30, 60)
    for run in runs:
        case = run.case
        if run.status != "ok":
            continue
        # (1) per task: set keys / whole-ness vs the model
        for op in run.ops:
            tasks = list(enumerate(op["tasks"]))
            if len(tasks) > cap:
                tasks = ctx.rng.sample(tasks, cap)
            for out in op["outputs"]:
                if out["wgrid"] is None:
                    continue
                for i, coords in tasks:
                    if not isinstance(coords, tuple):
                        continue
                    reqs.append("writes|%s|%s|%s" % (grids_txt(out["stored"]), grids_txt(out["wgrid"]), nats(coords)))
                    exp.append(observed_writes(run, out["arr"], (op["name"], i, coords), out["overhang"]))
                    rel.append("taskWrites = keys set by the task (W: no prior get, P: get-modify-set)")
                    cases.append({"case": case, "op": op["op_name"], "array": out["arr"][1], "task": list(coords)})
        # (2) stored grid of each rechunk stage
        if run.stages is not None:
            rops = [op for op in run.ops if op["op_name"] == "rechunk"]
            if len(rops) != len(run.stages):
                ctx.disagree("number of rechunk operations = number of planned copy stages", {"case": case}, len(run.stages), len(rops))
            else:
                for (copy, target), op in zip(run.stages, rops):
                    out = op["outputs"][0]
                    for ax, (n, cc, tc) in enumerate(zip(out["shape"], copy, target)):
                        if case["irregular"]:
                            reqs.append("split|%d|%d|%d" % (n, min(cc, n), tc))
                            rel.append("stored grid of an irregular rechunk stage = splitChunksizes n copy target")
                        else:
                            reqs.append("regular|%d|%d" % (n, tc))
                            rel.append("stored grid of a regular rechunk stage = regular n target")
                            if not (min(cc, n) % min(tc, n) == 0 or cc >= n):
                                ctx.disagree("planner invariant: copy chunk multiple of stored chunk or spans the axis",
                                             {"case": case, "axis": ax, "copy": list(copy), "target": list(target)}, "holds", "violated")
                        exp.append(nats(out["stored"][ax]))
                        cases.append({"case": case, "axis": ax, "copy": list(copy), "target": list(target)})
                    if tuple(out["wchunks"]) != tuple(min(c, n) for c, n in zip(copy, out["shape"])):
                        ctx.disagree("write proxy chunks of a rechunk stage = its copy chunks", {"case": case},
                                     list(copy), list(out["wchunks"]))
    # (3) region stores: acceptance verdict (step / normalized bounds / alignment), task list, well-formedness
    #     (all region runs, also refused / crashed ones)
    def opt(v):
        return "N" if v is None else str(int(v))
    for run in runs:
        case = run.case
        if case["kind"] != "region" or case.get("shards") or as_store(case) is not None:
            continue
        axes = ";".join("%d,%d,%s,%s,%s,%d" % (n, ct, opt(sl[0]), opt(sl[1]), opt(sl[2]), cs) for n, ct, sl, cs in
                        zip(case["tshape"], case["tchunks"], case["slices"], case["src"]))
        refused_region = run.status.startswith("refused:ValueError: Region")
        if run.status.startswith("refused") and not refused_region:
            continue
        tasks = "-"
        for op in run.ops:
            if any(o["arr"] == run.target_arr for o in op["outputs"]):
                tasks = ";".join(nats(t) for t in sorted(op["tasks"])) or "-"
        if refused_region:
            e = "refused"
        else:
            ok = run.status == "ok" and run.values_ok is True
            e = "accepted %s tasks=%s ok=%s" % (",".join("%d:%d" % (a, b) for a, b in case["region"]), tasks, "true" if ok else "false")
        reqs.append("region2|" + axes)
        exp.append(e)
        rel.append("regionAccept / regionTasks / regionTaskOK∘effective = _store_array region branch")
        cases.append({"case": case, "status": run.status})
    # (4) stores into existing unsharded arrays: the guard decides whether a rechunk is inserted; the tasks that write
    #     the user's array use the source chunks (guard passes) or copy chunks that satisfy the planner invariant
    for run in runs:
        case = run.case
        st = as_store(case)
        if st is None or not st.get("existing") or st.get("shards") or run.status != "ok":
            continue
        writer = [(op, o) for op in run.ops for o in op["outputs"] if o["arr"] == run.target_arr]
        if len(writer) != 1:
            ctx.disagree("exactly one operation writes the user's target", {"case": case}, 1, len(writer))
            continue
        op, out = writer[0]
        reqs.append("store|" + ";".join("%d,%d,%d" % (n, sc, tc) for n, sc, tc in zip(st["shape"], st["src"], st["tgt"])))
        exp.append("guard=%s" % ("false" if op["op_name"] == "rechunk" else "true"))
        rel.append("storeGuard = guard of _store_array (a rechunk is inserted iff it fails)")
        cases.append({"case": case, "writer": op["op_name"], "wchunks": list(out["wchunks"])})
        if op["op_name"] == "rechunk":
            if not all(isinstance(c, int) and (c % t == 0 or c >= n) for n, c, t in zip(st["shape"], out["wchunks"], st["tgt"])):
                ctx.disagree("planner invariant (hplan of C05_store_single_writer_holds): final copy chunks of the inserted rechunk are multiples of the target chunks or span the axis",
                             {"case": case, "wchunks": list(out["wchunks"])}, "holds", "violated")
        elif tuple(out["wchunks"]) != tuple(min(c, n) for c, n in zip(st["src"], st["shape"])):
            ctx.disagree("write proxy chunks of an aligned store = source chunks", {"case": case}, list(st["src"]), list(out["wchunks"]))
    ans = ctx.lean.drive(DRIVER, reqs)
    for rq, e, a, r, c in zip(reqs, exp, ans, rel, cases):
        if rq.startswith("region2|"):
            a = a.split(" okold=")[0]
        if e != a:
            ctx.disagree(r, dict(c, request=rq), a, e)
        ctx.count({"trace": rq, "impl": e}, nontrivial=(";" in e), kind="trace:" + rq.split("|")[0])


def corr(ctx):
    corr_numeric(ctx)
    corr_traces(ctx, get_runs(ctx))


# ---------------------------------------------------------------------------------------------------
# oracle / search
# ---------------------------------------------------------------------------------------------------

def plan_violations(case):
    """stages of the real regular plan of `case` whose copy chunk is neither a multiple of the stored chunk nor spans
    the axis (then some stored chunk necessarily has two partial writers: C05_store_single_writer_iff)"""
    import cubed
    import cubed.array_api as xp
    from cubed.core.ops import _rechunk_plan
    spec = cubed.Spec(allowed_mem=case["allowed_mem"], reserved_mem=0)
    x = xp.empty(tuple(case["shape"]), chunks=tuple(case["src"]), spec=spec)
    with warnings.catch_warnings():
        warnings.simplefilter("ignore")
        stages = list(_rechunk_plan(x, tuple(case["tgt"]), min_mem=case.get("min_mem"), allow_irregular=False))
    bad = []
    for i, (copy, target) in enumerate(stages):
        for ax, (n, cc, tc) in enumerate(zip(case["shape"], copy, target)):
            if not (min(cc, n) % min(tc, n) == 0 or cc >= n):
                bad.append({"stage": i, "axis": ax, "copy": list(copy), "stored": list(target)})
    return stages, bad


def oracle_plans(ctx, n):
    """plan-level sample (no execution, so two orders of magnitude more geometries than the traced runs): every stage of
    every real regular plan must have copy chunks that are multiples of the stored chunks or span the axis; a violating
    plan is executed under the tracing store to obtain the concrete two-writer chunk."""
    lifted = 0
    for _ in range(n):
        case = gen_rechunk(ctx.rng)
        case["irregular"] = False
        case["pre"] = False
        try:
            stages, bad = plan_violations(case)
        except Exception as e:  # noqa: BLE001 - refused geometry (chunk larger than the budget)
            ctx.dist["plan:refused"] += 1
            continue
        ctx.count({"plan": case, "stages": len(stages)}, nontrivial=len(stages) > 1, kind="plan:stages%d" % min(len(stages), 5))
        if bad and lifted < 5:
            lifted += 1
            case.update(order="reverse", xseed=0)
            run = run_case(case)
            ctx.traces += 1
            fails = oracle_run(ctx, run)
            if fails:
                report(ctx, run, fails)
            else:
                ctx.disagree("planner invariant: copy chunk multiple of stored chunk or spans the axis", {"case": case, "stages": bad}, "holds", "violated")


def oracle(ctx):
    oracle_plans(ctx, ctx.budget(1500, 12000))
    for run in get_runs(ctx):
        report(ctx, run, oracle_run(ctx, run))
        if run.status.startswith("refused") and run.case["kind"] in ("chain", "multi"):
            ctx.notes.append("refused at build time: %s %s" % (run.case, run.status[:80]))


def replay(ctx, body):
    """./check C05 --replay replays/C05-<seed>-failing-input.json : run the recorded case again and print what the
    direct oracle sees."""
    case = body.get("case")
    if not isinstance(case, dict) or "kind" not in case:
        print("replay: no end-to-end case in this file (broken obligation: %s)" % str(body.get("no_longer_checks"))[:300])
        return
    run = run_case(case)
    fails = oracle_run(ctx, run)
    print("replay case:", case)
    print("status:", run.status)
    for arr, d in run.trace.items():
        for task, v in sorted(d.items(), key=str):
            if v["set"]:
                print("  %s task %s set %s read-before-write %s" % (arr[1], task, sorted(set(v["set"])), v["rmw"]))
    for what, detail in fails:
        print("FAILS", what, detail)
    report(ctx, run, fails)


def lift(ctx, d):
    """a numeric disagreement lifted to an end-to-end one-stage rechunk"""
    c = d["case"]
    if d["relation"].startswith("splitChunksizes") and c.get("n", 0) > 0:
        n, sc, tc = c["n"], c["sc"], c["tc"]
        return {"kind": "rechunk1", "shape": [n], "src": [min(n, max(1, tc))], "copy": [min(sc, n)], "target": [tc], "irregular": True,
                "order": "reverse", "xseed": 0, "allowed_mem": 200_000_000}
    if d["relation"].startswith("fixCopy"):
        from cubed.core.rechunk import _fix_copy_chunks
        n, cc, tc = c["n"], c["cc"], c["tc"]
        fixed = int(_fix_copy_chunks((n,), (cc,), (tc,))[0])
        return {"kind": "rechunk1", "shape": [n], "src": [min(n, tc)], "copy": [max(1, min(fixed, n))], "target": [min(max(1, fixed), tc)], "irregular": False,
                "order": "reverse", "xseed": 0, "allowed_mem": 200_000_000}
    return None


def search(ctx):
    ctx.rng.seed(ctx.seed + 7919)
    lifted = 0
    for d in list(ctx.disagreements):
        case = lift(ctx, d) if isinstance(d.get("case"), dict) else None
        if case is None or lifted >= 25:
            continue
        lifted += 1
        run = run_case(case)
        ctx.traces += 1
        ctx.count({"lifted": case, "status": run.status[:60]}, nontrivial=True, kind="lifted:" + run.status.split(":")[0])
        report(ctx, run, oracle_run(ctx, run))
    kinds = None
    rels = " ".join(d["relation"] for d in ctx.disagreements)
    if "region" in rels.lower():
        kinds = ["region", "store"]
    elif "rechunk" in rels or "split" in rels or "fixCopy" in rels or "planner" in rels:
        kinds = ["rechunk"]
    for run in sample_runs(ctx, ctx.budget(150, 1200), kinds=kinds, fixed=False):
        report(ctx, run, oracle_run(ctx, run))
