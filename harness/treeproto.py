"""Canonical rendering of cubed's nested key structures; identical to Lean `Proto.showTree`."""
from collections.abc import Iterator


def show_key(k):
    return "K:%s:%s" % (k.name, ",".join(str(int(c)) for c in k.coords))


def show_tree(t):
    from cubed.primitive.blockwise import ChunkKey, FunctionArgs
    if isinstance(t, ChunkKey):
        return show_key(t)
    if isinstance(t, FunctionArgs):
        return "(F:%s %s)" % (t.output_name, " ".join(show_tree(a) for a in t.args))
    if isinstance(t, list):
        return "(L %s)" % " ".join(show_tree(a) for a in t)
    if isinstance(t, (Iterator,)):
        return "(I %s)" % " ".join(show_tree(a) for a in t)
    if isinstance(t, tuple):
        return "(T %s)" % " ".join(show_tree(a) for a in t)
    return "?%r" % (t,)


def nats(xs):
    xs = list(xs)
    return ",".join(str(int(x)) for x in xs) if xs else "-"
