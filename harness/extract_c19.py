"""Plug-in extractor for C19: the *site table* of array-creating helper calls -> Model/GeneratedC19.lean.

What is a site
--------------
Every `ast.Call` in `cubed/**/*.py` (tests/, vendor/ excluded) whose callee is an *array creator*:

  * a function defined in cubed/array_api/creation_functions.py or cubed/random.py that has a parameter named `spec`
    (asarray, empty, full, zeros, ones, arange, linspace, eye, *_like, empty_virtual_array, offsets_virtual_array,
    _tri_mask, random, integers, ... -- derived from the source, so a new creator is picked up automatically),
  * `from_array`, `from_zarr` (cubed/core/ops.py),
  * `map_blocks` called with the function as its only positional argument (= no array operands: it creates its own
    virtual input array from `spec=`),
  * the `Array(name, target, spec, plan)` / `CoreArray(...)` constructor itself.

A bare name counts only when the file binds it by `from cubed… import name` / a relative import / a module level `def`;
`alias.name(...)` counts only when `alias` is bound by `import cubed…`.  `nxp.asarray`, `np.zeros`, … are therefore not sites.

How `spec` is passed (kind)
---------------------------
The spec argument E is the keyword `spec=E`, or the positional argument in the callee's `spec` slot (read off the callee's
signature).  Inside the enclosing function a name is *operand-derived* when it is assigned (anywhere in that function) from an
expression that contains `<anything>.spec`, a call of `check_array_specs`, or another operand-derived name (fixpoint).

  0 operand     E contains `<expr>.spec`, `check_array_specs(...)` or an operand-derived name
  1 param       E is the enclosing (or an outer) function's own parameter `spec` (possibly re-bound as `spec = spec or …`)
  2 like        callee is a *_like function called without spec (inherits the operand's spec through `_like_args`)
  3 likeArgs    the call expands `**_like_args(x, dtype, device, chunks, spec)` with the enclosing function's own `spec`
                parameter; `_like_args` itself is checked to contain `if spec is None: spec = x.spec`
  4 fresh       E is a literal `Spec(...)` construction (self-contained computation, e.g. measure_reserved_mem)
  5 selfUnwrap  no spec, and the call is a direct recursive call of the enclosing creator on an attribute of its own argument
                (`asarray(a.data)` in the xarray branch of `asarray`)
  6 missing     no spec argument at all (the array silently gets the global default-config spec)
  7 unknown     anything else (`**kwargs` of unknown origin, `spec=<other expression>`); the theorem rejects it

Ids are line independent: `<file>:<qualified function>:<callee>#<k>` (k-th call of that callee in that function, source order).
Line numbers are returned by `sites(repo)` for the dynamic correspondence only; they are not written to Lean.
"""
from __future__ import annotations

import ast
import os

from extract import ExtractError, _parse, lean_str

CREATOR_MODULES = ["cubed/array_api/creation_functions.py", "cubed/random.py"]
EXTRA_CREATORS = {"cubed/core/ops.py": ["from_array", "from_zarr"]}
CONSTRUCTORS = {"Array": "cubed/array_api/array_object.py", "CoreArray": "cubed/core/array.py"}
KINDS = ["operand", "param", "like", "likeArgs", "fresh", "selfUnwrap", "missing", "unknown"]
NOT_CREATORS = {"_like_args"}  # has a `spec` parameter but returns keyword arguments, not an array
SKIP_DIRS = {"tests", "vendor", "__pycache__"}


def _py_files(repo):
    out = []
    root = os.path.join(repo, "cubed")
    if not os.path.isdir(root):
        raise ExtractError("cubed/ package not found")
    for d, dirs, files in os.walk(root):
        dirs[:] = sorted(x for x in dirs if x not in SKIP_DIRS)
        for f in sorted(files):
            if f.endswith(".py"):
                out.append(os.path.relpath(os.path.join(d, f), repo))
    return out


def _spec_slot(fn, drop_self=False):
    pos = [a.arg for a in fn.args.posonlyargs + fn.args.args]
    if drop_self and pos and pos[0] == "self":
        pos = pos[1:]
    if "spec" in pos:
        return pos.index("spec")
    if "spec" in [a.arg for a in fn.args.kwonlyargs]:
        return None
    raise KeyError


def creators(repo):
    """name -> (defining file, positional index of `spec` or None when keyword-only)."""
    out = {}
    for rel in CREATOR_MODULES:
        t = _parse(repo, rel)
        for node in t.body:
            if isinstance(node, ast.FunctionDef) and node.name not in NOT_CREATORS:
                try:
                    out[node.name] = (rel, _spec_slot(node))
                except KeyError:
                    pass
    for rel, names in EXTRA_CREATORS.items():
        t = _parse(repo, rel)
        for name in names:
            fns = [n for n in t.body if isinstance(n, ast.FunctionDef) and n.name == name]
            if not fns:
                raise ExtractError(f"{rel}: creator {name} not found")
            try:
                out[name] = (rel, _spec_slot(fns[0]))
            except KeyError:
                raise ExtractError(f"{rel}: creator {name} has no `spec` parameter any more")
    for name, rel in CONSTRUCTORS.items():
        t = _parse(repo, rel)
        cls = [n for n in t.body if isinstance(n, ast.ClassDef) and n.name == name]
        if not cls:
            raise ExtractError(f"{rel}: class {name} not found")
        init = [n for n in cls[0].body if isinstance(n, ast.FunctionDef) and n.name == "__init__"]
        if not init:
            raise ExtractError(f"{rel}: {name}.__init__ not found")
        try:
            out[name] = (rel, _spec_slot(init[0], drop_self=True))
        except KeyError:
            raise ExtractError(f"{rel}: {name}.__init__ has no `spec` parameter any more")
    for need in ("asarray", "full", "empty_virtual_array", "offsets_virtual_array", "zeros_like", "_like_args"):
        if need not in out and need != "_like_args":
            raise ExtractError(f"creator {need} not found in {CREATOR_MODULES[0]}")
    return out


def _check_like_args(repo):
    rel = CREATOR_MODULES[0]
    t = _parse(repo, rel)
    fns = [n for n in t.body if isinstance(n, ast.FunctionDef) and n.name == "_like_args"]
    if not fns:
        raise ExtractError(f"{rel}: _like_args not found")
    ok = False
    for node in ast.walk(fns[0]):
        if isinstance(node, ast.If) and ast.unparse(node.test) == "spec is None" and len(node.body) == 1 \
                and ast.unparse(node.body[0]) == "spec = x.spec":
            ok = True
    ret = [n for n in ast.walk(fns[0]) if isinstance(n, ast.Return)]
    if not ok or len(ret) != 1 or "spec=spec" not in ast.unparse(ret[0]):
        raise ExtractError(f"{rel}: _like_args no longer inherits `x.spec` when spec is None")


class _Bindings(ast.NodeVisitor):
    """Which names / aliases of a file refer to cubed functions / modules."""

    def __init__(self):
        self.names = {}     # local name -> imported original name (from cubed / relative import)
        self.foreign = set()  # names imported from elsewhere
        self.aliases = set()  # module aliases bound by `import cubed...`
        self.defs = set()

    def visit_ImportFrom(self, node):
        ours = node.level > 0 or (node.module or "").split(".")[0] == "cubed"
        for a in node.names:
            local = a.asname or a.name
            if ours:
                self.names[local] = a.name
                if a.name in ("array_api",) or (node.module or "") in ("cubed",):
                    self.aliases.add(local)
            else:
                self.foreign.add(local)

    def visit_Import(self, node):
        for a in node.names:
            if a.name.split(".")[0] == "cubed":
                self.aliases.add(a.asname or a.name.split(".")[0])


def _contains_operand_ref(expr, derived):
    for n in ast.walk(expr):
        if isinstance(n, ast.Attribute) and n.attr == "spec":
            return True
        if isinstance(n, ast.Call) and isinstance(n.func, ast.Name) and n.func.id == "check_array_specs":
            return True
        if isinstance(n, ast.Name) and n.id in derived:
            return True
    return False


def _derived_names(fn):
    """Fixpoint: names assigned in `fn` from an expression that refers to an operand's spec."""
    assigns = []
    for n in ast.walk(fn):
        if isinstance(n, ast.Assign):
            for t in n.targets:
                if isinstance(t, ast.Name):
                    assigns.append((t.id, n.value))
        elif isinstance(n, ast.AnnAssign) and isinstance(n.target, ast.Name) and n.value is not None:
            assigns.append((n.target.id, n.value))
    derived = set()
    changed = True
    while changed:
        changed = False
        for name, val in assigns:
            if name not in derived and _contains_operand_ref(val, derived):
                derived.add(name)
                changed = True
    return derived, assigns


def _params(fn):
    a = fn.args
    out = [x.arg for x in a.posonlyargs + a.args + a.kwonlyargs]
    if a.vararg:
        out.append(a.vararg.arg)
    if a.kwarg:
        out.append(a.kwarg.arg)
    return out


def _classify(call, callee, slot, chain, qual):
    """chain: enclosing FunctionDefs, innermost last."""
    kw = {k.arg: k.value for k in call.keywords if k.arg is not None}
    stars = [k.value for k in call.keywords if k.arg is None]
    has_starargs = any(isinstance(a, ast.Starred) for a in call.args)
    E = kw.get("spec")
    if E is None and slot is not None and len(call.args) > slot and not has_starargs:
        E = call.args[slot]
    fn = chain[-1] if chain else None
    if E is None:
        if stars:
            if all(isinstance(s, ast.Call) and isinstance(s.func, ast.Name) and s.func.id == "_like_args"
                   and len(s.args) == 5 and not s.keywords and isinstance(s.args[4], ast.Name) and s.args[4].id == "spec"
                   for s in stars) and fn is not None and "spec" in _params(fn):
                return "likeArgs"
            return "unknown"
        if has_starargs and slot is not None:
            return "unknown"
        if callee.endswith("_like"):
            return "like"
        if fn is not None and callee == fn.name and len(call.args) == 1 and isinstance(call.args[0], ast.Attribute) \
                and isinstance(call.args[0].value, ast.Name):
            return "selfUnwrap"
        return "missing"
    derived = set()
    if fn is not None:
        derived, assigns = _derived_names(fn)
    if _contains_operand_ref(E, derived):
        return "operand"
    if isinstance(E, ast.Name) and E.id == "spec":
        # the function's own parameter (or that of an enclosing function, for closures)
        for f in reversed(chain):
            if "spec" in _params(f):
                # every re-binding of `spec` must keep the parameter in it (`spec = spec or …`)
                _, assigns = _derived_names(f)
                for name, val in assigns:
                    if name == "spec" and not any(isinstance(n, ast.Name) and n.id == "spec" for n in ast.walk(val)):
                        return "unknown"
                return "param"
        return "unknown"
    if isinstance(E, ast.Call) and ast.unparse(E.func).split(".")[-1] == "Spec":
        return "fresh"
    return "unknown"


def sites(repo):
    """List of dicts: id, file, function, callee, kind, lineno, end_lineno, text."""
    cr = creators(repo)
    _check_like_args(repo)
    out = []
    for rel in _py_files(repo):
        t = _parse(repo, rel)
        b = _Bindings()
        b.visit(t)
        for n in t.body:
            if isinstance(n, (ast.FunctionDef, ast.ClassDef)):
                b.defs.add(n.name)
        counters = {}

        def walk(node, chain, qual):
            for child in ast.iter_child_nodes(node):
                if isinstance(child, (ast.FunctionDef, ast.AsyncFunctionDef)):
                    walk(child, chain + [child], qual + [child.name])
                elif isinstance(child, ast.ClassDef):
                    walk(child, chain, qual + [child.name])
                else:
                    if isinstance(child, ast.Call):
                        visit_call(child, chain, qual)
                    walk(child, chain, qual)

        def visit_call(call, chain, qual):
            f = call.func
            name = None
            if isinstance(f, ast.Name):
                local = f.id
                if local in b.foreign:
                    return
                if local in b.names:
                    name = b.names[local]
                elif local in b.defs:
                    name = local
                else:
                    return
                # shadowed by a parameter / local of the enclosing function -> not the creator
                for fn in chain:
                    if local in _params(fn):
                        return
            elif isinstance(f, ast.Attribute) and isinstance(f.value, ast.Name) and f.value.id in b.aliases:
                name = f.attr
            elif isinstance(f, ast.Attribute) and isinstance(f.value, ast.Attribute) and isinstance(f.value.value, ast.Name) \
                    and f.value.value.id in b.aliases:
                name = f.attr  # cubed.array_api.ones / cubed.random.random
            if name is None:
                return
            if name == "map_blocks":
                if len(call.args) != 1 or isinstance(call.args[0], ast.Starred):
                    return
                slot = None
            elif name in cr:
                slot = cr[name][1]
            else:
                return
            fq = ".".join(qual) if qual else "<module>"
            key = (fq, name)
            counters[key] = counters.get(key, 0) + 1
            kind = _classify(call, name, slot, chain, qual)
            out.append({
                "id": f"{rel}:{fq}:{name}#{counters[key]}",
                "file": rel, "function": fq, "callee": name, "kind": kind,
                "lineno": call.lineno, "end_lineno": getattr(call, "end_lineno", call.lineno),
                "text": " ".join(ast.unparse(call).split())[:100],
            })

        walk(t, [], [])
    if len(out) < 20:
        raise ExtractError(f"only {len(out)} creation sites found: the scan no longer recognises the code base")
    return out


# ------------------------------------------------------------------------------------------------
# facts about how the spec reaches storage / memory accounting
# ------------------------------------------------------------------------------------------------

def _fn(t, name, rel):
    for n in ast.walk(t):
        if isinstance(n, ast.FunctionDef) and n.name == name:
            return n
    raise ExtractError(f"{rel}: function {name} not found")


def _spec_attrs(fn):
    return sorted({n.attr for n in ast.walk(fn) if isinstance(n, ast.Attribute) and isinstance(n.value, ast.Name)
                   and n.value.id == "spec"})


def _lean_list(xs):
    return "[" + ", ".join(xs) + "]"


def facts(repo):
    out = {}

    def put(name, typ, val, prov):
        out[name] = (typ, val, prov)

    ss = sites(repo)
    rows = ",\n   ".join("(%s, %d)" % (lean_str(s["id"]), KINDS.index(s["kind"])) for s in ss)
    put("kindNames", "List String", _lean_list(lean_str(k) for k in KINDS), "harness/extract_c19.py KINDS (code = index)")
    put("sites", "List (String × Nat)", "[\n   " + rows + "]", "every array-creating helper call in cubed/ (tests, vendor excluded): (id, kind code)")

    # memory.py: get_buffer_copies ----------------------------------------------------------------
    rel = "cubed/primitive/memory.py"
    t = _parse(repo, rel)
    fn = _fn(t, "get_buffer_copies", rel)
    put("bufferCopiesReads", "List String", _lean_list(lean_str(a) for a in _spec_attrs(fn)), rel + ":get_buffer_copies (spec attributes read)")
    def _bc(r):
        v = r.value
        if not (isinstance(v, ast.Call) and ast.unparse(v.func) == "BufferCopies"):
            raise ExtractError(f"{rel}: get_buffer_copies returns {ast.unparse(v)}")
        kw = {k.arg: k.value for k in v.keywords}
        if set(kw) != {"read", "write"} or not all(isinstance(x, ast.Constant) and isinstance(x.value, int) for x in kw.values()):
            raise ExtractError(f"{rel}: BufferCopies(...) no longer has constant read/write")
        return (kw["read"].value, kw["write"].value)

    stmts = [n for n in fn.body if not (isinstance(n, ast.Expr) and isinstance(n.value, ast.Constant))]
    if len(stmts) != 2 or not isinstance(stmts[0], ast.If) or stmts[0].orelse or len(stmts[0].body) != 1 \
            or not isinstance(stmts[0].body[0], ast.Return) or not isinstance(stmts[1], ast.Return):
        raise ExtractError(f"{rel}: get_buffer_copies is no longer `if <cloud work_dir>: return A` followed by `return B`")
    test = " ".join(ast.unparse(stmts[0].test).split())
    if test != "spec is not None and spec.work_dir is not None and is_cloud_storage_path(spec.work_dir)":
        raise ExtractError(f"{rel}: get_buffer_copies condition changed: {test}")
    vals = [_bc(stmts[0].body[0]), _bc(stmts[1])]
    put("bufferCopiesCloud", "Nat × Nat", "(%d, %d)" % vals[0], rel + ":get_buffer_copies (cloud work_dir)")
    put("bufferCopiesLocal", "Nat × Nat", "(%d, %d)" % vals[1], rel + ":get_buffer_copies (otherwise)")
    fn = _fn(t, "calculate_projected_mem", rel)
    src = " ".join(ast.unparse(fn).split())
    shape = ("projected_mem = reserved_mem for input in inputs: projected_mem += input * buffer_copies.read projected_mem += input "
             "projected_mem += operation projected_mem += output projected_mem += output * buffer_copies.write return projected_mem")
    put("projectedMemFormula", "Bool", "true" if src.endswith(shape) else "false", rel + ":calculate_projected_mem (reserved + Σ in·(read+1) + op + out·(1+write))")

    # utils.py: cloud schemes ------------------------------------------------------------------------
    rel = "cubed/utils.py"
    t = _parse(repo, rel)
    fn = _fn(t, "is_cloud_storage_path", rel)
    rets = [n for n in ast.walk(fn) if isinstance(n, ast.Return)]
    if len(rets) != 1 or not (isinstance(rets[0].value, ast.Compare) and isinstance(rets[0].value.ops[0], ast.In)
                              and isinstance(rets[0].value.comparators[0], ast.Tuple)):
        raise ExtractError(f"{rel}: is_cloud_storage_path changed shape")
    schemes = [e.value for e in rets[0].value.comparators[0].elts]
    put("cloudSchemes", "List String", _lean_list(lean_str(s) for s in schemes), rel + ":is_cloud_storage_path")

    # plan.py: intermediate_store -----------------------------------------------------------------------
    rel = "cubed/core/plan.py"
    t = _parse(repo, rel)
    put("intermediateStoreReads", "List String", _lean_list(lean_str(a) for a in _spec_attrs(_fn(t, "intermediate_store", rel))),
        rel + ":intermediate_store (spec attributes read)")

    # ops.py: what blockwise / general_blockwise / rechunk take from the spec, and where the spec comes from ----
    rel = "cubed/core/ops.py"
    t = _parse(repo, rel)
    for fname in ("blockwise", "_general_blockwise"):
        fn = [n for n in t.body if isinstance(n, ast.FunctionDef) and n.name == fname]
        if not fn:
            raise ExtractError(f"{rel}: {fname} not found")
        fn = fn[0]
        origin = [ast.unparse(n.value) for n in ast.walk(fn) if isinstance(n, ast.Assign) and len(n.targets) == 1
                  and ast.unparse(n.targets[0]) == "spec"]
        put(fname.lstrip("_") + "SpecOrigin", "List String", _lean_list(lean_str(o) for o in origin), f"{rel}:{fname} (`spec = …`)")
        flows = []
        for n in ast.walk(fn):
            if isinstance(n, ast.Call) and ast.unparse(n.func) in ("primitive_blockwise", "primitive_general_blockwise"):
                for k in n.keywords:
                    if k.arg in ("allowed_mem", "reserved_mem", "storage_options", "compressor", "buffer_copies"):
                        flows.append(f"{k.arg}={ast.unparse(k.value)}")
        if not flows:
            raise ExtractError(f"{rel}: {fname} no longer calls the primitive with allowed_mem/reserved_mem/compressor keywords")
        put(fname.lstrip("_") + "SpecFlows", "List String", _lean_list(lean_str(x) for x in sorted(flows)), f"{rel}:{fname} (keywords passed to the primitive)")
        bc = [ast.unparse(n.value) for n in ast.walk(fn) if isinstance(n, ast.Assign) and ast.unparse(n.targets[0]) == "buffer_copies"]
        put(fname.lstrip("_") + "BufferCopies", "List String", _lean_list(lean_str(x) for x in bc), f"{rel}:{fname} (`buffer_copies = …`)")
    fn = [n for n in ast.walk(t) if isinstance(n, ast.FunctionDef) and n.name == "_rechunk_plan"]
    if fn:
        put("rechunkSpecReads", "List String", _lean_list(lean_str(a) for a in _spec_attrs(fn[0])), f"{rel}:_rechunk_plan (spec attributes read)")

    # array.py: resolution of a missing spec and the equality test -----------------------------------------
    rel = "cubed/core/array.py"
    t = _parse(repo, rel)
    cls = [n for n in t.body if isinstance(n, ast.ClassDef) and n.name == "CoreArray"]
    init = [n for c in cls for n in c.body if isinstance(n, ast.FunctionDef) and n.name == "__init__"]
    if not init:
        raise ExtractError(f"{rel}: CoreArray.__init__ not found")
    init = init[0]
    res = [ast.unparse(n.value) for n in ast.walk(init) if isinstance(n, ast.Assign) and ast.unparse(n.targets[0]) == "self.spec"]
    put("specResolution", "List String", _lean_list(lean_str(x) for x in res), rel + ":CoreArray.__init__ (`self.spec = …`)")
    fn = _fn(t, "check_array_specs", rel)
    src = " ".join(ast.unparse(fn).split())
    put("checkArraySpecsAllEqualFirst", "Bool",
        "true" if "if not all((s == specs[0] for s in specs)): raise ValueError" in src and src.endswith("return arrays[0].spec") else "false",
        rel + ":check_array_specs")

    # spec.py: fields compared by Spec.__eq__ -----------------------------------------------------------------
    rel = "cubed/spec.py"
    t = _parse(repo, rel)
    cls = [n for n in t.body if isinstance(n, ast.ClassDef) and n.name == "Spec"]
    if not cls:
        raise ExtractError(f"{rel}: class Spec not found")
    eq = [n for n in cls[0].body if isinstance(n, ast.FunctionDef) and n.name == "__eq__"]
    if not eq:
        raise ExtractError(f"{rel}: Spec.__eq__ not found")
    fields = []
    for n in ast.walk(eq[0]):
        if isinstance(n, ast.Compare) and isinstance(n.ops[0], ast.Eq) and isinstance(n.left, ast.Attribute) \
                and ast.unparse(n.left.value) == "self" and ast.unparse(n.comparators[0]) == "other." + n.left.attr:
            fields.append(n.left.attr)
    put("specEqFields", "List String", _lean_list(lean_str(x) for x in fields), rel + ":Spec.__eq__")
    return out


if __name__ == "__main__":
    import sys
    repo = sys.argv[1] if len(sys.argv) > 1 else "/repo"
    for s in sites(repo):
        print("%-11s %-95s %s" % (s["kind"], s["id"], s["text"]))
