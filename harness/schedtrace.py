"""Shared observation machinery for C07 / C13 (executors, scheduling, callbacks).

* `TracingStore`     a `zarr.storage.WrapperStore` used as `cubed.Spec(intermediate_store=…)`: every store access of
                     every task (in whatever thread / process it runs) is appended as one line to an O_APPEND log file;
                     `set` sleeps a seeded pseudo-random latency *before* the bytes reach the wrapped store, so a missing
                     barrier in a scheduler shows up as a read that misses (zarr would silently substitute the fill value).
* `RecordingCallback` a `cubed.runtime.types.Callback` that appends the five callback events to the same log and keeps the
                     finalized DAG / plan that `on_compute_start` hands to callbacks.
* `dag_facts`        canonical (gensym-free) description of a finalized DAG: nodes numbered by position, edges, which nodes
                     have a pipeline / are marked computed, advertised and real task counts, networkx's orders as the
                     tree under test computes them (`visit_nodes`, `visit_node_generations`).
* programs           small JSON-describable cubed programs covering the DAG shapes the properties quantify over.
* `run_case`         build + compute one program on one executor configuration and return the parsed log.

Everything that has to be unpickled inside worker processes lives in this importable module.
"""
from __future__ import annotations

import asyncio
import os
import random
import tempfile
import time
import zlib

from zarr.storage import WrapperStore

# ------------------------------------------------------------------------------------------------------
# log file (one line per observation; O_APPEND keeps lines whole and totally ordered across processes)
# ------------------------------------------------------------------------------------------------------

_FDS: dict = {}


def _fd(path):
    key = (os.getpid(), path)
    fd = _FDS.get(key)
    if fd is None:
        fd = os.open(path, os.O_WRONLY | os.O_APPEND | os.O_CREAT, 0o644)
        _FDS[key] = fd
    return fd


def log_line(path, *fields):
    os.write(_fd(path), (" ".join(str(f) for f in fields) + "\n").encode())


def read_log(path):
    """-> list of (seq, pid, kind, arg, extra) ; kinds: E (callback event), S (set done), G (get begins),
    H (get returned; extra = 1 hit / 0 miss), X (exists), D (delete)."""
    out = []
    if not os.path.exists(path):
        return out
    with open(path) as f:
        for seq, ln in enumerate(f):
            p = ln.rstrip("\n").split(" ")
            if len(p) < 3:
                continue
            out.append((seq, int(p[0]), p[1], p[2], p[3] if len(p) > 3 else ""))
    return out


# ------------------------------------------------------------------------------------------------------
# tracing store
# ------------------------------------------------------------------------------------------------------

class TracingStore(WrapperStore):
    """Delegates to the wrapped store; logs accesses; delays writes by a seeded latency."""

    def __init__(self, store, log_path=None, seed=0, max_latency=0.0):
        super().__init__(store)
        self.log_path = log_path
        self.seed = seed
        self.max_latency = max_latency

    def _with_store(self, store):
        return type(self)(store, self.log_path, self.seed, self.max_latency)

    # force zarr onto the async code paths so that one set of overrides sees every access
    @property
    def _supports_sync_io(self):
        return False

    def __eq__(self, other):
        return type(self) is type(other) and self._store == other._store and self.log_path == other.log_path

    def __hash__(self):  # pragma: no cover
        return hash((type(self), self.log_path))

    def _lat(self, key):
        if not self.max_latency or key.endswith("zarr.json"):
            return 0.0
        h = zlib.crc32(("%s:%s" % (self.seed, key)).encode())
        r = (h % 1000) / 1000.0
        # a third of the writes are fast, the rest spread up to max_latency
        return 0.0 if r < 0.33 else r * self.max_latency

    def _log(self, kind, key, extra=""):
        if self.log_path:
            log_line(self.log_path, os.getpid(), kind, key, extra)

    async def get(self, key, prototype, byte_range=None):
        self._log("G", key)
        r = await self._store.get(key, prototype, byte_range)
        self._log("H", key, 0 if r is None else 1)
        return r

    async def get_partial_values(self, prototype, key_ranges):
        key_ranges = list(key_ranges)
        for k, _ in key_ranges:
            self._log("G", k)
        rs = await self._store.get_partial_values(prototype, key_ranges)
        for (k, _), r in zip(key_ranges, rs):
            self._log("H", k, 0 if r is None else 1)
        return rs

    async def get_ranges(self, key, byte_ranges, *, prototype, **kw):
        self._log("G", key)
        kw = {k: v for k, v in kw.items() if v is not None}
        hit = 1
        async for group in self._store.get_ranges(key, byte_ranges, prototype=prototype, **kw):
            for _, b in group:
                if b is None:
                    hit = 0
            yield group
        self._log("H", key, hit)

    async def exists(self, key):
        r = await self._store.exists(key)
        self._log("X", key, 1 if r else 0)
        return r

    async def set(self, key, value):
        lat = self._lat(key)
        if lat:
            await asyncio.sleep(lat)
        await self._store.set(key, value)
        self._log("S", key)

    async def set_if_not_exists(self, key, value):
        await self._store.set_if_not_exists(key, value)
        self._log("S", key, "ifnot")

    async def _set_many(self, values):
        for k, v in values:
            await self.set(k, v)

    async def delete(self, key):
        await self._store.delete(key)
        self._log("D", key)

    # sync variants (only reached if a zarr version ignores _supports_sync_io)
    def get_sync(self, key, *, prototype=None, byte_range=None):
        self._log("G", key)
        r = self._store.get_sync(key, prototype=prototype, byte_range=byte_range)
        self._log("H", key, 0 if r is None else 1)
        return r

    def set_sync(self, key, value):
        lat = self._lat(key)
        if lat:
            time.sleep(lat)
        self._store.set_sync(key, value)
        self._log("S", key)

    def delete_sync(self, key):
        self._store.delete_sync(key)
        self._log("D", key)


def make_store(root, log_path, seed, max_latency):
    from zarr.storage import LocalStore
    return TracingStore(LocalStore(root), log_path, seed, max_latency)


# ------------------------------------------------------------------------------------------------------
# recording callback
# ------------------------------------------------------------------------------------------------------

def _callback_base():
    from cubed.runtime.types import Callback
    return Callback


class RecordingCallbackMixin:
    def __init__(self, log_path):
        self.log_path = log_path
        self.dag = None
        self.plan = None
        self.events = []

    def _ev(self, kind, name="-"):
        self.events.append((kind, name))
        log_line(self.log_path, os.getpid(), "E", kind, name)

    def on_compute_start(self, event):
        self.dag = event.dag
        self.plan = getattr(event, "plan", None)
        self._ev("computeStart")

    def on_compute_end(self, event):
        self._ev("computeEnd")

    def on_operation_start(self, event):
        self._ev("opStart", event.name)

    def on_operation_end(self, event):
        self._ev("opEnd", event.name)

    def on_task_end(self, event):
        # one notification may stand for several tasks (num_tasks field)
        for _ in range(int(getattr(event, "num_tasks", 1))):
            self._ev("taskEnd", event.name)


def recording_callback(log_path):
    Callback = _callback_base()

    class RecordingCallback(RecordingCallbackMixin, Callback):
        pass

    return RecordingCallback(log_path)


# ------------------------------------------------------------------------------------------------------
# DAG facts
# ------------------------------------------------------------------------------------------------------

def dag_facts(dag, plan=None):
    """Canonical description of a finalized DAG.  Node ids are positions in `dag.nodes`."""
    from cubed.runtime.pipeline import visit_node_generations, visit_nodes

    names = list(dag.nodes)
    idx = {n: i for i, n in enumerate(names)}
    all_edges = [(idx[u], idx[v]) for u, v in dag.edges()]
    edges = sorted(set(all_edges))
    data = dict(dag.nodes(data=True))
    pipeline, computed, advertised, real, kinds = [], [], {}, {}, {}
    for n in names:
        d = data[n]
        i = idx[n]
        if d.get("pipeline", None) is not None:
            pipeline.append(i)
            real[i] = len(list(d["pipeline"].mappable))
        if d.get("computed", False):
            computed.append(i)
        if d.get("primitive_op", None) is not None:
            advertised[i] = int(d["primitive_op"].num_tasks)
        kinds[i] = d.get("op_name") or d.get("type") or ("array" if "target" in d else "?")
    import networkx as nx
    facts = {
        "names": names, "idx": idx, "edges": edges, "pipeline": pipeline, "computed": computed,
        "advertised": advertised, "real": real, "kinds": kinds,
        # the orders the tree under test hands to its executors
        "visit_nodes": [idx[n] for n, _ in visit_nodes(dag)],
        "visit_gens": [[idx[n] for n, _ in g] for g in visit_node_generations(dag)],
        # networkx's raw orders (all nodes) — inputs of the Topo / Gens hypotheses
        "nx_topo": [idx[n] for n in nx.topological_sort(dag)],
        "nx_gens": [[idx[n] for n in g] for g in nx.topological_generations(dag)],
        "create": idx.get("create-arrays"),
        "arrays": idx.get("arrays"),
        "plan_total": (plan.num_tasks if plan is not None else None),
        # (u, v) pairs joined by more than one edge (an op taking the same array twice)
        "multi_edges": sorted({e for e in all_edges if all_edges.count(e) > 1}),
    }
    # array node -> store path component (the array name is the path inside the intermediate store)
    facts["array_of_path"] = {n: idx[n] for n in names if data[n].get("type") == "array" or "target" in data[n]}
    return facts


# ------------------------------------------------------------------------------------------------------
# programs
# ------------------------------------------------------------------------------------------------------

PROGRAM_KINDS = ["branches", "diamond", "chain", "unstack", "qr", "rechunk", "reduce", "region", "store", "mixed",
                 "repeat_shared", "repeat_direct", "repeat_rechunk"]

# DAG shapes with PARALLEL EDGES (an op taking the same array on two edges) plus a third input produced later by an op
# that cannot be fused away: a traversal that releases a node after counting edges instead of predecessors starts the
# consumer together with that producer.
REPEAT_KINDS = ["repeat_shared", "repeat_direct", "repeat_rechunk"]


def mul_add3(a, b, c):
    """f(x, x, y) for the three-argument op (module level: picklable for the processes executor)."""
    return a * b + c


def gen_program(rng, kind=None, mismatch=False):
    """A small JSON description of a cubed program."""
    kind = kind or rng.choice(PROGRAM_KINDS)
    n0 = rng.choice([2, 3, 4, 6])
    n1 = rng.choice([2, 3, 4])
    c0 = rng.randint(1, n0)
    c1 = rng.randint(1, n1)
    p = {"kind": kind, "shape": [n0, n1], "chunks": [c0, c1]}
    if kind == "rechunk" or kind == "mixed" or kind == "repeat_rechunk":
        p["rechunk"] = [rng.randint(1, n0), rng.randint(1, n1)]
    if kind == "chain":
        p["len"] = rng.randint(2, 4)
        p["rechunk"] = [rng.randint(1, n0), rng.randint(1, n1)]
    if kind == "qr":
        # tall-and-skinny: one column chunk, row chunks at least as tall as the matrix is wide
        n1 = rng.choice([2, 3])
        rows = rng.choice([2, 3]) * n1 + rng.choice([0, 0, n1])
        p["shape"] = [rows, n1]
        p["chunks"] = [n1 * rng.choice([1, 2]), n1]
        if p["shape"][0] % p["chunks"][0] != 0:
            p["chunks"][0] = n1
    if kind == "region":
        # target grid tc; source covers an aligned block range of the target
        tc0, tc1 = rng.randint(1, 3), rng.randint(1, 3)
        nb0, nb1 = rng.randint(1, 3), rng.randint(1, 3)
        o0, o1 = rng.randint(0, 2), rng.randint(0, 2)
        e0, e1 = rng.randint(0, 1), rng.randint(0, 1)
        p.update({"tchunks": [tc0, tc1], "tshape": [(o0 + nb0 + e0) * tc0, (o1 + nb1 + e1) * tc1],
                  "region": [[o0 * tc0, (o0 + nb0) * tc0], [o1 * tc1, (o1 + nb1) * tc1]],
                  "shape": [nb0 * tc0, nb1 * tc1], "chunks": [tc0, tc1]})
        if mismatch and rng.random() < 0.35:
            # source chunked differently from the target: _store_array inserts a rechunk (fixed: ba97b91)
            p["chunks"] = [rng.randint(1, p["shape"][0]), rng.randint(1, p["shape"][1])]
    return p


def build_program(p, spec, tmpdir):
    """-> (list of arrays to compute, description of extra targets)."""
    import numpy as np
    import zarr

    import cubed
    import cubed.array_api as xp

    shape, chunks = tuple(p["shape"]), tuple(p["chunks"])
    an = np.arange(int(np.prod(shape)), dtype="float64").reshape(shape) + 1.0
    a = xp.asarray(an, chunks=chunks, spec=spec)
    k = p["kind"]
    if k == "branches":
        return [xp.add(a, 1.0), xp.multiply(a, 2.0), xp.negative(a)]
    if k == "diamond":
        b = xp.add(a, 1.0)
        c = xp.multiply(b, 2.0)
        d = xp.negative(b)
        return [xp.add(c, d)]
    if k == "chain":
        x = a
        for i in range(p["len"]):
            x = xp.add(x, 1.0)
            if i == 0:
                x = x.rechunk(tuple(p["rechunk"]))
            if i == 1:
                x = xp.sum(x, axis=0, keepdims=True)
        return [x]
    if k == "unstack":
        parts = xp.unstack(a, axis=1)
        return [xp.add(parts[0], parts[-1])] + list(parts[1:2])
    if k == "qr":
        q, r = xp.linalg.qr(a)
        return [q, r]
    if k == "rechunk":
        return [xp.add(a, 1.0).rechunk(tuple(p["rechunk"]))]
    if k == "reduce":
        return [xp.sum(xp.add(a, 1.0)), xp.max(a, axis=1)]
    if k == "mixed":
        b = xp.add(a, 1.0).rechunk(tuple(p["rechunk"]))
        c = xp.sum(b, axis=1)
        d = xp.multiply(a, 3.0)
        return [c, xp.add(d, a)]
    if k == "repeat_shared":
        # z = x*x + y ; with optimize_graph the multiply is fused into the add: sources (x, x, y);
        # y has a second consumer, so its producer stays a separate op
        y = xp.add(a, 100.0)
        z = xp.add(xp.multiply(a, a), y)
        return [z, xp.negative(y)]
    if k == "repeat_direct":
        # a direct three-argument op f(x, x, y): parallel edges x -> op with or without optimization
        y = xp.add(a, 100.0)
        z = cubed.map_blocks(mul_add3, a, a, y, dtype=a.dtype)
        return [z, xp.negative(y)]
    if k == "repeat_rechunk":
        # y comes out of a rechunk (never fused into its consumer); x2*x2 + y with the multiply fused in when optimizing
        rc = tuple(p["rechunk"])
        a2 = xp.asarray(an, chunks=rc, spec=spec)
        y = xp.add(a, 100.0).rechunk(rc)
        return [xp.add(xp.multiply(a2, a2), y)]
    if k == "store":
        tgt = os.path.join(tmpdir, "out.zarr")
        return [cubed.to_zarr(xp.add(a, 1.0), tgt, compute=False)]
    if k == "region":
        tgt = os.path.join(tmpdir, "region.zarr")
        z = zarr.create_array(tgt, shape=tuple(p["tshape"]), chunks=tuple(p["tchunks"]), dtype="float64", fill_value=0.0)
        region = tuple(slice(lo, hi) for lo, hi in p["region"])
        return [cubed.to_zarr(xp.add(a, 1.0), z, region=region, compute=False)]
    raise ValueError(k)


EXECUTORS = ["single-threaded", "threads", "processes"]


def gen_config(rng, executor=None, allow_resume=True):
    ex = executor or rng.choice(EXECUTORS)
    cfg = {"executor": ex, "optimize_graph": rng.random() < 0.5}
    if ex != "single-threaded":
        cfg["compute_arrays_in_parallel"] = rng.random() < 0.6
        cfg["max_workers"] = rng.choice([1, 2, 4])
        cfg["batch_size"] = rng.choice([None, None, 1, 2, 3])
    if allow_resume and ex != "processes" and rng.random() < 0.12:
        # compute once, remove one stored chunk, compute again with resume=True (some ops are skipped as computed)
        cfg["resume"] = True
        cfg["resume_pick"] = rng.randrange(1000)
    return cfg


def make_executor(cfg):
    from cubed.runtime.executors.local import ProcessesExecutor, SingleThreadedExecutor, ThreadsExecutor
    ex = cfg["executor"]
    if ex == "single-threaded":
        return SingleThreadedExecutor()
    kw = {"max_workers": cfg.get("max_workers", 2)}
    if cfg.get("batch_size") is not None:
        kw["batch_size"] = cfg["batch_size"]
    if cfg.get("compute_arrays_in_parallel") is not None:
        kw["compute_arrays_in_parallel"] = bool(cfg["compute_arrays_in_parallel"])
    if ex == "threads":
        return ThreadsExecutor(**kw)
    return ProcessesExecutor(**kw)


def is_parallel(cfg):
    return cfg["executor"] != "single-threaded" and bool(cfg.get("compute_arrays_in_parallel"))


def _drop_one_chunk(work_root, pick):
    """Remove one stored chunk file of the intermediate store (deterministic in `pick`)."""
    files = []
    for root, _dirs, fs in os.walk(work_root):
        rel = os.path.relpath(root, work_root).split(os.sep)
        if len(rel) >= 2 and rel[1] == "c":
            files += [os.path.join(root, f) for f in fs]
        elif len(rel) == 1 and "c" in fs:  # 0-d array: single chunk file named "c"
            files.append(os.path.join(root, "c"))
    files.sort()
    if not files:
        return None
    f = files[pick % len(files)]
    os.unlink(f)
    return os.path.relpath(f, work_root)


def run_case(program, cfg, seed=0, max_latency=0.02):
    """Build and compute `program` under `cfg`.  Returns dict(error, log, facts, events, tmp).
    The log is cut to the lines from `computeStart` to `computeEnd` of the (last) computation."""
    import logging
    import warnings

    import cubed

    # a failing task leaves sibling futures whose exceptions nobody retrieves; asyncio would log them at exit
    logging.getLogger("asyncio").setLevel(logging.CRITICAL)
    tmp = tempfile.mkdtemp(prefix="verif-sched-")
    log_path = os.path.join(tmp, "trace.log")
    work = os.path.join(tmp, "work")
    res = {"error": None, "tmp": tmp, "dropped": None}
    cb = None
    try:
        with warnings.catch_warnings():
            warnings.simplefilter("ignore")
            if cfg.get("resume"):
                # first pass: plain computation without tracing
                store0 = make_store(work, None, seed, 0.0)
                spec0 = cubed.Spec(allowed_mem="200MB", reserved_mem=0, intermediate_store=store0)
                arrays = build_program(program, spec0, tmp)
                cubed.compute(*arrays, executor=make_executor(dict(cfg, executor="single-threaded")),
                              optimize_graph=cfg.get("optimize_graph", True), _return_in_memory_array=False)
                res["dropped"] = _drop_one_chunk(work, cfg.get("resume_pick", 0))
                # second pass on the same arrays (same plan, same store location), traced
                store = make_store(work, log_path, seed, max_latency)
                for a in arrays:
                    _retarget(a, store0, store)
                cb = recording_callback(log_path)
                cubed.compute(*arrays, executor=make_executor(cfg), callbacks=[cb], resume=True,
                              optimize_graph=cfg.get("optimize_graph", True), _return_in_memory_array=False)
            else:
                store = make_store(work, log_path, seed, max_latency)
                spec = cubed.Spec(allowed_mem="200MB", reserved_mem=0, intermediate_store=store)
                cb = recording_callback(log_path)
                arrays = build_program(program, spec, tmp)
                cubed.compute(*arrays, executor=make_executor(cfg), callbacks=[cb],
                              optimize_graph=cfg.get("optimize_graph", True), _return_in_memory_array=False)
    except Exception as e:  # the computation itself failed: reported by the callers
        res["error"] = "%s: %s" % (type(e).__name__, str(e)[:300])
    log = read_log(log_path)
    # keep computeStart … computeEnd
    starts = [i for i, l in enumerate(log) if l[2] == "E" and l[3] == "computeStart"]
    ends = [i for i, l in enumerate(log) if l[2] == "E" and l[3] == "computeEnd"]
    if starts:
        log = log[starts[-1]: (ends[-1] + 1 if ends and ends[-1] > starts[-1] else len(log))]
    res["log"] = log
    res["events"] = list(cb.events) if cb is not None else []
    res["facts"] = dag_facts(cb.dag, cb.plan) if cb is not None and cb.dag is not None else None
    return res


def _retarget(array, old_store, new_store):
    """Point every lazy array of the plan of `array` that lives in `old_store` at `new_store` (same
    directory, now traced).  Harness-side only: the objects are the harness's own arrays."""
    for _n, d in array._plan.dag.nodes(data=True):
        t = d.get("target", None)
        if t is not None and getattr(t, "store", None) is old_store:
            t.store = new_store


def cleanup(res):
    import shutil
    shutil.rmtree(res.get("tmp", ""), ignore_errors=True)


# ------------------------------------------------------------------------------------------------------
# encoding for the Lean driver (drivers/C07.lean)
# ------------------------------------------------------------------------------------------------------

def encode_dag(facts, counts=None):
    counts = facts["real"] if counts is None else counts
    return "e=%s;p=%s;c=%s;n=%s;cr=%s;N=%d" % (
        ",".join("%d>%d" % e for e in facts["edges"]),
        ",".join(map(str, facts["pipeline"])),
        ",".join(map(str, facts["computed"])),
        ",".join("%d:%d" % (o, n) for o, n in sorted(counts.items())),
        "-" if facts["create"] is None else facts["create"],
        len(facts["names"]))


def encode_order(facts, parallel):
    if parallel:
        return "gen:" + ";".join(",".join(map(str, g)) for g in facts["nx_gens"])
    return "seq:" + ",".join(map(str, facts["nx_topo"]))


def show_sched(gens):
    return ";".join(",".join(map(str, g)) for g in gens)


def key_kind(key, facts):
    """-> (array node or None, 'chunk' | 'meta' | None)"""
    parts = key.split("/")
    a = facts["idx"].get(parts[0])
    if a is None or len(parts) < 2:
        return None, None
    if parts[1] == "c":
        return a, "chunk"
    if parts[1] == "zarr.json" and len(parts) == 2:
        return a, "meta"
    return a, None


EV_TOK = {"computeStart": "cs", "computeEnd": "ce", "opStart": "os", "taskEnd": "te", "opEnd": "oe"}


def encode_trace(log, facts, accesses=True):
    """Log lines -> tokens of the driver's trace language (callback events; with `accesses` also
    c<a> = array metadata written, w<a> = chunk set completed, r<a> = chunk get started)."""
    toks = []
    for _seq, _pid, kind, arg, extra in log:
        if kind == "E":
            t = EV_TOK[arg]
            if arg in ("computeStart", "computeEnd"):
                toks.append(t)
            else:
                toks.append("%s%s" % (t, facts["idx"].get(extra, 999999)))
        elif accesses and kind in ("S", "G"):
            a, k = key_kind(arg, facts)
            if a is None:
                continue
            if kind == "S" and k == "meta":
                toks.append("c%d" % a)
            elif kind == "S" and k == "chunk":
                toks.append("w%d" % a)
            elif kind == "G" and k == "chunk":
                toks.append("r%d" % a)
    return toks


def producers(facts):
    """array node -> list of non-skipped ops with an edge into it; op -> its non-skipped producer ops."""
    pipe = set(facts["pipeline"]) - set(facts["computed"])
    prod_of_array = {}
    for u, v in facts["edges"]:
        if u in pipe:
            prod_of_array.setdefault(v, []).append(u)
    prod_of_op = {}
    for a, o in facts["edges"]:
        if o in pipe and a in prod_of_array:
            for p in prod_of_array[a]:
                if p != facts["create"]:
                    prod_of_op.setdefault(o, set()).add(p)
    return prod_of_array, prod_of_op


def contracted(facts):
    """The DAG restricted to the executed ops: an edge p -> o whenever p reaches o through skipped nodes only
    (array nodes, ops without pipeline, ops marked computed).  -> (ops, edges)"""
    ex = [o for o in facts["pipeline"] if o not in facts["computed"]]
    exs = set(ex)
    preds = {}
    for u, v in facts["edges"]:
        preds.setdefault(v, set()).add(u)
    out = set()
    for o in ex:
        seen, stack = set(), list(preds.get(o, ()))
        while stack:
            n = stack.pop()
            if n in seen:
                continue
            seen.add(n)
            if n in exs:
                out.add((n, o))
            else:
                stack.extend(preds.get(n, ()))
    return ex, sorted(out)


def encode_contracted(facts):
    ex, edges = contracted(facts)
    return "e=%s;p=%s;c=;n=;cr=-;N=%d" % (",".join("%d>%d" % e for e in edges), ",".join(map(str, ex)), len(facts["names"]))


def schedule_violations(facts, gens):
    """Direct check of a schedule the tree under test hands to its executors (`gens`: list of lists of ops):
    every executed producer of an op (at any distance through skipped nodes) must lie in a strictly earlier
    generation, and every executed op must occur exactly once.  -> list of (message, detail)"""
    ex, edges = contracted(facts)
    names = facts["names"]
    level = {}
    out = []
    for i, g in enumerate(gens):
        for o in g:
            if o in level:
                out.append(("op %s scheduled twice" % names[o], {"op": names[o]}))
            level[o] = i
    for o in ex:
        if o not in level:
            out.append(("op %s never scheduled" % names[o], {"op": names[o]}))
    for p, o in edges:
        if p in level and o in level and not level[p] < level[o]:
            out.append(("op %s (generation %d) is not scheduled after its producer %s (generation %d)"
                        % (names[o], level[o], names[p], level[p]), {"op": names[o], "producer": names[p]}))
    return out


def describe(program, cfg, seed, latency):
    return {"program": program, "config": cfg, "store_seed": seed, "max_latency": latency,
            "replay": "cd /verif/harness && /venv/bin/python schedtrace.py '<this case as JSON>'"}


# ------------------------------------------------------------------------------------------------------
# scripted DAG runs: the REAL async_map_dag (+ async_map_unordered, aiostream) on a virtual-time loop
# ------------------------------------------------------------------------------------------------------
# A case is  {"ops": [{"n": tasks, "preds": [producer op indices]}, …], "script": {"op:input:attempt": [ok, duration]},
#             "parallel": bool, "use_backups": bool, "batch_size": int|None}.
# Every submission (op, input, attempt) "executes" from its submission for `duration` virtual seconds whether or not its
# future is cancelled in between (a running thread / process cannot be cancelled) and then succeeds (= its chunk is
# written) or fails.  Unscripted submissions succeed after 1 s.  This is how backups, failing twins and stragglers are
# put under the scheduler deterministically.

class _OpFn:
    def __init__(self, op):
        self.op = op

    def __call__(self, *a, **k):  # never called: the scripted futures stand in for the execution
        raise AssertionError("scripted op function must not be called")


def scripted_dag(case):
    import networkx as nx

    from cubed.runtime.types import CubedPipeline
    dag = nx.MultiDiGraph()
    fns = []
    for i, op in enumerate(case["ops"]):
        fn = _OpFn(i)
        fns.append(fn)
        dag.add_node("op-%d" % i, name="op-%d" % i, type="op", op_name="scripted",
                     pipeline=CubedPipeline(fn, "scripted-%d" % i, list(range(op["n"])), None))
        dag.add_node("arr-%d" % i, name="arr-%d" % i, type="array", target=None)
        dag.add_edge("op-%d" % i, "arr-%d" % i)
    for i, op in enumerate(case["ops"]):
        for p in op["preds"]:
            dag.add_edge("arr-%d" % p, "op-%d" % i)
    return dag


def run_scripted_dag(case):
    """-> dict(outcome 'done'|'raised'|'crash', detail, seq: ordered observations, subs: submissions, facts)
    observations: ("E", kind, op, input|None, t) callback events, ("sub", op, input, attempt, t), ("fin", op, input, attempt, ok, first_success, t)"""
    import asyncio
    import contextlib
    import io

    from vloop import ScriptError, VClock, VirtualLoop

    import cubed.runtime.asyncio as cra
    from cubed.runtime.types import Callback

    dag = scripted_dag(case)
    script = {tuple(int(x) for x in k.split(":")): (bool(v[0]), int(v[1])) for k, v in case.get("script", {}).items()}
    loop = VirtualLoop()
    seq, subs, futs = [], [], []
    attempts, written = {}, set()

    def create_futures_func(inputs, **kwargs):
        op = kwargs["func"].op
        out = []
        for i in inputs:
            k = attempts.get((op, i), 0)
            attempts[(op, i)] = k + 1
            ok, dur = script.get((op, i, k), (True, 1))
            fut = loop.create_future()
            futs.append(fut)
            t0 = loop.time()
            subs.append({"op": op, "input": i, "attempt": k, "t0": t0, "t1": t0 + dur, "ok": ok})
            seq.append(("sub", op, i, k, t0))

            def fire(fut=fut, op=op, i=i, k=k, ok=ok):
                first = ok and (op, i) not in written
                if ok:
                    written.add((op, i))
                seq.append(("fin", op, i, k, ok, first, loop.time()))
                if fut.done():      # cancelled meanwhile; the execution itself ran to its end
                    return
                if ok:
                    fut.set_result((("res", op, i, k), {}))
                else:
                    fut.set_exception(ScriptError(k, i))

            loop.call_at(t0 + dur, fire)
            out.append((i, fut))
        return out

    class Rec(Callback):
        def on_operation_start(self, event):
            seq.append(("E", "opStart", int(event.name[3:]), None, loop.time()))

        def on_operation_end(self, event):
            seq.append(("E", "opEnd", int(event.name[3:]), None, loop.time()))

        def on_task_end(self, event):
            seq.append(("E", "taskEnd", int(event.name[3:]), event.result[2], loop.time()))

    res = {"outcome": None, "detail": None}
    kw = {"use_backups": bool(case.get("use_backups", False))}
    if case.get("batch_size") is not None:
        kw["batch_size"] = case["batch_size"]
    old_time = cra.time
    cra.time = VClock(loop)
    try:
        with contextlib.redirect_stdout(io.StringIO()):
            try:
                loop.run_until_complete(asyncio.wait_for(
                    cra.async_map_dag(create_futures_func, dag=dag, callbacks=[Rec()],
                                      compute_arrays_in_parallel=bool(case.get("parallel", False)), **kw),
                    timeout=10_000_000))
                res["outcome"] = "done"
            except ScriptError as e:
                res["outcome"] = "raised"
                res["detail"] = {"input": e.inp, "attempt": e.sub}
            except BaseException as e:
                res["outcome"] = "crash"
                res["detail"] = ("%s: %s" % (type(e).__name__, e))[:200]
        res["end_time"] = loop.time()
        # let abandoned executions run to their scripted end (they still write their chunks)
        with contextlib.redirect_stdout(io.StringIO()):
            try:
                horizon = max([s_["t1"] for s_ in subs], default=0) + 1
                loop.run_until_complete(asyncio.sleep(max(0, horizon - loop.time())))
            except BaseException:
                pass
    finally:
        cra.time = old_time
        try:
            for f in futs:
                if not f.done():
                    f.cancel()
                elif not f.cancelled():
                    f.exception()
            loop.run_until_complete(asyncio.sleep(0))
        except Exception:
            pass
        loop.close()
    res["seq"] = seq
    res["subs"] = subs
    res["facts"] = dag_facts(dag)
    return res


def scripted_tokens(res):
    """Observation tokens for the Lean acceptor: callback events, w<arr> when an input's first successful execution ends
    (its chunk gets its final value), r<arr> when a task that reads arr is submitted."""
    f = res["facts"]
    idx = f["idx"]
    toks = ["cs"]
    ops = len(f["names"]) // 2
    preds = {o: [u for u, v in f["edges"] if v == idx["op-%d" % o]] for o in range(ops)}
    for ob in res["seq"]:
        if ob[0] == "E":
            toks.append({"opStart": "os", "taskEnd": "te", "opEnd": "oe"}[ob[1]] + str(idx["op-%d" % ob[2]]))
        elif ob[0] == "sub":
            for a in preds[ob[1]]:
                toks.append("r%d" % a)
        elif ob[0] == "fin" and ob[5]:
            toks.append("w%d" % idx["arr-%d" % ob[1]])
    toks.append("ce")
    return toks


def scripted_violations(case, res):
    """C07 on a scripted run, directly: every input of an op yields exactly once; an op (generation) is closed, and a
    consumer task is submitted, only after every input of every producer has completed a successful execution."""
    out = []
    if res["outcome"] == "crash":
        return ["the executor crashed or hung: %s" % res["detail"]]
    first_ok = {}
    for s_ in res["subs"]:
        if s_["ok"]:
            k = (s_["op"], s_["input"])
            first_ok[k] = min(first_ok.get(k, s_["t1"]), s_["t1"])
    if res["outcome"] == "raised":
        # an error may surface only for an input none of whose submitted copies succeeds
        bad = [(s_["op"], s_["input"]) for s_ in res["subs"]
               if not s_["ok"] and s_["input"] == res["detail"]["input"] and (s_["op"], s_["input"]) not in first_ok]
        if not bad:
            out.append("an error was raised for input %s although a submitted copy of it succeeds" % res["detail"]["input"])
        return out
    ops = case["ops"]
    yielded = {}
    ends = {}
    for ob in res["seq"]:
        if ob[0] == "E" and ob[1] == "taskEnd":
            yielded.setdefault(ob[2], []).append(ob[3])
        if ob[0] == "E" and ob[1] == "opEnd":
            ends[ob[2]] = ob[4]
    for o, op in enumerate(ops):
        got = sorted(yielded.get(o, []))
        if got != list(range(op["n"])):
            missing = sorted(set(range(op["n"])) - set(got))
            dup = sorted({i for i in got if got.count(i) > 1})
            out.append("op-%d: %d inputs, task-end notifications for %d (missing %s, repeated %s)" % (o, op["n"], len(got), missing, dup))
        for i in range(op["n"]):
            t = first_ok.get((o, i))
            if o in ends and (t is None or t > ends[o]):
                out.append("op-%d was closed at t=%s but its input %d %s" % (
                    o, ends[o], i, "never completed successfully" if t is None else "finished writing only at t=%s" % t))
                break
    for s_ in res["subs"]:
        for p in ops[s_["op"]]["preds"]:
            for i in range(ops[p]["n"]):
                t = first_ok.get((p, i))
                if t is None or t > s_["t0"]:
                    out.append("a task of op-%d (input %d) was submitted at t=%s while input %d of its producer op-%d %s"
                               % (s_["op"], s_["input"], s_["t0"], i, p,
                                  "never completes" if t is None else "is still being written until t=%s" % t))
                    return out
    return out


if __name__ == "__main__":
    import json
    import sys

    sys.path.insert(0, os.environ.get("VERIF_REPO", "/repo"))
    case = json.loads(sys.argv[1])
    r = run_case(case["program"], case["config"], case.get("store_seed", 0), case.get("max_latency", 0.02))
    print("error:", r["error"])
    if r["facts"]:
        f = r["facts"]
        print("nodes:", {i: n for i, n in enumerate(f["names"])})
        print("advertised:", f["advertised"], "real:", f["real"], "plan total:", f["plan_total"])
        print("visit_nodes:", f["visit_nodes"], "visit_gens:", f["visit_gens"])
    for line in r["log"]:
        print(line)
    cleanup(r)
