"""C11 plug-in extractor: the exact source expressions of `store` / `_store_array` that Model/StoreSem.lean was written
against -> Model/GeneratedC11.lean (namespace Cubed.GeneratedC11).

Each fact is the `ast.unparse` text of one decision / arithmetic expression (or the keyword arguments of a call).
`Properties/C11.lean: C11_model_matches_source` compares them with the text the model mirrors, so changing `//` to `%`,
dropping a check, or taking `num_tasks` / `chunkss` from somewhere else breaks a proof obligation (and the check then
searches for a failing input)."""
from __future__ import annotations

import ast

import extract
from extract import ExtractError, lean_str

REL = "cubed/core/ops.py"


def _raises_value_error(body):
    return any(isinstance(s, ast.Raise) and s.exc is not None and "ValueError" in ast.unparse(s.exc) for s in body)


def _calls(fn, name):
    out = []
    for node in ast.walk(fn):
        if isinstance(node, ast.Call):
            f = node.func
            fname = f.id if isinstance(f, ast.Name) else (f.attr if isinstance(f, ast.Attribute) else None)
            if fname == name:
                out.append(node)
    return out


def _kw(call, key):
    for k in call.keywords:
        if k.arg == key:
            return ast.unparse(k.value)
    return "<absent>"


def _assign_value(fn, target):
    for node in ast.walk(fn):
        if isinstance(node, ast.Assign) and len(node.targets) == 1 and ast.unparse(node.targets[0]) == target:
            return node
    raise ExtractError(f"{REL}:{fn.name}: assignment to {target} not found")


def facts(repo):
    tree = extract._parse(repo, REL)
    out = {}

    def put(name, val, where):
        out[name] = ("String", lean_str(val), f"{REL}:{where}")

    # ---- store ------------------------------------------------------------------------------------
    st = extract._func(tree, "store", REL)
    raising_ifs = [n for n in ast.walk(st) if isinstance(n, ast.If) and _raises_value_error(n.body)]
    tests = [ast.unparse(n.test) for n in sorted(raising_ifs, key=lambda n: n.lineno)]
    put("storeRaisingTests", " ;; ".join(tests), "store (tests of the ifs that raise ValueError, in order)")
    branch = [n for n in ast.walk(st) if isinstance(n, ast.If) and "isinstance(regions, tuple)" in ast.unparse(n.test)]
    if len(branch) != 1:
        raise ExtractError(f"{REL}:store: regions tuple/None branch not found")
    put("storeRegionsBroadcastTest", ast.unparse(branch[0].test), "store")
    put("storeRegionsBroadcast", " ;; ".join(ast.unparse(s) for s in branch[0].body), "store")
    loops = [n for n in ast.walk(st) if isinstance(n, ast.For)]
    if len(loops) != 1:
        raise ExtractError(f"{REL}:store: expected exactly one for loop")
    put("storeLoop", ast.unparse(loops[0].target) + " in " + ast.unparse(loops[0].iter), "store")
    # the compute call comes after the loop
    comp = _calls(st, "compute_arrays")
    if len(comp) != 1 or comp[0].lineno < loops[0].lineno:
        raise ExtractError(f"{REL}:store: compute_arrays call after the loop not found")
    put("storeComputeAfterLoop", "true", "store")

    # ---- _store_array --------------------------------------------------------------------------------
    sa = extract._func(tree, "_store_array", REL)
    # branch test region / no region
    reg = [n for n in ast.walk(sa) if isinstance(n, ast.If) and ast.unparse(n.test).startswith("region is None or")]
    if len(reg) != 1:
        raise ExtractError(f"{REL}:_store_array: region branch test not found")
    put("regionBranchTest", ast.unparse(reg[0].test), "_store_array")
    noreg, regbody = reg[0].body, reg[0].orelse
    # no-region branch: [if is_storage_array(target): shape check + rechunk of unaligned sources] then lazy/non-lazy
    ifs = [n for n in noreg if isinstance(n, ast.If)]
    if len(ifs) != 2:
        raise ExtractError(f"{REL}:_store_array: expected 'if is_storage_array(target)' and the lazy/non-lazy branch")
    guard, lz = ifs
    put("copyGuardTest", ast.unparse(guard.test), "_store_array")
    gmod = ast.Module(body=guard.body, type_ignores=[])
    graise = sorted([n for n in ast.walk(gmod) if isinstance(n, ast.If) and _raises_value_error(n.body)], key=lambda n: n.lineno)
    put("copyShapeTest", " ;; ".join(ast.unparse(n.test) for n in graise), "_store_array")
    gre = [n for n in ast.walk(gmod) if isinstance(n, ast.If) and any(
        isinstance(x, ast.Assign) and ast.unparse(x.targets[0]) == "source" for x in n.body)]
    if len(gre) != 1:
        raise ExtractError(f"{REL}:_store_array: rechunk of unaligned sources not found")
    put("copyRechunkTest", ast.unparse(gre[0].test), "_store_array")
    put("copyRechunk", " ;; ".join(ast.unparse(x) for x in gre[0].body), "_store_array")
    shard_guard = [n for n in guard.body if isinstance(n, ast.If) and any(g is gre[0] for g in ast.walk(n))]
    put("copyRechunkGuard", ast.unparse(shard_guard[0].test) if shard_guard else "<absent>", "_store_array")
    if graise and graise[0].lineno > gre[0].lineno:
        raise ExtractError(f"{REL}:_store_array: shape check no longer precedes the rechunk")
    lazy = [lz]
    put("lazyBranchTest", ast.unparse(lz.test), "_store_array")
    bw = [c for s in lazy[0].body for c in _calls(s, "blockwise")]
    if len(bw) != 1:
        raise ExtractError(f"{REL}:_store_array: blockwise identity call not found")
    put("copyCall", "align_arrays=%s target_store=%s fusable_with_successors=%s" % (
        _kw(bw[0], "align_arrays"), _kw(bw[0], "target_store"), _kw(bw[0], "fusable_with_successors")), "_store_array")
    retarget = [ast.unparse(s) for s in lazy[0].orelse if isinstance(s, ast.Assign)]
    put("retargetFirstAssign", retarget[0] if retarget else "<absent>", "_store_array")

    # region branch: wrap in a module so ast.walk works on the statement list
    regmod = ast.Module(body=regbody, type_ignores=[])
    put("regionShape", ast.unparse(_assign_value(regmod, "shape").value), "_store_array")
    put("regionChunks", ast.unparse(_assign_value(regmod, "chunks").value), "_store_array")
    al = [n for n in ast.walk(regmod) if isinstance(n, ast.If) and _raises_value_error(n.body)]
    al = sorted(al, key=lambda n: n.lineno)
    if len(al) != 4:
        raise ExtractError(f"{REL}:_store_array: expected four raising checks in the region branch, found {len(al)}")
    put("regionTupleTest", ast.unparse(al[0].test), "_store_array")
    put("stepTest", ast.unparse(al[1].test), "_store_array")
    nr = _assign_value(regmod, "normalized_region")
    put("normalizedRegion", ast.unparse(nr.value), "_store_array")
    put("alignTest", ast.unparse(al[2].test), "_store_array")
    loop = [n for n in ast.walk(regmod) if isinstance(n, ast.For) and any(a is al[2] for a in ast.walk(n))]
    put("alignLoop", (ast.unparse(loop[0].target) + " in " + ast.unparse(loop[0].iter)) if loop else "<absent>", "_store_array")
    rebind = [n for n in regbody if isinstance(n, ast.Assign) and ast.unparse(n.targets[0]) == "region"]
    put("regionRebind", ast.unparse(rebind[0].value) if rebind else "<absent>", "_store_array")
    put("shapeTest", ast.unparse(al[3].test), "_store_array")
    put("blockOffsets", ast.unparse(_assign_value(regmod, "block_offsets").value), "_store_array")
    put("inCoords", ast.unparse(_assign_value(regmod, "in_coords").value), "_store_array.back_key_function")
    idx = _assign_value(regmod, "indexer")
    put("indexerCall", ast.unparse(idx.value), "_store_array")
    if not (al[0].lineno < al[1].lineno < nr.lineno < al[2].lineno < (rebind[0].lineno if rebind else 0)
            < idx.lineno < al[3].lineno):
        raise ExtractError(f"{REL}:_store_array: order tuple test < step test < normalisation < alignment < indexer < shape test changed")
    put("regionChunksize", ast.unparse(_assign_value(regmod, "region_chunksize").value), "_store_array")
    rre = [n for n in regbody if isinstance(n, ast.If) and any(
        isinstance(x, ast.Assign) and ast.unparse(x.targets[0]) == "source" for x in n.body)]
    if len(rre) != 1 or rre[0].lineno < al[3].lineno:
        raise ExtractError(f"{REL}:_store_array: rechunk of the source to the target chunks (after the shape test) not found")
    put("regionRechunkTest", ast.unparse(rre[0].test), "_store_array")
    put("regionRechunk", " ;; ".join(ast.unparse(x) for x in rre[0].body), "_store_array")
    gb = _calls(regmod, "general_blockwise")
    if len(gb) != 1:
        raise ExtractError(f"{REL}:_store_array: general_blockwise call not found")
    if gb[0].lineno < rre[0].lineno:
        raise ExtractError(f"{REL}:_store_array: the op is built before the checks / the rechunk")
    put("regionOpCall", " ".join("%s=%s" % (k, _kw(gb[0], k)) for k in
                                  ("shapes", "chunkss", "target_stores", "output_blocks", "num_tasks", "fusable_with_successors")),
        "_store_array")
    ob = [n for n in ast.walk(regmod) if isinstance(n, ast.ClassDef) and n.name == "OutputBlocksIterable"]
    if len(ob) != 1:
        raise ExtractError(f"{REL}:_store_array: OutputBlocksIterable not found")
    it = [n for n in ast.walk(ob[0]) if isinstance(n, ast.FunctionDef) and n.name == "__iter__"]
    put("outputBlocksIter", " ;; ".join(ast.unparse(s) for s in it[0].body) if it else "<absent>", "_store_array.OutputBlocksIterable")

    # ---- apply_blockwise: where the write goes --------------------------------------------------------
    rel2 = "cubed/primitive/blockwise.py"
    t2 = extract._parse(repo, rel2)
    ab = extract._func(t2, "apply_blockwise", rel2)
    k2s = _calls(ab, "key_to_slices")
    if len(k2s) != 1:
        raise ExtractError(f"{rel2}:apply_blockwise: key_to_slices call not found")
    out["writeSlot"] = ("String", lean_str(ast.unparse(k2s[0])), rel2 + ":apply_blockwise")
    gbp = extract._func(t2, "general_blockwise", rel2)
    wp = [n for n in ast.walk(gbp) if isinstance(n, ast.Assign) and ast.unparse(n.targets[0]) == "write_proxies[target_names[i]]"]
    if len(wp) != 1:
        raise ExtractError(f"{rel2}:general_blockwise: write proxy assignment not found")
    out["writeProxy"] = ("String", lean_str(ast.unparse(wp[0].value)), rel2 + ":general_blockwise")
    mp = _assign_value(gbp, "mappable")
    out["mappable"] = ("String", lean_str(ast.unparse(mp.value)), rel2 + ":general_blockwise")
    return out
