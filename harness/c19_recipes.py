"""Call recipes for C19: one small, deterministic call of every public function family of cubed, written against an
environment `E` that decides how the resource configuration is passed:

    E.kw            {} (global default config: no spec argument anywhere) or {"spec": <Spec>}
    E.arr(a, chunks)   xp.asarray(numpy array, chunks=…, **E.kw)
    E.xp, E.cubed, E.np

Each recipe returns the list of cubed arrays to compute.  `covers` names the enclosing functions of the static site
table (harness/extract_c19.py) the recipe is meant to reach — the correspondence reports sites no recipe reached.
"""
from __future__ import annotations

import random as pyrandom


class Env:
    def __init__(self, spec=None, spec_for=None):
        import numpy as np

        import cubed
        import cubed.array_api as xp
        self.np, self.cubed, self.xp = np, cubed, xp
        self.spec = spec
        self.kw = {} if spec is None else {"spec": spec}
        self._spec_for = spec_for  # optional: per-input override (mixed explicit/default inputs)
        self._n = 0

    def kw_for_input(self):
        self._n += 1
        if self._spec_for is not None:
            s = self._spec_for(self._n)
            return {} if s is None else {"spec": s}
        return self.kw

    def arr(self, a, chunks):
        return self.xp.asarray(self.np.asarray(a), chunks=chunks, **self.kw_for_input())

    def ar(self, n, chunks, dtype="int64", start=0):
        return self.arr(self.np.arange(start, start + n, dtype=dtype), chunks)

    def mat(self, r, c, chunks, dtype="float64"):
        return self.arr((self.np.arange(r * c, dtype=dtype).reshape(r, c) * 0.5 - 3), chunks)


def _nanmat(E):
    a = E.np.arange(24, dtype="float64").reshape(4, 6)
    a[1, 2] = E.np.nan
    a[3, 0] = E.np.nan
    return E.arr(a, (2, 3))


def _gb_func(a, by, axis, intermediate_dtype, num_groups):
    import numpy_groupies as npg
    dtype = dict(intermediate_dtype)
    n = npg.aggregate(by, a, func="len", dtype=dtype["n"], axis=axis, size=num_groups)
    total = npg.aggregate(by, a, func="sum", dtype=dtype["total"], axis=axis, size=num_groups)
    return {"n": n, "total": total}


def _gb_combine(a, axis, dummy_axis, dtype, keepdims):
    import numpy as np
    dtype = dict(dtype)
    return {"n": np.sum(a["n"], dtype=dtype["n"], axis=dummy_axis, keepdims=keepdims),
            "total": np.sum(a["total"], dtype=dtype["total"], axis=dummy_axis, keepdims=keepdims)}


def _gb_aggregate(a, **kwargs):
    import numpy as np
    return np.divide(a["total"], a["n"])


def _groupby(E):
    from cubed.core.groupby import groupby_reduction
    a = E.arr(E.np.arange(24 * 3, dtype="float64").reshape(24, 3), (4, 2))
    b = E.arr(E.np.asarray([0, 1, 0, 1] * 6), (4,))
    return [groupby_reduction(a, b, func=_gb_func, combine_func=_gb_combine, aggregate_func=_gb_aggregate, axis=0,
                              intermediate_dtype=[("n", "int64"), ("total", "float64")], dtype=a.dtype, num_groups=2)]


def _block_sum_with_id(x, block_id=None):
    return x + block_id[0] * 100


def _blockid_only(x, block_id=None):
    import numpy as np
    return np.full(x.shape, block_id[0] * 10 + 1, dtype=x.dtype)


def _plus(a, b):
    return a + b


def _overlap_sum(x):
    import numpy as np
    return x + np.roll(x, 1)


def _outer_g(x, y):
    import numpy as np
    return np.add(x, y)


def _zarr_source(E, tag):
    import os
    import tempfile

    import zarr
    d = tempfile.mkdtemp(prefix="c19-src-%s-" % tag)
    path = os.path.join(d, "src.zarr")
    z = zarr.open_array(path, mode="w", shape=(6, 4), chunks=(3, 2), dtype="int64")
    z[...] = E.np.arange(24).reshape(6, 4)
    return path, z


def _from_zarr(E):
    path, _ = _zarr_source(E, "fz")
    return [E.cubed.from_zarr(path, **E.kw) + 1]


def _from_array_zarr(E):
    _, z = _zarr_source(E, "fa")
    return [E.cubed.from_array(z, chunks=(3, 4), **E.kw) * 2]


def _random(E):
    pyrandom.seed(20260923)
    return [E.cubed.random.random((8, 3), chunks=(3, 2), **E.kw) + E.ar(3, (2,), "float64")]


class XarrayLike:
    """Stand-in for an xarray object (xarray is not installed): asarray() looks at the class' module name and `.data`;
    cubed.utils.extract_array_names looks at `.variable._data`."""

    def __init__(self, data):
        import types
        self.data = data
        self.variable = types.SimpleNamespace(_data=data)


XarrayLike.__module__ = "xarray.core.dataarray"


def _asarray_xarray(E):
    a = E.xp.asarray(XarrayLike(E.np.arange(6)), chunks=(4,), **E.kw)
    return [a + E.xp.ones((6,), dtype=a.dtype, chunks=(4,), **E.kw), E.xp.asarray(XarrayLike(E.ar(5, (2,)))) * 2]


def _qr(E):
    q, r = E.xp.linalg.qr(E.mat(8, 2, (4, 2)))
    return [E.xp.matmul(q, r)]


def _svd(E):
    u, s, vh = E.xp.linalg.svd(E.mat(8, 2, (4, 2)), full_matrices=False)
    return [s]


RECIPES = [
    # ---- creation functions (the spec argument is the configuration) -----------------------------------------
    ("asarray", "create", lambda E: [E.ar(7, (3,))], ["asarray"]),
    ("asarray_scalar", "create", lambda E: [E.xp.asarray(5, **E.kw) + E.ar(4, (2,))], ["asarray"]),
    ("asarray_xarray_standin", "create", _asarray_xarray, ["asarray"]),
    ("arange", "create", lambda E: [E.xp.arange(2, 17, 3, chunks=(2,), **E.kw)], ["arange", "map_blocks"]),
    ("empty_ones_zeros_full", "create",
     lambda E: [E.xp.ones((5, 3), chunks=(2, 2), **E.kw) + E.xp.zeros((5, 3), chunks=(2, 2), **E.kw),
                E.xp.full((4,), 7, chunks=(3,), **E.kw), E.xp.zeros_like(E.xp.empty((3,), chunks=(2,), **E.kw))],
     ["ones", "zeros", "full", "empty", "empty_virtual_array"]),
    ("likes", "create",
     lambda E: [E.xp.ones_like(E.ar(5, (2,))) + E.xp.zeros_like(E.ar(5, (2,))) + E.xp.full_like(E.ar(5, (2,)), 3),
                E.xp.negative(E.xp.ones_like(E.ar(5, (2,)), **E.kw)),
                E.xp.where(E.ar(5, (2,)) >= 0, E.ar(5, (2,)), E.xp.empty_like(E.ar(5, (2,))))],
     ["ones_like", "zeros_like", "full_like", "empty_like"]),
    ("eye", "create", lambda E: [E.xp.eye(5, 4, k=1, chunks=(2, 2), **E.kw)], ["eye"]),
    ("linspace", "create", lambda E: [E.xp.linspace(0.0, 2.0, 9, chunks=(4,), **E.kw), E.xp.linspace(0, 1, 0, **E.kw)], ["linspace"]),
    ("tril_triu", "create", lambda E: [E.xp.tril(E.mat(5, 4, (2, 2))), E.xp.triu(E.mat(5, 4, (2, 2)), k=1)], ["tril", "triu", "_tri_mask"]),
    ("meshgrid", "create", lambda E: list(E.xp.meshgrid(E.ar(3, (2,)), E.ar(4, (3,), start=10))), []),
    ("from_array_numpy", "create", lambda E: [E.cubed.from_array(E.np.arange(12).reshape(3, 4), chunks=(2, 3), **E.kw) + 1], ["from_array"]),
    ("from_array_zarr", "create", _from_array_zarr, ["from_array"]),
    ("from_zarr", "create", _from_zarr, ["from_zarr"]),
    ("random", "create", _random, ["random"]),
    ("random_integers", "create", lambda E: [E.cubed.random.integers((7, 3), chunks=(3, 2), **E.kw)], ["integers"]),
    ("map_blocks_noargs", "create",
     lambda E: [E.cubed.map_blocks(_blockid_only, dtype="int64", chunks=((2, 2, 1),), **E.kw)], ["map_blocks"]),
    # ---- elementwise / scalars ---------------------------------------------------------------------------------
    ("elementwise", "elementwise", lambda E: [E.xp.add(E.ar(6, (4,)), E.ar(6, (3,), start=5)), E.xp.sqrt(E.mat(3, 4, (2, 3)) + 10)], ["blockwise"]),
    ("scalar_ops", "elementwise", lambda E: [E.ar(6, (4,)) * 3 + 1, 2 - E.ar(6, (4,)), E.ar(6, (4,)) < 3], ["Array._promote_scalar"]),
    ("clip", "elementwise",
     lambda E: [E.xp.clip(E.ar(9, (4,)), 2, 6), E.xp.clip(E.ar(9, (4,)), max=4), E.xp.clip(E.ar(9, (4,)), E.ar(9, (4,)) - 2, 7)], ["clip"]),
    # (with NumPy >= 2 the min-only form dies inside the task: the same way under every configuration)
    ("clip_min_only", "planonly", lambda E: [E.xp.clip(E.ar(9, (4,)), min=3)], ["clip"]),
    ("where_broadcast", "elementwise", lambda E: [E.xp.where(E.mat(4, 3, (2, 2)) > 0, E.mat(4, 3, (3, 1)), E.ar(3, (2,), "float64"))], []),
    ("astype", "elementwise", lambda E: [E.xp.astype(E.mat(4, 3, (2, 2)), E.xp.int32)], []),
    # ---- reductions / scans ---------------------------------------------------------------------------------------
    ("reductions", "reduce",
     lambda E: [E.xp.sum(E.mat(6, 4, (2, 3)), axis=0), E.xp.mean(E.mat(6, 4, (2, 3))), E.xp.max(E.ar(11, (3,))),
                E.xp.var(E.mat(6, 4, (2, 3)), axis=1), E.xp.prod(E.ar(5, (2,), start=1)), E.xp.all(E.ar(5, (2,)) >= 0)], []),
    ("argreduce", "reduce", lambda E: [E.xp.argmax(E.mat(6, 4, (2, 3)), axis=0), E.xp.argmin(E.ar(11, (3,)))], []),
    ("cumulative", "reduce", lambda E: [E.xp.cumulative_sum(E.ar(10, (5,))), E.xp.cumulative_prod(E.ar(5, (5,), start=1))], []),
    ("count_nonzero_diff", "reduce", lambda E: [E.xp.count_nonzero(E.ar(9, (4,)) % 2), E.xp.diff(E.ar(9, (9,)) ** 2)], []),
    ("nan_functions", "nan",
     lambda E: [E.cubed.nansum(_nanmat(E), axis=0), E.cubed.nanmean(_nanmat(E)), E.cubed.nanmax(_nanmat(E), axis=1),
                E.cubed.nanmin(_nanmat(E)), E.cubed.nanprod(_nanmat(E) * 0.1, axis=0), E.cubed.nanvar(_nanmat(E), axis=0),
                E.cubed.nanstd(_nanmat(E)), E.cubed.nanargmax(_nanmat(E), axis=1), E.cubed.nanargmin(_nanmat(E), axis=0),
                E.cubed.nancumsum(_nanmat(E), axis=1), E.cubed.nancumprod(_nanmat(E) * 0.1, axis=0)], []),
    ("nanmedian", "nan", lambda E: [E.cubed.nanmedian(_nanmat(E), axis=0)], []),
    # ---- data movement ---------------------------------------------------------------------------------------------
    ("index", "move", lambda E: [E.mat(6, 5, (2, 2))[1:5, ::2], E.ar(10, (3,))[7:2:-1], E.mat(6, 5, (2, 2))[2], E.ar(10, (3,))[3:3]], ["index"]),
    ("index_array", "move", lambda E: [E.ar(10, (3,))[[7, 1, 1, 4]], E.mat(6, 5, (2, 2))[[4, 0], :], E.ar(10, (3,))[E.xp.asarray([2, 5], **E.kw)]], ["index"]),
    ("take", "move", lambda E: [E.xp.take(E.mat(6, 5, (2, 2)), E.ar(3, (2,)), axis=1)], []),
    ("flip_roll", "move", lambda E: [E.xp.flip(E.mat(6, 5, (2, 2)), axis=0), E.xp.roll(E.ar(10, (3,)), 4), E.xp.roll(E.mat(6, 5, (2, 2)), (1, -2), axis=(0, 1))], []),
    ("repeat_tile", "move", lambda E: [E.xp.repeat(E.ar(5, (2,)), 3), E.xp.tile(E.mat(3, 2, (2, 2)), (2, 3))], []),
    ("concat_stack_unstack", "move",
     lambda E: [E.xp.concat([E.ar(5, (2,)), E.ar(4, (2,), start=9)]), E.xp.stack([E.ar(4, (2,)), E.ar(4, (2,), start=3)], axis=1)]
     + list(E.xp.unstack(E.mat(3, 4, (2, 2)), axis=0)), []),
    ("reshape_family", "move",
     lambda E: [E.xp.reshape(E.ar(12, (4,)), (3, 4)), E.xp.reshape(E.mat(4, 6, (2, 6)), (24,)), E.xp.expand_dims(E.ar(5, (2,)), axis=0),
                E.xp.squeeze(E.xp.expand_dims(E.ar(5, (2,)), axis=1), axis=1), E.xp.permute_dims(E.mat(4, 6, (2, 3)), (1, 0)),
                E.xp.moveaxis(E.mat(4, 6, (2, 3)), 0, 1)], ["reshape_chunks"]),
    ("broadcast", "move", lambda E: [E.xp.broadcast_to(E.ar(4, (2,)), (3, 4)), E.xp.broadcast_arrays(E.ar(4, (2,)), E.mat(3, 4, (2, 2)))[0]], ["broadcast_to"]),
    ("rechunk", "move", lambda E: [E.cubed.rechunk(E.mat(6, 8, (2, 8)), (6, 2)), E.mat(6, 8, (3, 3)).rechunk((2, 4))], []),
    ("pad", "move", lambda E: [E.cubed.pad(E.mat(4, 5, (2, 2)), ((1, 2), (0, 3)), mode="constant", constant_values=1.5),
                               E.cubed.pad(E.ar(6, (4,)), ((1, 0),), mode="symmetric")], ["pad"]),
    # ---- searching / sets ---------------------------------------------------------------------------------------------
    ("searchsorted", "search",
     lambda E: [E.xp.searchsorted(E.ar(12, (5,), start=3), E.arr([0, 4, 4, 9, 30], (2,))),
                E.xp.searchsorted(E.ar(12, (4,)), E.arr([[1, 5], [7, 20]], (1, 2)), side="right"),
                E.xp.searchsorted(E.ar(6, (2,)), 3)], ["searchsorted"]),
    ("isin", "search", lambda E: [E.xp.isin(E.ar(9, (4,)), E.arr([2, 5, 40], (2,))), E.xp.isin(E.mat(3, 4, (2, 2)), E.arr([-3.0, 0.5], (2,)), invert=True)], []),
    # ---- linear algebra --------------------------------------------------------------------------------------------------
    ("matmul_family", "linalg",
     lambda E: [E.xp.matmul(E.mat(4, 6, (2, 3)), E.mat(6, 3, (3, 2))), E.xp.tensordot(E.mat(4, 6, (2, 3)), E.mat(6, 3, (3, 2)), axes=1),
                E.xp.vecdot(E.mat(4, 6, (2, 3)), E.mat(4, 6, (2, 3))), E.xp.linalg.outer(E.ar(3, (2,)), E.ar(4, (3,))),
                E.xp.matrix_transpose(E.mat(4, 6, (2, 3)))], []),
    ("qr", "linalg", _qr, ["_general_blockwise"]),
    ("svd", "linalg", _svd, []),
    # ---- generic entry points ---------------------------------------------------------------------------------------------
    ("map_blocks", "generic",
     lambda E: [E.cubed.map_blocks(_block_sum_with_id, E.ar(7, (3,)), dtype="int64"),
                E.cubed.map_blocks(_plus, E.ar(6, (6,)), E.np.arange(6) * 10, dtype="int64")], ["map_blocks"]),
    ("map_overlap", "generic", lambda E: [E.cubed.map_overlap(_overlap_sum, E.ar(10, (5,)), dtype="int64", chunks=((7, 7),), depth=1, boundary=0, trim=False)], []),
    ("apply_gufunc", "generic",
     lambda E: [E.cubed.apply_gufunc(_outer_g, "(),()->()", E.ar(6, (6,)), E.np.arange(6) * 7, output_dtypes="int64"),
                E.cubed.apply_gufunc(_outer_g, "(),()->()", E.ar(6, (3,)), E.ar(6, (3,), start=4), output_dtypes="int64")], ["apply_gufunc"]),
    ("groupby", "generic", _groupby, []),
    ("composition", "generic",
     lambda E: [E.xp.sum(E.xp.where(E.xp.tril(E.mat(6, 6, (2, 3))) > 0, E.cubed.pad(E.mat(4, 4, (2, 2)), ((1, 1), (1, 1)), mode="constant"), 2.0)
                         * E.xp.expand_dims(E.xp.searchsorted(E.ar(8, (3,)), E.ar(6, (4,))), axis=0), axis=1)], []),
]


def by_name(name):
    for r in RECIPES:
        if r[0] == name:
            return r
    raise KeyError(name)
