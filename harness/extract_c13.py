"""Plug-in extractor for C13: where the advertised task counts and the task iterables come from.

    general_blockwise: num_tasks = math.prod(len(c) for c in X) and mappable = ChunkKeys(Y) (unless output_blocks given): X, Y
    _store_array (region): the num_tasks= and output_blocks= arguments of its general_blockwise call, and the rechunk of the
        source to the target's chunks inserted before it (repository commit ba97b91)
    fuse / fuse_multiple: the fused op keeps the successor's mappable and num_tasks
    create_zarr_arrays: num_tasks = len(L) and the pipeline's mappable is L
    FinalizedPlan._calculate_stats: _num_tasks accumulates primitive_op.num_tasks
    FinalizedPlan.execute: compute-start before and compute-end after executor.execute_dag

The theorem `C13_code_shape` (Properties/C13.lean, `by decide`) states the values the model assumes.
"""
from __future__ import annotations

import ast

from extract import ExtractError, _func, _parse, _src, lean_str


def _assign_value(fn, target, rel):
    """Source of the value of the (last) plain assignment `target = …` inside fn."""
    val = None
    for node in ast.walk(fn):
        if isinstance(node, ast.Assign) and len(node.targets) == 1 and _src(node.targets[0]) == target:
            val = node.value
    if val is None:
        raise ExtractError(f"{rel}: no assignment to {target} in {fn.name}")
    return val


def _call_named(fn, fname, rel):
    calls = [n for n in ast.walk(fn) if isinstance(n, ast.Call) and _src(n.func) == fname]
    if not calls:
        raise ExtractError(f"{rel}: no call of {fname} in {fn.name}")
    return calls


def _kw(call, name):
    for k in call.keywords:
        if k.arg == name:
            return _src(k.value)
    return None


def facts(repo):
    out = {}

    def put(name, typ, val, prov):
        out[name] = (typ, val, prov)

    rel = "cubed/primitive/blockwise.py"
    t = _parse(repo, rel)
    fn = _func(t, "general_blockwise", rel)
    nt = _assign_value(fn, "num_tasks", rel)
    src = _src(nt)
    count_src = "other:" + src[:60]
    if isinstance(nt, ast.Call) and _src(nt.func) == "math.prod" and len(nt.args) == 1 and isinstance(nt.args[0], ast.GeneratorExp):
        g = nt.args[0]
        if _src(g.elt) == "len(c)" and len(g.generators) == 1 and _src(g.generators[0].target) == "c":
            count_src = _src(g.generators[0].iter)
    put("blockwiseCountSource", "String", lean_str(count_src), rel + ":general_blockwise")
    mp = _assign_value(fn, "mappable", rel)
    msrc = "other:" + _src(mp)[:60]
    if isinstance(mp, ast.IfExp) and _src(mp.test) == "output_blocks is not None" and _src(mp.body) == "output_blocks" \
            and isinstance(mp.orelse, ast.Call) and _src(mp.orelse.func) == "ChunkKeys" and len(mp.orelse.args) == 1:
        msrc = _src(mp.orelse.args[0])
    put("blockwiseMappableSource", "String", lean_str(msrc), rel + ":general_blockwise")
    # the count is only computed when the caller gave none
    guarded = any(isinstance(n, ast.If) and _src(n.test) == "num_tasks is None" for n in ast.walk(fn))
    put("blockwiseCountOnlyIfNone", "Bool", "true" if guarded else "false", rel + ":general_blockwise")
    pos = [n for n in ast.walk(fn) if isinstance(n, ast.Call) and _src(n.func) == "PrimitiveOperation"]
    put("blockwisePassesCount", "Bool", "true" if pos and _kw(pos[-1], "num_tasks") == "num_tasks" else "false", rel + ":general_blockwise")
    pls = [n for n in ast.walk(fn) if isinstance(n, ast.Call) and _src(n.func) == "CubedPipeline"]
    put("blockwisePassesMappable", "Bool", "true" if pls and len(pls[-1].args) >= 3 and _src(pls[-1].args[2]) == "mappable" else "false",
        rel + ":general_blockwise")

    fn = _func(t, "fuse", rel)
    keeps = _src(_assign_value(fn, "mappable", rel)) == "pipeline2.mappable" and _src(_assign_value(fn, "num_tasks", rel)) == "primitive_op2.num_tasks" \
        and _src(_assign_value(fn, "pipeline2", rel)) == "primitive_op2.pipeline"
    put("fuseKeepsSuccessorTasks", "Bool", "true" if keeps else "false", rel + ":fuse")
    fn = _func(t, "fuse_multiple", rel)
    pls = _call_named(fn, "CubedPipeline", rel)
    keeps = _src(_assign_value(fn, "num_tasks", rel)) == "primitive_op.num_tasks" and len(pls[-1].args) >= 3 \
        and _src(pls[-1].args[2]) == "primitive_op.pipeline.mappable"
    put("fuseMultipleKeepsSuccessorTasks", "Bool", "true" if keeps else "false", rel + ":fuse_multiple")

    rel = "cubed/core/ops.py"
    t = _parse(repo, rel)
    fn = _func(t, "_store_array", rel)
    calls = [c for c in _call_named(fn, "general_blockwise", rel) if _kw(c, "output_blocks") is not None]
    if len(calls) != 1:
        raise ExtractError(f"{rel}: region call of general_blockwise not found in _store_array")
    put("regionCountSource", "String", lean_str(_kw(calls[0], "num_tasks") or "none"), rel + ":_store_array")
    put("regionBlocksSource", "String", lean_str(_src(_assign_value(fn, "output_blocks", rel))), rel + ":_store_array")
    # the source is rechunked to the target's chunks (clipped to the source shape) before it is counted
    rech = False
    for node in ast.walk(fn):
        if isinstance(node, ast.If) and "source.chunksize != region_chunksize" in _src(node.test) \
                and any(_src(b).strip() == "source = source.rechunk(region_chunksize)" for b in node.body) \
                and node.lineno < calls[0].lineno:
            rech = True
    try:
        rc = _src(_assign_value(fn, "region_chunksize", rel))
    except ExtractError:
        rc = "none"
    put("regionRechunksSource", "Bool", "true" if rech else "false", rel + ":_store_array")
    put("regionChunksizeSource", "String", lean_str(rc), rel + ":_store_array")

    rel = "cubed/core/plan.py"
    t = _parse(repo, rel)
    fn = _func(t, "create_zarr_arrays", rel)
    pls = _call_named(fn, "CubedPipeline", rel)
    ok = _src(_assign_value(fn, "num_tasks", rel)) == "len(lazy_zarr_arrays)" and len(pls[-1].args) >= 3 and _src(pls[-1].args[2]) == "lazy_zarr_arrays"
    put("createCountIsLenOfMappable", "Bool", "true" if ok else "false", rel + ":create_zarr_arrays")
    fn = _func(t, "_calculate_stats", rel)
    acc = [n for n in ast.walk(fn) if isinstance(n, ast.AugAssign) and _src(n.target) == "self._num_tasks"]
    ok = len(acc) == 1 and isinstance(acc[0].op, ast.Add) and _src(acc[0].value) == "primitive_op.num_tasks"
    put("planTotalAccumulates", "Bool", "true" if ok else "false", rel + ":_calculate_stats")
    fn = _func(t, "execute", rel)
    marks = []
    for s in fn.body:
        src = _src(s)
        if "on_compute_start" in src:
            marks.append("start")
        elif "on_compute_end" in src:
            marks.append("end")
        elif "executor.execute_dag" in src:
            marks.append("run")
    put("executeBracket", "String", lean_str(",".join(marks)), rel + ":FinalizedPlan.execute")
    return out
