"""Side-effect detector for property C16 (laziness of building / planning / visualizing).

Everything is observed through public extension points or process-local monkey patches (nothing in the
tree under test is edited):

* ``TracingStore``  — a ``zarr.storage.WrapperStore`` that records every ``set`` / ``delete`` / ``get`` (with its key)
  into the process-global ``DET``; passed as ``Spec(intermediate_store=...)`` or as a store/to_zarr target.
* ``Detector.install()`` wraps ``zarr.create_array / open_array / open_group / open / create / create_group`` (records
  the call) and ``FinalizedPlan.execute`` (records "execute"): the latter together with the ``raise-if-computes``
  executor of the tree under test (``cubed.runtime.utils.raise_if_computes``) is the execution detector.
* ``trip_executor()`` — a ``DagExecutor`` that raises if entered (for functions that take an explicit executor).
* ``fs_snapshot(dir)`` — recursive listing, to see directories created below ``work_dir``.

zarr v3 keys: ``<array path>/zarr.json`` (metadata) and ``<array path>/c/<i>/<j>`` (chunks; ``<path>/c`` for 0-d).
"""
from __future__ import annotations

import os
import threading

import zarr
from zarr.storage import WrapperStore

TRIP_MESSAGE = "'compute' was called"


class Detector:
    def __init__(self):
        self.lock = threading.Lock()
        self.events = []      # (kind, a, b)
        self.on = True
        self._patched = []

    def record(self, kind, a="", b=""):
        if self.on:
            with self.lock:
                self.events.append((kind, a, b))

    def mark(self):
        return len(self.events)

    def since(self, m):
        return list(self.events[m:])

    def reset(self):
        with self.lock:
            self.events = []

    # -- patches --------------------------------------------------------------------------------
    def _wrap(self, obj, name, kind):
        orig = getattr(obj, name, None)
        if orig is None:
            return
        det = self

        def wrapper(*args, **kwargs):
            mode = kwargs.get("mode", None)
            det.record(kind, name, "" if mode is None else str(mode))
            return orig(*args, **kwargs)

        wrapper.__name__ = getattr(orig, "__name__", name)
        wrapper.__wrapped__ = orig
        setattr(obj, name, wrapper)
        self._patched.append((obj, name, orig))

    def install(self):
        if self._patched:
            return
        for n in ("create_array", "open_array", "open_group", "open", "create", "create_group", "group", "array",
                  "save", "save_array", "save_group"):
            self._wrap(zarr, n, "zarr")
        self._wrap(zarr.Group, "create_array", "zarr")
        try:
            from cubed.core.plan import FinalizedPlan
            self._wrap(FinalizedPlan, "execute", "execute")
        except Exception:     # the class moved: the raise-if-computes executor still detects execution
            pass
        try:
            from cubed.runtime.types import DagExecutor
            import cubed.runtime.executors.local as local
            for cname in ("ThreadsExecutor", "SingleThreadedExecutor", "ProcessesExecutor"):
                cls = getattr(local, cname, None)
                if cls is not None and issubclass(cls, DagExecutor):
                    self._wrap(cls, "execute_dag", "execute")
        except Exception:
            pass

    def uninstall(self):
        for obj, name, orig in reversed(self._patched):
            setattr(obj, name, orig)
        self._patched = []


DET = Detector()


def key_kind(key):
    """'meta' | 'chunk' | 'other' for a zarr v3 key."""
    if key.endswith("zarr.json"):
        return "meta"
    parts = key.split("/")
    if "c" in parts:
        return "chunk"
    return "other"


def array_of(key):
    """array path of a metadata / chunk key ('' for the store root)."""
    parts = key.split("/")
    if key.endswith("zarr.json"):
        return "/".join(parts[:-1])
    if "c" in parts:
        return "/".join(parts[:parts.index("c")])
    return "/".join(parts[:-1])


class TracingStore(WrapperStore):
    """Delegates to the wrapped store, records data accesses into DET with this store's label."""

    def __init__(self, store, label="S"):
        super().__init__(store)
        self.label = label

    def _with_store(self, store):
        return type(self)(store, self.label)

    def __eq__(self, other):
        return isinstance(other, TracingStore) and self.label == other.label and self._store == other._store

    def __hash__(self):
        return hash((self.label, id(self._store)))

    def __repr__(self):
        return f"TracingStore({self.label})"

    __str__ = __repr__

    # reads
    async def get(self, key, prototype, byte_range=None):
        DET.record("get", self.label, key)
        return await self._store.get(key, prototype, byte_range)

    async def get_partial_values(self, prototype, key_ranges):
        key_ranges = list(key_ranges)
        for k, _ in key_ranges:
            DET.record("get", self.label, k)
        return await self._store.get_partial_values(prototype, key_ranges)

    async def get_ranges(self, key, byte_ranges, *, prototype, **kwargs):
        DET.record("get", self.label, key)
        kwargs = {k: v for k, v in kwargs.items() if v is not None}
        async for group in self._store.get_ranges(key, byte_ranges, prototype=prototype, **kwargs):
            yield group

    async def _get_many(self, requests):
        requests = list(requests)
        for r in requests:
            DET.record("get", self.label, r[0])
        async for x in self._store._get_many(requests):
            yield x

    def get_sync(self, key, *, prototype=None, byte_range=None):
        DET.record("get", self.label, key)
        return self._store.get_sync(key, prototype=prototype, byte_range=byte_range)

    # writes
    async def set(self, key, value):
        DET.record("set", self.label, key)
        await self._store.set(key, value)

    async def set_if_not_exists(self, key, value):
        DET.record("set", self.label, key)
        return await self._store.set_if_not_exists(key, value)

    async def _set_many(self, values):
        values = list(values)
        for k, _ in values:
            DET.record("set", self.label, k)
        await self._store._set_many(values)

    def set_sync(self, key, value):
        DET.record("set", self.label, key)
        self._store.set_sync(key, value)

    async def delete(self, key):
        DET.record("delete", self.label, key)
        await self._store.delete(key)

    def delete_sync(self, key):
        DET.record("delete", self.label, key)
        self._store.delete_sync(key)

    async def delete_dir(self, prefix):
        DET.record("delete", self.label, prefix + "/*")
        await self._store.delete_dir(prefix)

    async def clear(self):
        DET.record("delete", self.label, "*")
        await self._store.clear()

    def raw_keys(self):
        """keys of the wrapped MemoryStore (independent of the recording above)."""
        d = getattr(self._store, "_store_dict", None)
        return set(d.keys()) if d is not None else None


def memory_store(label):
    return TracingStore(zarr.storage.MemoryStore(), label)


def fs_snapshot(root):
    out = set()
    if root and os.path.isdir(root):
        for d, ds, fs in os.walk(root):
            for x in ds + fs:
                out.add(os.path.relpath(os.path.join(d, x), root))
    return out


_TRIP_CLASS = None


def trip_executor():
    """An executor that raises if entered (import cubed lazily: the tree under test must be on sys.path first)."""
    global _TRIP_CLASS
    if _TRIP_CLASS is None:
        from cubed.runtime.types import DagExecutor

        class TripExecutor(DagExecutor):
            @property
            def name(self):
                return "verif-trip"

            def execute_dag(self, dag, callbacks=None, spec=None, compute_id=None, **kwargs):
                DET.record("execute", "TripExecutor.execute_dag", "")
                raise RuntimeError(TRIP_MESSAGE + " [verif-trip]")

        _TRIP_CLASS = TripExecutor
    return _TRIP_CLASS()


def effects(events, allow_meta_get=True):
    """The events that count as a side effect / execution while building, planning or visualizing."""
    out = []
    for kind, a, b in events:
        if kind in ("set", "delete"):
            out.append((kind, a, b))
        elif kind == "get" and key_kind(b) == "chunk":
            out.append(("chunk-get", a, b))
        elif kind == "zarr" and (a.startswith("create") or a.startswith("save") or a in ("array",)):
            out.append((kind, a, b))
        elif kind == "zarr" and a in ("open_group", "open", "group") and b not in ("", "r", "r+"):
            out.append((kind, a, b))
        elif kind == "execute":
            out.append((kind, a, b))
    return out
