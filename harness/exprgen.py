"""exprgen — seeded generator of random array expressions over cubed's public API, with a NumPy shadow.

Public API (import cubed yourself *after* common.use_repo(); this module imports only numpy at import time
and prints nothing):

    gen_program(rng, max_depth=4, max_inputs=3, families=None, *, max_elems=1500, max_blocks=64,
                dtypes=None, n_outputs=None) -> Program
        `rng` is a `random.Random`.  `families` is a list of family names (see FAMILIES) or None for all.
        The result is always accepted by NumPy (Program.numpy() does not raise).

    Program.describe() -> dict        JSON-serialisable:
        {"inputs":  [{"shape": [..], "chunks": [..], "dtype": "int64", "data": "arange"|"perm:<seed>", "salt": k}, ...],
                     (input values = make_data(shape, dtype, data, salt): distinct values, offset by the salt)
         "ops":     [{"op": name, "family": fam, "in": [value indices], "params": {...}}, ...],
         "outputs": [value indices]}
        Value indices: inputs are 0..len(inputs)-1, the result of ops[j] is len(inputs)+j.  Every op yields
        exactly one value (unstack / qr carry a `which` / `part` parameter).
    Program.from_description(d) -> Program          (round trip: Program.from_description(p.describe()).describe() == p.describe())
    Program.build(xp_module, spec, all_values=False) -> list of cubed arrays (the requested outputs, or every value)
        inputs are created with xp.asarray(np_array, chunks=..., spec=spec); functions that are not in
        cubed.array_api (rechunk, pad, nan-functions) are taken from the top-level `cubed` package.
        Whatever cubed raises while building propagates to the caller (ValueError/TypeError/NotImplementedError/
        IndexError = explicit decline).
    Program.numpy() -> list of np arrays (reference values of the requested outputs)
        raises InvalidProgram (or whatever NumPy raises) when NumPy itself rejects the expression or a
        precondition of the comparison does not hold (searchsorted on unsorted data, float product that overflows ...).
    Program.numpy_values() -> list of np arrays for every value;  Program.input_arrays() -> the input data
    Program.output_info() -> [{"exact": bool, "rtol": float, "scale": float, "unstable": bool}, ...] per output:
        `exact`  : integer/bool result with no order-sensitive float ancestor -> compare with ==
        `unstable`: a discontinuous op (floor, compare, argmax, ...) consumed an order-sensitive float value
                    (float sum/mean/var/matmul/... whose rounding depends on association) -> do not compare values
    Program.families() -> set of family names used;  Program.size() -> number of ops
    compare_values(expected, actual, info=None) -> None | str     NaN-aware; exact or tolerance per `info`
    make_data(shape, dtype, kind, idx) -> np array                 distinct-valued input data
    shrink(program, still_fails, max_evals=400) -> Program
        greedy: drop outputs/ops (truncate, bypass), then drop dims, then shrink sizes/chunks, then simplify
        parameters; `still_fails(candidate) -> bool` is only called on candidates NumPy accepts.
    FAMILIES : list of selectable family names.

Inputs: 0-4 dims, each 0..13 (size-0 and size-1 dims included), chunks 1..dim+1 (uneven last chunk, single-element
chunks, one chunk), inputs chunked independently of each other, dtypes ints/uints/floats/bool/complex.
"""
from __future__ import annotations

import copy
import math
import operator

import numpy as np

__all__ = ["gen_program", "Program", "InvalidProgram", "compare_values", "make_data", "shrink", "FAMILIES", "DTYPES"]


class InvalidProgram(Exception):
    """NumPy rejects the expression, or a precondition for comparing with NumPy does not hold."""


DTYPES = ["int8", "int16", "int32", "int64", "uint8", "uint16", "uint32", "uint64",
          "float32", "float64", "bool", "complex64", "complex128"]
_DTYPE_WEIGHTS = [2, 2, 4, 30, 2, 2, 2, 3, 8, 25, 8, 3, 5]

# ------------------------------------------------------------------------------------------------
# data
# ------------------------------------------------------------------------------------------------


def make_data(shape, dtype, kind="arange", idx=0):
    """Distinct-valued data (as far as the dtype allows), different for different input numbers `idx`."""
    shape = tuple(int(s) for s in shape)
    n = int(np.prod(shape, dtype=np.int64)) if shape else 1
    base = np.arange(n, dtype=np.int64)
    if kind.startswith("perm"):
        seed = int(kind.split(":")[1]) if ":" in kind else 0
        base = np.random.RandomState(seed).permutation(n).astype(np.int64)
    base = base.reshape(shape)
    dt = np.dtype(dtype)
    if dt.kind == "b":
        return ((base + idx) % 3 != 0)
    if dt.kind == "u":
        return (base + 1 + idx).astype(dt)
    if dt.kind == "i":
        return (base - n // 3 + 7 * idx).astype(dt)
    if dt.kind == "f":
        return ((base - n // 3) * 0.5 + 0.25 * idx).astype(dt)
    if dt.kind == "c":
        return ((base - n // 3) + 1j * ((n - base) * 0.5 + idx)).astype(dt)
    raise ValueError(dtype)


# ------------------------------------------------------------------------------------------------
# op application (one function per op; `ns` is numpy or the cubed namespace, `is_np` tells which)
# ------------------------------------------------------------------------------------------------

def _t(v):
    """JSON lists -> tuples (axis, shapes)."""
    if isinstance(v, list):
        return tuple(_t(x) for x in v)
    return v


def _se(v):
    """split_every from JSON: int, None, or a dict {axis: k} (JSON keys are strings)."""
    if isinstance(v, dict):
        return {int(k): int(x) for k, x in v.items()}
    return v


def _fn(ns, name):
    f = getattr(ns, name, None)
    if f is None:
        import cubed
        f = getattr(cubed, name)
    return f


UNARY = {
    "b": ["logical_not", "bitwise_invert"],
    "i": ["negative", "abs", "square", "sign", "bitwise_invert", "positive"],
    "u": ["abs", "square", "bitwise_invert", "positive", "negative"],
    "f": ["negative", "abs", "square", "sqrt", "exp", "sin", "cos", "tanh", "floor", "ceil", "trunc", "round",
          "sign", "isnan", "isfinite", "isinf", "log1p", "expm1", "log", "positive"],
    "c": ["negative", "abs", "square", "conj", "real", "imag", "exp", "sqrt", "isnan"],
}
BINARY = {
    "b": ["logical_and", "logical_or", "logical_xor", "bitwise_and", "bitwise_or", "bitwise_xor", "equal", "not_equal"],
    "i": ["add", "subtract", "multiply", "floor_divide", "remainder", "maximum", "minimum", "equal", "less", "greater",
          "less_equal", "greater_equal", "not_equal", "bitwise_and", "bitwise_or", "bitwise_xor"],
    "f": ["add", "subtract", "multiply", "divide", "maximum", "minimum", "less", "equal", "greater_equal", "atan2", "hypot",
          "copysign", "logaddexp", "floor_divide", "remainder", "pow"],
    "c": ["add", "subtract", "multiply", "divide", "equal", "not_equal"],
}
BINARY["u"] = BINARY["i"]
ALL_UNARY = sorted({n for v in UNARY.values() for n in v})
ALL_BINARY = sorted({n for v in BINARY.values() for n in v})
SCALAR_OPS = {"add": operator.add, "sub": operator.sub, "mul": operator.mul, "lt": operator.lt, "eq": operator.eq,
              "ge": operator.ge, "floordiv": operator.floordiv, "truediv": operator.truediv}
REDUCTIONS = ["sum", "prod", "max", "min", "mean", "var", "std", "any", "all"]

# ops that move data only (value-exact for every dtype)
_MOVE = {"index", "take", "flip", "roll", "repeat", "tile", "concat", "stack", "unstack", "expand_dims", "squeeze",
         "permute_dims", "moveaxis", "reshape", "broadcast_to", "rechunk", "pad", "tril", "triu", "matrix_transpose"}
# continuous ops that keep an order-sensitive float value comparable (with tolerance)
_CONT = {"negative", "abs", "positive", "add", "subtract", "multiply", "maximum", "minimum", "clip", "where",
         "real", "imag", "conj", "sum", "mean", "max", "min", "cumulative_sum", "matmul", "tensordot", "outer", "vecdot",
         "var", "std", "diff"} | _MOVE
# float reductions whose rounding depends on the association order
_ORDER_SENSITIVE = {"sum", "prod", "mean", "var", "std", "cumulative_sum", "cumulative_prod", "matmul", "tensordot",
                    "vecdot", "qr"}


def _key_from_json(key):
    out = []
    for k in key:
        t = k["t"]
        if t == "int":
            out.append(int(k["v"]))
        elif t == "slice":
            out.append(slice(*k["v"]))
        elif t == "array":
            out.append(np.asarray(k["v"], dtype=np.int64))
        elif t == "newaxis":
            out.append(None)
        elif t == "ellipsis":
            out.append(Ellipsis)
        else:
            raise ValueError(t)
    return tuple(out)


def _check_float_prod(x):
    x = np.asarray(x)
    if x.dtype.kind in "fc" and x.size:
        m = np.abs(x)
        if not np.all(np.isfinite(m)):
            raise InvalidProgram("float product over non-finite data is order dependent")
        nz = m[m > 0]
        single = x.dtype in (np.float32, np.complex64)
        if nz.size and float(np.sum(np.abs(np.log2(nz.astype(np.float64))))) > (100 if single else 900):
            raise InvalidProgram("float product may overflow/underflow depending on association")


def _check_float_sum(x):
    x = np.asarray(x)
    if x.dtype.kind in "fc" and x.size:
        m = np.abs(x)
        fin = m[np.isfinite(m)]
        lim = 1e30 if x.dtype.itemsize == 4 or x.dtype == np.complex64 else 1e100
        if fin.size and float(fin.max()) > lim:
            raise InvalidProgram("float sum may overflow depending on association")


def _apply(name, ns, is_np, a, p):
    """Apply op `name` to operand list `a` with JSON params `p` in namespace `ns`."""
    if name in ALL_UNARY and p.get("_k") == "unary":
        return _fn(ns, name)(a[0])
    if name in ALL_BINARY and p.get("_k") == "binary":
        return _fn(ns, name)(a[0], a[1])
    if name == "scalar":
        f = SCALAR_OPS[p["op"]]
        return f(a[0], p["scalar"]) if p["side"] == "left" else f(p["scalar"], a[0])
    if name in REDUCTIONS:
        kw = dict(axis=_t(p["axis"]), keepdims=bool(p["keepdims"]))
        if is_np:
            if name in ("sum", "mean", "var", "std"):
                _check_float_sum(a[0])
            if name == "prod":
                _check_float_prod(a[0])
            if name in ("var", "std"):
                kw["ddof"] = p.get("correction", 0)
            return getattr(np, name)(a[0], **kw)
        if p.get("split_every") is not None:
            kw["split_every"] = _se(p["split_every"])
        if name in ("var", "std"):
            kw["correction"] = p.get("correction", 0)
        return _fn(ns, name)(a[0], **kw)
    if name in ("argmax", "argmin"):
        kw = dict(axis=p["axis"], keepdims=bool(p["keepdims"]))
        if not is_np and p.get("split_every") is not None:
            kw["split_every"] = _se(p["split_every"])
        return _fn(ns, name)(a[0], **kw)
    if name in ("cumulative_sum", "cumulative_prod"):
        if is_np:
            (_check_float_sum if name == "cumulative_sum" else _check_float_prod)(a[0])
        return _fn(ns, name)(a[0], axis=p["axis"])
    if name == "index":
        return a[0][_key_from_json(p["key"])]
    if name == "take":
        ind = np.asarray(p["indices"], dtype=np.int64)
        if is_np:
            return np.take(a[0], ind, axis=p["axis"])
        return ns.take(a[0], ns.asarray(ind, spec=a[0].spec) if p.get("as_array") else ind, axis=p["axis"])
    if name == "flip":
        return _fn(ns, "flip")(a[0], axis=_t(p["axis"]))
    if name == "roll":
        return _fn(ns, "roll")(a[0], _t(p["shift"]), axis=_t(p["axis"]))
    if name == "repeat":
        return _fn(ns, "repeat")(a[0], p["repeats"], axis=p["axis"])
    if name == "tile":
        return _fn(ns, "tile")(a[0], _t(p["repetitions"]))
    if name == "concat":
        return _fn(ns, "concat")(list(a), axis=p["axis"])
    if name == "stack":
        return _fn(ns, "stack")(list(a), axis=p["axis"])
    if name == "unstack":
        return _fn(ns, "unstack")(a[0], axis=p["axis"])[p["which"]]
    if name == "expand_dims":
        return _fn(ns, "expand_dims")(a[0], axis=_t(p["axis"]))
    if name == "squeeze":
        return _fn(ns, "squeeze")(a[0], axis=_t(p["axis"]))
    if name == "permute_dims":
        return _fn(ns, "permute_dims")(a[0], _t(p["axes"]))
    if name == "matrix_transpose":
        return _fn(ns, "matrix_transpose")(a[0])
    if name == "moveaxis":
        return _fn(ns, "moveaxis")(a[0], _t(p["source"]), _t(p["destination"]))
    if name == "reshape":
        return _fn(ns, "reshape")(a[0], _t(p["shape"]))
    if name == "broadcast_to":
        return _fn(ns, "broadcast_to")(a[0], _t(p["shape"]))
    if name == "rechunk":
        if is_np:
            return a[0]
        return _fn(ns, "rechunk")(a[0], _t(p["chunks"]))
    if name == "matmul":
        if is_np:
            _check_float_sum(a[0]), _check_float_sum(a[1])
        return _fn(ns, "matmul")(a[0], a[1])
    if name == "tensordot":
        if is_np:
            _check_float_sum(a[0]), _check_float_sum(a[1])
        ax = p["axes"]
        ax = ax if isinstance(ax, int) else (tuple(ax[0]), tuple(ax[1]))
        return _fn(ns, "tensordot")(a[0], a[1], axes=ax)
    if name == "outer":
        if is_np:
            return np.linalg.outer(a[0], a[1])
        return ns.linalg.outer(a[0], a[1])
    if name == "vecdot":
        if is_np:
            _check_float_sum(a[0]), _check_float_sum(a[1])
        if p.get("axis") is None:
            return _fn(ns, "vecdot")(a[0], a[1])          # default axis (-1)
        return _fn(ns, "vecdot")(a[0], a[1], axis=p["axis"])
    if name == "where":
        return _fn(ns, "where")(a[0], a[1], a[2])
    if name == "clip":
        lo = a[p["lo_arg"]] if p.get("lo_arg") is not None else p.get("lo")
        hi = a[p["hi_arg"]] if p.get("hi_arg") is not None else p.get("hi")
        if is_np:
            if lo is None and hi is None:
                return a[0]
            return np.clip(a[0], lo, hi)
        return ns.clip(a[0], lo, hi)
    if name == "searchsorted":
        if is_np:
            x1 = np.asarray(a[0])
            if x1.ndim == 1 and x1.size > 1 and not np.all(x1[1:] >= x1[:-1]):
                raise InvalidProgram("searchsorted needs sorted x1")
            if x1.dtype.kind == "f" and np.any(np.isnan(x1)):
                raise InvalidProgram("searchsorted with NaN")
        return _fn(ns, "searchsorted")(a[0], a[1], side=p["side"])
    if name == "pad":
        pw = tuple(tuple(x) for x in p["pad_width"])
        if is_np:
            return np.pad(a[0], pw, mode="constant", constant_values=p["constant_values"])
        return _fn(ns, "pad")(a[0], pw, mode="constant", constant_values=p["constant_values"])
    if name in ("tril", "triu"):
        return _fn(ns, name)(a[0], k=p["k"])
    if name == "qr":
        if is_np:
            x = np.asarray(a[0])
            if x.ndim != 2 or x.dtype.kind != "f":
                raise InvalidProgram("qr needs a 2-d float array")
            if not np.all(np.isfinite(x)):
                raise InvalidProgram("qr of non-finite data")
            _check_float_sum(x)
            Q, R = np.linalg.qr(x)
            mm, tr, tril = np.matmul, np.matrix_transpose, np.tril
        else:
            Q, R = ns.linalg.qr(a[0])
            mm, tr, tril = ns.matmul, ns.matrix_transpose, ns.tril
        if p["part"] == "recon":
            return mm(Q, R)
        if p["part"] == "gram":
            return mm(tr(Q), Q)
        if p["part"] == "rlower":
            return tril(R, k=-1)
        raise ValueError(p["part"])
    if name == "astype":
        if is_np:
            return np.asarray(a[0]).astype(p["dtype"])
        return ns.astype(a[0], getattr(ns, p["dtype"]))
    if name == "diff":
        return _fn(ns, "diff")(a[0], axis=p["axis"], n=p["n"])
    if name == "count_nonzero":
        return _fn(ns, "count_nonzero")(a[0], axis=_t(p["axis"]), keepdims=bool(p["keepdims"]))
    raise ValueError("unknown op %r" % (name,))


# ------------------------------------------------------------------------------------------------
# Program
# ------------------------------------------------------------------------------------------------

class Program:
    def __init__(self, inputs, ops, outputs):
        self.inputs = inputs      # list of dict(shape, chunks, dtype, data)
        self.ops = ops            # list of dict(op, family, in, params)
        self.outputs = outputs    # list of value indices
        self._np = None
        self._flags = None

    # -- description ---------------------------------------------------------------------------------
    def describe(self):
        return {"inputs": copy.deepcopy(self.inputs), "ops": copy.deepcopy(self.ops), "outputs": list(self.outputs)}

    @classmethod
    def from_description(cls, d):
        d = copy.deepcopy(d)
        return cls(d["inputs"], d["ops"], list(d["outputs"]))

    def size(self):
        return len(self.ops)

    def families(self):
        return {o["family"] for o in self.ops}

    def __repr__(self):
        return "Program(%r)" % (self.describe(),)

    # -- NumPy shadow --------------------------------------------------------------------------------
    def input_arrays(self):
        return [make_data(i["shape"], i["dtype"], i.get("data", "arange"), i.get("salt", k)) for k, i in enumerate(self.inputs)]

    def numpy_values(self):
        if self._np is not None:
            return self._np
        vals = self.input_arrays()
        # flags per value: os = order-sensitive float ancestor, unstable, f32 = single precision ancestor, scale
        flags = [{"os": False, "unstable": False, "f32": v.dtype in (np.float32, np.complex64), "scale": _scale(v)} for v in vals]
        with np.errstate(all="ignore"):
            import warnings
            with warnings.catch_warnings():
                warnings.simplefilter("ignore")
                for o in self.ops:
                    args = [vals[i] for i in o["in"]]
                    try:
                        r = _apply(o["op"], np, True, args, o["params"])
                    except InvalidProgram:
                        raise
                    except Exception as e:  # NumPy itself rejects
                        raise InvalidProgram("numpy rejects %s: %s: %s" % (o["op"], type(e).__name__, str(e)[:120]))
                    r = np.asarray(r)
                    fl = [flags[i] for i in o["in"]]
                    anyfloat = any(np.asarray(x).dtype.kind in "fc" for x in args) or r.dtype.kind in "fc"
                    os_in = any(f["os"] for f in fl)
                    os_ = os_in or (o["op"] in _ORDER_SENSITIVE and anyfloat)
                    unstable = any(f["unstable"] for f in fl) or (os_in and o["op"] not in _CONT)
                    if o["op"] == "where" and fl[0]["os"]:
                        unstable = True
                    if o["op"] == "astype" and os_in and np.dtype(o["params"]["dtype"]).kind in "fc":
                        unstable = any(f["unstable"] for f in fl)
                    flags.append({"os": os_, "unstable": unstable,
                                  "f32": any(f["f32"] for f in fl) or r.dtype in (np.float32, np.complex64),
                                  "scale": max([_scale(r)] + [f["scale"] for f in fl]) if os_ else _scale(r)})
                    vals.append(r)
        self._np, self._flags = vals, flags
        return vals

    def numpy(self):
        vals = self.numpy_values()
        return [vals[i] for i in self.outputs]

    def output_info(self):
        vals = self.numpy_values()
        out = []
        for i in self.outputs:
            f, v = self._flags[i], vals[i]
            exact = v.dtype.kind in "biu" and not f["os"]
            out.append({"exact": bool(exact), "rtol": 2e-3 if f["f32"] else 1e-7, "scale": float(f["scale"]),
                        "unstable": bool(f["unstable"]), "order_sensitive": bool(f["os"])})
        return out

    def valid(self):
        try:
            self.numpy_values()
            return True
        except InvalidProgram:
            return False

    # -- cubed ---------------------------------------------------------------------------------------
    def build(self, xp_module, spec, all_values=False):
        xp = xp_module
        vals = []
        for arr, i in zip(self.input_arrays(), self.inputs):
            vals.append(xp.asarray(arr, chunks=tuple(i["chunks"]), spec=spec))
        for o in self.ops:
            args = [vals[i] for i in o["in"]]
            vals.append(_apply(o["op"], xp, False, args, o["params"]))
        if all_values:
            return vals
        return [vals[i] for i in self.outputs]


def _scale(v):
    v = np.asarray(v)
    if v.size == 0 or v.dtype.kind not in "fciu":
        return 1.0
    with np.errstate(all="ignore"):
        m = np.abs(v.astype(np.complex128 if v.dtype.kind == "c" else np.float64))
        m = m[np.isfinite(m)]
    return float(max(1.0, m.max())) if m.size else 1.0


def compare_values(expected, actual, info=None):
    """None when `actual` matches `expected` (shape, then values); otherwise a short message."""
    e = np.asarray(expected)
    a = np.asarray(actual)
    if a.dtype.names:  # structured intermediate leaked
        return "structured dtype %s returned" % (a.dtype,)
    if e.shape != a.shape:
        return "shape %s, NumPy gives %s" % (a.shape, e.shape)
    if info is not None and info.get("unstable"):
        return None
    if e.size == 0:
        return None
    exact = info["exact"] if info is not None else (e.dtype.kind in "biu")
    with np.errstate(all="ignore"):
        if exact or (e.dtype.kind in "biu" and a.dtype.kind in "biu" and not (info or {}).get("order_sensitive")):
            if e.dtype.kind == "b" or a.dtype.kind == "b":
                ok = np.array_equal(e.astype(bool), a.astype(bool)) if e.dtype.kind == a.dtype.kind == "b" else np.array_equal(e, a)
            else:
                ok = np.array_equal(e, a)
            if ok:
                return None
            bad = np.argwhere(np.asarray(e != a))
            k = tuple(int(x) for x in bad[0]) if len(bad) else ()
            return "%d of %d elements differ, first at %s: got %r, NumPy %r" % (len(bad), e.size, k, a[k].item(), e[k].item())
        rtol = info["rtol"] if info is not None else 1e-7
        scale = info["scale"] if info is not None else _scale(e)
        ec = e.astype(np.complex128) if (e.dtype.kind == "c" or a.dtype.kind == "c") else e.astype(np.float64)
        ac = a.astype(np.complex128) if (e.dtype.kind == "c" or a.dtype.kind == "c") else a.astype(np.float64)
        close = np.isclose(ac, ec, rtol=rtol, atol=rtol * scale, equal_nan=True)
        if ec.dtype.kind == "c":
            # complex NaN / inf patterns: compare parts
            close = close | (np.isclose(ac.real, ec.real, rtol=rtol, atol=rtol * scale, equal_nan=True)
                             & np.isclose(ac.imag, ec.imag, rtol=rtol, atol=rtol * scale, equal_nan=True))
        if np.all(close):
            return None
        bad = np.argwhere(~close)
        k = tuple(int(x) for x in bad[0])
        return "%d of %d elements differ (rtol %g), first at %s: got %r, NumPy %r" % (len(bad), e.size, rtol, k, a[k].item(), e[k].item())


# ------------------------------------------------------------------------------------------------
# generation
# ------------------------------------------------------------------------------------------------

class _Gen:
    def __init__(self, rng, max_depth, max_inputs, max_elems, max_blocks, dtypes):
        self.rng = rng
        self.max_depth = max_depth
        self.max_inputs = max_inputs
        self.max_elems = max_elems
        self.max_blocks = max_blocks
        self.dtypes = dtypes
        self.nodes = []   # dict(kind='input'|'op', desc=..., val=np array, depth=int)

    # -- shapes / chunks -----------------------------------------------------------------------------
    def rand_dim(self, hi=13):
        r = self.rng.random()
        if r < 0.05:
            return 0
        if r < 0.15:
            return 1
        return self.rng.randint(2, max(2, hi))

    def rand_shape(self, ndim=None):
        rng = self.rng
        if ndim is None:
            ndim = rng.choices([0, 1, 2, 3, 4], [6, 28, 34, 20, 12])[0]
        hi = 13
        for _ in range(50):
            shape = [self.rand_dim(hi) for _ in range(ndim)]
            if int(np.prod(shape, dtype=np.int64)) <= self.max_elems:
                return shape
            hi = max(3, hi - 1)
        return [2] * ndim

    def rand_chunks(self, shape):
        rng = self.rng
        ch = []
        for d in shape:
            r = rng.random()
            if d == 0:
                c = 1
            elif r < 0.22:
                c = d
            elif r < 0.37:
                c = 1
            elif r < 0.45:
                c = d + 1
            else:
                c = rng.randint(1, d + 1)
            ch.append(c)
        # cap the number of blocks
        def nblocks():
            return int(np.prod([max(1, -(-d // c)) for d, c in zip(shape, ch)], dtype=np.int64))
        while nblocks() > self.max_blocks:
            k = max(range(len(shape)), key=lambda i: -(-shape[i] // ch[i]))
            ch[k] = min(shape[k], ch[k] * 2) if ch[k] * 2 < shape[k] else shape[k]
        return ch

    def rand_dtype(self, kinds=None):
        names = self.dtypes
        w = [_DTYPE_WEIGHTS[DTYPES.index(n)] for n in names]
        if kinds:
            sel = [(n, x) for n, x in zip(names, w) if np.dtype(n).kind in kinds]
            if not sel:
                return None
            names, w = zip(*sel)
        return self.rng.choices(list(names), list(w))[0]

    # -- nodes ---------------------------------------------------------------------------------------
    def n_inputs(self):
        return sum(1 for n in self.nodes if n["kind"] == "input")

    def new_input(self, shape, dtype=None, chunks=None, data=None):
        if self.n_inputs() >= self.max_inputs:
            return None
        shape = [int(s) for s in shape]
        if int(np.prod(shape, dtype=np.int64)) > self.max_elems:
            return None
        dtype = dtype or self.rand_dtype()
        chunks = chunks or self.rand_chunks(shape)
        if data is None:
            data = "arange" if self.rng.random() < 0.55 else "perm:%d" % self.rng.randint(0, 99)
        idx = self.n_inputs()
        desc = {"shape": shape, "chunks": [int(c) for c in chunks], "dtype": dtype, "data": data, "salt": idx}
        self.nodes.append({"kind": "input", "desc": desc, "val": make_data(shape, dtype, data, idx), "depth": 0,
                           "os": False})
        return len(self.nodes) - 1

    def val(self, i):
        return self.nodes[i]["val"]

    def pick(self, pred=None):
        cands = [i for i, n in enumerate(self.nodes) if n["depth"] < self.max_depth and (pred is None or pred(n["val"], n))]
        if not cands:
            return None
        if self.rng.random() < 0.55:
            return cands[-1]
        return self.rng.choice(cands)

    def operand_like(self, shape, dtype, exclude=(), fresh_p=0.6):
        """An existing value of exactly this shape (and dtype kind), or a fresh input chunked on its own."""
        shape = tuple(int(s) for s in shape)
        kind = np.dtype(dtype).kind
        cands = [i for i, n in enumerate(self.nodes) if n["val"].shape == shape and n["val"].dtype.kind == kind
                 and n["depth"] < self.max_depth and i not in exclude]
        if self.rng.random() < fresh_p or not cands:
            r = self.new_input(list(shape), dtype=str(np.dtype(dtype)) if self.rng.random() < 0.8 else self.rand_dtype(kind))
            if r is not None:
                return r
        if cands:
            return self.rng.choice(cands)
        return None

    def add(self, family, op, ins, params):
        """Evaluate on the shadow; append when NumPy accepts and the result is small enough."""
        args = [self.val(i) for i in ins]
        try:
            with np.errstate(all="ignore"):
                import warnings
                with warnings.catch_warnings():
                    warnings.simplefilter("ignore")
                    r = np.asarray(_apply(op, np, True, args, params))
        except Exception:
            return None
        if r.size > self.max_elems * 2 or r.ndim > 5:
            return None
        depth = 1 + max(self.nodes[i]["depth"] for i in ins)
        anyfloat = any(a.dtype.kind in "fc" for a in args) or r.dtype.kind in "fc"
        os_ = any(self.nodes[i]["os"] for i in ins) or (op in _ORDER_SENSITIVE and anyfloat)
        self.nodes.append({"kind": "op", "desc": {"op": op, "family": family, "in": list(ins), "params": params},
                           "val": r, "depth": depth, "os": os_})
        return len(self.nodes) - 1

    def stable(self, v, n):
        return not n["os"]


def _axis(rng, ndim, allow_none=True, allow_tuple=True, allow_neg=True):
    r = rng.random()
    if ndim == 0:
        return None if allow_none else 0
    if allow_none and r < 0.2:
        return None
    if allow_tuple and r < 0.45:
        k = rng.randint(1, ndim)
        ax = sorted(rng.sample(range(ndim), k))
        if allow_neg and rng.random() < 0.35:
            ax = [(a - ndim if rng.random() < 0.5 else a) for a in ax]
            rng.shuffle(ax)
        return ax
    a = rng.randrange(ndim)
    if allow_neg and rng.random() < 0.25:
        a -= ndim
    return a


def _split_every(rng, ndim=None, axis=None):
    """None, an integer (0 and 1 included: cubed coerces integers to a fan-in >= 2), or -- when the reduced axes
    are given -- a dict {normalised axis: k} with k in 2..5 for some of them (missing axes default to 2)."""
    if ndim and rng.random() < 0.25:
        if axis is None:
            axes = list(range(ndim))
        elif isinstance(axis, int):
            axes = [axis % ndim]
        else:
            axes = [a % ndim for a in axis]
        keys = [a for a in axes if rng.random() < 0.7] or axes[:1]
        return {str(a): rng.randint(2, 5) for a in keys}
    return rng.choice([None, None, 0, 1, 2, 2, 3, 4, 5, 8])


# every family function returns the id of the new value or None when not applicable -------------------

def g_unary(g):
    x = g.pick()
    if x is None:
        return None
    k = g.val(x).dtype.kind
    name = g.rng.choice(UNARY[k]) if g.rng.random() < 0.93 else g.rng.choice(ALL_UNARY)
    if g.nodes[x]["os"] and name not in _CONT:
        return None
    return g.add("unary", name, [x], {"_k": "unary"})


def _broadcast_variant(g, shape):
    rng = g.rng
    shape = list(shape)
    r = rng.random()
    if r < 0.35:
        return shape
    drop = rng.randint(0, len(shape)) if rng.random() < 0.4 else 0
    out = [(1 if rng.random() < 0.4 else s) for s in shape[drop:]]
    return out


def g_binary(g):
    rng = g.rng
    x = g.pick()
    if x is None:
        return None
    v = g.val(x)
    k = v.dtype.kind
    name = rng.choice(BINARY[k]) if rng.random() < 0.95 else rng.choice(ALL_BINARY)
    if g.nodes[x]["os"] and name not in _CONT:
        return None
    y = None
    if rng.random() < 0.4:
        def compat(w, n):
            try:
                np.broadcast_shapes(w.shape, v.shape)
            except ValueError:
                return False
            return w.dtype.kind == k and (name in _CONT or not n["os"])
        y = g.pick(compat)
    if y is None:
        dt = str(v.dtype) if rng.random() < 0.7 else g.rand_dtype(k)
        y = g.new_input(_broadcast_variant(g, v.shape), dtype=dt)
    if y is None:
        y = x
    ins = [x, y] if rng.random() < 0.5 else [y, x]
    return g.add("binary", name, ins, {"_k": "binary"})


def g_scalar(g):
    rng = g.rng
    x = g.pick(lambda v, n: v.dtype.kind in "iuf")
    if x is None:
        return None
    k = g.val(x).dtype.kind
    op = rng.choice(["add", "sub", "mul", "lt", "eq", "ge"] + (["floordiv"] if k != "f" else ["truediv"]))
    if g.nodes[x]["os"] and op not in ("add", "sub", "mul"):
        return None
    s = rng.randint(1, 5) if k == "u" else rng.randint(-4, 5)
    if op in ("floordiv", "truediv") and s == 0:
        s = 2
    if k == "f" and rng.random() < 0.5:
        s = s + 0.5
    return g.add("scalar", "scalar", [x], {"op": op, "scalar": s, "side": rng.choice(["left", "right"])})


def g_reduce(g):
    rng = g.rng
    name = rng.choice(REDUCTIONS)
    kinds = {"sum": "iufcb", "prod": "iufc", "max": "iuf", "min": "iuf", "mean": "fc", "var": "f", "std": "f",
             "any": "biufc", "all": "biufc"}[name]
    if rng.random() < 0.04:
        kinds = "biufc"
    x = g.pick(lambda v, n: v.dtype.kind in kinds and (name in _CONT or not n["os"]))
    if x is None:
        return None
    v = g.val(x)
    ax_ = _axis(rng, v.ndim)
    p = {"axis": ax_, "keepdims": rng.random() < 0.35, "split_every": _split_every(rng, v.ndim, ax_)}
    if name in ("var", "std"):
        p["correction"] = rng.choice([0, 0, 1])
    return g.add("reduce", name, [x], p)


def g_argreduce(g):
    rng = g.rng
    x = g.pick(lambda v, n: v.dtype.kind in "iuf" and not n["os"] and v.size > 0)
    if x is None:
        return None
    v = g.val(x)
    ax = _axis(rng, v.ndim, allow_tuple=False)
    return g.add("argreduce", rng.choice(["argmax", "argmin"]), [x],
                 {"axis": ax, "keepdims": rng.random() < 0.3, "split_every": _split_every(rng)})


def g_cumulative(g):
    rng = g.rng
    name = rng.choice(["cumulative_sum", "cumulative_sum", "cumulative_prod"])
    x = g.pick(lambda v, n: v.dtype.kind in "iufc" and v.ndim >= 1 and (name in _CONT or not n["os"]))
    if x is None:
        return None
    v = g.val(x)
    ax = _axis(rng, v.ndim, allow_none=(v.ndim == 1), allow_tuple=False)
    return g.add("cumulative", name, [x], {"axis": ax})


def _rand_slice(rng, n):
    r = rng.random()
    if r < 0.12:
        return [None, None, None]
    step = rng.choice([1, 1, 1, 2, 2, 3, 4, 5, 7, -1, -1, -2, -3])
    def pos():
        q = rng.random()
        if q < 0.25:
            return None
        if q < 0.4:
            return rng.randint(-n - 1, -1) if n else -1
        return rng.randint(0, n + 1)
    return [pos(), pos(), step if rng.random() < 0.85 else None]


def g_index(g):
    rng = g.rng
    x = g.pick(lambda v, n: v.ndim >= 1)
    if x is None:
        return None
    v = g.val(x)
    key = []
    used_array = False
    nd = v.ndim if rng.random() < 0.8 else rng.randint(1, v.ndim)
    for d in range(nd):
        n = v.shape[d]
        r = rng.random()
        if r < 0.18 and n > 0:
            key.append({"t": "int", "v": rng.randint(-n, n - 1)})
        elif r < 0.30 and n > 0 and not used_array:
            used_array = True
            m = rng.randint(1, min(2 * n, 8))
            q = rng.random()
            if q < 0.4:
                arr = sorted(rng.sample(range(n), min(n, m)))
            elif q < 0.7:
                arr = [rng.randint(0, n - 1) for _ in range(m)]
            else:
                arr = [rng.randint(-n, n - 1) for _ in range(m)]
            key.append({"t": "array", "v": arr})
        else:
            key.append({"t": "slice", "v": _rand_slice(rng, n)})
    if rng.random() < 0.08:
        key.insert(rng.randint(0, len(key)), {"t": "newaxis"})
    if nd < v.ndim and rng.random() < 0.3:
        key.insert(rng.randint(0, len(key)), {"t": "ellipsis"})
    return g.add("index", "index", [x], {"key": key})


def g_take(g):
    rng = g.rng
    x = g.pick(lambda v, n: v.ndim >= 1 and v.size > 0)
    if x is None:
        return None
    v = g.val(x)
    ax = rng.randrange(v.ndim) if v.ndim > 1 or rng.random() < 0.7 else None
    if ax is not None and rng.random() < 0.3:
        ax -= v.ndim
    n = v.shape[ax] if ax is not None else v.size
    m = rng.randint(1, min(8, 2 * n))
    ind = [rng.randint(0, n - 1) for _ in range(m)]
    if rng.random() < 0.3:
        ind = sorted(ind)
    return g.add("take", "take", [x], {"indices": ind, "axis": ax, "as_array": False})


def g_flip(g):
    x = g.pick()
    if x is None:
        return None
    return g.add("flip", "flip", [x], {"axis": _axis(g.rng, g.val(x).ndim)})


def g_roll(g):
    rng = g.rng
    x = g.pick()
    if x is None:
        return None
    v = g.val(x)
    ax = _axis(rng, v.ndim)
    if isinstance(ax, list):
        shift = [rng.randint(-15, 15) for _ in ax]
    else:
        shift = rng.randint(-15, 15)
    return g.add("roll", "roll", [x], {"shift": shift, "axis": ax})


def g_repeat(g):
    rng = g.rng
    x = g.pick(lambda v, n: v.ndim >= 1)
    if x is None:
        return None
    v = g.val(x)
    ax = _axis(rng, v.ndim, allow_none=rng.random() < 0.5, allow_tuple=False, allow_neg=True)
    return g.add("repeat", "repeat", [x], {"repeats": rng.choice([0, 1, 2, 2, 2, 3, 3, 4, 5]), "axis": ax})


def g_tile(g):
    rng = g.rng
    x = g.pick()
    if x is None:
        return None
    v = g.val(x)
    m = max(0, v.ndim + rng.choice([-1, 0, 0, 0, 1]))
    reps = [rng.choice([1, 1, 2, 2, 3]) for _ in range(m)]
    return g.add("tile", "tile", [x], {"repetitions": reps})


def g_concat(g):
    rng = g.rng
    x = g.pick(lambda v, n: v.ndim >= 1)
    if x is None:
        return None
    v = g.val(x)
    ax = rng.randrange(v.ndim)
    k = rng.choice([2, 2, 2, 3, 4])
    ins = [x]
    for _ in range(k - 1):
        r = rng.random()
        if r < 0.25:
            ins.append(x)
            continue
        shape = list(v.shape)
        shape[ax] = g.rand_dim()
        # existing value with matching shape off-axis?
        cands = [i for i, n in enumerate(g.nodes) if n["val"].ndim == v.ndim and n["depth"] < g.max_depth
                 and all(a == b or d == ax for d, (a, b) in enumerate(zip(n["val"].shape, v.shape)))
                 and n["val"].dtype.kind == v.dtype.kind]
        if cands and r < 0.55:
            ins.append(rng.choice(cands))
            continue
        y = g.new_input(shape, dtype=str(v.dtype) if rng.random() < 0.8 else g.rand_dtype(v.dtype.kind))
        ins.append(y if y is not None else (rng.choice(cands) if cands else x))
    rng.shuffle(ins)
    a = ax if rng.random() < 0.8 else ax - v.ndim
    return g.add("concat", "concat", ins, {"axis": a})


def g_stack(g):
    rng = g.rng
    x = g.pick()
    if x is None:
        return None
    v = g.val(x)
    k = rng.choice([1, 2, 2, 2, 3, 4])
    ins = [x]
    for _ in range(k - 1):
        y = g.operand_like(v.shape, v.dtype, fresh_p=0.6) if rng.random() < 0.8 else x
        ins.append(y if y is not None else x)
    rng.shuffle(ins)
    ax = rng.randint(0, v.ndim)
    if rng.random() < 0.2:
        ax -= v.ndim + 1
    return g.add("stack", "stack", ins, {"axis": ax})


def g_unstack(g):
    rng = g.rng
    x = g.pick(lambda v, n: v.ndim >= 1 and any(0 < s <= 8 for s in v.shape))
    if x is None:
        return None
    v = g.val(x)
    ax = rng.choice([d for d, s in enumerate(v.shape) if 0 < s <= 8])
    which = rng.randrange(v.shape[ax])
    if rng.random() < 0.3:
        ax -= v.ndim
    return g.add("unstack", "unstack", [x], {"axis": ax, "which": which})


def g_expand_dims(g):
    rng = g.rng
    x = g.pick(lambda v, n: v.ndim <= 3)
    if x is None:
        return None
    v = g.val(x)
    if rng.random() < 0.25 and v.ndim <= 2:
        ax = sorted(rng.sample(range(v.ndim + 2), 2))
        if rng.random() < 0.4:
            ax = [(a_ - (v.ndim + 2) if rng.random() < 0.5 else a_) for a_ in ax]
    else:
        ax = rng.randint(0, v.ndim)
        if rng.random() < 0.25:
            ax -= v.ndim + 1
    return g.add("expand_dims", "expand_dims", [x], {"axis": ax})


def g_squeeze(g):
    rng = g.rng
    x = g.pick(lambda v, n: 1 in v.shape)
    if x is None:
        return None
    v = g.val(x)
    ones = [d for d, s in enumerate(v.shape) if s == 1]
    k = rng.randint(1, len(ones))
    ax = sorted(rng.sample(ones, k))
    if rng.random() < 0.3:
        ax = [(a_ - v.ndim if rng.random() < 0.6 else a_) for a_ in ax]
    return g.add("squeeze", "squeeze", [x], {"axis": ax if (k > 1 or rng.random() < 0.3) else ax[0]})


def g_permute_dims(g):
    rng = g.rng
    x = g.pick(lambda v, n: v.ndim >= 2) if rng.random() < 0.9 else g.pick()
    if x is None:
        return None
    v = g.val(x)
    if v.ndim >= 2 and rng.random() < 0.15:
        return g.add("permute_dims", "matrix_transpose", [x], {})
    axes = list(range(v.ndim))
    rng.shuffle(axes)
    if rng.random() < 0.25:
        axes = [(a_ - v.ndim if rng.random() < 0.5 else a_) for a_ in axes]
    return g.add("permute_dims", "permute_dims", [x], {"axes": axes})


def g_moveaxis(g):
    rng = g.rng
    x = g.pick(lambda v, n: v.ndim >= 2)
    if x is None:
        return None
    v = g.val(x)
    if rng.random() < 0.3 and v.ndim >= 3:
        src = rng.sample(range(v.ndim), 2)
        dst = rng.sample(range(v.ndim), 2)
    else:
        src, dst = rng.randrange(-v.ndim, v.ndim), rng.randrange(-v.ndim, v.ndim)
    return g.add("moveaxis", "moveaxis", [x], {"source": src, "destination": dst})


def _factorizations(n, rng, maxdims=4):
    if n == 0:
        return None
    k = rng.randint(1, maxdims)
    dims = []
    rem = n
    for _ in range(k - 1):
        divs = [d for d in range(1, rem + 1) if rem % d == 0]
        d = rng.choice(divs)
        dims.append(d)
        rem //= d
    dims.append(rem)
    rng.shuffle(dims)
    return dims


def g_reshape(g):
    rng = g.rng
    x = g.pick()
    if x is None:
        return None
    v = g.val(x)
    if v.size == 0:
        shape = [0] + ([rng.randint(1, 3)] if rng.random() < 0.5 else [])
        rng.shuffle(shape)
    else:
        r = rng.random()
        if r < 0.15:
            shape = [v.size]
        elif r < 0.3 and v.ndim >= 2:
            # merge two adjacent axes / split one
            d = rng.randrange(v.ndim - 1)
            shape = list(v.shape[:d]) + [v.shape[d] * v.shape[d + 1]] + list(v.shape[d + 2:])
        else:
            shape = _factorizations(v.size, rng)
        if shape and rng.random() < 0.25:
            shape[rng.randrange(len(shape))] = -1
    return g.add("reshape", "reshape", [x], {"shape": shape})


def g_broadcast_to(g):
    rng = g.rng
    x = g.pick(lambda v, n: v.ndim <= 3)
    if x is None:
        return None
    v = g.val(x)
    shape = [(rng.randint(1, 5) if (s == 1 and rng.random() < 0.7) else s) for s in v.shape]
    for _ in range(rng.choice([0, 0, 1, 1, 2])):
        if len(shape) < 4:
            shape.insert(0, rng.choice([1, 2, 3]))
    return g.add("broadcast_to", "broadcast_to", [x], {"shape": shape})


def g_rechunk(g):
    x = g.pick(lambda v, n: v.ndim >= 1)
    if x is None:
        return None
    v = g.val(x)
    return g.add("rechunk", "rechunk", [x], {"chunks": g.rand_chunks(list(v.shape))})


def g_matmul(g):
    rng = g.rng
    x = g.pick(lambda v, n: v.ndim >= 1 and v.dtype.kind in "iufc" and v.shape[-1] > 0)
    if x is None:
        return None
    v = g.val(x)
    k = v.shape[-1]
    r = rng.random()
    m = rng.randint(1, 6)
    if r < 0.2:
        shape = [k]
    elif r < 0.6:
        shape = [k, m]
    elif r < 0.8:
        # the second operand carries (more) batch dims than the first: they broadcast from the end
        nb_ = max(0, v.ndim - 2)
        extra = rng.randint(1, 2) if nb_ < 2 else 0
        batch = [rng.randint(1, 3) for _ in range(extra)] + [(1 if rng.random() < 0.3 else s) for s in v.shape[:nb_]]
        shape = batch + [k, m if rng.random() < 0.5 else k]
    elif v.ndim >= 3:
        # fewer / broadcast batch dims on the second operand
        keep = rng.randint(0, v.ndim - 2)
        shape = [(1 if rng.random() < 0.4 else s) for s in v.shape[v.ndim - 2 - keep:v.ndim - 2]] + [k, m]
    else:
        shape = [k, k]
    y = g.operand_like(shape, v.dtype, fresh_p=0.7)
    if y is None:
        return None
    if rng.random() < 0.25:
        r2 = g.add("matmul", "matmul", [y, x], {})   # operands swapped when the shapes allow it
        if r2 is not None:
            return r2
    return g.add("matmul", "matmul", [x, y], {})


def g_tensordot(g):
    rng = g.rng
    x = g.pick(lambda v, n: 1 <= v.ndim <= 3 and v.dtype.kind in "iufc")
    if x is None:
        return None
    v = g.val(x)
    nc = rng.randint(0, min(2, v.ndim))
    if rng.random() < 0.4:
        # integer form: last nc axes of x with first nc axes of y
        shape = list(v.shape[v.ndim - nc:]) + [rng.randint(1, 4) for _ in range(rng.randint(0, 2))]
        axes = nc
    else:
        xa = rng.sample(range(v.ndim), nc)
        extra = [rng.randint(1, 4) for _ in range(rng.randint(0, 2))]
        shape = [v.shape[a] for a in xa] + extra
        perm = list(range(len(shape)))
        rng.shuffle(perm)
        shape = [shape[i] for i in perm]
        ya = [perm.index(i) for i in range(nc)]
        if rng.random() < 0.4:
            xa = [(a_ - v.ndim if rng.random() < 0.5 else a_) for a_ in xa]
            ya = [(a_ - len(shape) if rng.random() < 0.5 else a_) for a_ in ya]
        axes = [xa, ya]
    y = g.operand_like(shape, v.dtype, fresh_p=0.8)
    if y is None:
        return None
    return g.add("tensordot", "tensordot", [x, y], {"axes": axes})


def g_outer(g):
    x = g.pick(lambda v, n: v.ndim == 1 and v.dtype.kind in "iufc")
    if x is None:
        sh = [g.rand_dim()]
        x = g.new_input(sh, dtype=g.rand_dtype("iuf"))
        if x is None:
            return None
    v = g.val(x)
    y = g.operand_like([g.rand_dim(8)], v.dtype, fresh_p=0.7)
    if y is None:
        y = x
    if g.val(y).ndim != 1:
        return None
    return g.add("outer", "outer", [x, y], {})


def _square_input(g, ndim, dtype=None):
    """A fresh input whose trailing dims are equal (so that contracting the wrong axis gives a wrong value, not an
    error), with non-symmetric distinct-valued data."""
    rng = g.rng
    n = rng.randint(2, 5)
    shape = [rng.randint(1, 3) for _ in range(max(0, ndim - 2))] + [n] * min(ndim, 2)
    return g.new_input(shape, dtype=dtype or g.rand_dtype("iufc"), data="perm:%d" % rng.randint(0, 99))


def g_vecdot(g):
    """vecdot(x1, x2, axis): the (negative) axis is counted from the END of each operand, the remaining batch
    dimensions broadcast; operands of equal rank, x1 lower, or x2 lower."""
    rng = g.rng
    x = g.pick(lambda v, n: v.ndim >= 1 and v.dtype.kind in "iufc")
    if x is None or rng.random() < 0.35:
        y0 = _square_input(g, rng.choice([1, 2, 2, 3, 3]))
        x = y0 if y0 is not None else x
    if x is None:
        return None
    v = g.val(x)
    r = rng.random()
    if r < 0.4:
        # equal rank, possibly broadcasting batch dims
        ax = rng.randrange(-v.ndim, 0)
        shape = list(v.shape)
        if rng.random() < 0.4:
            for d in range(len(shape)):
                if d != ax + v.ndim and rng.random() < 0.4:
                    shape[d] = 1
    elif r < 0.75 and v.ndim >= 2:
        # the other operand has fewer dimensions: keep the trailing `m` dims
        m = rng.randint(1, v.ndim - 1)
        ax = rng.randrange(-m, 0)
        shape = list(v.shape[v.ndim - m:])
        for d in range(m):
            if d != ax + m and rng.random() < 0.25:
                shape[d] = 1
    else:
        # the other operand has more dimensions: extra leading batch dims
        extra = rng.randint(1, 2) if v.ndim <= 2 else 1
        ax = rng.randrange(-v.ndim, 0)
        shape = [rng.randint(1, 3) for _ in range(extra)] + list(v.shape)
        for d in range(extra, len(shape)):
            if d - extra != ax + v.ndim and rng.random() < 0.2:
                shape[d] = 1
    y = g.operand_like(shape, v.dtype, fresh_p=0.75)
    if y is None:
        return None
    ins = [x, y] if rng.random() < 0.5 else [y, x]
    axp = None if (ax == -1 and rng.random() < 0.4) else ax
    return g.add("vecdot", "vecdot", ins, {"axis": axp})


def g_where(g):
    rng = g.rng
    x = g.pick(lambda v, n: v.dtype.kind in "iufc")
    if x is None:
        return None
    v = g.val(x)
    c = g.pick(lambda w, n: w.dtype.kind == "b" and not n["os"] and _bc(w.shape, v.shape))
    if c is None or rng.random() < 0.4:
        c2 = g.new_input(_broadcast_variant(g, v.shape), dtype="bool")
        c = c2 if c2 is not None else c
    if c is None:
        return None
    y = g.operand_like(_broadcast_variant(g, v.shape), v.dtype, fresh_p=0.5)
    if y is None:
        y = x
    ins = [c, x, y] if rng.random() < 0.6 else [c, y, x]
    return g.add("where", "where", ins, {})


def _bc(s1, s2):
    try:
        np.broadcast_shapes(s1, s2)
        return True
    except ValueError:
        return False


def g_clip(g):
    rng = g.rng
    x = g.pick(lambda v, n: v.dtype.kind in "iuf")
    if x is None:
        return None
    v = g.val(x)
    p = {"lo": None, "hi": None, "lo_arg": None, "hi_arg": None}
    ins = [x]
    lo_s = rng.randint(-5, 3) if v.dtype.kind != "u" else rng.randint(0, 3)
    hi_s = lo_s + rng.randint(0, 9)
    r = rng.random()
    if r < 0.25:
        p["lo"] = lo_s
    elif r < 0.5:
        p["hi"] = hi_s
    elif r < 0.8:
        p["lo"], p["hi"] = lo_s, hi_s
    else:
        y = g.operand_like(_broadcast_variant(g, v.shape), v.dtype, fresh_p=0.6)
        if y is None:
            p["lo"], p["hi"] = lo_s, hi_s
        else:
            ins.append(y)
            if rng.random() < 0.5:
                p["lo_arg"] = 1
                p["hi"] = None if rng.random() < 0.5 else 50
            else:
                p["hi_arg"] = 1
                p["lo"] = None if rng.random() < 0.5 else lo_s
    return g.add("clip", "clip", ins, p)


def g_searchsorted(g):
    rng = g.rng
    # x1: a sorted 1-d value: a fresh arange-valued input (sorted by construction)
    x1 = g.new_input([g.rand_dim()], dtype=g.rand_dtype("iuf"), data="arange")
    if x1 is None:
        x1 = g.pick(lambda v, n: v.ndim == 1 and v.dtype.kind in "iuf" and not n["os"] and (v.size < 2 or bool(np.all(v[1:] >= v[:-1]))))
    if x1 is None:
        return None
    k = g.val(x1).dtype.kind
    x2 = g.pick(lambda v, n: v.dtype.kind == k and not n["os"] and v.dtype.kind in "iuf" and not (v.dtype.kind == "f" and np.any(np.isnan(v))))
    if x2 is None or rng.random() < 0.4:
        y = g.new_input(g.rand_shape(rng.choice([0, 1, 1, 2])), dtype=str(g.val(x1).dtype))
        x2 = y if y is not None else x2
    if x2 is None:
        return None
    return g.add("searchsorted", "searchsorted", [x1, x2], {"side": rng.choice(["left", "right"])})


def g_pad(g):
    rng = g.rng
    x = g.pick(lambda v, n: v.ndim >= 1 and v.dtype.kind in "iufb")
    if x is None:
        return None
    v = g.val(x)
    pw = [[rng.choice([0, 0, 1, 2, 3, 5]), rng.choice([0, 0, 1, 2, 4])] for _ in range(v.ndim)]
    cv = rng.choice([0, 0, 1, 7]) if v.dtype.kind != "b" else 0
    return g.add("pad", "pad", [x], {"pad_width": pw, "constant_values": cv})


def g_tri(g):
    rng = g.rng
    x = g.pick(lambda v, n: v.ndim >= 2 and v.dtype.kind in "iufc")
    if x is None:
        return None
    return g.add("tri", rng.choice(["tril", "triu"]), [x], {"k": rng.randint(-3, 3)})


def g_qr(g):
    rng = g.rng
    x = g.pick(lambda v, n: v.ndim == 2 and v.dtype.kind == "f" and v.size > 0 and bool(np.all(np.isfinite(v))))
    if x is None or rng.random() < 0.5:
        m = rng.randint(1, 13)
        n = rng.randint(1, min(6, m + 1))
        y = g.new_input([m, n], dtype=rng.choice(["float64", "float64", "float32"]), data="perm:%d" % rng.randint(0, 99),
                        chunks=[rng.randint(1, m + 1), n if rng.random() < 0.9 else rng.randint(1, n + 1)])
        x = y if y is not None else x
    if x is None:
        return None
    v = g.val(x)
    if g.nodes[x]["kind"] != "input":
        if g.nodes[x]["depth"] + 2 > g.max_depth + 1:
            return None
        x2 = g.add("qr", "rechunk", [x], {"chunks": [rng.randint(1, v.shape[0] + 1), v.shape[1]]})
        if x2 is None:
            return None
        x = x2
    return g.add("qr", "qr", [x], {"part": rng.choice(["recon", "recon", "gram", "rlower"])})


def g_astype(g):
    rng = g.rng
    x = g.pick()
    if x is None:
        return None
    v = g.val(x)
    k = v.dtype.kind
    # value-preserving or well-defined casts only (float->int of out-of-range values is undefined behaviour)
    if k == "b":
        dt = g.rand_dtype("iuf")
    elif k in "iu":
        dt = g.rand_dtype("iuf" if rng.random() < 0.8 else "c")
    elif k == "f":
        dt = g.rand_dtype("f" if rng.random() < 0.6 else "c")
    else:
        dt = g.rand_dtype("c")
    if dt is None:
        return None
    return g.add("astype", "astype", [x], {"dtype": dt})


def g_diff(g):
    rng = g.rng
    x = g.pick(lambda v, n: v.ndim >= 1 and v.dtype.kind in "iuf")
    if x is None:
        return None
    v = g.val(x)
    return g.add("diff", "diff", [x], {"axis": rng.randrange(-v.ndim, v.ndim), "n": rng.choice([1, 1, 2])})


def g_count_nonzero(g):
    rng = g.rng
    x = g.pick(lambda v, n: not n["os"])
    if x is None:
        return None
    v = g.val(x)
    return g.add("count_nonzero", "count_nonzero", [x], {"axis": _axis(rng, v.ndim), "keepdims": rng.random() < 0.3})


_FAMILY_FUNCS = {
    "unary": (g_unary, 8), "binary": (g_binary, 10), "scalar": (g_scalar, 3), "reduce": (g_reduce, 10),
    "argreduce": (g_argreduce, 5), "cumulative": (g_cumulative, 5), "index": (g_index, 10), "take": (g_take, 3),
    "flip": (g_flip, 4), "roll": (g_roll, 4), "repeat": (g_repeat, 4), "tile": (g_tile, 3), "concat": (g_concat, 6),
    "stack": (g_stack, 5), "unstack": (g_unstack, 4), "expand_dims": (g_expand_dims, 3), "squeeze": (g_squeeze, 3),
    "permute_dims": (g_permute_dims, 4), "moveaxis": (g_moveaxis, 2), "reshape": (g_reshape, 6),
    "broadcast_to": (g_broadcast_to, 3), "rechunk": (g_rechunk, 5), "matmul": (g_matmul, 4), "tensordot": (g_tensordot, 3),
    "outer": (g_outer, 2), "vecdot": (g_vecdot, 5), "where": (g_where, 4), "clip": (g_clip, 3),
    "searchsorted": (g_searchsorted, 3), "pad": (g_pad, 3), "tri": (g_tri, 3), "qr": (g_qr, 3), "astype": (g_astype, 3),
    "diff": (g_diff, 2), "count_nonzero": (g_count_nonzero, 2),
}
FAMILIES = list(_FAMILY_FUNCS)


def gen_program(rng, max_depth=4, max_inputs=3, families=None, *, max_elems=1500, max_blocks=64, dtypes=None,
                n_outputs=None):
    fams = list(families) if families else FAMILIES
    for f in fams:
        if f not in _FAMILY_FUNCS:
            raise ValueError("unknown family %r (known: %s)" % (f, ", ".join(FAMILIES)))
    weights = [_FAMILY_FUNCS[f][1] for f in fams]
    dtypes = list(dtypes) if dtypes else DTYPES
    for _attempt in range(200):
        g = _Gen(rng, max_depth, max(1, max_inputs), max_elems, max_blocks, dtypes)
        g.new_input(g.rand_shape())
        n_ops = rng.choice([1, 1, 2, 2, 3, 3, 4, 5, 6][: max(1, 2 * max_depth + 1)])
        tries = 0
        made = 0
        while made < n_ops and tries < 40 * n_ops:
            tries += 1
            fam = rng.choices(fams, weights)[0]
            before = len(g.nodes)
            r = _FAMILY_FUNCS[fam][0](g)
            if r is None:
                # roll back inputs created for a rejected op
                del g.nodes[before:]
                continue
            made += 1
        opnodes = [i for i, n in enumerate(g.nodes) if n["kind"] == "op"]
        if not opnodes:
            continue
        # outputs: the last op always, plus up to two others (sharing / several outputs)
        k = n_outputs if n_outputs is not None else rng.choice([1, 1, 1, 2, 2, 3])
        outs = [opnodes[-1]]
        others = [i for i in opnodes[:-1]]
        rng.shuffle(others)
        for i in others[: max(0, k - 1)]:
            outs.append(i)
        prog = _finalize(g, outs)
        if prog.valid():
            return prog
    raise RuntimeError("exprgen: could not generate a program (families=%r)" % (fams,))


def _finalize(g, outs):
    """Renumber: inputs first, then ops in creation order; drop values no output depends on."""
    live = set()
    stack = list(outs)
    while stack:
        i = stack.pop()
        if i in live:
            continue
        live.add(i)
        if g.nodes[i]["kind"] == "op":
            stack.extend(g.nodes[i]["desc"]["in"])
    inputs = [i for i, n in enumerate(g.nodes) if n["kind"] == "input" and i in live]
    ops = [i for i, n in enumerate(g.nodes) if n["kind"] == "op" and i in live]
    # input data depends on the input number: keep numbering of make_data consistent by re-deriving idx
    new_id = {}
    for k, i in enumerate(inputs):
        new_id[i] = k
    for k, i in enumerate(ops):
        new_id[i] = len(inputs) + k
    p = Program([copy.deepcopy(g.nodes[i]["desc"]) for i in inputs],
                [dict(copy.deepcopy(g.nodes[i]["desc"]), **{"in": [new_id[j] for j in g.nodes[i]["desc"]["in"]]}) for i in ops],
                [new_id[i] for i in outs])
    return p


# ------------------------------------------------------------------------------------------------
# shrinking
# ------------------------------------------------------------------------------------------------

def _prune(d):
    """Remove values no output depends on; renumber."""
    ni = len(d["inputs"])
    live = set()
    stack = list(d["outputs"])
    while stack:
        i = stack.pop()
        if i in live:
            continue
        live.add(i)
        if i >= ni:
            stack.extend(d["ops"][i - ni]["in"])
    keep_in = [i for i in range(ni) if i in live]
    keep_op = [i for i in range(ni, ni + len(d["ops"])) if i in live]
    new_id = {}
    for k, i in enumerate(keep_in):
        new_id[i] = k
    for k, i in enumerate(keep_op):
        new_id[i] = len(keep_in) + k
    ops = []
    for i in keep_op:
        o = copy.deepcopy(d["ops"][i - ni])
        o["in"] = [new_id[j] for j in o["in"]]
        ops.append(o)
    return {"inputs": [copy.deepcopy(d["inputs"][i]) for i in keep_in], "ops": ops, "outputs": [new_id[i] for i in d["outputs"]]}


def _candidates(d):
    ni = len(d["inputs"])
    nv = ni + len(d["ops"])
    # 1. fewer outputs / earlier outputs
    if len(d["outputs"]) > 1:
        for o in d["outputs"]:
            yield _prune(dict(d, outputs=[o]))
    for v in range(ni, nv):
        if [v] != d["outputs"]:
            yield _prune(dict(d, outputs=[v]))
    # 2. bypass an op by one of its operands
    for j, o in enumerate(d["ops"]):
        for src in dict.fromkeys(o["in"]):
            c = copy.deepcopy(d)
            tgt = ni + j
            for o2 in c["ops"]:
                o2["in"] = [src if x == tgt else x for x in o2["in"]]
            c["outputs"] = [src if x == tgt else x for x in c["outputs"]]
            if any(x >= ni for x in c["outputs"]):
                yield _prune(c)
    # 2b. fewer operands in concat / stack
    for j, o in enumerate(d["ops"]):
        if o["op"] in ("concat", "stack") and len(o["in"]) > 1:
            for k in range(len(o["in"])):
                c = copy.deepcopy(d)
                del c["ops"][j]["in"][k]
                yield _prune(c)
    # 3. drop dims of inputs
    for i, inp in enumerate(d["inputs"]):
        for ax in range(len(inp["shape"])):
            c = copy.deepcopy(d)
            del c["inputs"][i]["shape"][ax]
            del c["inputs"][i]["chunks"][ax]
            yield c
    # 4. sizes: same size everywhere, then one input at a time
    sizes = sorted({s for inp in d["inputs"] for s in inp["shape"]}, reverse=True)
    for s in sizes:
        for t in _smaller(s):
            c = copy.deepcopy(d)
            for inp in c["inputs"]:
                for ax, v in enumerate(inp["shape"]):
                    if v == s:
                        inp["shape"][ax] = t
                        inp["chunks"][ax] = max(1, min(inp["chunks"][ax], t + 1))
            yield c
    for i, inp in enumerate(d["inputs"]):
        for ax, s in enumerate(inp["shape"]):
            for t in _smaller(s):
                c = copy.deepcopy(d)
                c["inputs"][i]["shape"][ax] = t
                c["inputs"][i]["chunks"][ax] = max(1, min(inp["chunks"][ax], t + 1))
                yield c
    # 5. chunks: one chunk, then smaller chunk counts
    for i, inp in enumerate(d["inputs"]):
        for ax, (s, ch) in enumerate(zip(inp["shape"], inp["chunks"])):
            for t in dict.fromkeys([max(1, s), ch + 1 if ch < s else ch, max(1, ch - 1)]):
                if t != ch:
                    c = copy.deepcopy(d)
                    c["inputs"][i]["chunks"][ax] = t
                    yield c
    # 6. simpler parameters / dtypes / data
    for j, o in enumerate(d["ops"]):
        p = o["params"]
        for k, simple in (("keepdims", False), ("split_every", None), ("correction", 0)):
            if k in p and p[k] != simple:
                c = copy.deepcopy(d)
                c["ops"][j]["params"][k] = simple
                yield c
    for i, inp in enumerate(d["inputs"]):
        if inp.get("data", "arange") != "arange":
            c = copy.deepcopy(d)
            c["inputs"][i]["data"] = "arange"
            yield c
        for dt in ("int64", "float64"):
            if inp["dtype"] != dt and np.dtype(inp["dtype"]).kind == np.dtype(dt).kind:
                c = copy.deepcopy(d)
                c["inputs"][i]["dtype"] = dt
                yield c


def _smaller(s):
    out = []
    for t in (0, 1, 2, s // 2, s - 1):
        if 0 <= t < s and t not in out:
            out.append(t)
    return out


def _cost(d):
    return (len(d["ops"]), len(d["outputs"]), sum(len(i["shape"]) for i in d["inputs"]),
            sum(sum(i["shape"]) for i in d["inputs"]),
            sum(-(-s // max(1, c)) for i in d["inputs"] for s, c in zip(i["shape"], i["chunks"])),
            sum(1 for o in d["ops"] for k in ("keepdims", "split_every", "correction") if o["params"].get(k)),
            sum(1 for i in d["inputs"] if i.get("data", "arange") != "arange" or i["dtype"] not in ("int64", "float64")))


def shrink(program, still_fails, max_evals=400):
    """Greedy shrinking of a failing program.  `still_fails(Program) -> bool`."""
    best = program.describe()
    evals = 0
    improved = True
    while improved and evals < max_evals:
        improved = False
        for c in _candidates(best):
            if evals >= max_evals:
                break
            if _cost(c) >= _cost(best):
                continue
            p = Program.from_description(c)
            if not p.valid():
                continue
            evals += 1
            try:
                bad = bool(still_fails(p))
            except Exception:
                bad = False
            if bad:
                best = c
                improved = True
                break
    return Program.from_description(best)
