#!/venv/bin/python
"""usage: add_check.py CNN <json file with text/ref/note/technique>  — inserts/replaces an entry in gen_manifest.CHECKS (kept in tools/checks.json)"""
import json, sys, os
V = os.path.dirname(os.path.dirname(os.path.abspath(__file__)))
p = os.path.join(V, "tools", "checks.json")
d = json.load(open(p)) if os.path.exists(p) else {}
d[sys.argv[1]] = json.load(open(sys.argv[2]))
json.dump(d, open(p, "w"), indent=1, sort_keys=True)
print(sorted(d))
