#!/venv/bin/python
"""Regenerates MANIFEST.json from the table below (one entry per property that has a check)."""
import json
import os

V = os.path.dirname(os.path.dirname(os.path.abspath(__file__)))

COMMON_NOTE = ("Trusted base: Lean 4.33.0 kernel with axioms propext/Classical.choice/Quot.sound only (audited each run by "
               "#print axioms; no sorry/native_decide/own axioms), the Python correspondence harness and AST extractor. ")

CHECKS = json.load(open(os.path.join(V, "tools", "checks.json")))

NOT_YET = "check not built yet in this session (work in progress; see DESIGN.md §8 for the order of work)"


def main():
    ids = [json.loads(l)["id"] for l in open(os.path.join(V, "properties.jsonl"))]
    checks = []
    for pid in ids:
        if pid not in CHECKS:
            continue
        c = CHECKS[pid]
        checks.append({
            "property_id": pid,
            "quick_cmd": f"./check {pid} --tier quick",
            "thorough_cmd": f"./check {pid} --tier thorough",
            "evidence_file": f"evidence/{pid}.json",
            "replay_cmd_template": f"./check {pid} --replay {{path}}",
            "engine": "lean-model+correspondence",
            "level_claimed": {"category": "proof", "text": c["text"], "design_ref": c["ref"]},
            "level_note": COMMON_NOTE + c["note"],
            "technique": c["technique"],
        })
    m = {
        "version": 1,
        "setup_cmd": "./tools/setup.py",
        "hooks": {
            "guard": "CUBED_VERIF",
            "enable": "no instrumentation of /repo is needed: checks observe through public extension points (custom executors, "
                      "tracing stores, callbacks); the guard variable is set by the checks but nothing in /repo reads it",
            "baseline_off_cmd": "cd /repo && /venv/bin/python -m pytest -ra -q -p no:cacheprovider --timeout=900 --continue-on-collection-errors",
            "source_commits": [],
            "add_only": True,
        },
        "engines": [{
            "name": "lean-model+correspondence",
            "path": "lean/CubedModel + harness/",
            "serves_properties": [c["property_id"] for c in checks],
            "kind_free_text": "Lean 4 model and theorems (lake project, no Mathlib requirement), regenerated facts (harness/extract.py -> "
                              "Model/Generated.lean), Python differential correspondence harness driving the model through a line protocol",
        }],
        "checks": checks,
        "not_applicable": [{"property_id": pid, "reason": NOT_YET} for pid in ids if pid not in CHECKS],
        "notes": "All checks: ./check <ID> --tier quick|thorough; env VERIF_SEED, VERIF_REPO (tree under test, default /repo). "
                 "No instrumentation of /repo: hooks.source_commits is empty; /repo's own commits on top of the pinned snapshot are "
                 "20 unguarded 'fix:' commits repairing genuine defects (recorded as 'fixed:' lines in KNOWN_FINDINGS.txt; DESIGN.md §7). "
                 "Genuine defects that were not repaired are 'finding:' lines there; each check replays their witnesses on every run. "
                 "tools/sweep.sh (all checks x seeds), tools/replay_seeded.sh (every seeded change in seeded/ must give a VIOLATION), "
                 "tools/validate.py (schemas).",
    }
    with open(os.path.join(V, "MANIFEST.json"), "w") as f:
        json.dump(m, f, indent=1)
    print("wrote MANIFEST.json with", len(checks), "checks")


if __name__ == "__main__":
    main()
