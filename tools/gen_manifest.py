#!/venv/bin/python
"""Regenerates MANIFEST.json from the table below (one entry per property that has a check)."""
import json
import os

V = os.path.dirname(os.path.dirname(os.path.abspath(__file__)))

COMMON_NOTE = ("Trusted base: Lean 4.33.0 kernel with axioms propext/Classical.choice/Quot.sound only (audited each run by "
               "#print axioms; no sorry/native_decide/own axioms), the Python correspondence harness and AST extractor. ")

CHECKS = {
    "C02": dict(
        text="Theorems for all plans, all requested sets and all optimizer parameters: one fuse_predecessors rewrite preserves every "
             "block of every surviving array (fuse_step_preserves, built on fuse_multiple_correct), any sequence of such rewrites "
             "preserves every requested array and keeps it materialized; the guards of can_fuse_predecessors imply the side "
             "conditions. The legacy pairwise optimizer is proved correct only for single-key successors; its failure on stream "
             "successors is proved by witness and listed as a known finding. Tied to the code by differential correspondence of all "
             "real optimizers against the executable structural model on real plan DAGs.",
        ref="§5 C02, Appendix A.1/A.2",
        note="Modelled not verified: networkx graph operations and topological_sort (order validated on every dag), dag.copy() "
             "isolation, NumPy kernels. The link 'the real optimizer run is a FuseSeq of StepOK steps' rests on the structural "
             "correspondence plus canFuse_guards; key-function hypotheses (NameIndep/Unfused/ReadsFrom) are validated by C15's check.",
        technique="Lean 4 proof (store-agreement invariant, induction over op lists and rewrite sequences) + differential correspondence with the real optimizers",
    ),
    "C04": dict(
        text="Theorems over the structural plan model: a plan with any op projecting more than allowed_mem is refused with no event "
             "and no write, otherwise execution proceeds; every non-forcing optimizer configuration maps admitted plans to admitted "
             "plans (induction over the visiting order); fused ops never report less memory than any op they replace. Comparison "
             "operators, 'execute validates first' and 'fused mem is max' are regenerated from the source each run, so changing them "
             "breaks the proofs. Correspondence: admission and optimizer model vs real plans at and around the boundary.",
        ref="§5 C04",
        note="Modelled not verified: the per-op projected_mem numbers themselves (C03), that nothing between validate() and "
             "execute_dag touches storage (observed by the oracle: executor not entered, work_dir untouched).",
        technique="Lean 4 proof over a model with source-regenerated operators + boundary-value differential oracle",
    ),
    "C15": dict(
        text="Theorems for all index expressions and all fusion trees (any depth, lists/streams/repeated args): the positional dask "
             "coordinate algebra equals the reference reading of the index expression, keys stay in bounds, fuse_multiple preserves "
             "what every original function receives. Tied to the code by differential correspondence of the real key-function "
             "builders and fuse_blockwise_specs against the model's executable definitions.",
        ref="§5 C15, Appendix A.1",
        note="Modelled not verified: Python set/dict iteration order inside _get_coord_mapping (proved irrelevant), the symbolic block "
             "functions used to observe fusion. Hypotheses NameIndep/Unfused are validated on every real key function evaluated.",
        technique="Lean 4 proof (induction over key trees / list positions) + differential correspondence with the real key functions",
    ),
}

NOT_YET = "check not built yet in this session (work in progress; see DESIGN.md §8 for the order of work)"


def main():
    ids = [json.loads(l)["id"] for l in open(os.path.join(V, "properties.jsonl"))]
    checks = []
    for pid in ids:
        if pid not in CHECKS:
            continue
        c = CHECKS[pid]
        checks.append({
            "property_id": pid,
            "quick_cmd": f"./check {pid} --tier quick",
            "thorough_cmd": f"./check {pid} --tier thorough",
            "evidence_file": f"evidence/{pid}.json",
            "replay_cmd_template": f"./check {pid} --replay {{path}}",
            "engine": "lean-model+correspondence",
            "level_claimed": {"category": "proof", "text": c["text"], "design_ref": c["ref"]},
            "level_note": COMMON_NOTE + c["note"],
            "technique": c["technique"],
        })
    m = {
        "version": 1,
        "setup_cmd": "./tools/setup.py",
        "hooks": {
            "guard": "CUBED_VERIF",
            "enable": "no instrumentation of /repo is needed: checks observe through public extension points (custom executors, "
                      "tracing stores, callbacks); the guard variable is set by the checks but nothing in /repo reads it",
            "baseline_off_cmd": "cd /repo && /venv/bin/python -m pytest -ra -q -p no:cacheprovider --timeout=900 --continue-on-collection-errors",
            "source_commits": [],
            "add_only": True,
        },
        "engines": [{
            "name": "lean-model+correspondence",
            "path": "lean/CubedModel + harness/",
            "serves_properties": [c["property_id"] for c in checks],
            "kind_free_text": "Lean 4 model and theorems (lake project, no Mathlib requirement), regenerated facts (harness/extract.py -> "
                              "Model/Generated.lean), Python differential correspondence harness driving the model through a line protocol",
        }],
        "checks": checks,
        "not_applicable": [{"property_id": pid, "reason": NOT_YET} for pid in ids if pid not in CHECKS],
        "notes": "All checks: ./check <ID> --tier quick|thorough; env VERIF_SEED, VERIF_REPO (tree under test, default /repo). "
                 "Known genuine defects are listed in KNOWN_FINDINGS.txt.",
    }
    with open(os.path.join(V, "MANIFEST.json"), "w") as f:
        json.dump(m, f, indent=1)
    print("wrote MANIFEST.json with", len(checks), "checks")


if __name__ == "__main__":
    main()
