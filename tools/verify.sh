#!/bin/bash
# usage: tools/verify.sh CNN [seeds...]   — run the quick check for several seeds, print only summary lines
cd /verif
id=$1; shift
seeds=${@:-0 1 2}
for s in $seeds; do
  VERIF_SEED=$s ./check $id --tier ${TIER:-quick} > /tmp/verify-$id-$s.log 2>&1; rc=$?
  echo "seed=$s rc=$rc $(grep -c '^KNOWN-FINDING' /tmp/verify-$id-$s.log) known; $(grep '^VIOLATION' /tmp/verify-$id-$s.log | head -2 | cut -c1-160)"
  grep "^$id tier" /tmp/verify-$id-$s.log | cut -c1-220
done
