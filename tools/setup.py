#!/venv/bin/python
"""MANIFEST.setup_cmd: build the Lean modules needed by every claimed check (offline, from files on disk)."""
import json, os, re, subprocess, sys
V = os.path.dirname(os.path.dirname(os.path.abspath(__file__)))
L = os.path.join(V, "lean", "CubedModel")
m = json.load(open(os.path.join(V, "MANIFEST.json")))
targets = []
for c in m["checks"]:
    pid = c["property_id"]
    targets.append(f"CubedModel.Properties.{pid}")
    sys.path.insert(0, os.path.join(V, "harness"))
    try:
        src = open(os.path.join(V, "harness", "props", pid.lower() + ".py")).read()
        d = re.search(r'^DRIVER\s*=\s*"(\w+)"', src, re.M)
        if d:
            drv = os.path.join(L, "drivers", d.group(1) + ".lean")
            targets += re.findall(r"^import\s+(CubedModel\.\S+)", open(drv).read(), re.M)
    except OSError:
        pass
targets = sorted(set(targets))
print("building", len(targets), "targets")
r = subprocess.run(["lake", "build"] + targets, cwd=L)
sys.exit(r.returncode)
