#!/usr/bin/env python3-vt
"""Validate MANIFEST.json and evidence/*.json against the schemas (uses jsonschema from the tooling venv)."""
import glob, json, sys, os
import jsonschema
V = os.path.dirname(os.path.dirname(os.path.abspath(__file__)))
ok = True
m = json.load(open(os.path.join(V, "MANIFEST.json")))
try:
    jsonschema.validate(m, json.load(open("/root/.vp/MANIFEST.schema.json")))
    print("MANIFEST ok:", len(m["checks"]), "checks,", len(m.get("not_applicable", [])), "n/a")
except Exception as e:
    ok = False; print("MANIFEST INVALID", e)
es = json.load(open("/root/.vp/EVIDENCE.schema.json"))
for f in sorted(glob.glob(os.path.join(V, "evidence", "*.json"))):
    try:
        jsonschema.validate(json.load(open(f)), es); print("ok", os.path.basename(f))
    except Exception as e:
        ok = False; print("INVALID", f, str(e)[:300])
ids = {json.loads(l)["id"] for l in open(os.path.join(V, "properties.jsonl"))}
claimed = {c["property_id"] for c in m["checks"]}; na = {c["property_id"] for c in m.get("not_applicable", [])}
if claimed | na != ids or claimed & na:
    ok = False; print("coverage mismatch: missing", ids - claimed - na, "both", claimed & na)
sys.exit(0 if ok else 1)
