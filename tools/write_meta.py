#!/usr/bin/env python3
"""tools/write_meta.py <id> "<detected_by text>" ["<history text>"] — turn seeded/<id>/meta.agent.json (the
mutator's own account) into seeded/<id>/meta.json after the change was confirmed in a scratch worktree."""
import json, os, sys
sid = sys.argv[1]
d = os.path.join(os.path.dirname(os.path.abspath(__file__)), "..", "seeded", sid)
a = json.load(open(os.path.join(d, "meta.agent.json")))
demo = "demo.py" if os.path.exists(os.path.join(d, "demo.py")) else "test_demo.py"
m = {
    "property": a.get("property", sid.split("-")[0]),
    "breaks": a.get("summary", ""),
    "needs": a.get("needs", ""),
    "files": a.get("files", []),
    "confirmed": {
        "demo_with_patch": "exit 1 (property violated) — re-run by tools/try_mutant.sh in the mutator's scratch worktree",
        "demo_without_patch": "exit 0",
        "tests": a.get("ran", []),
        "note": "existing test suite passes with the change (spark-parametrised and hypothesis-deadline/timing tests are load-flaky in this sandbox and fail the same way on the unmodified tree)",
    },
    "detected_by": sys.argv[2],
    "how_to_rerun": "tools/replay_seeded.sh %s   (applies seeded/%s/patch.diff to a fresh worktree of /repo HEAD under /tmp, runs the demo and VERIF_REPO=<worktree> ./check %s, removes the worktree)" % (sid, sid, a.get("property", sid.split("-")[0])),
}
if len(sys.argv) > 3:
    m["history"] = sys.argv[3]
json.dump(m, open(os.path.join(d, "meta.json"), "w"), indent=1)
os.remove(os.path.join(d, "meta.agent.json"))
print("wrote", sid)
