#!/venv/bin/python
"""Prints the prompt given to a fresh 'mutator' sub-agent for one property (property text only, nothing from /verif)."""
import json, sys
pid = sys.argv[1]
n = sys.argv[2] if len(sys.argv) > 2 else "1"
for l in open("/verif/properties.jsonl"):
    p = json.loads(l)
    if p["id"] == pid:
        break
wt = f"/tmp/mut-{pid}-{n}"
print(f"""You are helping to evaluate a verification effort for the Python library cubed (a chunked N-dimensional array engine that builds a Zarr-backed operation DAG, fuses blockwise ops under a memory bound, and runs it on pluggable executors). You get ONE semantic property of cubed and your own scratch git worktree of the repository. Your task: craft a realistic change to cubed's source that BREAKS the property while the code still imports and the existing test suite still passes, plus a demonstration (a small pytest test or script) that fails with your change and passes without it.

Property {p['id']}: {p['title']}
Statement: {p['statement']}
Quantified over: {p['quantifier']['text']}

Set-up (do exactly this; never touch /repo itself and do not look at or use anything under /verif):
  git -C /repo worktree add -q {wt} HEAD
  cd {wt}      # work only here; Python: /venv/bin/python with PYTHONPATH={wt} so that `import cubed` uses your worktree
Check `PYTHONPATH={wt} /venv/bin/python -c "import cubed; print(cubed.__file__)"` prints a path under {wt}.

Requirements for the change:
* It must be a plausible bug a maintainer could introduce (a refactor slip, an off-by-one, a dropped guard, a wrong operator, a stale cache, two sites that each look fine alone but interact), in cubed's own source (not tests, not vendored third-party internals unless cubed calls them).
* It must need something specific to manifest — a particular interleaving, a crash or fault at a particular point, a multi-step sequence of API calls, an unusual input (geometry, chunking, dtype, option combination), or two cooperating sites — NOT something ordinary use or the existing tests expose at once. Prefer subtle over blatant. Avoid changes that merely raise an exception everywhere.
* The existing test suite must still pass with it: run `cd {wt} && PYTHONPATH={wt} /venv/bin/python -m pytest -q -p no:cacheprovider -x -k "not spark" -n 4 --timeout=900` (spark-parametrised tests are flaky in this sandbox and may be ignored; the run takes several minutes; the machine is shared and busy). If tests fail because of your change, make the change subtler.
* The demonstration must exercise cubed through its public API (or the public entry points named in the property) and clearly show the property being violated (wrong value, lost write, wrong count, missing error, error of the wrong kind/phase, ...). It must FAIL (non-zero exit / failing assertion) with the change and PASS on the unmodified code: verify both with `git diff -- cubed > /tmp/my-{pid}.diff; git checkout -- cubed; <run>; git apply /tmp/my-{pid}.diff; <run>` — never use `git stash` (stashes are shared between all worktrees of the repository, and other people work in sibling worktrees).

Deliver, in the directory {wt}/_deliver/ :
  patch.diff   — `git diff` of your change (source files only, relative to the repository root, applies with `git apply`)
  demo.py or test_demo.py — the demonstration, runnable as `PYTHONPATH=<repo root> /venv/bin/python demo.py` (exit code 0 = property holds, non-zero = violated) — it must not depend on files outside itself
  meta.json    — {{"property": "{p['id']}", "summary": "...what the change does...", "needs": "...what is needed for it to manifest...", "files": [...], "ran": ["commands you ran and their outcome"]}}
Leave the worktree in place (do not remove it); leave the change applied in the worktree. In your final message give: the summary, what it needs to manifest, the exact outcome of the test-suite run, and of the demo with/without the change. If after honest effort you cannot find such a change, say so and explain what you tried.""")
