#!/bin/bash
# usage: tools/sweep.sh "<seeds>" [tier]  — run every claimed check for each seed, 4 at a time; print one line per run
cd "$(dirname "$0")/.."
seeds=${1:-"11 23"}; tier=${2:-quick}
ids=$(/venv/bin/python -c "import json;print(' '.join(c['property_id'] for c in json.load(open('MANIFEST.json'))['checks']))")
run() { s=$1; p=$2; VERIF_SEED=$s ./check $p --tier $tier > /tmp/sweep-$p-$s.log 2>&1; rc=$?; echo "seed=$s $p rc=$rc $(grep -c '^KNOWN-FINDING' /tmp/sweep-$p-$s.log)kf $(grep '^VIOLATION' /tmp/sweep-$p-$s.log | head -1 | cut -c1-100) $(grep "^$p tier" /tmp/sweep-$p-$s.log | grep -o 'wall=.*')"; }
export -f run; export tier
for s in $seeds; do for p in $ids; do echo "$s $p"; done; done | xargs -P 4 -L 1 bash -c 'run $0 $1'
