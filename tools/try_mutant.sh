#!/bin/bash
# usage: tools/try_mutant.sh <seed-id e.g. C07-1> <worktree with change applied and _deliver/> [extra check ids]
# confirms the demo (fails with / passes without), runs the property's check against the tree, prints summary.
id=$1; wt=$2; prop=${id%%-*}; shift 2
cd $wt || exit 2
PYTHONPATH=$wt timeout 1200 /venv/bin/python _deliver/demo.py > /tmp/demo-$id-with.log 2>&1; a=$?
# NB: git stash is shared between worktrees of one repository - never use it here
git diff -- cubed > /tmp/try-$id.diff; git checkout -q -- cubed
PYTHONPATH=$wt timeout 1200 /venv/bin/python _deliver/demo.py > /tmp/demo-$id-without.log 2>&1; b=$?
git apply /tmp/try-$id.diff
echo "demo with=$a without=$b"
cd /verif
for p in $prop "$@"; do
  VERIF_REPO=$wt ./check $p > /tmp/mutcheck-$id-$p.log 2>&1; rc=$?
  echo "check $p rc=$rc $(grep '^VIOLATION' /tmp/mutcheck-$id-$p.log | head -1 | cut -c1-120)"
  grep "^$p tier" /tmp/mutcheck-$id-$p.log | cut -c1-200
done
