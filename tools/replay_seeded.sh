#!/bin/bash
# usage: tools/replay_seeded.sh [ids...]  — apply every seeded change to a scratch worktree and run the property's check;
# every one must end in a VIOLATION (rc=1).  Sequential; prints one line per seeded change.
cd "$(dirname "$0")/.."
ids=${@:-$(ls seeded)}
for id in $ids; do
  prop=${id%%-*}; wt=/tmp/rs-$id
  git -C /repo worktree remove --force $wt 2>/dev/null
  git -C /repo worktree add -q $wt HEAD && git -C $wt apply /verif/seeded/$id/patch.diff || { echo "$id: patch does not apply"; continue; }
  VERIF_REPO=$wt ./check $prop > /tmp/rs-$id.log 2>&1; rc=$?
  echo "$id rc=$rc $(grep '^VIOLATION' /tmp/rs-$id.log | head -1 | cut -c1-110) $(grep "^$prop tier" /tmp/rs-$id.log | grep -o 'failures=.*')"
  git -C /repo worktree remove --force $wt
done
