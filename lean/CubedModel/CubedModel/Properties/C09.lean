/-
  C09 — Resume after a crash gives the same result and never trusts an incomplete array.

  Property theorems only (model: Model/Resume.lean, lemmas: Proofs/Resume.lean).  All statements hold for every plan
  (any number of operations, tasks, stored chunks per task, outputs per operation — fused or unfused plans are just
  different operation lists), every initial store, every crash point, every value type.

  Hypotheses, all explicit:
    `WF ops`      single writer per stored chunk (C05), topological order, tasks write exactly their outputs' chunks
    `Fresh`       the interrupted compute started from a store holding no chunk of the plan
    `ValidSched`  C07: a task starts only when the plan chunks it reads are present (any interleaving, retries allowed)
  Facts regenerated from the source on every run (Model/GeneratedC09.lean): create mode "a", the completeness test
  `ndim == 0 or nchunks_initialized != nchunks`, all outputs checked, `write_empty_chunks = True`, `skip_node` honours
  `computed`, NotImplementedError for storage without `nchunks_initialized`.
  Modelling assumption: a chunk write is atomic (no torn chunk files).  The order in which zarr issues the stored-chunk
  writes of one task is not fixed; every order is a schedule in the sense of `ValidSched`, so the interleaving
  theorems (`C09_complete_implies_final`, `C09_resume_after_crash`) cover all of them, while `trace` / `crashSeq` fix
  the order of the task's write list.
-/
import CubedModel.Proofs.Resume

namespace Cubed.C09

open Cubed Cubed.Resume

variable {K V : Type} [DecidableEq K]

/-- the interrupted compute started from a store that holds no chunk of the plan. -/
def Fresh (ops : List (Op K V)) (s0 : Store K V) : Prop := ∀ k ∈ outKeys ops, s0.get k = none

/-- crash point `n` of the sequential run: the first `n` writes (metadata documents and chunks) happened. -/
def crashSeq (c : WriteCfg V) (s0 : Store K V) (ops : List (Op K V)) (n : Nat) : Store K V :=
  s0.applyAll c ((trace c s0 ops).take n)

/-- crash point `n` of an arbitrary interleaving of chunk writes. -/
def crashSched (c : WriteCfg V) (s0 : Store K V) (σ : Sched K V) (n : Nat) : Store K V := runSched c s0 (σ.take n)

/-- The write sequence cut by a crash is the one of the real run: all of it gives the store of an uninterrupted
`compute()`, which (create mode "a") cannot fail. -/
theorem C09_trace_faithful (isFill : V → Bool) (s0 : Store K V) (ops : List (Op K V)) :
    runOps genMode (genCfg isFill) s0 ops = .ok (s0.applyAll (genCfg isFill) (trace (genCfg isFill) s0 ops)) := by
  rw [genMode_eq_a, runOps_a, applyAll_trace]

/-- (invariant) At every crash point of every interleaving — chunk-write granularity, hence also task granularity — an
array all of whose chunks are present holds exactly the values of the uninterrupted run. -/
theorem C09_complete_implies_final (isFill : V → Bool) (s0 : Store K V) (ops : List (Op K V)) (hwf : WF ops)
    (hfresh : Fresh ops s0) (σ : Sched K V) (hσ : ValidSched (genCfg isFill) ops s0 σ) (n : Nat) (a : Arr K)
    (ha : a.complete (crashSched (genCfg isFill) s0 σ n)) :
    ∀ k ∈ a.grid, (crashSched (genCfg isFill) s0 σ n).get k = den (genCfg isFill) s0 ops k := by
  have hc := genCfg_writeEmpty isFill
  have hs := sound_runSched _ hc s0 ops hwf.single hwf.topo s0 (σ.take n) (sound_fresh _ hc s0 ops hfresh)
    (validSched_take _ ops s0 σ n hσ)
  exact complete_final _ s0 ops _ a hs ha

/-- the same for the crash points of the sequential run, metadata writes included. -/
theorem C09_complete_implies_final_seq (isFill : V → Bool) (s0 : Store K V) (ops : List (Op K V)) (hwf : WF ops)
    (hfresh : Fresh ops s0) (n : Nat) (a : Arr K) (ha : a.complete (crashSeq (genCfg isFill) s0 ops n)) :
    ∀ k ∈ a.grid, (crashSeq (genCfg isFill) s0 ops n).get k = den (genCfg isFill) s0 ops k := by
  have hc := genCfg_writeEmpty isFill
  have h0 := sound_fresh (genCfg isFill) hc s0 ops hfresh
  have hden := trace_den _ hc s0 ops hwf h0
  have hs := sound_applyAll _ hc s0 ops s0 ((trace (genCfg isFill) s0 ops).take n) h0
    (fun w hw => hden w (List.mem_of_mem_take hw))
  exact complete_final _ s0 ops _ a hs ha

/-- (main) `compute(resume=True)` on a store in which every present chunk of the plan holds its final value either
refuses before anything runs — and then the plan has an output whose storage cannot report completeness — or
completes, and then *every* chunk key holds exactly what the uninterrupted run leaves there. -/
theorem C09_resume_refines (isFill : V → Bool) (s0 : Store K V) (ops : List (Op K V)) (hwf : WF ops)
    (s : Store K V) (hs : Sound (genCfg isFill) s0 ops s) :
    (∃ r, resume genMode (genCfg isFill) ops s = .refused r ∧
        ∃ o ∈ ops, ∃ a ∈ o.outputs, a.structured = true) ∨
    (∃ s' sf, resume genMode (genCfg isFill) ops s = .done s' ∧
        runOps genMode (genCfg isFill) s0 ops = .ok sf ∧ ∀ k, s'.get k = sf.get k) := by
  have hc := genCfg_writeEmpty isFill
  cases hr : firstRefusal s ops with
  | some r =>
    left
    obtain ⟨o, ho, a, ha, hst, _⟩ := firstRefusal_some s ops r hr
    exact ⟨r, resume_of_refusal _ _ ops s r hr, o, ho, a, ha, hst⟩
  | none =>
    right
    refine ⟨runOpsA (genCfg isFill) s (toRun s ops), runOpsA (genCfg isFill) s0 ops, ?_, ?_, ?_⟩
    · rw [genMode_eq_a]; exact resume_a_of_no_refusal _ ops s hr
    · rw [genMode_eq_a]; exact runOps_a _ s0 ops
    · exact (resumed_store_eq_den _ hc s0 ops hwf s hs).1

/-- (main, end to end) crash anywhere in any interleaving, then resume. -/
theorem C09_resume_after_crash (isFill : V → Bool) (s0 : Store K V) (ops : List (Op K V)) (hwf : WF ops)
    (hfresh : Fresh ops s0) (σ : Sched K V) (hσ : ValidSched (genCfg isFill) ops s0 σ) (n : Nat) :
    (∃ r, resume genMode (genCfg isFill) ops (crashSched (genCfg isFill) s0 σ n) = .refused r ∧
        ∃ o ∈ ops, ∃ a ∈ o.outputs, a.structured = true) ∨
    (∃ s' sf, resume genMode (genCfg isFill) ops (crashSched (genCfg isFill) s0 σ n) = .done s' ∧
        runOps genMode (genCfg isFill) s0 ops = .ok sf ∧ ∀ k, s'.get k = sf.get k) := by
  have hc := genCfg_writeEmpty isFill
  exact C09_resume_refines isFill s0 ops hwf _
    (sound_runSched _ hc s0 ops hwf.single hwf.topo s0 (σ.take n) (sound_fresh _ hc s0 ops hfresh)
      (validSched_take _ ops s0 σ n hσ))

/-- … and for the crash points of the sequential run (between any two writes, metadata included). -/
theorem C09_resume_after_crash_seq (isFill : V → Bool) (s0 : Store K V) (ops : List (Op K V)) (hwf : WF ops)
    (hfresh : Fresh ops s0) (n : Nat) :
    (∃ r, resume genMode (genCfg isFill) ops (crashSeq (genCfg isFill) s0 ops n) = .refused r ∧
        ∃ o ∈ ops, ∃ a ∈ o.outputs, a.structured = true) ∨
    (∃ s' sf, resume genMode (genCfg isFill) ops (crashSeq (genCfg isFill) s0 ops n) = .done s' ∧
        runOps genMode (genCfg isFill) s0 ops = .ok sf ∧ ∀ k, s'.get k = sf.get k) := by
  have hc := genCfg_writeEmpty isFill
  have h0 := sound_fresh (genCfg isFill) hc s0 ops hfresh
  have hden := trace_den _ hc s0 ops hwf h0
  exact C09_resume_refines isFill s0 ops hwf _
    (sound_applyAll _ hc s0 ops s0 ((trace (genCfg isFill) s0 ops).take n) h0
      (fun w hw => hden w (List.mem_of_mem_take hw)))

/-- A resumed run that is itself interrupted (after any number of its writes) again leaves a store from which resume
works: the invariant is closed under crash-during-resume, so any number of crashes is covered. -/
theorem C09_crash_during_resume (isFill : V → Bool) (s0 : Store K V) (ops : List (Op K V)) (hwf : WF ops)
    (s : Store K V) (hs : Sound (genCfg isFill) s0 ops s) (n : Nat) :
    Sound (genCfg isFill) s0 ops (s.applyAll (genCfg isFill) ((trace (genCfg isFill) s (toRun s ops)).take n)) := by
  have hc := genCfg_writeEmpty isFill
  exact sound_applyAll _ hc s0 ops s _ hs
    (fun w hw => (resumed_store_eq_den _ hc s0 ops hwf s hs).2 w (List.mem_of_mem_take hw))

/-- An operation (with a pipeline) is skipped on resume only if every output is a created, non-0-d array with every
chunk present.  No hypothesis on the store: an incomplete array is never trusted. -/
theorem C09_skip_only_if_complete (s : Store K V) (o : Op K V) (hp : o.hasPipeline = true)
    (hskip : skipNode s o = true) :
    o.outputs ≠ [] ∧ ∀ a ∈ o.outputs, a.structured = false ∧ a.openable s = true ∧ a.ndim ≠ 0 ∧ a.complete s := by
  rcases (skipNode_iff s o).mp hskip with h | h
  · rw [hp] at h; cases h
  · exact (alreadyComputed_true_iff s o hp).mp h

/-- Arrays completely written before the interruption are not recomputed: if every output of an operation is a
created plain array, not 0-d, with all chunks present, the operation is not run on resume and no chunk of it is written
again. -/
theorem C09_complete_not_recomputed (c : WriteCfg V) (ops : List (Op K V)) (hwf : WF ops) (s : Store K V)
    (o : Op K V) (ho : o ∈ ops) (hp : o.hasPipeline = true) (hne : o.outputs ≠ [])
    (hall : ∀ a ∈ o.outputs, a.structured = false ∧ a.openable s = true ∧ a.ndim ≠ 0 ∧ a.complete s) :
    o ∉ toRun s ops ∧ ∀ k ∈ opOuts o, ∀ v, Write.chunk k v ∉ trace c s (toRun s ops) := by
  have hskip : skipNode s o = true :=
    (skipNode_iff s o).mpr (Or.inr ((alreadyComputed_true_iff s o hp).mpr ⟨hne, hall⟩))
  have hnot : o ∉ toRun s ops := by
    intro h
    have := (List.mem_filter.mp h).2
    simp [hskip] at this
  exact ⟨hnot, fun k hk v => not_rewritten c ops hwf.single s o ho hnot k v hk⟩

/-- The two exceptions of the statement: the array-creation step and operations with a 0-d output are always run. -/
theorem C09_create_and_0d_always_run (s : Store K V) (o : Op K V) (hp : o.hasPipeline = true)
    (h : o.outputs = [] ∨ ∃ a ∈ o.outputs, a.ndim = 0) : skipNode s o = false := by
  cases hs : skipNode s o with
  | false => rfl
  | true =>
    have := C09_skip_only_if_complete s o hp hs
    rcases h with h | ⟨a, ha, h0⟩
    · exact absurd h this.1
    · exact absurd h0 (this.2 a ha).2.2.1

/-- The create step never wipes: with the mode `create_zarr_array` passes, creating an array succeeds whether or not
it exists, leaves every chunk and every metadata document in place, and afterwards the array can be opened. -/
theorem C09_create_keeps_chunks (s : Store K V) (a : Arr K) :
    ∃ s', createArr genMode s a = .ok s' ∧ (∀ k, s'.get k = s.get k) ∧ (∀ d ∈ s.docs, d ∈ s'.docs) ∧
      a.openable s' = true := by
  refine ⟨_, createArr_gen s a, ?_, ?_, openable_createA s a⟩
  · intro k; simp [Store.createA]
  · intro d hd; exact (mem_docs_addDocs s _ d).mpr (Or.inl hd)

/-- Refusal is decided before the executor is called (it is a function of the store alone: nothing has run), is one
of the two explicit kinds, and is caused by an output whose storage has no `nchunks_initialized`. -/
theorem C09_refuse_up_front (m : Mode) (c : WriteCfg V) (ops : List (Op K V)) (s : Store K V) (r : Refusal) :
    resume m c ops s = .refused r ↔ firstRefusal s ops = some r := by
  constructor
  · intro h
    unfold resume at h
    cases hf : firstRefusal s ops with
    | some r' => simp [hf] at h; rw [h]
    | none =>
      simp only [hf] at h
      split at h <;> cases h
  · exact resume_of_refusal m c ops s r

theorem C09_refusal_is_justified (s : Store K V) (ops : List (Op K V)) (r : Refusal)
    (h : firstRefusal s ops = some r) :
    (r = .noInitializedCount ∨ r = .structuredNotCreated) ∧ ∃ o ∈ ops, ∃ a ∈ o.outputs, a.structured = true := by
  obtain ⟨o, ho, a, ha, hst, hr⟩ := firstRefusal_some s ops r h
  exact ⟨hr, o, ho, a, ha, hst⟩

/-- Plans whose storage can report completeness everywhere are never refused. -/
theorem C09_plain_never_refused (s : Store K V) (ops : List (Op K V))
    (hplain : ∀ o ∈ ops, ∀ a ∈ o.outputs, a.structured = false) : firstRefusal s ops = none :=
  firstRefusal_none_of_plain s ops hplain

/-! ## Non-vacuity: a concrete plan satisfying every hypothesis, with every crash point evaluated

  create-arrays → op-A (two tasks, one chunk each, reading the source chunk 0) → op-B (one task reading both chunks of A
  and writing *two* stored chunks of B).  Keys: 0 = source chunk, 1 2 = chunks of A, 3 4 = chunks of B, ≥ 100 = metadata. -/

def exA : Arr Nat := { name := "A", ndim := 1, doc := 100, parents := [199], fields := [], grid := [1, 2], structured := false }
def exB : Arr Nat := { name := "B", ndim := 1, doc := 101, parents := [199], fields := [], grid := [3, 4], structured := false }
def tA1 : Task Nat Nat := { reads := [0], outs := [1], fn := fun vs k => match vs with | [some v] => v + k | _ => 0 }
def tA2 : Task Nat Nat := { reads := [0], outs := [2], fn := fun vs k => match vs with | [some v] => v + k | _ => 0 }
def tB : Task Nat Nat :=
  { reads := [1, 2], outs := [3, 4], fn := fun vs k => match vs with | [some x, some y] => x * y + k | _ => 0 }
def exCreate : Op Nat Nat := { name := "create-arrays", hasPipeline := true, outputs := [], creates := [exA, exB], tasks := [] }
def exOpA : Op Nat Nat := { name := "op-A", hasPipeline := true, outputs := [exA], creates := [], tasks := [tA1, tA2] }
def exOpB : Op Nat Nat := { name := "op-B", hasPipeline := true, outputs := [exB], creates := [], tasks := [tB] }
def exOps : List (Op Nat Nat) := [exCreate, exOpA, exOpB]
def exS0 : Store Nat Nat := { docs := [], chunks := [(0, 5)] }
def exCfg : WriteCfg Nat := genCfg (fun v => v == 0)

example : WF exOps where
  single := by decide
  topo := by
    simp [OpTopo, exOps, exCreate, exOpA, exOpB, tA1, tA2, tB, opOuts, outKeys]
  exact := by
    intro o ho k
    simp only [exOps, List.mem_cons, List.mem_nil_iff, or_false] at ho
    rcases ho with rfl | rfl | rfl <;> simp [opOuts, exCreate, exOpA, exOpB, tA1, tA2, tB, exA, exB]
  nopipe := by
    intro o ho h
    simp only [exOps, List.mem_cons, List.mem_nil_iff, or_false] at ho
    rcases ho with rfl | rfl | rfl <;> simp [exCreate, exOpA, exOpB] at h

example : Fresh exOps exS0 := by unfold Fresh; decide

/-- the sequential run makes 8 writes: 4 metadata documents (one of them a no-op), then chunks 1 2 3 4. -/
example : (trace exCfg exS0 exOps).length = 8 := by decide

/-- the uninterrupted run. -/
example : (crashSeq exCfg exS0 exOps 8).chunks = [(4, 46), (3, 45), (2, 7), (1, 6), (0, 5)] := by decide

/-- which operations run on resume, for every crash point: everything until A is complete (n = 6), then only B —
also when B is half written (n = 7: one of the two stored chunks of its single task) — and only the create step when
everything was there. -/
example : (List.range 9).map (fun n => (toRun (crashSeq exCfg exS0 exOps n) exOps).map (·.name)) =
    [["create-arrays", "op-A", "op-B"], ["create-arrays", "op-A", "op-B"], ["create-arrays", "op-A", "op-B"],
     ["create-arrays", "op-A", "op-B"], ["create-arrays", "op-A", "op-B"], ["create-arrays", "op-A", "op-B"],
     ["create-arrays", "op-B"], ["create-arrays", "op-B"], ["create-arrays"]] := by decide

/-- … and every one of the 9 resumed runs ends with the values of the uninterrupted run on every key. -/
example : ∀ n, n < 9 → ∀ k, k < 6 →
    (match resume genMode exCfg exOps (crashSeq exCfg exS0 exOps n) with
      | .done s' => s'.get k | _ => none) = (crashSeq exCfg exS0 exOps 8).get k := by decide

/-- an interleaved schedule (tasks of A out of order, the two chunk writes of B's task swapped) is valid … -/
def exSched : Sched Nat Nat := [(tA2, 2), (tA1, 1), (tB, 4), (tB, 3)]

example : ValidSched exCfg exOps exS0 exSched := by
  refine ⟨⟨exOpA, by simp [exOps], by simp [exOpA]⟩, by simp [tA2], by unfold Ready; decide, ?_⟩
  refine ⟨⟨exOpA, by simp [exOps], by simp [exOpA]⟩, by simp [tA1], by unfold Ready; decide, ?_⟩
  refine ⟨⟨exOpB, by simp [exOps], by simp [exOpB]⟩, by simp [tB], by unfold Ready; decide, ?_⟩
  refine ⟨⟨exOpB, by simp [exOps], by simp [exOpB]⟩, by simp [tB], by unfold Ready; decide, trivial⟩

/-- … and its crash point 3 has A complete and B half written (chunk 4 only): B is not trusted. -/
example : exA.complete (crashSched exCfg exS0 exSched 3) ∧ ¬ exB.complete (crashSched exCfg exS0 exSched 3)
    ∧ skipNode (crashSched exCfg exS0 exSched 3) exOpA = false     -- A's metadata does not exist in this store
    := by unfold Arr.complete; decide

/-- a structured-dtype output makes resume refuse, explicitly, before anything runs. -/
def exS : Arr Nat := { name := "S", ndim := 1, doc := 102, parents := [199], fields := [103, 104], grid := [5, 6], structured := true }
def exOpS : Op Nat Nat := { name := "op-S", hasPipeline := true, outputs := [exS], creates := [], tasks := [] }

example : firstRefusal ({ docs := [102, 103, 104], chunks := [] } : Store Nat Nat) [exOpS] = some .noInitializedCount := by
  decide
example : firstRefusal ({ docs := [102], chunks := [] } : Store Nat Nat) [exOpS] = some .structuredNotCreated := by
  decide

end Cubed.C09
