/-
  C19 — Acceptance and results do not depend on how resources are configured.

  Property theorems only (model: Model/SpecThread.lean, lemmas: Proofs/SpecThread.lean, site table and plumbing
  facts regenerated from the source on every run: Model/GeneratedC19.lean).
-/
import CubedModel.Proofs.SpecThread

namespace Cubed.C19

open Cubed Cubed.SpecThread

/-- (a) No creation site in the library drops the spec or passes it in a way the extractor cannot read: every call of
an array creator inside `cubed/` passes `spec=` (derived from an operand, forwarded from its own parameter, inherited
by `*_like`, or a literal `Spec(...)`).  A new helper array created without `spec=` makes this `decide` fail. -/
theorem C19_helpers_thread_spec :
    ∀ p ∈ GeneratedC19.sites, Kind.ofCode p.2 ≠ Kind.missing ∧ Kind.ofCode p.2 ≠ Kind.unknown := by
  decide

example : GeneratedC19.sites.length ≥ 40 ∧ (Kind.operand ∈ siteKinds) ∧ (Kind.param ∈ siteKinds) ∧ (Kind.like ∈ siteKinds) := by
  decide

/-- (a') … and the only site that neither derives the spec from an operand nor forwards its own parameter is pinned by
id: `measure_reserved_mem` builds its own `Spec(...)` for a stand-alone computation.  (The xarray branch of `asarray`
used to re-enter `asarray(a.data)` without `spec` — kind `selfUnwrap`; since the fix it forwards its parameter, and a
recurrence fails this `decide`.) -/
theorem C19_non_threaded_sites_pinned :
    ∀ p ∈ GeneratedC19.sites, (Kind.ofCode p.2).threaded = true ∨
      (p.1, Kind.ofCode p.2) ∈
        [("cubed/core/array.py:measure_reserved_mem:ones#1", Kind.fresh)] := by
  decide

example : ∃ p ∈ GeneratedC19.sites, (Kind.ofCode p.2).threaded = false := by decide

/-- (a'') hence every kind that a helper creation inside an operation can have is threaded. -/
theorem C19_helper_kinds_threaded : ∀ k ∈ helperKinds, k.threaded = true := by
  decide

example : helperKinds ≠ [] := by decide

/-- (b) Building does not depend on the configuration: an expression all of whose creation sites thread the spec is
accepted under every configuration `c` (none = global default config, some s = explicit Spec) and every default
config, and the result carries exactly the configuration's spec. -/
theorem C19_build_threaded (dflt freshS : Spec) (c : Option Spec) (e : Expr) (hth : e.threaded = true) :
    build dflt freshS c e = some (resolve dflt c) :=
  build_threaded dflt freshS c e hth

/-- (b') the same, stated against the generated table: expressions whose sites all have kinds that occur as helper
sites in the code base. -/
theorem C19_config_independent (dflt₁ dflt₂ freshS : Spec) (c₁ c₂ : Option Spec) (e : Expr)
    (htab : ∀ k ∈ e.kinds, k ∈ helperKinds) :
    buildOk dflt₁ freshS c₁ e = true ∧ buildOk dflt₂ freshS c₂ e = true ∧
      build dflt₁ freshS c₁ e = some (resolve dflt₁ c₁) := by
  have hth : e.threaded = true := by
    have hk : ∀ k ∈ e.kinds, k.threaded = true := fun k hk => C19_helper_kinds_threaded k (htab k hk)
    clear htab
    induction e with
    | create i chain =>
      simp only [Expr.threaded, chainThreaded, List.all_eq_true]
      intro k hkc; exact hk k (by simp [Expr.kinds, hkc])
    | op1 f chains a iha =>
      simp only [Expr.threaded, Bool.and_eq_true, List.all_eq_true, chainThreaded]
      refine ⟨?_, iha ?_⟩
      · intro ch hch k hkc
        exact hk k (by simp only [Expr.kinds, List.mem_append, List.mem_flatten]; exact Or.inl ⟨ch, hch, hkc⟩)
      · intro k hka; exact hk k (by simp [Expr.kinds, hka])
    | op2 f chains a b iha ihb =>
      simp only [Expr.threaded, Bool.and_eq_true, List.all_eq_true, chainThreaded]
      refine ⟨⟨?_, iha ?_⟩, ihb ?_⟩
      · intro ch hch k hkc
        exact hk k (by simp only [Expr.kinds, List.mem_append, List.mem_flatten]; exact Or.inl (Or.inl ⟨ch, hch, hkc⟩))
      · intro k hka; exact hk k (by simp [Expr.kinds, hka])
      · intro k hkb; exact hk k (by simp [Expr.kinds, hkb])
  simp [buildOk, build_threaded _ _ _ e hth]

/-- the default config, an explicit Spec and a searchsorted-like operation (operand-derived scalar and offsets helper
arrays, a `zeros_like`) over a creation and a binary operation. -/
def exDflt : Spec := ⟨none, none, 2000000000, 100000000, none, none, .auto⟩
def exSpec : Spec := ⟨some "/tmp/other", some 7, 500000, 1000, some 1, none, .off⟩
def exExpr : Expr :=
  .op2 3 [[.operand, .param], [.like, .likeArgs, .param, .param]]
    (.create 0 [.param, .param]) (.op1 1 [[.operand, .param]] (.create 1 [.param]))

example : (∀ k ∈ exExpr.kinds, k ∈ helperKinds) ∧ build exDflt exDflt (some exSpec) exExpr = some exSpec
    ∧ build exDflt exDflt none exExpr = some exDflt := by decide

/-- (c) Admission looks at the spec only through `allowed_mem − reserved_mem` and the buffer-copy counts … -/
theorem C19_accept_depends_on_headroom_and_copies (s₁ s₂ : Spec) (plan : List OpMem)
    (hh : headroom s₁ = headroom s₂) (hc : copies s₁ = copies s₂) :
    accepts s₁ plan = accepts s₂ plan :=
  accepts_congr s₁ s₂ plan hh hc

/-- (c') … the buffer-copy counts depend on the work directory only (and are the same for all non-cloud ones) … -/
theorem C19_copies_depend_on_workdir (s₁ s₂ : Spec)
    (h : s₁.workDir = s₂.workDir ∨ (isCloud s₁ = false ∧ isCloud s₂ = false)) : copies s₁ = copies s₂ := by
  cases h with
  | inl h => exact copies_of_workDir s₁ s₂ h
  | inr h => rw [copies_local s₁ h.1, copies_local s₂ h.2]

/-- (c'') … and it is monotone in the allowed memory. -/
theorem C19_accept_monotone (s₁ s₂ : Spec) (plan : List OpMem)
    (hh : headroom s₁ ≤ headroom s₂) (hc : copies s₁ = copies s₂) (h : accepts s₁ plan = true) :
    accepts s₂ plan = true :=
  accepts_mono s₁ s₂ plan hh hc h

/-- (c3) The local executors add one more test on the spec, `allowed_mem * max_workers ≤ machine memory`
(`check_runtime_memory`): it is *anti*-monotone in `allowed_mem` and the only way a larger `allowed_mem` can turn an
accepted computation into a refused one: with it satisfied for the larger spec, monotonicity holds for the combined
decision. -/
theorem C19_accept_monotone_on_machine (total workers : Nat) (s₁ s₂ : Spec) (plan : List OpMem)
    (hh : headroom s₁ ≤ headroom s₂) (hc : copies s₁ = copies s₂) (hm : machineOk total workers s₂ = true)
    (h : (accepts s₁ plan && machineOk total workers s₁) = true) :
    (accepts s₂ plan && machineOk total workers s₂) = true := by
  simp only [Bool.and_eq_true] at h ⊢
  exact ⟨accepts_mono s₁ s₂ plan hh hc h.1, hm⟩

/-- (c4) … and that test reads `allowed_mem` only. -/
theorem C19_machine_check_reads_allowed_only (total workers : Nat) (s₁ s₂ : Spec) (h : s₁.allowed = s₂.allowed) :
    machineOk total workers s₁ = machineOk total workers s₂ := by
  simp [machineOk, h]

example : machineOk 64000000000 16 exDflt = true ∧ machineOk 64000000000 16 { exDflt with allowed := 8000000000 } = false := by
  decide

example : accepts exSpec [⟨[1000, 2000], 500, 4000⟩] = true
    ∧ accepts { exSpec with workDir := some "s3://bucket/tmp" } [⟨[1000, 2000], 500, 4000⟩] = true
    ∧ accepts { exSpec with allowed := 15000 } [⟨[1000, 2000], 500, 4000⟩] = false
    ∧ copies exSpec = (1, 1) ∧ copies { exSpec with workDir := some "S3://bucket/tmp" } = (2, 2) := by decide

/-- (d) The observable of the property (rejected while building / rejected by the memory test / the values) is the same
under any two configurations that leave the same room for data and use storage of the same kind — work directory,
intermediate store, compressor, executor, storage options, and a joint shift of allowed and reserved memory do not
matter; the plan itself may depend on the configuration through headroom and buffer copies (rechunk does). -/
theorem C19_observe_config_independent {V : Type} (dflt freshS : Spec) (inp : Nat → V) (f1 : Nat → V → V)
    (f2 : Nat → V → V → V) (planOf : Int → Nat × Nat → Expr → List OpMem) (c₁ c₂ : Option Spec) (e : Expr)
    (hth : e.threaded = true)
    (hh : headroom (resolve dflt c₁) = headroom (resolve dflt c₂))
    (hc : copies (resolve dflt c₁) = copies (resolve dflt c₂)) :
    observe dflt freshS inp f1 f2 planOf c₁ e = observe dflt freshS inp f1 f2 planOf c₂ e := by
  simp only [observe, build_threaded dflt freshS _ e hth, hh, hc]
  rw [accepts_congr (resolve dflt c₁) (resolve dflt c₂) _ hh hc]

/-- (d') "as long as the allowed memory suffices for the plan": whenever both configurations admit their plans, the
outcome is the value of the expression — which has no spec argument at all. -/
theorem C19_values_config_independent {V : Type} (dflt freshS : Spec) (inp : Nat → V) (f1 : Nat → V → V)
    (f2 : Nat → V → V → V) (planOf : Int → Nat × Nat → Expr → List OpMem) (c₁ c₂ : Option Spec) (e : Expr)
    (hth : e.threaded = true)
    (h₁ : accepts (resolve dflt c₁) (planOf (headroom (resolve dflt c₁)) (copies (resolve dflt c₁)) e) = true)
    (h₂ : accepts (resolve dflt c₂) (planOf (headroom (resolve dflt c₂)) (copies (resolve dflt c₂)) e) = true) :
    observe dflt freshS inp f1 f2 planOf c₁ e = Outcome.value (denote inp f1 f2 e) ∧
    observe dflt freshS inp f1 f2 planOf c₂ e = Outcome.value (denote inp f1 f2 e) := by
  simp [observe, build_threaded dflt freshS _ e hth, h₁, h₂]

example : exExpr.threaded = true
    ∧ headroom exSpec = headroom { exSpec with allowed := 600000, reserved := 101000, workDir := none, compressor := .codec 3 }
    ∧ copies exSpec = copies { exSpec with allowed := 600000, reserved := 101000, workDir := none, compressor := .codec 3 } := by
  decide

/-- (e) Converse witness — the searchsorted defect before its fix: one helper array created without `spec=`
(chain `missing` then the constructor's `param`).  Under the global default config, and under an explicit Spec that
equals the default field by field, the expression builds; under any other explicit Spec it is rejected. -/
def preFixSearchsorted : Expr :=
  .op2 3 [[.missing, .param]] (.create 0 [.param]) (.create 1 [.param])

theorem C19_missing_site_breaks (dflt freshS s : Spec) (hs : s ≠ dflt) :
    build dflt freshS none preFixSearchsorted = some dflt ∧
    build dflt freshS (some dflt) preFixSearchsorted = some dflt ∧
    build dflt freshS (some s) preFixSearchsorted = none := by
  refine ⟨?_, ?_, ?_⟩
  · simp [preFixSearchsorted, build, helperSpec, chainState, step, resolve, helperSpecs, checkSpecs]
  · simp [preFixSearchsorted, build, helperSpec, chainState, step, resolve, helperSpecs, checkSpecs]
  · simp [preFixSearchsorted, build, helperSpec, chainState, step, resolve, helperSpecs, checkSpecs]
    exact fun h => hs h.symm

example : exSpec ≠ exDflt ∧ build exDflt exDflt (some exSpec) preFixSearchsorted = none := by decide

/-- (f) The plumbing facts the model relies on, as read from the source on this run: `Spec.__eq__` compares exactly
the seven modelled fields; a missing spec resolves to the global config; `check_array_specs` compares with the first;
blockwise / general_blockwise take the spec from `check_array_specs(arrays)` and hand `allowed_mem`, `reserved_mem`,
`storage_options`, `zarr_compressor` and `get_buffer_copies(spec)` of *that* spec to the primitive; buffer copies read
only `work_dir`; `intermediate_store` reads only `intermediate_store` and `work_dir`; the projected-memory formula. -/
theorem C19_spec_plumbing_pinned :
    GeneratedC19.specEqFields =
      ["work_dir", "intermediate_store", "allowed_mem", "reserved_mem", "executor", "storage_options", "zarr_compressor"]
    ∧ GeneratedC19.specResolution = ["spec or spec_from_config(config)"]
    ∧ GeneratedC19.checkArraySpecsAllEqualFirst = true
    ∧ GeneratedC19.blockwiseSpecOrigin = ["check_array_specs(arrays)"]
    ∧ GeneratedC19.general_blockwiseSpecOrigin = ["check_array_specs(arrays)"]
    ∧ GeneratedC19.blockwiseSpecFlows = ["allowed_mem=spec.allowed_mem", "buffer_copies=buffer_copies",
        "compressor=spec.zarr_compressor", "reserved_mem=spec.reserved_mem", "storage_options=spec.storage_options"]
    ∧ GeneratedC19.general_blockwiseSpecFlows = GeneratedC19.blockwiseSpecFlows
    ∧ GeneratedC19.blockwiseBufferCopies = ["get_buffer_copies(spec)"]
    ∧ GeneratedC19.general_blockwiseBufferCopies = ["get_buffer_copies(spec)"]
    ∧ GeneratedC19.bufferCopiesReads = ["work_dir"]
    ∧ GeneratedC19.bufferCopiesLocal = (1, 1)
    ∧ GeneratedC19.intermediateStoreReads = ["intermediate_store", "work_dir"]
    ∧ GeneratedC19.rechunkSpecReads = ["allowed_mem", "reserved_mem"]
    ∧ GeneratedC19.projectedMemFormula = true := by
  decide

end Cubed.C19
