/-
  C02 — Graph optimization (operation fusion) never changes any computed value.
-/
import CubedModel.Proofs.Dag
import CubedModel.Proofs.Optimize
import CubedModel.Proofs.OptimizeSound

namespace Cubed.C02

open Cubed Cubed.Dag

/-- (a) One fused op computes what the unfused successor computes over the predecessors' results
(`fuse_multiple`), for every out block, any nesting depth, lists / streams / repeated arguments. -/
theorem C02_fuse_multiple_correct {V R : Type} (s : BSpec V R) (preds : Preds V) (read : CK → V)
    (coords : List Nat)
    (hname : ∀ n p, preds n = some p → NameIndep p)
    (hs : ∀ t ∈ (s.keyfn ⟨"out", coords⟩).args, Tree.Unfused t) :
    evalSpec (fuseMultiple s preds) read coords = evalSpec s (readThrough preds read) coords :=
  fuse_multiple_correct s preds read coords hname hs

/-- Side conditions of one `fuse_predecessors` rewrite, exactly those the guards of
`can_fuse_predecessors` provide (`Opt.canFuse_guards`): removed ops are single-output, their arrays
are read by no op other than `s` (`out_degree_unique == 1`), plus well-formedness of the plan. -/
structure StepOK {V : Type} (pre : List (Op V)) (s : Op V) (post : List (Op V)) (inP : Op V → Bool) : Prop where
  nodup : (outs (pre ++ s :: post)).Nodup
  topo : Topo (pre ++ s :: post)
  reads : ∀ o ∈ pre ++ s :: post, ReadsFrom o
  single : ∀ p ∈ pre, inP p = true → ∃ n, SingleOut p n ∧ NameIndep p.spec
  only : ∀ o ∈ pre ++ post, ∀ m ∈ o.sources, m ∉ outs (pre.filter inP)
  unfused : ∀ c, ∀ t ∈ (s.spec.keyfn ⟨"out", c⟩).args, Tree.Unfused t

/-- (b) One optimizer step preserves every block of every surviving array. -/
theorem C02_fuse_step_preserves {V : Type} (pre : List (Op V)) (s : Op V) (post : List (Op V))
    (inP : Op V → Bool) (newSources : List String) (base : CK → V) (h : StepOK pre s post inP) :
    ∀ k : CK, k.name ∉ outs (pre.filter inP) →
      denote (pre ++ s :: post) base k = denote (fuseStep pre s post inP newSources) base k :=
  fuse_step_preserves pre s post inP newSources base h.nodup h.topo h.reads h.single h.only h.unfused

/-- A run of an optimizer: a sequence of fuse steps none of which removes a requested array
(`array_names` guard). -/
inductive FuseSeq {V : Type} (req : List String) : List (Op V) → List (Op V) → Prop where
  | refl (ops) : FuseSeq req ops ops
  | step (pre s post inP newSources rest) :
      StepOK pre s post inP →
      (∀ n ∈ req, n ∉ outs (pre.filter inP)) →
      FuseSeq req (fuseStep pre s post inP newSources) rest →
      FuseSeq req (pre ++ s :: post) rest

/-- (c) Any number of optimizer steps — i.e. any optimizer built from `fuse_predecessors` with any
parameters (`multiple_inputs_optimize_dag` with any limits, `fuse_all`, `fuse_only`) — leaves every
block of every requested array unchanged. -/
theorem C02_optimize_preserves {V : Type} (req : List String) (ops ops' : List (Op V)) (base : CK → V)
    (h : FuseSeq req ops ops') : ∀ k : CK, k.name ∈ req → denote ops base k = denote ops' base k := by
  induction h with
  | refl _ => intro k _; rfl
  | step pre s post inP newSources rest hok hreq _ ih =>
    intro k hk
    rw [C02_fuse_step_preserves pre s post inP newSources base hok k (hreq _ hk)]
    exact ih k hk

/-- (d) … and every requested array is still produced (materialized) by some op of the rewritten plan. -/
theorem C02_requested_still_produced {V : Type} (pre : List (Op V)) (s : Op V) (post : List (Op V))
    (inP : Op V → Bool) (newSources : List String) (n : String)
    (hn : n ∈ outs (pre ++ s :: post)) (hkeep : n ∉ outs (pre.filter inP)) :
    n ∈ outs (fuseStep pre s post inP newSources) := by
  simp only [outs, fuseStep, fuseOp, List.flatMap_append, List.flatMap_cons, List.mem_append,
    List.mem_flatMap, List.mem_filter] at *
  rcases hn with ⟨o, ho, hm⟩ | hm | hm
  · left
    refine ⟨o, ⟨ho, ?_⟩, hm⟩
    cases hc : inP o with
    | false => rfl
    | true => exact absurd ⟨o, ⟨ho, hc⟩, hm⟩ hkeep
  · right; left; exact hm
  · right; right; exact hm

/-- (e) Legacy `simple_optimize_dag` / `fuse`: correct when the successor reads one single key. -/
theorem C02_fuse_pair_correct_partial {V R : Type} (s1 : BSpec V V) (s2 : BSpec V R) (read : CK → V)
    (coords : List Nat) (k : CK) (fa : FArgs CK)
    (h2 : (s2.keyfn ⟨"out", coords⟩).args = [.leaf k])
    (h1 : NameIndep s1)
    (hk : fusePairKey s1.keyfn s2.keyfn ⟨"out", coords⟩ = some fa) :
    s2.fn [.leaf (s1.fn (Tree.mapL read fa.args))]
      = evalSpec s2 (fun k' => if k' = k then evalSpec s1 read k.coords else read k') coords :=
  fuse_pair_correct s1 s2 read coords k fa h2 h1 hk

/-- Full-strength statement for the legacy optimizer: whenever `can_fuse_primitive_ops` accepts a
pair (both candidates, equal `num_tasks`), the fused key function is well defined. -/
def C02_legacy_full : Prop :=
  ∀ (k1 k2 : CK → FArgs CK) (out : CK), (fusePairKey k1 k2 out).isSome

/-- (f) … which is false on the unchanged code: a one-block reduction (its key function returns a
*stream* of keys, `num_tasks` equal to its elementwise predecessor's) is accepted by the legacy
optimizer and `fuse` then takes `.args[0]` of a stream (AttributeError inside the task).
Witness replayed on the implementation by the check (KNOWN-FINDING legacy-fuse-stream). -/
theorem C02_legacy_full_fails : ¬ C02_legacy_full := by
  intro h
  have := h (fun k => ⟨k.name, [.leaf ⟨"x", k.coords⟩]⟩)
            (fun k => ⟨k.name, [.iter [.leaf ⟨"a", [0]⟩]]⟩) ⟨"out", [0]⟩
  simp [fusePairKey] at this

/-- (g) structural guards: when `can_fuse_predecessors` answers True, the side conditions about the
dag hold (no requested array removed, single consumer, single output). -/
theorem C02_canFuse_guards (d : Opt.DagRec) (o : Opt.OpRec) (ps : Opt.Params)
    (h : Opt.canFuse d o ps = some true) :
    ∃ triples, Opt.poa d o = some triples ∧
      (∀ t ∈ triples, ps.arrayNames.contains t.2.1 = false) ∧
      (∀ t ∈ triples, t.1.outputs.length ≤ 1) ∧
      (∀ t ∈ triples, t.2.2 = true → Opt.producer d t.2.1 = some t.1 ∧
          t.1.isPrim = true ∧ t.1.fusSucc = true ∧ Opt.outDegreeUnique d t.2.1 = 1) :=
  Opt.canFuse_guards d o ps h

/-- (h) `out_degree_unique == 1` (one of the guards in (g)) is exactly the `only` side condition of
`StepOK`: no op other than the fusing successor reads the removed array. -/
theorem C02_single_consumer (d : Opt.DagRec) (a : String) (s o : Opt.OpRec) (hs : s ∈ d.ops) (ho : o ∈ d.ops)
    (hsa : s.inEdges.contains a = true) (hoa : o.inEdges.contains a = true)
    (h1 : Opt.outDegreeUnique d a = 1) : o = s :=
  Opt.single_consumer d a s o hs ho hsa hoa h1

/-- (i) **Structural guard ⇒ semantic side conditions.**  `Opt.canFuse` / `Opt.fusePreds` is the layer that is
compared with the real `can_fuse_predecessors` / `fuse_predecessors` on every generated plan.  When that guard
answers True on a record dag describing (`Opt.Shadow`) a semantic plan `pre ++ s :: post`, then for the ops the
structural rewrite removes (`Opt.removedSel triples`): no other op reads a removed array (`StepOK.only`), no
requested array is removed (the `FuseSeq.step` premise), and each removed op has exactly one output. -/
theorem C02_guards_imply_side_conditions {V : Type} (d : Opt.DagRec) (o : Opt.OpRec) (ps : Opt.Params)
    (pre : List (Op V)) (s : Op V) (post : List (Op V)) (triples : List (Opt.OpRec × String × Bool))
    (ho : o ∈ d.ops) (hdesc : Opt.Describes o s)
    (hsrc : ∀ a ∈ o.sources, o.inEdges.contains a = true)
    (hsh : Opt.Shadow d (pre ++ s :: post))
    (hnames : ((pre ++ s :: post).map (·.name)).Nodup)
    (hcan : Opt.canFuse d o ps = some true) (hpoa : Opt.poa d o = some triples) :
    (∀ x ∈ pre ++ post, ∀ m ∈ x.sources, m ∉ outs (pre.filter (Opt.removedSel triples))) ∧
    (∀ n ∈ ps.arrayNames, n ∉ outs (pre.filter (Opt.removedSel triples))) ∧
    (∀ p ∈ pre, Opt.removedSel triples p = true → ∃ n, p.outputs = [n]) :=
  Opt.guards_imply_side_conditions d o ps pre s post triples ho hdesc hsrc hsh hnames hcan hpoa

/-- (j) **One accepted step of the structural optimizer preserves every requested block.**  Combines (b) and (i):
the dag-shaped premises of `StepOK` are *derived* from the structural guard; what remains as hypotheses is
well-formedness of the plan (distinct array and op names, topological order, key functions read declared
sources), that a single-output op writes its result as is, and the two key-function hypotheses validated on
every real key function by the check (`NameIndep` of the removed ops, `Unfused` arguments of `s`). -/
theorem C02_structural_step_preserves {V : Type} (d : Opt.DagRec) (o : Opt.OpRec) (ps : Opt.Params)
    (pre : List (Op V)) (s : Op V) (post : List (Op V)) (triples : List (Opt.OpRec × String × Bool))
    (newSources : List String) (base : CK → V)
    (ho : o ∈ d.ops) (hdesc : Opt.Describes o s)
    (hsrc : ∀ a ∈ o.sources, o.inEdges.contains a = true)
    (hsh : Opt.Shadow d (pre ++ s :: post))
    (hnames : ((pre ++ s :: post).map (·.name)).Nodup)
    (hcan : Opt.canFuse d o ps = some true) (hpoa : Opt.poa d o = some triples)
    (hnodup : (outs (pre ++ s :: post)).Nodup) (htopo : Topo (pre ++ s :: post))
    (hreads : ∀ x ∈ pre ++ s :: post, ReadsFrom x)
    (hproj : ∀ p ∈ pre, p.outputs.length = 1 → ∀ v, p.proj 0 v = some v)
    (hni : ∀ p ∈ pre, Opt.removedSel triples p = true → NameIndep p.spec)
    (hunf : ∀ c, ∀ t ∈ (s.spec.keyfn ⟨"out", c⟩).args, Tree.Unfused t) :
    ∀ k : CK, k.name ∈ ps.arrayNames →
      denote (pre ++ s :: post) base k
        = denote (fuseStep pre s post (Opt.removedSel triples) newSources) base k := by
  obtain ⟨honly, hreq, hone⟩ :=
    C02_guards_imply_side_conditions d o ps pre s post triples ho hdesc hsrc hsh hnames hcan hpoa
  have hok : StepOK pre s post (Opt.removedSel triples) :=
    { nodup := hnodup, topo := htopo, reads := hreads,
      single := by
        intro p hp hsel
        obtain ⟨n, hn⟩ := hone p hp hsel
        exact ⟨n, ⟨hn, hproj p hp (by rw [hn]; rfl)⟩, hni p hp hsel⟩
      only := honly, unfused := hunf }
  intro k hk
  exact C02_fuse_step_preserves pre s post _ newSources base hok k (hreq _ hk)

/-- (k) The structural rewrite itself never drops a requested array: whatever `fuse_predecessors` does to the record
dag, every array of `array_names` that was produced by some op is still produced afterwards (record-level counterpart
of (d), for the function that is compared with the real `fuse_predecessors`). -/
theorem C02_fusePreds_keeps_requested (d d' : Opt.DagRec) (name : String) (ps : Opt.Params) (a : String)
    (hnames : ∀ r₁ ∈ d.ops, ∀ r₂ ∈ d.ops, r₁.name = r₂.name → r₁ = r₂)
    (ha : ps.arrayNames.contains a = true)
    (h : Opt.fusePreds d name ps = some d')
    (hp : ∃ q ∈ d.ops, q.outputs.contains a = true) :
    ∃ q' ∈ d'.ops, q'.outputs.contains a = true :=
  Opt.fusePreds_keeps_requested d d' name ps a hnames ha h hp

/-- (l) … and so does a whole run of the structural optimizer (`multiple_inputs_optimize_dag` over any visiting order,
with any parameters, forced fusion included): every requested array that had a producer still has one. -/
theorem C02_optimize_keeps_requested (order : List String) (d d' : Opt.DagRec) (ps : Opt.Params) (a : String)
    (hnames : Opt.NamesUnique d) (ha : ps.arrayNames.contains a = true)
    (h : Opt.optimize d order ps = some d')
    (hp : ∃ q ∈ d.ops, q.outputs.contains a = true) :
    ∃ q' ∈ d'.ops, q'.outputs.contains a = true :=
  (Opt.optimize_keeps_requested order d d' ps a hnames ha h hp).1

/-! Non-vacuity: a three-op chain `x → a → b` with `a` fused into `b` satisfies `StepOK`. -/

def opA : Op Nat :=
  { name := "op-a", sources := ["x"], outputs := ["a"],
    spec := { keyfn := fun k => ⟨k.name, [.leaf ⟨"x", k.coords⟩]⟩,
              fn := fun args => match args with | [.leaf v] => v + 1 | _ => 0 },
    proj := fun i v => if i = 0 then some v else none }
def opB : Op Nat :=
  { name := "op-b", sources := ["a"], outputs := ["b"],
    spec := { keyfn := fun k => ⟨k.name, [.leaf ⟨"a", k.coords⟩]⟩,
              fn := fun args => match args with | [.leaf v] => v * 2 | _ => 0 },
    proj := fun i v => if i = 0 then some v else none }

example : StepOK [opA] opB [] (fun o => o.name == "op-a") where
  nodup := by decide
  topo := by simp [Topo, outs, opA, opB]
  reads := by
    intro o ho c k hk
    simp at ho
    rcases ho with rfl | rfl <;> simp [opA, opB, Tree.leavesL, Tree.leaves] at hk ⊢ <;> simp [hk]
  single := by
    intro p hp _
    simp at hp; subst hp
    exact ⟨"a", ⟨rfl, fun v => rfl⟩, fun k => ⟨rfl, rfl⟩⟩
  only := by
    intro o ho m hm
    simp at ho; subst ho
    simp [opA] at hm; subst hm
    decide
  unfused := by
    intro c t ht
    simp [opB] at ht; subst ht; simp [Tree.Unfused]

example : denote (fuseStep [opA] opB [] (fun o => o.name == "op-a") ["x"]) (fun _ => 5) ⟨"b", [0]⟩ = 12 := by
  decide

/-! Non-vacuity of (i)/(j): a record dag describing `[opA] ++ opB :: []`, on which the structural guard accepts. -/

def recA : Opt.OpRec :=
  { name := "op-a", sources := ["x"], inEdges := ["x"], outputs := ["a"], isPrim := true, blockwise := true,
    fusPred := true, fusSucc := true, numTasks := 4, numInputBlocks := [1], projMem := 50, allowedMem := 100,
    targetChunkMem := 10 }
def recB : Opt.OpRec :=
  { recA with name := "op-b", sources := ["a"], inEdges := ["a"], outputs := ["b"] }
def recX : Opt.OpRec :=
  { recA with name := "op-x", sources := [], inEdges := [], outputs := ["x"], isPrim := false }
def recDag : Opt.DagRec := { ops := [recX, recA, recB], virtual := [] }

example : Opt.canFuse recDag recB { arrayNames := ["b"] } = some true := by decide
example : (Opt.poa recDag recB).map (fun ts => ts.map (fun t => (t.1.name, t.2.1, t.2.2)))
    = some [("op-a", "a", true)] := by decide
example : Opt.Describes recA opA ∧ Opt.Describes recB opB := by
  refine ⟨⟨rfl, rfl, ?_⟩, ⟨rfl, rfl, ?_⟩⟩ <;> intro m hm <;> simp [opA, opB] at hm <;> subst hm <;> decide
example : Opt.removedSel (V := Nat) [(recA, "a", true)] opA = true := by decide
example : (Opt.fusePreds recDag "op-b" { arrayNames := ["b"] }).map (fun d => d.ops.map (fun o => (o.name, o.outputs)))
    = some [("op-x", ["x"]), ("op-b", ["b"])] := by decide

example : Opt.NamesUnique recDag := by
  intro r₁ h₁ r₂ h₂ hn
  simp [recDag] at h₁ h₂
  rcases h₁ with rfl | rfl | rfl <;> rcases h₂ with rfl | rfl | rfl <;> first | rfl | (exfalso; revert hn; decide)

end Cubed.C02
