/-
  C18 — Resource specs cannot be mixed silently and memory settings mean what they say.

  Property theorems only (helper lemmas live in Proofs/SpecModel.lean, the model in Model/SpecModel.lean).
  Facts named `GeneratedC18.*` are re-extracted from the source tree on every check; the theorems that mention
  them (`by decide`) stop compiling when the code no longer has the shape the model mirrors.
-/
import CubedModel.Proofs.SpecModel

namespace Cubed.C18

open Cubed Cubed.SpecModel

/-! ## (1) Spec value semantics -/

/-- Two specs that differ in any one resource field are unequal for `Spec.__eq__`. -/
theorem C18_spec_eq_fields (a b : Spec) (f : String) (hf : f ∈ resourceFields) (hne : a.get f ≠ b.get f) :
    specEq a b = false :=
  specEq_false_of_field a b f hf hne

example : specEq ⟨1, 0, 100, 10, 0, 0, 0⟩ ⟨1, 0, 200, 10, 0, 0, 0⟩ = false := by decide
example : "allowed_mem" ∈ resourceFields ∧
    (⟨1, 0, 100, 10, 0, 0, 0⟩ : Spec).get "allowed_mem" ≠ (⟨1, 0, 200, 10, 0, 0, 0⟩ : Spec).get "allowed_mem" := by decide

/-- Equal specs are equal in every field, in particular they carry the same memory budget. -/
theorem C18_spec_eq_budget (a b : Spec) (h : specEq a b = true) :
    a = b ∧ a.allowedMem = b.allowedMem ∧ a.reservedMem = b.reservedMem := by
  have := (specEq_iff a b).1 h
  subst this
  exact ⟨rfl, rfl, rfl⟩

example : specEq ⟨1, 0, 100, 10, 2, 3, 4⟩ ⟨1, 0, 100, 10, 2, 3, 4⟩ = true := by decide

/-- The fields compared by the source's `__eq__` are exactly the resource fields of the model, and every constructor
parameter of `Spec` is one of them or feeds one of them (`executor_name`, `executor_options` ↦ `executor`). -/
theorem C18_spec_fields_covered :
    GeneratedC18.specEqFields = resourceFields ∧
    GeneratedC18.specInitParams.all (fun p => resourceFields.contains p ||
      derivedParams.any (fun d => d.1 == p && resourceFields.contains d.2)) = true ∧
    GeneratedC18.specMemInit =
      [ "self._reserved_mem = convert_to_bytes(reserved_mem or 0)"
      , "self._allowed_mem = self.reserved_mem"
      , "self._allowed_mem = convert_to_bytes(allowed_mem)" ] := by
  decide

/-! ## (2) Every multi-array construction and compute/store/visualize rejects mixed specs -/

/-- `check_array_specs`: two arguments with different specs ⇒ `ValueError`, wherever they stand in the list. -/
theorem C18_check_rejects (arrays : List (Option Spec)) (a b : Spec) (ha : some a ∈ arrays) (hb : some b ∈ arrays)
    (hne : a ≠ b) : checkArraySpecs arrays = .error .specMismatch :=
  check_mismatch arrays a b ha hb hne

example : checkArraySpecs [some ⟨1, 0, 100, 10, 0, 0, 0⟩, none, some ⟨1, 0, 100, 10, 0, 0, 0⟩, some ⟨2, 0, 100, 10, 0, 0, 0⟩]
    = .error .specMismatch := by decide

/-- … and an accepted list has one common spec, which is the one returned. -/
theorem C18_check_accepts_common (arrays : List (Option Spec)) (s : Spec) (h : checkArraySpecs arrays = .ok s) :
    ∀ t, some t ∈ arrays → t = s :=
  check_ok_spec arrays s h

example : checkArraySpecs [some ⟨1, 0, 100, 10, 0, 0, 0⟩, none, some ⟨1, 0, 100, 10, 0, 0, 0⟩] = .ok ⟨1, 0, 100, 10, 0, 0, 0⟩ := by
  decide

/-- An n-ary array function (built on `blockwise` / `general_blockwise`) rejects arguments whose specs differ. -/
theorem C18_nary_rejects (args : List Arr) (projected : Nat) (lazyTarget : Bool) (a b : Arr)
    (ha : a ∈ args) (hb : b ∈ args) (hne : a.spec ≠ b.spec) :
    naryOp args projected lazyTarget = .error .specMismatch :=
  naryOp_rejects args projected lazyTarget a b ha hb hne

/-- `compute` / `store` / `visualize` over several arrays reject arrays whose specs differ. -/
theorem C18_compute_rejects (arrays : List Arr) (optimize : List Op → List Op) (itemsize : Nat) (a b : Arr)
    (ha : a ∈ arrays) (hb : b ∈ arrays) (hne : a.spec ≠ b.spec) :
    computePlan arrays optimize itemsize = .error .specMismatch :=
  computePlan_rejects arrays optimize itemsize a b ha hb hne

def exA : Arr := leaf ⟨1, 0, 100, 10, 0, 0, 0⟩
def exB : Arr := leaf ⟨1, 0, 200, 10, 0, 0, 0⟩
example : exA ∈ [exA, exA, exB] ∧ exB ∈ [exA, exA, exB] ∧ exA.spec ≠ exB.spec := by
  refine ⟨by simp, by simp, by decide⟩

/-- The source has the shape the model of the check mirrors, and the check is called where the model says. -/
theorem C18_check_shape :
    GeneratedC18.checkSpecsShape = "all-equal-first;raise-ValueError;return-first" ∧
    GeneratedC18.checkSites =
      [ ("cubed/core/array.py:compute", "arrays"), ("cubed/core/ops.py:_general_blockwise", "arrays")
      , ("cubed/core/ops.py:blockwise", "arrays"), ("cubed/core/plan.py:arrays_to_dag", "arrays") ] := by
  decide

/-- Site table: every public function or method that can receive two or more arrays passes all of them to one
spec-checked call, or evaluates an index argument eagerly on its own, or is one of the per-argument functions
(`broadcast_arrays`, `meshgrid`, `unify_chunks`, `map_overlap`) named in the model. -/
theorem C18_sites_checked : GeneratedC18.siteTable.all siteOk = true := by
  decide +kernel

/-! ## (3) The budget a plan is admitted and run under is the one of its arrays' spec -/

/-- Every op of an array built from creation functions by n-ary functions carries the memory settings of the
array's spec (induction over the construction). -/
theorem C18_array_ops_carry_spec (a : Arr) (h : Built a) :
    ∀ op ∈ a.ops, op.allowedMem = a.spec.allowedMem ∧ op.reservedMem = a.spec.reservedMem :=
  built_wf h

/-- An accepted `compute`/`store`/`visualize`: all arrays have the plan's spec and every op of the finalized plan —
original, fused, or `create-arrays` — has exactly that spec's `allowed_mem` and `reserved_mem`. -/
theorem C18_plan_budget_is_spec (arrays : List Arr) (optimize : List Op → List Op) (itemsize : Nat) (p : Plan)
    (hb : ∀ a ∈ arrays, Built a)
    (hopt : FusedFrom (arrays.flatMap (·.ops)) (optimize (arrays.flatMap (·.ops))))
    (h : computePlan arrays optimize itemsize = .ok p) :
    (∀ a ∈ arrays, a.spec = p.spec) ∧
      ∀ op ∈ p.ops, op.allowedMem = p.spec.allowedMem ∧ op.reservedMem = p.spec.reservedMem :=
  computePlan_budget arrays optimize itemsize p h (fun a ha => built_wf (hb a ha)) hopt

/-- Admission compares each op's projected memory with the budget of the arrays' spec, not with any other. -/
theorem C18_admission_uses_spec_budget (arrays : List Arr) (optimize : List Op → List Op) (itemsize : Nat) (p : Plan)
    (hb : ∀ a ∈ arrays, Built a)
    (hopt : FusedFrom (arrays.flatMap (·.ops)) (optimize (arrays.flatMap (·.ops))))
    (h : computePlan arrays optimize itemsize = .ok p) (hadm : admitted p = true) :
    ∀ a ∈ arrays, ∀ op ∈ p.ops, op.projectedMem ≤ a.spec.allowedMem := by
  intro a ha op hop
  have hp := C18_plan_budget_is_spec arrays optimize itemsize p hb hopt h
  rw [hp.1 a ha, ← (hp.2 op hop).1]
  exact admitted_le p hadm op hop

/-- non-vacuity: `add(a, a)` then `compute`, identity optimizer. -/
def exSum : Arr := { spec := exA.spec, ops := [⟨100, 10, 50, true⟩] }
example : naryOp [exA, exA] 50 = .ok exSum := by decide
example : Built exSum := Built.nary [exA, exA] 50 true exSum (by intro a ha; simp at ha; subst ha; exact Built.leaf _) (by decide)
example : computePlan [exSum] id 8 = .ok ⟨exA.spec, [⟨100, 10, 18, false⟩, ⟨100, 10, 50, true⟩]⟩ := by decide
example : FusedFrom ([exSum].flatMap (·.ops)) (id ([exSum].flatMap (·.ops))) :=
  fun op' h => ⟨op', h, rfl, rfl, fun hl => ⟨op', h, hl⟩⟩
example : admitted ⟨exA.spec, [⟨100, 10, 18, false⟩, ⟨100, 10, 50, true⟩]⟩ = true := by decide

/-- The code takes each op's memory settings from where the model says: the spec returned by the check; fused ops
from a constituent op; `create-arrays` from the maximum over the ops. -/
theorem C18_mem_sources :
    GeneratedC18.opMemSources.all (fun s => s.2.1 == "spec.allowed_mem" && s.2.2.1 == "spec.reserved_mem"
      && s.2.2.2 == "check_array_specs(arrays)") = true ∧
    GeneratedC18.opMemSources.length = 2 ∧
    GeneratedC18.fusedMemSources =
      [ ("fuse", "primitive_op2.allowed_mem", "primitive_op2.reserved_mem")
      , ("fuse_multiple", "primitive_op.allowed_mem", "primitive_op.reserved_mem") ] ∧
    GeneratedC18.createArraysMem =
      [ "allowed_mem = max(allowed_mem, d['primitive_op'].allowed_mem)"
      , "reserved_mem = max(reserved_mem, d['primitive_op'].reserved_mem)"
      , "create_zarr_arrays(lazy_zarr_arrays, allowed_mem, reserved_mem)"
      , "allowed_mem=allowed_mem;reserved_mem=reserved_mem" ] := by
  decide

/-! ## (4) Memory sizes are interpreted exactly or rejected -/

/-- An accepted size string denotes exactly the returned whole, non-negative number of bytes
(decimal literal × 1000^k for the SI unit, as defined by `denote`, independently of the parser's arithmetic). -/
theorem C18_bytes_exact (s : List Char) (n : Nat) (h : convertStr s = .ok n) :
    denote s = some (n : Rat) ∧ (0 : Rat) ≤ (n : Rat) :=
  ⟨convertStr_exact s n h, Rat.natCast_nonneg⟩

example : convertStr "1.5 MB".toList = .ok 1500000 := by decide +kernel
example : convertStr "9007199254740993".toList = .ok 9007199254740993 := by decide +kernel
example : convertStr "1_000e-3 kB".toList = .ok 1000 := by decide +kernel

/-- Units are decimal SI: the table in the source is kB…PB ↦ 1…5 with base 1000. -/
theorem C18_bytes_units :
    GeneratedC18.unitTable = siTable ∧ GeneratedC18.unitBase = 1000 ∧
    convertStr "1kB".toList = .ok 1000 ∧ convertStr "1MB".toList = .ok (1000 ^ 2) ∧
    convertStr "1GB".toList = .ok (1000 ^ 3) ∧ convertStr "1TB".toList = .ok (1000 ^ 4) ∧
    convertStr "1PB".toList = .ok (1000 ^ 5) ∧ convertStr "1B".toList = .ok 1 := by
  decide +kernel

/-- A string that denotes nothing (unknown unit, malformed number), a non-whole or a negative number of bytes is
rejected (with one of the error kinds format / nonInteger / negative / index / range). -/
theorem C18_bytes_rejects (s : List Char)
    (h : denote s = none ∨ ∃ q, denote s = some q ∧ (q.den ≠ 1 ∨ q < 0)) :
    ∃ e, convertStr s = .error e := by
  cases hc : convertStr s with
  | error e => exact ⟨e, rfl⟩
  | ok n =>
    have hd := convertStr_exact s n hc
    rcases h with h | ⟨q, hq, hbad⟩
    · rw [h] at hd; cases hd
    · rw [hq] at hd
      injection hd with hd
      subst hd
      rcases hbad with hden | hneg
      · exact absurd (Rat.den_natCast n) hden
      · exact absurd hneg (Rat.not_lt.2 Rat.natCast_nonneg)

example : denote "1.0000000000000001kB".toList = some ((10000000000000001 : Rat) / 10000000000000) := by decide +kernel
example : convertStr "1.0000000000000001kB".toList = .error .nonInteger := by decide +kernel
example : denote "-5".toList = some (-5) ∧ convertStr "-5".toList = .error .negative := by decide +kernel
example : denote "1KB".toList = none ∧ convertStr "1KB".toList = .error .format := by decide +kernel
example : denote "inf".toList = none ∧ convertStr "inf".toList = .error .nonInteger := by decide +kernel
example : convertStr "".toList = .error .index := by decide +kernel

/-- Numbers: an accepted `int` is returned unchanged, an accepted `float` (given exactly as a ratio) is returned
as the whole number it equals. -/
theorem C18_number_exact (num : Int) (den n : Nat) :
    (convertInt num = .ok n → (n : Int) = num) ∧
    (convertRatio num den = .ok n → den ≠ 0 ∧ (n : Rat) = (num : Rat) / (den : Rat)) :=
  ⟨convertInt_exact num n, convertRatio_exact num den n⟩

example : convertRatio 3 1 = .ok 3 ∧ convertRatio 3 2 = .error .nonInteger ∧ convertInt (-1) = .error .negative := by decide +kernel

/-- `Spec(allowed_mem=a, reserved_mem=r)` with string settings stores exactly the denoted values. -/
theorem C18_spec_mem_exact (a r : List Char) (am rm : Nat) (hr : r ≠ [])
    (h : Spec.memInit (some a) (some r) = .ok (am, rm)) :
    denote a = some (am : Rat) ∧ denote r = some (rm : Rat) := by
  unfold Spec.memInit at h
  have hre : r.isEmpty = false := by cases r with | nil => exact absurd rfl hr | cons _ _ => rfl
  simp only [hre] at h
  cases hcr : convertStr r with
  | error e => simp [hcr] at h
  | ok rv =>
    cases hca : convertStr a with
    | error e => simp [hcr, hca] at h
    | ok av =>
      simp [hcr, hca] at h
      obtain ⟨h1, h2⟩ := h
      subst h1; subst h2
      exact ⟨convertStr_exact a av hca, convertStr_exact r rv hcr⟩

example : Spec.memInit (some "2GB".toList) (some "100 MB".toList) = .ok (2000000000, 100000000) := by decide +kernel

/-- The new rejection, exactly as coded: a non-zero literal that `Decimal` can represent and whose most significant
digit lies more than `adjustedBound` places from the units digit (`abs(decimal_value.adjusted()) > 1000`) is rejected
with "Exponent is out of range" — before any power of ten is computed. -/
theorem C18_bytes_range_rejected (s value : List Char) (factor : Nat) (l : Lit)
    (hs : splitValueUnit (stripSpaces s) = .ok (value, factor)) (hl : lexNumber value = some (.finite l))
    (hok : decimalOk l = true) (hnz : coeffDigits l ≠ [])
    (hr : (GeneratedC18.adjustedBound : Int) < l.adjusted.natAbs) :
    convertStr s = .error .range := by
  unfold convertStr
  simp only [hs, hl]
  exact litToBytes_range l factor hok hnz hr

/-- … and only such literals are: zero is exempt whatever its exponent. -/
theorem C18_bytes_range_only (s : List Char) (h : convertStr s = .error .range) :
    ∃ value factor l, splitValueUnit (stripSpaces s) = .ok (value, factor) ∧ lexNumber value = some (.finite l) ∧
      coeffDigits l ≠ [] ∧ (GeneratedC18.adjustedBound : Int) < l.adjusted.natAbs := by
  unfold convertStr at h
  split at h
  · next e he =>
    injection h with h; subst h
    unfold splitValueUnit at he
    split at he
    · cases he
    · split at he
      · cases he
      · split at he
        · cases he
        · split at he
          · split at he <;> cases he
          · cases he
  · next value factor hs =>
    split at h
    · next l hl => exact ⟨value, factor, l, hs, hl, litToBytes_range_only l factor h⟩
    · cases h

-- boundary of the range test (stated relative to the extracted bound, so that a different bound breaks only `C18_bytes_steps`)
example : GeneratedC18.adjustedBound = 1000 → convertStr "1e1000".toList = .ok (10 ^ 1000) := by decide +kernel
example : GeneratedC18.adjustedBound = 1000 → convertStr "0.1e1001".toList = .ok (10 ^ 1000) := by decide +kernel
example : GeneratedC18.adjustedBound = 1000 → convertStr "9.99e1000".toList = .ok (999 * 10 ^ 998) := by decide +kernel
example : GeneratedC18.adjustedBound = 1000 → convertStr "1e1001".toList = .error .range := by decide +kernel
example : GeneratedC18.adjustedBound = 1000 → convertStr "10e1000".toList = .error .range := by decide +kernel
example : GeneratedC18.adjustedBound = 1000 → convertStr "0.1e1002".toList = .error .range := by decide +kernel
example : GeneratedC18.adjustedBound = 1000 → convertStr "1e-1000".toList = .error .nonInteger := by decide +kernel
example : GeneratedC18.adjustedBound = 1000 → convertStr "1e-1001".toList = .error .range := by decide +kernel
example : GeneratedC18.adjustedBound = 1000 → convertStr "1e999999999 kB".toList = .error .range := by decide +kernel
example : GeneratedC18.adjustedBound = 1000 → convertStr "0e999999999".toList = .ok 0 := by decide +kernel
example : GeneratedC18.adjustedBound = 1000 → convertStr "1e1000000000000000000".toList = .error .nonInteger := by decide +kernel   -- Decimal: InvalidOperation

/-- The statements of `convert_to_bytes` the model mirrors are all present, in the modelled order (exact rational
arithmetic on a `Decimal`, not float; the exponent range test precedes the conversion), and the bound is 1000. -/
theorem C18_bytes_steps :
    GeneratedC18.bytesSteps =
      [ "strip-spaces", "numeric-test-float", "plain", "suffix-B", "suffix-unit", "decimal-parse", "finite-test"
      , "exact-rational", "whole-test", "to-int", "float-whole", "nonneg", "range-test", "order-ok", "plain-factor:1" ] ∧
    GeneratedC18.adjustedBound = 1000 := by
  decide

end Cubed.C18
