/-
  C17 — Unsupported requests are refused up front; accepted plans do not fail mid-run.

  Three kinds of theorems:

  (A) the assert table: every `assert` / `raise AssertionError` extracted from the source
      (`GeneratedC17.asserts`) has a hand-maintained classification and none is `reachable` except the listed
      finding; the theorems named by `unreachableProved` entries follow in (C).
  (B) per op family: once the modelled `validate` accepted, every block a task addresses exists (and, for the
      region store, has the shape the write expects).  Where the unchanged code falsifies this the full
      statement is kept as a `def … : Prop`, with `…_partial` under an explicit hypothesis and `…_fails` from a
      concrete witness (stack with zero-size inputs, map_blocks, legacy pairwise fusion).  scan, stack, repeat and the
      region store were repaired by `fix:` commits: they are proved for the repaired code, and the old witnesses are kept
      as theorems about the old variants (`…_old…`).
  (C) the assertion conditions that follow from validated inputs.
-/
import CubedModel.Proofs.Validate
import CubedModel.Proofs.Fusion
import CubedModel.Model.GeneratedC17

namespace Cubed.C17

open Cubed Cubed.Validate

/-! ## (A) assert table -/

/-- Every assert found in the source is classified, and none is classified `reachable` any more
(the scan assertion is discharged by `C17_scan_assert_unreachable` since fix 5fff6ae).  A new `assert` in the code (or a changed test expression) breaks this obligation. -/
theorem C17_asserts_classified : ∀ a ∈ GeneratedC17.asserts, recordOk a = true := by decide

/-- The classification table names no record that has disappeared from the source (no stale entries). -/
theorem C17_classification_not_stale : ∀ q ∈ classification, GeneratedC17.asserts.contains q.1 = true := by decide

/-- The facts the hand-written scan / fusion models rely on are what the source says now. -/
theorem C17_model_tied_to_source :
    GeneratedC17.scanSplitEvery = 5 ∧
    GeneratedC17.scanAssert = "increment.shape[axis] == scanned.numblocks[axis]" ∧
    GeneratedC17.scanIncKeyExpr = "bi // split_every" ∧
    GeneratedC17.scanReducedSizes = "(split_size,) * num_full + ((num_rest,) if num_rest else ())" ∧
    GeneratedC17.scanDivmod = "divmod(array.numblocks[axis], split_size)" ∧
    GeneratedC17.scanPassesReducedSizes = true ∧
    GeneratedC17.helperCallSites = 0 ∧
    GeneratedC17.legacyFuseGuard = "primitive_op1.num_tasks == primitive_op2.num_tasks" := by decide

/-! ## (B) accepted ⇒ total -/

/-- generic: any element position inside an axis lies in a block that exists (index, flip, rechunk, merge_chunks,
concat all address blocks through element positions handed to the zarr indexer). -/
theorem C17_position_in_grid (n c p : Nat) (hc : 0 < c) (hp : p < n) : p / c < nblocks n c :=
  pos_block_lt n c p hc hp

example : (13 : Nat) / 4 < nblocks 14 4 := C17_position_in_grid 14 4 13 (by omega) (by omega)

/-- partial_reduce (hence reduction, arg_reduction, tree_reduce): each output block of the grid
`ceil(nb / k)` reads a non-empty group of existing input blocks (`min((bi+1)*k, nb)` keeps keys `< nb`). -/
theorem C17_accepted_total_partial_reduce (nb k bi : Nat) (hk : 1 ≤ k) (hbi : bi < prOutBlocks nb k) :
    prKeys nb k bi ≠ [] ∧ ∀ j ∈ prKeys nb k bi, j < nb :=
  ⟨prKeys_ne_nil nb k bi hk hbi, fun j hj => prKeys_lt nb k bi j hj⟩

example : prKeys 7 4 1 = [4, 5, 6] ∧ (1 : Nat) < prOutBlocks 7 4 := by decide

/-- `_normalize_split_every` for an int never yields a group size below 2. -/
theorem C17_reduction_split_ge_two (root : Nat) : 2 ≤ normSplitInt root := by
  unfold normSplitInt; omega

/-- … and (after fix 6c5075b) a dict `split_every` that `validateReduce` accepts has group sizes of at least 2 for
every reduced axis, so the hypothesis `1 ≤ k` of `C17_accepted_total_partial_reduce` holds for every accepted request. -/
theorem C17_reduction_dict_split_ge_two (ndim : Nat) (axes : Option (List Int)) (vals : List (Nat × Nat))
    (hv : validateReduce ndim axes (.dict vals) = .ok ()) : ∀ q ∈ vals, 2 ≤ q.2 := by
  intro q hq
  unfold validateReduce at hv
  simp only at hv
  split at hv
  · cases hv
  · split at hv
    · rename_i hany
      cases hv
    · rename_i hany
      have : ¬ (vals.any (fun q => decide (q.2 < 2)) = true) := hany
      simp only [List.any_eq_true, decide_eq_true_eq, not_exists, not_and] at this
      have := this q hq
      omega

example : validateReduce 2 (some [0]) (.dict [(0, 3)]) = .ok () := by rfl

/-- OLD variant (before the fix), full statement: an accepted dict `split_every` has usable (≥ 1) group sizes. -/
def C17_reduction_split_total_old : Prop :=
  ∀ (ndim : Nat) (axes : Option (List Int)) (vals : List (Nat × Nat)),
    validateReduceOld ndim axes (.dict vals) = .ok () → ∀ q ∈ vals, 1 ≤ q.2

/-- OLD variant failed: `split_every={0: 0}` was accepted and `math.ceil(len(c) / 0)` raised ZeroDivisionError while
building. -/
theorem C17_reduction_split_total_old_fails : ¬ C17_reduction_split_total_old := by
  intro h
  have := h 2 (some [0]) [(0, 0)] (by rfl) (0, 0) (by simp)
  omega

/-- merge_chunks: out block `bi` of the target grid reads the (non-empty set of) input blocks met by
`[bi*T, min((bi+1)*T, n))`, all of which exist. -/
theorem C17_accepted_total_merge (n c0 T bi : Nat) (hc0 : 0 < c0) (hT : 0 < T) (hn : 0 < n)
    (hbi : bi < nblocks n T) :
    sliceBlocks c0 (bi * T) (min ((bi + 1) * T) n) ≠ [] ∧
    ∀ k ∈ sliceBlocks c0 (bi * T) (min ((bi + 1) * T) n), k < nblocks n c0 := by
  have hs : bi * T < n := block_start_lt n T bi hT hn hbi
  have h1 : (bi + 1) * T = bi * T + T := by rw [Nat.add_mul, Nat.one_mul]
  have hab : bi * T < min ((bi + 1) * T) n := by omega
  exact ⟨sliceBlocks_ne_nil c0 _ _ hab, sliceBlocks_lt n c0 _ _ hc0 hab (Nat.min_le_right _ _)⟩

example : validateMerge ⟨[2], [4]⟩ = .ok () ∧ sliceBlocks 2 4 7 = [2, 3] ∧ nblocks 7 2 = 4 := by decide

/-- repeat (after fix cfb5bf3): whatever `validateRepeat` accepts with `repeats ≠ 0` addresses an existing input block
along the repeated axis — the key function now compares positions with the *normalised* axis `i`.  (`repeats = 0`
returns an empty array and builds no blockwise op, so no task addresses anything.) -/
theorem C17_accepted_total_repeat (p : RepeatP) (r : Int) (i n c bi : Nat) (hrep : p.repeats = .int r)
    (hv : validateRepeat p = .ok ()) (_hax : validateAxis p.axis p.shape.length = .ok i) (hr0 : r ≠ 0) (hc : 0 < c)
    (hbi : bi < nblocks (n * r.toNat) c) :
    ∃ k, repeatKeyAt (i : Int) i r.toNat bi = some k ∧ k < nblocks n c := by
  have hr : 0 ≤ r := by
    simp only [validateRepeat, hrep] at hv
    split at hv
    · cases hv
    · omega
  have hr1 : 1 ≤ r.toNat := by omega
  have hr0' : r.toNat ≠ 0 := by omega
  exact ⟨bi / r.toNat, by simp [repeatKeyAt, repeatKey, hr0'], repeat_key_lt n c r.toNat bi hc hr1 hbi⟩

example : validateRepeat ⟨[4, 1], .int 2, -2⟩ = .ok () ∧ repeatKeyAt 0 0 2 3 = some 1 ∧ (1 : Nat) < nblocks 4 2 := by
  decide

example : validateAxis (-2) 2 = .ok 0 := by rfl

/-- the repaired code refuses negative repeats and an out-of-range axis, and accepts axis = -1. -/
theorem C17_repeat_refusals :
    validateRepeat ⟨[4], .int (-1), 0⟩ = .error .ValueError ∧ validateRepeat ⟨[4], .int 2, 1⟩ = .error .IndexError ∧
    validateRepeat ⟨[4], .int 2, -1⟩ = .ok () ∧ validateRepeat ⟨[4], .other, 0⟩ = .error .ValueError := by decide

/-- OLD variant (before fix cfb5bf3), full statement: whatever the old `repeat` accepted addressed an existing input
block along the repeated axis (`i` = the axis NumPy means; the old key function compared with the raw `axis`). -/
def C17_repeat_total_old : Prop :=
  ∀ (p : RepeatP) (r : Int) (i n c bi : Nat), p.repeats = .int r → validateRepeatOld p = .ok () →
    validateAxis p.axis p.shape.length = .ok i → 0 < c →
    bi < nblocks (n * r.toNat) c → ∃ k, repeatKeyAt p.axis i r.toNat bi = some k ∧ k < nblocks n c

/-- OLD variant held when `repeats ≥ 1` and the axis was given as a non-negative number. -/
theorem C17_repeat_total_old_partial (axis : Int) (i r n c bi : Nat) (hax : (i : Int) = axis) (hr : 1 ≤ r) (hc : 0 < c)
    (hbi : bi < nblocks (n * r) c) : ∃ k, repeatKeyAt axis i r bi = some k ∧ k < nblocks n c := by
  have hr0 : r ≠ 0 := by omega
  exact ⟨bi / r, by simp [repeatKeyAt, hax, repeatKey, hr0], repeat_key_lt n c r bi hc hr hbi⟩

example : repeatKeyAt 0 0 3 5 = some 1 ∧ (5 : Nat) < nblocks (4 * 3) 2 ∧ (1 : Nat) < nblocks 4 2 := by decide

/-- OLD variant failed for `repeats = 0`, which was accepted: the single (empty) output block evaluated `0 // 0`
inside the task (ZeroDivisionError) … -/
theorem C17_repeat_total_old_fails : ¬ C17_repeat_total_old := by
  intro h
  have := h ⟨[4], .int 0, 0⟩ 0 0 4 2 0 rfl (by decide) (by rfl) (by omega) (by decide)
  obtain ⟨k, hk, _⟩ := this
  simp [repeatKeyAt, repeatKey] at hk

/-- … and for a negative axis other than -1 (-1 was refused): the key function compared positions with the
un-normalised axis, never divided, and out block 3 of 4 addressed input block 3 of 2. -/
theorem C17_repeat_negative_axis_old_fails : ¬ C17_repeat_total_old := by
  intro h
  have := h ⟨[4, 1], .int 2, -2⟩ 2 0 4 2 3 rfl (by decide) (by rfl) (by omega) (by decide)
  obtain ⟨k, hk, hlt⟩ := this
  simp [repeatKeyAt] at hk
  subst hk
  revert hlt
  decide

/-- concat: for an out block that starts inside the concatenated axis, `_array_slices` never indexes outside
`offsets` (the bisect stays inside) and every designated block `(array, block)` exists. -/
theorem C17_accepted_total_concat (sizes csizes : List Nat) (C bi : Nat)
    (hcs : ∀ i, 0 < csizes.getD i 1) :
    ∃ keys, concatKeys sizes csizes C bi = some keys ∧
      ∀ q ∈ keys, ∃ h : q.1 < sizes.length, q.2 < nblocks sizes[q.1] (csizes.getD q.1 1) := by
  have hstop : min (bi * C + C) sizes.sum ≤ sizes.sum := Nat.min_le_right _ _
  obtain ⟨sl, hsl, hall⟩ := arraySlices_ok sizes (min (bi * C + C) sizes.sum - bi * C) (bi * C)
    (min (bi * C + C) sizes.sum) hstop (Nat.le_refl _)
  simp only [concatKeys, hsl]
  refine ⟨_, rfl, ?_⟩
  intro q hq
  simp only [List.mem_flatMap, List.mem_map] at hq
  obtain ⟨t, ht, k, hk, hqe⟩ := hq
  obtain ⟨hlt, hab, hbn⟩ := hall t ht
  subst hqe
  exact ⟨hlt, sliceBlocks_lt _ _ _ _ (hcs t.1) hab hbn k hk⟩

example : concatKeys [4, 3] [2, 2] 2 2 = some [(1, 0)] ∧ concatKeys [3, 4] [2, 2] 2 1 = some [(0, 1), (1, 0)] := by
  decide

/-- stack, generic lemma: when every input has the block grid of the first, every designated block exists. -/
theorem C17_stack_same_grid_total (a0 : Arr) (rest : List Arr) (ax : Nat) (hax : ax ≤ a0.ndim)
    (hsame : ∀ a ∈ a0 :: rest, (List.range a.ndim).map a.nb = (List.range a0.ndim).map a0.nb)
    (out : List Nat) (hout : inGrid (stackGrid (a0 :: rest) ax) out = true) :
    stackKeyOk (a0 :: rest) ax out = true := by
  have hlen : ((List.range a0.ndim).map a0.nb).length = a0.ndim := by simp
  have htl : (((List.range a0.ndim).map a0.nb).take ax).length = ax := by
    rw [List.length_take]; omega
  simp only [stackGrid, List.append_assoc, List.singleton_append] at hout
  obtain ⟨i, hi1, hi2, hi3⟩ := inGrid_insert _ _ _ out hout
  rw [htl] at hi1 hi3
  rw [List.take_append_drop] at hi3
  simp only [stackKeyOk, stackKey, hi1]
  have hil : i < (a0 :: rest).length := hi2
  have hget : (a0 :: rest)[i]? = some (a0 :: rest)[i] := by simp
  simp only [hget]
  rw [hsame _ (List.getElem_mem hil)]
  exact hi3

/-- stack (after fix f3856f5), full statement: whatever `validateStack` accepts addresses existing blocks of the
inputs as they are after the unification step (`stackUnify`). -/
def C17_stack_total : Prop :=
  ∀ (arrs : List Arr) (axis : Int) (ax : Nat), validateStack arrs axis = .ok () →
    (∃ a0 rest, arrs = a0 :: rest ∧ validateAxis axis (a0.ndim + 1) = .ok ax ∧ ax ≤ a0.ndim) →
    ∀ out, inGrid (stackGrid arrs ax) out = true → stackKeyOk (stackUnify arrs) ax out = true

/-- … holds when no zero-size input is chunked differently from the first (every other input is rechunked). -/
theorem C17_stack_total_partial (a0 : Arr) (rest : List Arr) (axis : Int) (ax : Nat) (hax : ax ≤ a0.ndim)
    (hv : validateStack (a0 :: rest) axis = .ok ())
    (hz : ∀ x ∈ rest, x.size = 0 → x.chunksize = a0.chunksize)
    (out : List Nat) (hout : inGrid (stackGrid (a0 :: rest) ax) out = true) :
    stackKeyOk (stackUnify (a0 :: rest)) ax out = true := by
  -- all shapes equal the first's
  have hshape : ∀ x ∈ rest, x.shape = a0.shape := by
    intro x hx
    simp only [validateStack] at hv
    split at hv
    · cases hv
    · rename_i hany
      have : ¬ ((a0 :: rest).any (fun y => y.shape != a0.shape) = true) := hany
      simp only [List.any_eq_true, not_exists, not_and] at this
      have h := this x (List.mem_cons_of_mem _ hx)
      simpa using h
  have hunif : ∀ x ∈ rest, (if x.size = 0 then x else { x with chunksize := a0.chunksize }) = a0 := by
    intro x hx
    have hs := hshape x hx
    by_cases h0 : x.size = 0
    · have hc := hz x hx h0
      simp only [h0, if_true]
      cases x; cases a0; simp_all
    · simp only [h0, if_false]
      cases x; cases a0; simp_all
  have hsame : ∀ a ∈ a0 :: rest.map (fun x => if x.size = 0 then x else { x with chunksize := a0.chunksize }),
      (List.range a.ndim).map a.nb = (List.range a0.ndim).map a0.nb := by
    intro a ha
    rcases List.mem_cons.mp ha with h | h
    · rw [h]
    · obtain ⟨x, hx, hxe⟩ := List.mem_map.mp h
      rw [← hxe, hunif x hx]
  have hgrid : stackGrid (a0 :: rest.map (fun x => if x.size = 0 then x else { x with chunksize := a0.chunksize })) ax
      = stackGrid (a0 :: rest) ax := by simp [stackGrid]
  exact C17_stack_same_grid_total a0 _ ax hax hsame out (by rw [hgrid]; exact hout)

example : validateStack [⟨[2], [1]⟩, ⟨[2], [2]⟩] 0 = .ok () ∧
    stackKeyOk (stackUnify [⟨[2], [1]⟩, ⟨[2], [2]⟩]) 0 [1, 1] = true := by decide

/-- … and still fails for zero-size inputs, which `rechunk` leaves as they are: two (4, 0) arrays in (3, 1) and
(4, 1) chunks — out block (1, 1, 0) addresses block (1, 0) of the second input, which has a single block. -/
theorem C17_stack_total_fails : ¬ C17_stack_total := by
  intro h
  have := h [⟨[4, 0], [3, 1]⟩, ⟨[4, 0], [4, 1]⟩] 0 0 (by decide) ⟨_, _, rfl, by rfl, by decide⟩ [1, 1, 0] (by decide)
  revert this
  decide

/-- OLD variant (before fix f3856f5), full statement: whatever the old `stack` accepted addressed existing blocks. -/
def C17_stack_total_old : Prop :=
  ∀ (arrs : List Arr) (axis : Int) (ax : Nat), validateStackOld arrs axis = .ok () →
    (∃ a0 rest, arrs = a0 :: rest ∧ validateAxis axis (a0.ndim + 1) = .ok ax) →
    ∀ out, inGrid (stackGrid arrs ax) out = true → stackKeyOk arrs ax out = true

/-- OLD variant failed: the other inputs' chunking was not looked at.  Witness: two arrays of shape (2,), the first
in two blocks, the second in one; out block (1, 1) addressed block 1 of the second. -/
theorem C17_stack_total_old_fails : ¬ C17_stack_total_old := by
  intro h
  have := h [⟨[2], [1]⟩, ⟨[2], [2]⟩] 0 0 (by decide) ⟨_, _, rfl, by rfl⟩ [1, 1] (by decide)
  revert this
  decide

/-- region store (the code after the `fix:` commits d416aac / ba97b91): whatever `validateRegion` accepts — unit
steps, bounds normalised by `slice.indices`, start aligned, region of the source's length — makes every task read an
existing block of the source (rechunked to the target chunk size) of exactly the shape the write expects. -/
theorem C17_accepted_total_region (p : RegionP) (hc : 0 < p.tgtChunk)
    (hreg : (p.start.isNone && p.stop.isNone && p.step.isNone) = false)
    (hv : validateRegion p = .ok ()) (hL : 0 < p.srcLen) (bi : Nat)
    (hlo : p.nlo / p.tgtChunk ≤ bi) (hhi : bi ≤ (p.nhi - 1) / p.tgtChunk) :
    regionTaskOk p bi = true := by
  simp only [validateRegion, hreg, Bool.false_eq_true, if_false] at hv
  split at hv
  · cases hv
  · split at hv
    · cases hv
    · rename_i hal
      split at hv
      · cases hv
      · rename_i hlen
        have hmod : p.nlo % p.tgtChunk = 0 := by
          by_cases hm : p.nlo % p.tgtChunk = 0
          · exact hm
          · exfalso; apply hal; simp [hm]
        have hL' : p.srcLen = p.nhi - p.nlo := by
          by_cases h : p.srcLen = p.nhi - p.nlo
          · exact h
          · exact absurd h (by simpa using hlen)
        exact region_task_ok p hc hmod hL' hL bi hlo hhi

example : validateRegion ⟨4, 2, 12, 4, some 4, some 8, none⟩ = .ok () ∧
    regionOutBlocksN ⟨4, 2, 12, 4, some 4, some 8, none⟩ = [1] ∧
    regionTaskOk ⟨4, 2, 12, 4, some 4, some 8, none⟩ 1 = true := by decide

/-- the repaired whole-array branch refuses a source of another shape, the region branch a stepped region. -/
theorem C17_store_refusals :
    validateRegion ⟨17, 2, 16, 2, none, none, none⟩ = .error .ValueError ∧
    validateRegion ⟨4, 4, 12, 4, some 4, some 12, some 2⟩ = .error .ValueError ∧
    validateRegion ⟨4, 4, 12, 4, some 3, some 7, none⟩ = .error .ValueError := by decide

/-- OLD variant (before the fixes), full statement: an accepted region write reads, for every target block it
visits, an existing source block of exactly the shape the write expects. -/
def C17_region_total_old : Prop :=
  ∀ p : RegionP, 0 < p.tgtChunk → 0 < p.srcChunk → validateRegionOld p = .ok () →
    ∀ bi ∈ regionOutBlocks p, regionTaskOkOld p bi = true

/-- OLD variant: addressing held for a unit-step region when source and target had the same chunk size. -/
theorem C17_region_total_old_partial (p : RegionP) (s : Nat) (hs : p.start = some s) (hst : s ≤ p.tgtLen)
    (hc : 0 < p.tgtChunk) (hchunk : p.srcChunk = p.tgtChunk) (hstep : p.stp = 1)
    (hv : validateRegionOld p = .ok ()) (hL : 0 < p.srcLen) (bi : Nat)
    (hlo : p.lo / p.tgtChunk ≤ bi) (hhi : bi ≤ (p.hi - 1) / p.tgtChunk) :
    0 ≤ regionKey p bi ∧ (regionKey p bi).toNat < nblocks p.srcLen p.srcChunk := by
  have hne : (p.start.isNone && p.stop.isNone && p.step.isNone) = false := by simp [hs]
  simp only [validateRegionOld, hne, Bool.false_eq_true, if_false] at hv
  split at hv
  · cases hv
  · rename_i hal
    split at hv
    · cases hv
    · rename_i hlen
      have hlo' : p.lo = s := by simp [RegionP.lo, hs]; omega
      have hsel : p.selLen = p.hi - p.lo := by simp [RegionP.selLen, hstep]
      have hmod : s % p.tgtChunk = 0 := by
        by_cases hm : s % p.tgtChunk = 0
        · exact hm
        · exfalso; apply hal; simp [regionAlignedOld, hs, hm]
      have hL' : p.srcLen = p.hi - s := by
        have : p.srcLen = p.selLen := by
          by_cases h : p.srcLen = p.selLen
          · exact h
          · exact absurd h (by simpa using hlen)
        omega
      have hkey : regionKey p bi = ((bi - s / p.tgtChunk : Nat) : Int) := by
        simp only [regionKey, hs, Option.getD_some]
        rw [hlo'] at hlo
        omega
      rw [hkey, hchunk]
      refine ⟨Int.natCast_nonneg _, ?_⟩
      rw [Int.toNat_natCast]
      rw [hlo'] at hlo
      apply region_key_lt p.srcLen p.tgtChunk s bi hc hmod hL hlo
      have : s + p.srcLen - 1 = p.hi - 1 := by omega
      rw [this]; exact hhi

example : validateRegionOld ⟨4, 4, 12, 4, some 4, some 8, none⟩ = .ok () ∧
    regionOutBlocks ⟨4, 4, 12, 4, some 4, some 8, none⟩ = [1] ∧
    regionTaskOkOld ⟨4, 4, 12, 4, some 4, some 8, none⟩ 1 = true := by decide

/-- OLD variant failed in general: a source in chunks of 2 written to the aligned region `[4, 8)` of a target in
chunks of 4 was accepted, and the task for target block 1 read a 2-element block where 4 elements were expected. -/
theorem C17_region_total_old_fails : ¬ C17_region_total_old := by
  intro h
  have := h ⟨4, 2, 12, 4, some 4, some 8, none⟩ (by decide) (by decide) (by decide) 1 (by decide)
  revert this
  decide

/-- OLD variant: a larger source chunk, or a stepped region, made the task address a source block that did not
exist; a whole-array store of another shape was accepted. -/
theorem C17_region_addressing_old_fails :
    validateRegionOld ⟨8, 8, 12, 4, some 4, some 12, none⟩ = .ok () ∧
    regionTaskOkOld ⟨8, 8, 12, 4, some 4, some 12, none⟩ 2 = false ∧
    validateRegionOld ⟨4, 4, 12, 4, some 4, some 12, some 2⟩ = .ok () ∧
    regionTaskOkOld ⟨4, 4, 12, 4, some 4, some 12, some 2⟩ 2 = false ∧
    validateRegionOld ⟨17, 2, 16, 2, none, none, none⟩ = .ok () := by decide

/-- scan (after fix 5fff6ae): building a cumulative op never trips the assertion, whatever the number of blocks. -/
theorem C17_accepted_total_scan (fuel len nb : Nat) (h1 : 1 ≤ nb) (hf : nb ≤ fuel + 1) :
    scanBuild GeneratedC17.scanSplitEvery fuel len nb = some len :=
  scanBuild_total fuel len nb h1 hf

example : scanBuild 5 6 6 6 = some 6 ∧ scanBuild 5 30 30 30 = some 30 := by decide

/-- the asserted condition `increment.shape[axis] == scanned.numblocks[axis]`: scan keeps the axis length
(`scanBuild_some`), and the declared sizes of `reduced` add up to the number of blocks, for every split size. -/
theorem C17_scan_assert_unreachable (ss nb : Nat) : (reducedSizes ss nb).sum = nb :=
  reducedSizes_sum ss nb

example : reducedSizes 5 13 = [5, 5, 3] := by decide

/-- the increment block `bi // split_every` exists and the slot `bi % split_every` lies inside its declared size. -/
theorem C17_scan_lookup_in_range (nb bi : Nat) (hbi : bi < nb) :
    ∃ sz, (reducedSizes (min GeneratedC17.scanSplitEvery nb) nb)[scanIncKey GeneratedC17.scanSplitEvery bi]? = some sz ∧
      scanIncSlot GeneratedC17.scanSplitEvery bi < sz :=
  scan_lookup nb bi hbi

example : scanIncKey 5 12 = 2 ∧ scanIncSlot 5 12 = 2 ∧ (reducedSizes 5 13)[2]? = some 3 := by decide

/-- OLD variant (before fix 5fff6ae), full statement: building a cumulative op never trips the bare assertion. -/
def C17_scan_total_old : Prop :=
  ∀ nb len fuel : Nat, 1 ≤ nb → nb ≤ fuel → scanBuildOld GeneratedC17.scanSplitEvery fuel len nb ≠ none

/-- OLD variant held for up to `split_every` blocks along the axis … -/
theorem C17_scan_total_old_partial_small (fuel len nb : Nat) (h1 : 1 ≤ nb) (hle : nb ≤ GeneratedC17.scanSplitEvery) :
    scanBuildOld GeneratedC17.scanSplitEvery (fuel + 1) len nb = some len :=
  scanBuildOld_small _ fuel len nb h1 hle

/-- … and for an exact multiple exactly when the recursive call on the reduced array was accepted. -/
theorem C17_scan_total_old_partial_multiple (fuel len q : Nat) (hq : 1 ≤ q) :
    scanBuildOld GeneratedC17.scanSplitEvery (fuel + 1) len (GeneratedC17.scanSplitEvery * q)
      = (scanBuildOld GeneratedC17.scanSplitEvery fuel (GeneratedC17.scanSplitEvery * q) q).map (fun _ => len) :=
  scanBuildOld_multiple _ fuel len q (by decide) hq

example : scanBuildOld 5 25 25 25 = some 25 ∧ scanBuildOld 5 10 10 10 = some 10 := by decide

/-- OLD variant: the assertion failed whenever the axis had more than `split_every` blocks and not a multiple of it
(6, 7, 8, 9, 11, … blocks) … -/
theorem C17_scan_assert_old_fails_general (fuel len nb : Nat) (hgt : GeneratedC17.scanSplitEvery < nb)
    (hmod : nb % GeneratedC17.scanSplitEvery ≠ 0) :
    scanBuildOld GeneratedC17.scanSplitEvery fuel len nb = none :=
  scanBuildOld_fails _ fuel len nb (by decide) hgt hmod

/-- … and also for multiples whose quotient failed in turn (30 = 5·6). -/
theorem C17_scan_assert_old_fails_nested : scanBuildOld GeneratedC17.scanSplitEvery 30 30 30 = none := by decide

theorem C17_scan_total_old_fails : ¬ C17_scan_total_old := by
  intro h
  exact h 6 6 6 (by omega) (by omega) (by decide)

/-- map_blocks, full statement: a build that raised nothing has a well-formed key function. -/
def C17_mapblocks_total : Prop := ∀ p : MapBlocksP, validateMapBlocks p ≠ .malformed

/-- … the key function is malformed only for one of three reasons: no arguments, an index that cannot be
resolved at this out key, or a contracted index that appears in a later argument but not in the first. -/
theorem C17_mapblocks_total_partial (e : Bw.Expr) (out : CK) (h : Bw.keyFn e out = .malformed) :
    e.args = [] ∨ (∃ dims, ∃ a ∈ e.args, Bw.argEntries e dims out.coords a = none) ∨
    (∃ a0 rest, e.args = a0 :: rest ∧ Bw.hasDummy e a0 = false ∧ ∃ a ∈ e.args, Bw.hasDummy e a = true) := by
  simp only [Bw.keyFn] at h
  split at h
  · cases h
  · rename_i table _
    split at h
    · cases h
    · split at h
      · rename_i hnone
        right; left
        have hm := allSome_none _ hnone
        simp only [List.mem_map] at hm
        obtain ⟨a, ha, hae⟩ := hm
        refine ⟨fun i => ((table.find? (fun p => p.1 == i)).map (·.2)).getD 1, a, ha, ?_⟩
        simpa using hae
      · rename_i argEs hsome
        have hfst := allSome_fst e.args _ argEs hsome
        cases argEs with
        | nil => left; simpa using hfst.symm
        | cons q tl =>
          obtain ⟨a0, es0⟩ := q
          simp only at h
          right; right
          cases hargs : e.args with
          | nil => rw [hargs] at hfst; simp at hfst
          | cons b0 brest =>
            rw [hargs] at hfst
            simp only [List.map_cons, List.cons.injEq] at hfst
            split at h
            · cases h
            · rename_i hnd
              split at h
              · rename_i hany
                refine ⟨b0, brest, rfl, ?_, ?_⟩
                · rw [← hfst.1]; simpa using hnd
                · simp only [List.any_eq_true] at hany
                  obtain ⟨q, hq, hqd⟩ := hany
                  obtain ⟨qa, qe⟩ := q
                  refine ⟨qa, ?_, by simpa using hqd⟩
                  have hm : qa ∈ ((a0, es0) :: tl).map (·.1) := List.mem_map_of_mem (f := (·.1)) hq
                  rw [List.map_cons, hfst.1, hfst.2] at hm
                  rw [← hargs] at hm ⊢
                  simpa using hm
              · cases h

example : Bw.keyFn { outInd := [0], args := [⟨"a0", [0], [2]⟩, ⟨"a1", [1, 0], [1, 2]⟩] } ⟨"out", [0]⟩ = .malformed := by
  rfl

/-- … and fails: `map_blocks(f, a1d, b2d, drop_axis=0)` with `a1d` in two blocks and `b2d` in (1, 2) blocks passes
every check, and the flattened key function then yields garbage keys (KeyError inside the task). -/
theorem C17_mapblocks_total_fails : ¬ C17_mapblocks_total := by
  intro h
  exact h ⟨[[2], [1, 2]], [0], none, none⟩ (by decide)

example : validateMapBlocks ⟨[[1, 2], [2]], [0], none, none⟩ = .ok := by decide

/-- legacy pairwise fusion (`simple_optimize_dag`), full statement: whenever the guard `can_fuse_primitive_ops`
admits a pair, the fused key function is defined at every out key. -/
def C17_legacy_fuse_total : Prop :=
  ∀ (k1 k2 : CK → FArgs CK) (t1 t2 : Nat) (out : CK), canFusePair true true t1 t2 = true →
    (fusePairKey k1 k2 out).isSome = true

/-- … holds when the successor reads exactly one block per task … -/
theorem C17_legacy_fuse_total_partial (k1 k2 : CK → FArgs CK) (out k : CK) (rest : List (Tree CK))
    (h : (k2 out).args = .leaf k :: rest) : fusePairKey k1 k2 out = some (k1 k) := by
  simp [fusePairKey, h]

example : fusePairKey (fun k => ⟨k.name, [.leaf ⟨"x", k.coords⟩]⟩) (fun k => ⟨k.name, [.leaf ⟨"a", k.coords⟩]⟩) ⟨"out", [2]⟩
    = some ⟨"a", [.leaf ⟨"x", [2]⟩]⟩ := by rfl

/-- … and fails when the successor reads a stream (a one-task reduction over a one-block array has the same
`num_tasks` as its elementwise predecessor): `.args[0]` is an iterator, and `pipeline1`'s key function fails on
it inside the task (`AttributeError: 'list_iterator' object has no attribute 'coords'`). -/
theorem C17_legacy_fuse_total_fails : ¬ C17_legacy_fuse_total := by
  intro h
  have := h (fun k => ⟨k.name, [.leaf ⟨"x", k.coords⟩]⟩)
    (fun k => ⟨k.name, [.iter ((prKeys 1 4 0).map (fun j => .leaf ⟨"a", [j]⟩))]⟩) 1 1 ⟨"out", [0]⟩ (by decide)
  revert this
  decide

/-! ## (C) asserted conditions that follow from validated inputs -/

/-- `_partial_reduce` / `_assemble_index_chunk` (`assert not isinstance(arrays, list)`): a stream argument is
still a stream after fusion with any predecessors — both the fused key (`apply_blockwise_key_func`) and the value
handed to the function (`apply_blockwise_func`) keep the iterator kind. -/
theorem C17_stream_arg_stays_stream {V : Type} (preds : Preds V) (read : CK → V) (ts : List (Tree CK)) :
    ∃ vs, applyFunc preds (Tree.map read (fuseKeyArg preds (.iter ts))) = .iter vs := by
  refine ⟨applyFuncL preds (Tree.mapL read (ts.map (relabel preds))), ?_⟩
  simp [fuseKeyArg, Tree.map, applyFunc]

/-- `fuse` (`assert primitive_op1.num_tasks == primitive_op2.num_tasks`): `simple_optimize_dag` only calls `fuse`
after `can_fuse_primitive_ops` returned True. -/
theorem C17_fuse_assert_unreachable (c1 c2 : Bool) (t1 t2 : Nat) (h : canFusePair c1 c2 t1 t2 = true) : t1 = t2 := by
  simp [canFusePair] at h
  exact h.2

example : canFusePair true true 3 3 = true := by decide

/-- planner loops (`assert prev_plan is not None`): `prev_io_ops` and `prev_plan` are assigned together. -/
theorem C17_prev_plan_set (steps : List (Nat × Nat)) :
    (PlanLoop.run PlanLoop.init steps).prevIo.isSome = (PlanLoop.run PlanLoop.init steps).prevPlan.isSome := by
  have key : ∀ (l : PlanLoop) (st : List (Nat × Nat)), l.prevIo.isSome = l.prevPlan.isSome →
      (l.run st).prevIo.isSome = (l.run st).prevPlan.isSome := by
    intro l st
    induction st generalizing l with
    | nil => intro h; exact h
    | cons x rest ih => intro _; exact ih _ rfl
  exact key _ _ rfl

/-- `expand_tuple` (`assert sum(chunks) == sum(out)`): each chunk is split into pieces that add up to it. -/
theorem C17_expand_tuple_sum (cond : Nat → Bool) (part fuel x : Nat) (hcond : ∀ y, cond y = true → part ≤ y) :
    (expandOne cond part fuel x).sum = x :=
  expandOne_sum cond part fuel x hcond

example : expandOne (fun y => decide (y ≥ 2 * 2)) 2 7 7 = [2, 2, 3] := by decide

/-- `contract_tuple` (`assert sum(chunks) % factor == 0`): `reshape_rechunk` calls it with
`factor = prod(outshape[oleft+1 : oi+1])` after checking `prod(outshape[oleft : oi+1]) == din`. -/
theorem C17_contract_tuple_divides (dleft cs din : Nat) (h : dleft * cs = din) : din % cs = 0 :=
  contract_divides dleft cs din h

example : (12 : Nat) % 4 = 0 := C17_contract_tuple_divides 3 4 12 rfl

/-- `consolidate_chunks` (`assert len(chunk_limits) == ndim`): the limits are `shape` itself or are built by a
`zip` over two tuples already checked to have length `ndim`. -/
theorem C17_chunk_limits_length {α β γ : Type} (f : α × β → γ) (src : List α) (wr : List β) (ndim : Nat)
    (h1 : src.length = ndim) (h2 : wr.length = ndim) : ((src.zip wr).map f).length = ndim :=
  zip_map_length f src wr ndim h1 h2

/-- `consolidate_chunks` (`assert headroom >= 1`, read exactly: new chunk memory ≤ max_mem): enlarging one axis by
`int(headroom)` (capped by the upper bound) never exceeds `max_mem`. -/
theorem C17_headroom_ge_one (maxMem rest c ub : Nat) : consolidateStep maxMem rest c ub ≤ maxMem :=
  consolidateStep_le maxMem rest c ub

example : consolidateStep 100 8 3 10 = 80 := by decide

end Cubed.C17
