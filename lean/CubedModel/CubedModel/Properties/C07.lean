/-
  C07 — Executors never let a task read data its producers have not finished writing.

  Property theorems only (model: Model/Sched.lean, lemmas: Proofs/Sched.lean).  Every theorem is about
  *all* DAGs, schedules handed out by networkx (hypotheses `Topo` / `Gens`, validated by the harness on
  every real DAG), scheduling policies `allow` (batch size, worker count, pool order) and runs.
-/
import CubedModel.Proofs.Sched
import CubedModel.Model.GeneratedC07

namespace Cubed.C07

open Cubed.Sched

/-- (a) The order `visit_nodes` hands to the sequential executors (single-threaded, and threads /
processes with `compute_arrays_in_parallel` off) puts every non-skipped ancestor of an op before it. -/
theorem C07_sequential_schedule_ok (d : Dag) (order : List Nat) (h : Topo d order) :
    SchedOK d (seqSchedule d order) :=
  schedOK_of_topo h

/-- (a') … and so do the generations `visit_node_generations` hands to `async_map_dag` in parallel mode. -/
theorem C07_generation_schedule_ok (d : Dag) (gens : List (List Nat)) (h : Gens d gens) :
    SchedOK d (genSchedule d gens) :=
  schedOK_of_gens h

/-- (b) **Safety of every reachable state**: whenever a task of `o` is running, every non-skipped
ancestor of `o` — in particular every op producing one of its input arrays, at any distance through
array nodes — is closed (all its tasks have finished and been yielded).  Skipped ancestors are the ones
without a pipeline or marked computed.  For every DAG, every policy `allow`, every trace. -/
theorem C07_safe_reachable (d : Dag) (allow : St → Nat → Nat → Bool) (sched : List (List Nat))
    (hok : SchedOK d sched) :
    ∀ (ls : List Label) (s : St), Run d allow (init sched) ls s → Safe d s :=
  fun _ _ hr => safe_run hok hr

/-- (b') the same, composed with (a'), for the generations of a real plan; sequential mode is the
instance `gens = order.map fun o => [o]` (`seqSchedule_eq`, `topo_gens`). -/
theorem C07_safe_generations (d : Dag) (allow : St → Nat → Nat → Bool) (gens : List (List Nat))
    (h : Gens d gens) (ls : List Label) (s : St)
    (hr : Run d allow (init (genSchedule d gens)) ls s) : Safe d s :=
  safe_run (schedOK_of_gens h) hr

theorem C07_safe_sequential (d : Dag) (allow : St → Nat → Nat → Bool) (order : List Nat)
    (h : Topo d order) (ls : List Label) (s : St)
    (hr : Run d allow (init (seqSchedule d order)) ls s) : Safe d s :=
  safe_run (schedOK_of_topo h) hr

/-- (c) At the moment a task reads a chunk of array `a`, every non-skipped op that writes `a` is closed:
the chunk has its final value (no fall-back to fill values). -/
theorem C07_read_after_producers_closed (d : Dag) (allow : St → Nat → Nat → Bool)
    (sched : List (List Nat)) (hok : SchedOK d sched) (l1 : List Label) (s1 s1' : St) (o t a : Nat)
    (h1 : Run d allow (init sched) l1 s1) (hs : Step d allow s1 (.read o t a) s1') :
    ∀ p, (p, a) ∈ d.edges → d.skip p = false → p ∈ s1.closed.flatten :=
  read_safe hok h1 hs

/-- (d) Per array, all writes precede all reads: after a read of `a` no task writes `a` any more. -/
theorem C07_writes_precede_reads (d : Dag) (allow : St → Nat → Nat → Bool) (sched : List (List Nat))
    (hok : SchedOK d sched) (hnd : sched.flatten.Nodup)
    (hns : ∀ g ∈ sched, ∀ o ∈ g, d.skip o = false)
    (l1 l2 : List Label) (s1 s1' s2 s2' : St) (o t o' t' a : Nat)
    (h1 : Run d allow (init sched) l1 s1) (hread : Step d allow s1 (.read o t a) s1')
    (h2 : Run d allow s1' l2 s2) : ¬ Step d allow s2 (.write o' t' a) s2' :=
  no_write_after_read hok hnd hns h1 hread h2

/-- (e) **Array creation runs first**: with the edges `_create_lazy_zarr_arrays` adds, `create-arrays`
is the only op of the first generation, it is closed whenever a task of any other op runs, and nothing
is created afterwards. -/
theorem C07_create_first (d : Dag) (allow : St → Nat → Nat → Bool) (sched : List (List Nat)) (c : Nat)
    (hok : SchedOK d sched) (hnd : sched.flatten.Nodup) (hcf : CreateFirst d c)
    (hc : d.skip c = false) (hns : ∀ g ∈ sched, ∀ o ∈ g, d.skip o = false) :
    (∀ g rest, sched = g :: rest → ∀ o ∈ g, o = c) ∧
    (∀ ls s o t, Run d allow (init sched) ls s → (o, t) ∈ s.running → o ≠ c → c ∈ s.closed.flatten) ∧
    (∀ l1 l2 s1 s2 s2' o t t' a, Run d allow (init sched) l1 s1 → (o, t) ∈ s1.running → o ≠ c →
        Run d allow s1 l2 s2 → ¬ Step d allow s2 (.create t' a) s2') :=
  ⟨fun _ _ hs => create_opens_first hok hcf hc hns hs,
   fun _ _ _ _ hr hrun hoc => create_closed hok hcf hc hns hr hrun hoc,
   fun _ _ _ _ _ _ _ _ _ h1 hrun hoc h2 => no_create_after_task hok hnd hcf hc hns h1 hrun hoc h2⟩

/-- (f) the schedules of (a') only contain non-skipped ops (discharges `hns`). -/
theorem C07_schedule_not_skipped (d : Dag) (gens : List (List Nat)) :
    ∀ g ∈ genSchedule d gens, ∀ o ∈ g, d.skip o = false :=
  fun _ hg _ ho => genSchedule_not_skipped hg ho

/-- (g) **Trace inclusion**: an observed sequence of callback events and store accesses that the
executable test accepts is the observation sequence of a complete run of the transition system — so
(b)–(e) apply to it. -/
theorem C07_trace_inclusion (d : Dag) (sched : List (List Nat)) (obs : List Obs)
    (h : acceptsObs d sched obs = true) :
    ∃ ls s, Run d anyPolicy (init sched) ls s ∧ s.complete ∧ observations ls = obs :=
  acceptsObs_sound h

/-- (h) the executable checks the driver runs on every real DAG establish the hypotheses. -/
theorem C07_checks_sound (d : Dag) (gens : List (List Nat)) (c : Nat) (nodes : List Nat) :
    (checkGens d gens = true → Gens d gens) ∧
    (checkCreateFirst d c nodes = true → (∀ n, d.pipeline n = true → n ∈ nodes) → CreateFirst d c) :=
  ⟨checkGens_sound, checkCreateFirst_sound⟩

/-- (j) **Backups** (`use_backups`): submitting a backup copy of a pending input, or the failure of one
twin while the other is still running, leaves the input pending — so the streams of the generation cannot
be closed (no operation end, no later operation start) until some copy of it has succeeded.  (b)–(e) hold
for runs containing such steps: they are steps of the same transition system. -/
theorem C07_failed_copy_keeps_input_pending (d : Dag) (allow : St → Nat → Nat → Bool) (s s' : St) (o t : Nat)
    (h : Step d allow s (.copyFail o t) s' ∨ Step d allow s (.backup o t) s') :
    s' = s ∧ (o, t) ∈ s'.running ∧ ∀ g s'', ¬ Step d allow s' (.closeGen g) s'' := by
  have key : s' = s ∧ (o, t) ∈ s'.running := by
    rcases h with h | h
    · cases h with | copyFail hr => exact ⟨rfl, hr⟩
    · cases h with | backup hr => exact ⟨rfl, hr⟩
  refine ⟨key.1, key.2, ?_⟩
  intro g s'' hc
  cases hc with
  | closeGen _ hrun _ => rw [hrun] at key; exact absurd key.2 (by simp)

/-- (i) **Tie to the source** (facts regenerated from the tree under test by `harness/extract_c07.py` on every
run): the traversals iterate networkx's topological order / generations filtered by `skip_node`; the
executors iterate those traversals; operation-start is sent before and operation-end after the stream of
an op (generation) is drained; `_create_lazy_zarr_arrays` adds `create-arrays → arrays → n` for every
pipeline node. -/
theorem C07_code_shape :
    GeneratedC07.visitNodesOrder = "topological_sort" ∧
    GeneratedC07.visitGensOrder = "topological_generations" ∧
    GeneratedC07.skipNodeShape = "pipeline-none-or-computed" ∧
    GeneratedC07.createEdges = "create>arrays>all-pipeline-nodes" ∧
    GeneratedC07.seqModeIterates = "visit_nodes(dag)" ∧
    GeneratedC07.genModeIterates = "visit_node_generations(dag)" ∧
    GeneratedC07.singleThreadedIterates = "visit_nodes(dag)" ∧
    GeneratedC07.seqModeBracket = "start,drain,end" ∧
    GeneratedC07.genModeBracket = "start,drain,end" ∧
    GeneratedC07.singleThreadedBracket = "start,drain,end" := by decide

/-! ## Non-vacuity: a diamond with a create-arrays node

    0 create-arrays → 1 "arrays" → {2,4,6,8};  9 (virtual input) → 2 → 3 → {4,6};  4 → 5 → 8;  6 → 7 → 8 → 10 -/

def exDag : Dag :=
  { edges := [(0,1),(1,2),(1,4),(1,6),(1,8),(9,2),(2,3),(3,4),(3,6),(4,5),(6,7),(5,8),(7,8),(8,10)]
    pipeline := fun n => [0,2,4,6,8].contains n
    computed := fun _ => false
    ntasks := fun n => match n with | 0 => 4 | 2 => 2 | 4 => 2 | 6 => 1 | 8 => 2 | _ => 0
    create := some 0 }

/-- `nx.topological_generations` of that DAG -/
def exGens : List (List Nat) := [[0,9],[1],[2],[3],[4,6],[5,7],[8],[10]]

example : genSchedule exDag exGens = [[0],[2],[4,6],[8]] := by decide
example : Gens exDag exGens := checkGens_sound (by decide)
example : SchedOK exDag (genSchedule exDag exGens) := C07_generation_schedule_ok _ _ (checkGens_sound (by decide))
example : (genSchedule exDag exGens).flatten.Nodup := by decide
example : CreateFirst exDag 0 :=
  checkCreateFirst_sound (nodes := [0,1,2,3,4,5,6,7,8,9,10]) (by decide) (by
    intro n hn
    simp only [exDag, List.contains_iff_mem] at hn
    simp only [List.mem_cons, List.not_mem_nil, or_false] at hn ⊢
    omega)
example : exDag.skip 0 = false := by decide
example : Topo exDag [0,9,1,2,3,4,6,5,7,8,10] → SchedOK exDag (seqSchedule exDag [0,9,1,2,3,4,6,5,7,8,10]) :=
  C07_sequential_schedule_ok _ _

/-- an observation sequence in parallel mode (ops 4 and 6 interleaved) … -/
def exObs : List Obs :=
  [.ev .computeStart,
   .ev (.opStart 0), .create 3, .create 5, .ev (.taskEnd 0), .create 7, .create 10, .ev (.taskEnd 0),
     .ev (.taskEnd 0), .ev (.taskEnd 0), .ev (.opEnd 0),
   .ev (.opStart 2), .write 3, .ev (.taskEnd 2), .write 3, .ev (.taskEnd 2), .ev (.opEnd 2),
   .ev (.opStart 4), .ev (.opStart 6), .read 3, .read 3, .write 5, .write 7, .ev (.taskEnd 6), .read 3,
     .write 5, .ev (.taskEnd 4), .ev (.taskEnd 4), .ev (.opEnd 4), .ev (.opEnd 6),
   .ev (.opStart 8), .read 5, .read 7, .write 10, .ev (.taskEnd 8), .read 5, .read 7, .write 10,
     .ev (.taskEnd 8), .ev (.opEnd 8),
   .ev .computeEnd]

/-- … is accepted, hence a run exists (hypotheses of (b)–(g) are satisfiable) … -/
example : acceptsObs exDag (genSchedule exDag exGens) exObs = true := by decide

example : ∃ ls s, Run exDag anyPolicy (init (genSchedule exDag exGens)) ls s ∧ s.complete :=
  let ⟨ls, s, hr, hc, _⟩ := C07_trace_inclusion exDag _ exObs (by decide)
  ⟨ls, s, hr, hc⟩

/-- … and that run contains a step in which a task reads array 3 (hypotheses of (c), (d)): -/
example : ∃ l1 s1 s1' o t l2 s, Run exDag anyPolicy (init (genSchedule exDag exGens)) l1 s1 ∧
    Step exDag anyPolicy s1 (.read o t 3) s1' ∧ Run exDag anyPolicy s1' l2 s :=
  let ⟨ls, s, hr, _, ho⟩ := C07_trace_inclusion exDag _ exObs (by decide)
  have hmem : Obs.read 3 ∈ obsBody ls := by
    have : Obs.read 3 ∈ observations ls := by rw [ho]; decide
    simp only [observations, List.mem_cons, List.mem_append] at this
    rcases this with (h | h) | h | h
    · cases h
    · exact h
    · cases h
    · cases h
  let ⟨l1, s1, s1', o, t, l2, h1, hs, h2⟩ := read_step_of_obs hr hmem
  ⟨l1, s1, s1', o, t, l2, s, h1, hs, h2⟩

/-- a failing backup copy of a pending task (hypothesis of (j)) -/
example : ∃ s s', Step exDag anyPolicy s (.copyFail 2 0) s' :=
  ⟨⟨[], some [2], [[0]], [(2, 0)], []⟩, _, Step.copyFail (by simp)⟩

/-- … while a read of array 3 before its producer (op 2) is closed is rejected, and so is a consumer
started together with its producer. -/
example : acceptsObs exDag (genSchedule exDag exGens)
    [.ev .computeStart, .ev (.opStart 0), .ev (.taskEnd 0), .ev (.taskEnd 0), .ev (.taskEnd 0),
     .ev (.taskEnd 0), .ev (.opEnd 0), .ev (.opStart 2), .read 3] = false := by decide

example : acceptsObs exDag [[0],[2,4,6],[8]] exObs = false := by decide

end Cubed.C07
