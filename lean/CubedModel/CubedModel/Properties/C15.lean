/-
  C15 — Blockwise block addressing follows the index expression, before and after fusion.

  Property theorems only (helper lemmas live in Proofs/).  Each theorem is stated for *all*
  index expressions / key functions / fusion trees; nothing is enumerated.
-/
import CubedModel.Proofs.Blockwise
import CubedModel.Proofs.BlockwiseKey
import CubedModel.Proofs.Fusion

namespace Cubed.C15

open Cubed Cubed.Bw

/-- (a) The positional coordinate algebra translated from the vendored dask code
(`index_pos` / `zero_pos` / `dummies` / `coords[c]`) designates, for every argument axis, exactly the
block entry of the reference reading of the index expression: broadcast axes read block 0, an output
index reads the out coordinate at that index' position, a contracted index ranges over all blocks. -/
theorem C15_addressing_eq_reference (e : Expr) (dims : Nat → Nat) (out : List Nat) (i nb : Nat)
    (hlen : out.length = e.outInd.length) :
    entry e dims out i nb = refEntry e dims out i nb :=
  entry_eq_ref e dims out i nb hlen

/-- (a') The whole key function for expressions without contraction (elementwise, broadcasting, new
axes — every index-notation op cubed builds except contractions): when it succeeds it returns exactly
one key per argument, in argument order, labelled with the out key's name, with the reference
coordinates. -/
theorem C15_key_function_eq_reference (e : Expr) (out : CK) (fa : FArgs CK)
    (hlen : out.coords.length = e.outInd.length)
    (hnd : ∀ a ∈ e.args, hasDummy e a = false)
    (h : keyFn e out = .ok fa) :
    fa.out = out.name ∧ All2 (ArgKey e out.coords) e.args fa.args :=
  keyFn_no_contraction e out fa hlen hnd h

/-- (b) Designated blocks exist: inside the output grid every selected coordinate is a valid block
index of the argument. -/
theorem C15_keys_in_bounds (e : Expr) (dims : Nat → Nat) (out : List Nat) (i nb c : Nat)
    (hnb : nb = 1 ∨ nb = dims i)
    (hout : ∀ (p v : Nat), e.outInd[p]? = some i → out[p]? = some v → v < dims i)
    (hc : refCoord e out i nb = some c) : c < nb :=
  refCoord_in_bounds e dims out i nb c hnb hout hc

/-- (b') the premise `nb = 1 ∨ nb = dims i` of (b) is what a successful `_make_dims` guarantees. -/
theorem C15_dims_consistent (e : Expr) (i d nb : Nat)
    (hnew : e.newAxes.find? (fun p => p.1 == i) = none)
    (hd : dimOf e i = some d) (hmem : (i, nb) ∈ pairs e) : nb = 1 ∨ nb = d :=
  dimOf_consistent e i d nb hnew hd hmem

/-- (c) Fusion preserves addressing and values: each original function still receives the blocks it
would have received unfused, in the same structure. -/
theorem C15_fusion_preserves {V R : Type} (s : BSpec V R) (preds : Preds V) (read : CK → V)
    (coords : List Nat)
    (hname : ∀ n p, preds n = some p → NameIndep p)
    (hs : ∀ t ∈ (s.keyfn ⟨"out", coords⟩).args, Tree.Unfused t) :
    evalSpec (fuseMultiple s preds) read coords = evalSpec s (readThrough preds read) coords :=
  fuse_multiple_correct s preds read coords hname hs

/-- (d) … and can be iterated to any depth, because a fused spec again satisfies the hypothesis on
predecessors. -/
theorem C15_fusion_iterable {V R : Type} (s : BSpec V R) (preds : Preds V) (hs : NameIndep s) :
    NameIndep (fuseMultiple s preds) :=
  fused_nameIndep s preds hs

/-- (e) Grouping into lists / streams is preserved by the fused key function. -/
theorem C15_grouping_preserved {V : Type} (preds : Preds V) (t : Tree CK) :
    match t, fuseKeyArg preds t with
    | .leaf _, .fargs _ _ => True
    | .list ts, .list us => us.length = ts.length
    | .iter ts, .iter us => us.length = ts.length
    | .fargs _ _, .fargs _ _ => True
    | _, _ => False :=
  fuseKeyArg_kind preds t

/-! Non-vacuity: concrete instances satisfying the hypotheses. -/

/-- matmul-like `ik <- ij, jk` with a 2×1 and 1×3 block grid and out key (1,2). -/
def exExpr : Expr :=
  { outInd := [0, 2], args := [⟨"x", [0, 1], [2, 1]⟩, ⟨"y", [1, 2], [1, 3]⟩] }

example : keyFn exExpr ⟨"out", [1, 2]⟩
    = .ok ⟨"out", [.leaf ⟨"x", [1, 0]⟩, .leaf ⟨"y", [0, 2]⟩]⟩ := by rfl

example : dimOf exExpr 0 = some 2 ∧ dimOf exExpr 1 = some 1 ∧ dimOf exExpr 2 = some 3 := by decide

example : refCoord exExpr [1, 2] 2 3 = some 2 := by decide

/-- a stream-reading successor over a one-to-one predecessor: hypotheses of (c) hold. -/
def exPred : BSpec Nat Nat :=
  { keyfn := fun k => ⟨k.name, [.leaf ⟨"x", k.coords⟩]⟩, fn := fun _ => 7 }
def exSucc : BSpec Nat Nat :=
  { keyfn := fun k => ⟨k.name, [.iter [.leaf ⟨"a", [0]⟩, .leaf ⟨"a", [1]⟩]]⟩, fn := fun _ => 1 }

example : NameIndep exPred := by intro k; simp [exPred]
example : ∀ t ∈ (exSucc.keyfn ⟨"out", [0]⟩).args, Tree.Unfused t := by
  intro t ht; simp [exSucc] at ht; subst ht; simp [Tree.Unfused]

end Cubed.C15
