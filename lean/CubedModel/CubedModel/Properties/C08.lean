import CubedModel.Model.MapUnordered
namespace Cubed.C08
theorem C08_stub : True := trivial
end Cubed.C08
