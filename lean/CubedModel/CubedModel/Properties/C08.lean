/-
  C08 — Task failures are retried and surfaced, never dropped; one result per task.

  Property theorems only (model: `Model/MapUnordered.lean`, invariants: `Proofs/MapUnordered.lean`).
  Every theorem is about `run cfg ok n t0 rounds`: the generator `async_map_unordered` on `n` inputs after an arbitrary
  finite list of `asyncio.wait` rounds, where the environment chooses, per round, the finished set and its iteration
  order, the iteration order over `copy(pending)`, which futures complete while the generator is suspended in a `yield`,
  and every clock reading; `ok` is the eventual outcome of every future ever created (originals, later batches and
  backups alike).  Nothing is bounded: any `n`, any `batch_size ≥ 1` (none, `< n`, `≥ n`), backups on or off.

  `AsIs cfg` says that the configuration is the code as it is: the variant flags and backup thresholds are the facts
  regenerated from the source (`Model/GeneratedC08.lean`); `generated_is_fixed` / `generated_thr_ok` tie them to what the
  proofs need, so reverting one of the `fix:` commits (start_times on batch refill, superseded twins, empty first batch,
  retries on the processes executor) or dropping the `task not in backups` guard makes this file fail to compile.
-/
import CubedModel.Proofs.MapUnordered

namespace Cubed.C08

open Cubed Cubed.MapUnordered

/-- the configuration is the code as it is -/
def AsIs (cfg : Cfg) : Prop :=
  cfg.variant = Variant.generated ∧ cfg.thr = Thresholds.generated ∧ cfg.batchSize ≠ some 0

/-- the state in which a run stands or ended -/
def stateOf : Status → St
  | .running st => st
  | .finished _ st => st

def outcomeOf : Status → Option Outcome
  | .running _ => none
  | .finished o _ => some o

/-- the number of futures ever created for input `p` -/
def submissions (st : St) (p : Nat) : Nat := (keys st.nextId (fun f => st.tasks f == some p)).length

/-! ## ties between the regenerated facts and the proofs -/

theorem generated_is_fixed : Variant.generated = Variant.fixed := by decide

/-- The model removes a pair from `backups` only in `succeed`; the source does the same: every removal of a `backups`
entry sits in the clean-up after the yield of a successful task.  (A pair that is unlinked when a task merely *fails* would
let the surviving twin pass the `task not in backups` guard and get another backup — `C08_at_most_two_submissions`.) -/
theorem generated_backups_unlinked_only_on_success : GeneratedC08.backupsUnlinkedOnlyOnSuccess = true := by decide

theorem generated_thr_ok : ThrOK Thresholds.generated := by unfold ThrOK; decide

theorem asIs_isFixed (cfg : Cfg) (h : AsIs cfg) : IsFixed cfg :=
  ⟨h.1.trans generated_is_fixed, by rw [h.2.1]; exact generated_thr_ok, h.2.2⟩

/-- every reachable state satisfies the invariant (with the work list `w` of the round in which an exception left) -/
theorem reach (cfg : Cfg) (ok : Nat → Bool) (n : Nat) (t0 : Int) (rounds : List Round) (h : AsIs cfg) :
    Post cfg ok n rounds (run cfg ok n t0 rounds) :=
  run_post cfg ok n t0 rounds (asIs_isFixed cfg h)

/-! ## concrete instances used by the `example`s below -/

/-- 3 inputs in batches of 2 with backups enabled -/
def exCfg : Cfg := { useBackups := true, batchSize := some 2 }
/-- round 1: futures 1 and 0 finish (in that iteration order), then the second batch (future 2) -/
def exRounds : List Round := [{ fin := [1, 0] }, { fin := [2] }]
theorem exCfg_asIs : AsIs exCfg := ⟨rfl, rfl, by decide⟩

/-- 10 inputs, no batching, backups: nine finish at t=1, the straggler 9 gets the backup 10 at t=4, both finish at t=6 -/
def twinCfg : Cfg := { useBackups := true, batchSize := none }
def twinRounds : List Round :=
  [{ fin := [0, 1, 2, 3, 4, 5, 6, 7, 8], clkEnd := fun _ => 1, clkNow := 1 },
   { fin := [], clkNow := 4, clkBackup := fun _ => 4 },
   { fin := [9, 10], clkEnd := fun _ => 6, clkNow := 6 }]
theorem twinCfg_asIs : AsIs twinCfg := ⟨rfl, rfl, by decide⟩

/-- 20 inputs in batches of 10 with backups: six finish at t=1, the second batch is submitted, a timeout round follows -/
def refillCfg : Cfg := { useBackups := true, batchSize := some 10 }
def refillRounds : List Round :=
  [{ fin := [0, 1, 2, 3, 4, 5], clkEnd := fun _ => 1, clkNow := 1, clkRefill := 1 }, { fin := [], clkNow := 3 }]

/-! ## (1) no exception other than a task's own -/

/-- Whatever the environment does, the generator never ends with an exception that is not a task's: dictionary lookups
(`start_times[task]`, `tasks[task]`, `end_times`/`start_times` in `should_launch_backup`) never miss, for any option
combination — in particular `use_backups` with `batch_size` (first `fix:`) — and an empty input is fine with or without
batching (third `fix:`).  Full strength: no hypothesis on the input.  (`batch_size = 0`, a `ValueError` of `batched`, is
excluded by `AsIs`.) -/
theorem C08_no_crash (cfg : Cfg) (ok : Nat → Bool) (n : Nat) (t0 : Int) (rounds : List Round) (h : AsIs cfg) :
    ∀ o st, run cfg ok n t0 rounds = .finished o st → ∀ why, o ≠ .crash why := by
  intro o st hr why ho
  have := reach cfg ok n t0 rounds h
  rw [hr, ho] at this
  exact this

/-- an operation with zero tasks under `batch_size` -/
def emptyBatched : Cfg := { useBackups := true, batchSize := some 2 }
example : AsIs emptyBatched := ⟨rfl, rfl, by decide⟩
example : outcomeOf (run emptyBatched (fun _ => true) 0 0 []) = some (.done []) := by decide

/-- the hypotheses are satisfiable, and the conclusion is not vacuous: these runs do end -/
example : AsIs refillCfg := ⟨rfl, rfl, by decide⟩
example : outcomeOf (run exCfg (fun _ => true) 3 0 exRounds) = some (.done [1, 0, 2]) := by decide
example : outcomeOf (run refillCfg (fun _ => true) 20 0 refillRounds) = none := by decide   -- still running, no KeyError

/-! ## (2) exactly one result per input -/

/-- When the generator finishes normally, the inputs of the yielded results are a permutation of the inputs: every input
exactly once — nothing dropped, nothing delivered twice (the second `fix:`). -/
theorem C08_one_result_per_input (cfg : Cfg) (ok : Nat → Bool) (n : Nat) (t0 : Int) (rounds : List Round) (h : AsIs cfg)
    (res : List Nat) (st : St)
    (hr : run cfg ok n t0 rounds = .finished (.done res) st) :
    (res.map st.tasks).Perm ((List.range n).map some) := by
  have hp := reach cfg ok n t0 rounds h
  rw [hr] at hp
  obtain ⟨hi, hres, hany, hbat⟩ := hp
  subst hres
  have hnd2 : ((List.range n).map some).Nodup := by
    refine List.Pairwise.map _ ?_ List.nodup_range
    intro a b hab hs
    exact hab (Option.some.inj hs)
  refine (List.perm_ext_iff_of_nodup hi.e1 hnd2).mpr ?_
  intro x
  constructor
  · intro hx
    obtain ⟨e, he, rfl⟩ := List.mem_map.mp hx
    have hlt := hi.b8 e he
    have hs := (hi.b3 e).mp hlt
    cases ht : st.tasks e with
    | none => simp [ht] at hs
    | some p =>
      have := (hi.p1 e p ht).1
      exact List.mem_map.mpr ⟨p, List.mem_range.mpr this, rfl⟩
  · intro hx
    obtain ⟨p, hp, rfl⟩ := List.mem_map.mp hx
    have hp := List.mem_range.mp hp
    rcases hi.p2 p hp with h1 | ⟨e, he, het⟩ | ⟨f, hact, _, _⟩
    · simp [hbat] at h1
    · exact List.mem_map.mpr ⟨e, he, het⟩
    · exfalso
      rcases hact with h2 | h2
      · have := anyPending_of st f (hi.b1 f h2) h2
        rw [hany] at this
        cases this
      · cases h2

/-- instance: a task and its backup finish in the same round; one result for input 9, whichever of the two succeeded -/
example : outcomeOf (run twinCfg (fun _ => true) 10 0 twinRounds) = some (.done [0, 1, 2, 3, 4, 5, 6, 7, 8, 9]) := by decide
example : outcomeOf (run twinCfg (fun f => f != 9) 10 0 twinRounds) = some (.done [0, 1, 2, 3, 4, 5, 6, 7, 8, 10]) := by
  decide
example : (stateOf (run twinCfg (fun f => f != 9) 10 0 twinRounds)).tasks 10 = some 9 := by decide

theorem filterMap_getElem?_range {α : Type} (l : List α) : (List.range l.length).filterMap (fun p => l[p]?) = l := by
  induction l with
  | nil => rfl
  | cons x xs ih =>
    rw [List.length_cons, List.range_succ_eq_map, List.filterMap_cons]
    simp only [List.getElem?_cons_zero, List.filterMap_map]
    congr 1

/-- the same in terms of input *values*: for any input list, the values of the inputs whose results were yielded are a
permutation of the input list. -/
theorem C08_one_result_per_input_values {α : Type} (inputs : List α) (cfg : Cfg) (ok : Nat → Bool) (t0 : Int)
    (rounds : List Round) (h : AsIs cfg) (res : List Nat) (st : St)
    (hr : run cfg ok inputs.length t0 rounds = .finished (.done res) st) :
    (res.filterMap (fun f => (st.tasks f).bind (fun p => inputs[p]?))).Perm inputs := by
  have hperm := C08_one_result_per_input cfg ok inputs.length t0 rounds h res st hr
  have := hperm.filterMap (fun o : Option Nat => o.bind (fun p => inputs[p]?))
  rw [List.filterMap_map, List.filterMap_map] at this
  have h2 : (List.range inputs.length).filterMap ((fun o : Option Nat => o.bind (fun p => inputs[p]?)) ∘ some) = inputs :=
    filterMap_getElem?_range inputs
  rw [h2] at this
  exact this

example : outcomeOf (run exCfg (fun _ => true) ["a", "b", "c"].length 0 exRounds) = some (.done [1, 0, 2]) := by decide

/-! ## (3) results are successes of submissions of that input -/

/-- At every moment (running, finished, or at the raise) every yielded result is the result of a future that completed
successfully and was created for an input `p < n` — an input is never treated as done without a success. -/
theorem C08_results_sound (cfg : Cfg) (ok : Nat → Bool) (n : Nat) (t0 : Int) (rounds : List Round) (h : AsIs cfg)
    (f : Nat) (hf : f ∈ (stateOf (run cfg ok n t0 rounds)).emitted) :
    ok f = true ∧ (stateOf (run cfg ok n t0 rounds)).done f = true ∧
      ∃ p, p < n ∧ (stateOf (run cfg ok n t0 rounds)).tasks f = some p := by
  have hp := reach cfg ok n t0 rounds h
  have key : ∀ st w, Inv cfg ok n st w → f ∈ st.emitted → ok f = true ∧ st.done f = true ∧ ∃ p, p < n ∧ st.tasks f = some p := by
    intro st w hi hf
    refine ⟨(hi.e3 f hf).1, (hi.e3 f hf).2, ?_⟩
    have hs := (hi.b3 f).mp (hi.b8 f hf)
    cases ht : st.tasks f with
    | none => simp [ht] at hs
    | some p => exact ⟨p, (hi.p1 f p ht).1, rfl⟩
  revert hp hf
  cases run cfg ok n t0 rounds with
  | running st => intro hf hp; exact key st [] hp.1 hf
  | finished o st =>
    cases o with
    | done res => intro hf hp; exact key st [] hp.1 hf
    | raised g => rintro hf ⟨w, rd, _, hi, _⟩; exact key st _ hi hf
    | crash y => intro _ hp; exact hp.elim

example : 1 ∈ (stateOf (run exCfg (fun _ => true) 3 0 exRounds)).emitted := by decide

/-! ## (4) a task's error is raised exactly when it is fatal -/

/-- Step level, in any state satisfying the invariant (every reachable state does, `reach`): processing a finished task `f`
raises iff `f` failed, is not superseded, and every other submission of the same input is done and failed; the exception
is `f`'s.  (A failure whose twin is still running or has succeeded is skipped — and the twin is then still active, so the
input is not lost: `C08_one_result_per_input`.) -/
theorem C08_raises_iff_fatal (cfg : Cfg) (ok : Nat → Bool) (n : Nat) (rd : Round) (st : St) (f : Nat) (w : List Nat)
    (h : AsIs cfg) (hi : Inv cfg ok n st (f :: w)) (o : Outcome) :
    procOne cfg ok rd st f = .error o ↔
      (o = .raised f ∧ st.superseded f = false ∧ ok f = false ∧
        ∀ g, g < st.nextId → st.tasks g = st.tasks f → g ≠ f → (isDone st rd g = true ∧ ok g = false)) :=
  procOne_error_iff cfg ok n rd st f w (by rw [(asIs_isFixed cfg h).v]; rfl) hi o

/-- Run level: if the generator raises, it raises the exception of a future `f` that failed, no submission of `f`'s input
has succeeded (each other one is done and failed), and no result for that input was delivered. -/
theorem C08_raises_only_fatal (cfg : Cfg) (ok : Nat → Bool) (n : Nat) (t0 : Int) (rounds : List Round) (h : AsIs cfg)
    (f : Nat) (st : St)
    (hr : run cfg ok n t0 rounds = .finished (.raised f) st) :
    ok f = false ∧ st.done f = true ∧ (∀ e, e ∈ st.emitted → st.tasks e ≠ st.tasks f) ∧
      ∃ rd, rd ∈ rounds ∧ ∀ g, g < st.nextId → st.tasks g = st.tasks f → g ≠ f → (isDone st rd g = true ∧ ok g = false) := by
  have hp := reach cfg ok n t0 rounds h
  rw [hr] at hp
  obtain ⟨w, rd, hrd, hi, he⟩ := hp
  have hx := (C08_raises_iff_fatal cfg ok n rd st f w h hi _).mp he
  refine ⟨hx.2.2.1, (hi.w2 f (by simp)).2, ?_, rd, hrd, hx.2.2.2⟩
  intro e he' heq
  have := hi.e2 e f he' (Or.inr (by simp)) heq.symm
  rw [hx.2.1] at this
  cases this

/-- instances: input 1 fails without a twin → its error; original 9 and backup 10 both fail → the error of the one
processed last (here 9, whose twin is done and failed); only the backup fails → no raise (checked under (2)) -/
example : outcomeOf (run exCfg (fun f => f != 1) 3 0 exRounds) = some (.raised 1) := by decide
example : outcomeOf (run twinCfg (fun f => f != 9 && f != 10) 10 0 twinRounds) = some (.raised 9) := by decide
example : outcomeOf (run twinCfg (fun f => f != 10) 10 0 twinRounds) = some (.done [0, 1, 2, 3, 4, 5, 6, 7, 8, 9]) := by
  decide

/-- … and the generator ends in no other way: done, or the error of a task. -/
theorem C08_ends_done_or_task_error (cfg : Cfg) (ok : Nat → Bool) (n : Nat) (t0 : Int) (rounds : List Round) (h : AsIs cfg)
    (o : Outcome) (st : St) (hr : run cfg ok n t0 rounds = .finished o st) :
    (∃ res, o = .done res) ∨ (∃ f, o = .raised f ∧ ok f = false) := by
  cases o with
  | done res => exact Or.inl ⟨res, rfl⟩
  | raised f => exact Or.inr ⟨f, rfl, (C08_raises_only_fatal cfg ok n t0 rounds h f st hr).1⟩
  | crash y => exact absurd rfl (C08_no_crash cfg ok n t0 rounds h _ st hr y)

/-! ## (5) at most two submissions per input -/

/-- At every moment every input has been submitted at most twice (the original and at most one backup). -/
theorem C08_at_most_two_submissions (cfg : Cfg) (ok : Nat → Bool) (n : Nat) (t0 : Int) (rounds : List Round) (h : AsIs cfg)
    (p : Nat) : submissions (stateOf (run cfg ok n t0 rounds)) p ≤ 2 := by
  have key : ∀ st w, Inv cfg ok n st w → submissions st p ≤ 2 := by
    intro st w hi
    unfold submissions
    refine length_le_two_of_no_three _ (nodup_keys _ _) ?_
    intro a b c ha hb hc hab hbc hac
    have ha := (mem_keys _ _ _).mp ha
    have hb := (mem_keys _ _ _).mp hb
    have hc := (mem_keys _ _ _).mp hc
    have e1 : st.tasks a = some p := by simpa using ha.2
    have e2 : st.tasks b = some p := by simpa using hb.2
    have e3 : st.tasks c = some p := by simpa using hc.2
    exact hi.g3 a b c ha.1 hb.1 hc.1 (e1.trans e2.symm) (e2.trans e3.symm) hab hbc hac
  have hp := reach cfg ok n t0 rounds h
  revert hp
  cases run cfg ok n t0 rounds with
  | running st => intro hp; exact key st [] hp.1
  | finished o st =>
    cases o with
    | done res => intro hp; exact key st [] hp.1
    | raised g => rintro ⟨w, rd, _, hi, _⟩; exact key st _ hi
    | crash y => intro hp; exact hp.elim

/-- instance: input 9 was submitted exactly twice, input 0 once -/
example : submissions (stateOf (run twinCfg (fun _ => true) 10 0 twinRounds)) 9 = 2 ∧
    submissions (stateOf (run twinCfg (fun _ => true) 10 0 twinRounds)) 0 = 1 := by decide

/-! ## (6) the retry wrapper -/

/-- one submission makes at most `retries + 1` attempts (`stop_after_attempt(retries + 1)`, regenerated) -/
theorem C08_retry_attempts_le (retries : Nat) (succ : Nat → Bool) : (callWithRetries retries succ).2 ≤ retries + 1 := by
  unfold callWithRetries
  split
  · simp
  · have := (retrying_spec succ (retries + GeneratedC08.retryExtraAttempts - 1) 1).2.1
    have he : GeneratedC08.retryExtraAttempts = 1 := by decide
    rw [he] at this ⊢
    omega

/-- it succeeds iff one of the first `retries + 1` calls succeeds, stops at the first success, and otherwise makes exactly
`retries + 1` attempts before re-raising -/
theorem C08_retry_spec (retries : Nat) (succ : Nat → Bool) :
    ((callWithRetries retries succ).1 = true ↔ ∃ j, 1 ≤ j ∧ j ≤ retries + 1 ∧ succ j = true) ∧
    (∀ j, 1 ≤ j → j < (callWithRetries retries succ).2 → succ j = false) ∧
    ((callWithRetries retries succ).1 = succ (callWithRetries retries succ).2) ∧
    ((callWithRetries retries succ).1 = false → (callWithRetries retries succ).2 = retries + 1) := by
  have he : GeneratedC08.retryExtraAttempts = 1 := by decide
  have hz : GeneratedC08.retriesZeroSkipsWrapper = true := by decide
  unfold callWithRetries
  rw [he, hz]
  by_cases h0 : retries = 0
  · subst h0
    simp only [decide_true, Bool.and_self, if_true]
    refine ⟨⟨fun h => ⟨1, by omega, by omega, h⟩, ?_⟩, fun j h1 h2 => by omega, by trivial, by simp⟩
    rintro ⟨j, h1, h2, h3⟩
    have : j = 1 := by omega
    subst this; exact h3
  · have : (decide (retries = 0) && true) = false := by simp [h0]
    simp only [this, Bool.false_eq_true, if_false]
    obtain ⟨i1, i2, i3, i4, i5⟩ := retrying_spec succ (retries + 1 - 1) 1
    refine ⟨⟨fun h => ⟨_, i1, by omega, by rw [← i4]; exact h⟩, ?_⟩, i3, i4, fun h => by have := i5 h; omega⟩
    rintro ⟨j, h1, h2, h3⟩
    cases hr : (retrying succ (retries + 1 - 1) 1).1 with
    | true => rfl
    | false =>
      have hlast := i5 hr
      by_cases hj : j < (retrying succ (retries + 1 - 1) 1).2
      · have := i3 j h1 hj; rw [h3] at this; cases this
      · have : j = (retrying succ (retries + 1 - 1) 1).2 := by omega
        rw [i4, ← this, h3] at hr; cases hr

/-- instances: retries = 2, third call succeeds → success after 3 calls; never succeeds → 3 calls; retries = 0 → 1 call -/
example : callWithRetries 2 (fun k => k == 3) = (true, 3) := by decide
example : callWithRetries 2 (fun _ => false) = (false, 3) := by decide
example : callWithRetries 0 (fun k => k == 2) = (false, 1) := by decide

/-- The processes executor applies the same policy inside the worker (`unpickle_and_call_with_retries`): same `+ 1`, same
default, same `retries != 0` shortcut, and `retries` is popped from the options instead of reaching the task function —
so `C08_retry_attempts_le` / `C08_retry_spec` speak about both local executors. -/
theorem C08_retry_same_policy_processes :
    GeneratedC08.processesHaveRetry = true ∧ GeneratedC08.processesPopRetries = true ∧
    GeneratedC08.procRetryExtraAttempts = GeneratedC08.retryExtraAttempts ∧
    GeneratedC08.procDefaultRetries = GeneratedC08.defaultRetries ∧
    GeneratedC08.procRetriesZeroSkipsWrapper = GeneratedC08.retriesZeroSkipsWrapper := by decide

/-- the documented default: "up to a total of three attempts" -/
theorem C08_default_three_attempts (succ : Nat → Bool) :
    (callWithRetries GeneratedC08.defaultRetries succ).2 ≤ 3 :=
  C08_retry_attempts_le 2 succ

/-! ## what the `fix:` commits repaired

The same runs under the behaviour *before* each fix (`Variant` flags off) violate the statements above.  These stay here as
regression witnesses: the harness replays them on the real coroutine (they must NOT reproduce on the tree under test). -/

/-- before the first fix: batch refill rebinds `start_times`, `should_launch_backup` then misses a key -/
def refillOld : Cfg := { refillCfg with variant := ⟨false, true, true, true⟩ }
/-- before the second fix: no `superseded` set -/
def twinOld : Cfg := { twinCfg with variant := ⟨true, false, true, true⟩ }
/-- before the third fix: `next(input_batches)` without a default -/
def emptyOld : Cfg := { emptyBatched with variant := ⟨true, true, true, false⟩ }

/-- `KeyError` although every task succeeds (violates `C08_no_crash`) -/
theorem C08_witness_refill_replaced_start_times :
    outcomeOf (run refillOld (fun _ => true) 20 0 refillRounds) = some (.crash "KeyError: start_times") := by decide

/-- original 9 and backup 10 both succeed in one round: two results for input 9 (violates `C08_one_result_per_input`) -/
theorem C08_witness_twins_duplicate_result :
    outcomeOf (run twinOld (fun _ => true) 10 0 twinRounds) = some (.done [0, 1, 2, 3, 4, 5, 6, 7, 8, 9, 10]) ∧
    (stateOf (run twinOld (fun _ => true) 10 0 twinRounds)).tasks 10 = some 9 := by decide

/-- original 9 succeeds and is yielded, then its failed backup 10 is processed: its error is raised although the input
succeeded (violates `C08_raises_only_fatal`) -/
theorem C08_witness_twins_spurious_raise :
    outcomeOf (run twinOld (fun f => f != 10) 10 0 twinRounds) = some (.raised 10) ∧
    9 ∈ (stateOf (run twinOld (fun f => f != 10) 10 0 twinRounds)).emitted := by decide

/-- an operation with zero tasks under `batch_size`: `StopIteration` inside the async generator (→ `RuntimeError`)
instead of finishing with no results (violates `C08_no_crash`) -/
theorem C08_witness_empty_batched_input :
    outcomeOf (run emptyOld (fun _ => true) 0 0 []) = some (.crash "StopIteration") := by decide

end Cubed.C08
