/-
  C12 — Declared shape/dtype/chunks are truthful; written blocks match their chunk shape.

  Property theorems only (model: Model/ShapeCalc.lean, helper lemmas: Proofs/ShapeCalc.lean).
  All statements are for every rank, every axis length and every chunk size.  `extents d coords = some s`
  says "coords is a block of the declared grid `d` and the chunk region there has shape `s`"; the
  conclusion `…Block … coords = some s` says the block the operation's function returns for that
  coordinate has exactly this shape (nothing is broadcast or truncated by the write).

  The code was repaired (`fix:` commits f3856f5 stack, 19968d0 qr, 5fff6ae scan): the model follows the repaired
  code, the former `_partial` theorems for qr and the scan level are now stated for every accepted input, and the
  former counterexamples are kept as theorems about the OLD variants (`…_old_variant_fails`).
  One clause is still false: stack (and any `unify_chunks` user) of *zero-size* operands chunked differently,
  because `rechunk` returns zero-size arrays unchanged — `C12_stack_block_shape_partial` (hypothesis: no
  zero-length axis) and `C12_stack_zero_size_fails` (witness).
  dtype rules are not part of the Lean model (compared differentially by the harness).
-/
import CubedModel.Proofs.ShapeCalc

namespace Cubed.C12

open Cubed Cubed.ShapeCalc

/-! ### grids, regions, declared chunks -/

/-- Block `i` of a regular grid with chunk size `c` over an axis of length `n` has length
`min c (n - i*c)`; the lengths add up to `n`, there are `⌈n/c⌉` of them, all positive and `≤ c`. -/
theorem C12_regular_grid_block_len (c n i : Nat) (hc : 0 < c) (hn : 0 < n) (hi : i < ceilDiv n c) :
    (regGrid c n)[i]? = some (min c (n - i * c))
      ∧ (regGrid c n).sum = n ∧ (regGrid c n).length = ceilDiv n c ∧ ∀ x ∈ regGrid c n, 0 < x ∧ x ≤ c :=
  ⟨regGrid_get c n i hc hn hi, regGrid_sum c n, regGrid_length c n hc hn,
   fun x hx => ⟨regGrid_pos c n x hc hn hx, regGrid_le c n x hc hx⟩⟩

example : regGrid 4 9 = [4, 4, 1] ∧ (2 : Nat) < ceilDiv 9 4 := by decide

/-- The write region `get_item(chunks, coords)` (start/stop pairs from cumulative sums) has exactly the
extents of the chunk at `coords`. -/
theorem C12_region_is_chunk (cs : Chunks) (coords : List Nat) : regionExtents cs coords = extents cs coords :=
  regionExtents_eq_extents cs coords

example : regionExtents [[4, 4, 1], [3]] [2, 0] = some [1, 3] := by decide

/-- Declared chunks are truthful: when every axis an op asks for is a regular grid, the chunks that
`Array.chunks` reports after the zarr round trip (`normalize_chunks(to_chunksize(d), shape)`), which is also
the grid the write regions are cut from, are exactly the chunks the op computed. -/
theorem C12_declared_roundtrip (d : Chunks) (h : ∀ l ∈ d, Canon l) : arrChunks d = some d :=
  arrChunks_of_canon d h

example : arrChunks [[4, 4, 1], [0], [1, 1, 1]] = some [[4, 4, 1], [0], [1, 1, 1]] := by decide
example : Canon [4, 4, 1] := ⟨4, 9, by decide, by decide⟩

/-- the chunk lists the modelled ops produce are regular grids -/
theorem C12_canon_closed (c n k : Nat) (hc : 0 < c) (hk : 0 < k) :
    Canon (regGrid c n) ∧ Canon (List.replicate k c) :=
  ⟨canon_regGrid c n hc, canon_replicate k c hc hk⟩

example : Canon (regGrid 4 9) ∧ Canon (List.replicate 3 4) := C12_canon_closed 4 9 3 (by decide) (by decide)

/-! ### blockwise: elementwise with broadcasting, permute_dims -/

/-- `blockwise` with an index-faithful block function (elementwise with NumPy broadcasting, transposition),
no `adjust_chunks` / `new_axes`: if along every out index the operands' chunkings are the common one or `(1,)`
(what `unify_chunks` establishes), the block returned for `coords` has the extents of the declared chunk. -/
theorem C12_block_shape_ok_elementwise (b : Bw) (hadj : b.adjust = []) (hnew : b.newAxes = [])
    (hu : ∀ i ∈ b.outInd, ∀ u, labelDim b i = some u → ∀ ch ∈ labelChunks b.args i, ch = u ∨ ch = [1])
    (d : Chunks) (hd : bwChunkss b = some d) (coords s : List Nat) (he : extents d coords = some s) :
    bwBlockFaithful b coords = some s :=
  bwBlockFaithful_ok b hadj hnew hu d hd coords s he

/-- add of a (9,3) array chunked (4,3) and a (1,3) array: declared ((4,4,1),(3,)), block (2,0) is 1×3. -/
def exAdd : Bw := elemwiseBw [[[4, 4, 1], [3]], [[1], [3]]]
example : bwChunkss exAdd = some [[4, 4, 1], [3]] ∧ bwBlockFaithful exAdd [2, 0] = some [1, 3] := by decide
example : ∀ i ∈ exAdd.outInd, ∀ u, labelDim exAdd i = some u → ∀ ch ∈ labelChunks exAdd.args i, ch = u ∨ ch = [1] := by
  decide

/-- reference: NumPy broadcasting of the operands' lengths along an index gives the declared length. -/
theorem C12_declared_eq_reference_elementwise (L : List (List Nat)) (u : List Nat)
    (hL : ∀ ch ∈ L, ch = u ∨ ch = [1]) (hu : u ∈ L) : bcastAll (L.map List.sum) = some u.sum :=
  label_shape_reference L u hL hu

example : bcastAll ([[4, 4, 1], [1]].map List.sum) = some 9 := by decide

/-- `permute_dims(x, axes)`: the transposed block has the extents of the declared (transposed) chunk. -/
theorem C12_block_shape_ok_permute_dims (x : Chunks) (axes : List Nat) (d : Chunks)
    (hd : bwChunkss (permuteBw x axes) = some d) (coords s : List Nat) (he : extents d coords = some s) :
    bwBlockFaithful (permuteBw x axes) coords = some s :=
  permuteBlock_ok x axes d hd coords s he

example : bwChunkss (permuteBw [[4, 4, 1], [3]] [1, 0]) = some [[3], [4, 4, 1]]
    ∧ bwBlockFaithful (permuteBw [[4, 4, 1], [3]] [1, 0]) [0, 2] = some [3, 1] := by decide

/-! ### map_blocks with chunks / drop_axis / new_axis: squeeze, expand_dims -/

/-- `squeeze(x, axes)` (declared chunks `x.chunks` without `axes`; every squeezed axis has the single chunk
`(1,)`, which `squeeze` checks): the block read is the one at `coords` with 0 inserted on the squeezed axes, and
`nxp.squeeze` of it has the extents of the declared chunk. -/
theorem C12_block_shape_ok_squeeze (axes : List Nat) (x : Chunks)
    (hone : ∀ j c, x[j]? = some c → axes.contains j = true → c = [1])
    (coords s : List Nat) (he : extents (removeAxes axes x) coords = some s) :
    ∃ t, extents x (unsqueezeCoords axes 0 x coords) = some t ∧ squeezeShape axes t = some s := by
  obtain ⟨t, ht, hrem, hones⟩ := squeeze_core axes x 0 (by simpa using hone) coords s he
  refine ⟨t, ht, ?_⟩
  rw [squeezeShape_of_ones axes t (by simpa using hones)]
  exact congrArg some hrem

example : extents (removeAxes [1] [[4, 4, 1], [1], [3]]) [2, 0] = some [1, 3]
    ∧ extents [[4, 4, 1], [1], [3]] (unsqueezeCoords [1] 0 [[4, 4, 1], [1], [3]] [2, 0]) = some [1, 1, 3]
    ∧ squeezeShape [1] [1, 1, 3] = some [1, 3] := by decide

/-- reference: the declared shape of `squeeze` is the input shape without the squeezed axes. -/
theorem C12_declared_eq_reference_squeeze (axes : List Nat) (x : Chunks) :
    shapeOf (removeAxes axes x) = reducedShape (shapeOf x) axes false := by
  rw [shapeOf_removeAxes]; rfl

example : shapeOf (removeAxes [1] [[4, 4, 1], [1], [3]]) = [9, 3] := by decide
example : ∀ j c, [[4, 4, 1], [1], [3]][j]? = some c → [1].contains j = true → c = [1] := by
  intro j c hj hc
  have : j = 1 := by simpa using hc
  subst this; simpa using hj.symm

/-- `expand_dims(x, axis)` (declared chunks: `(1,)` inserted at `axis`): the block of `x` at the other
coordinates with a length-1 axis inserted has the extents of the declared chunk. -/
theorem C12_block_shape_ok_expand_dims (x : Chunks) (axis : Nat) (hax : axis ≤ x.length)
    (coords s : List Nat) (he : extents (expandAxes [axis] [1] x) coords = some s) :
    (extents x (coords.eraseIdx axis)).map (expandAxes [axis] 1) = some s := by
  rw [expandAxes_single axis [1] x hax] at he
  obtain ⟨j, _, _, hm⟩ := stack_core 1 x axis hax coords s he
  cases ht : extents x (coords.eraseIdx axis) with
  | none => rw [ht] at hm; simp at hm
  | some t =>
    rw [ht] at hm
    have hlen := (extents_length x _ t ht).1
    simp only [Option.map_some] at hm ⊢
    rw [expandAxes_single axis 1 t (by omega)]
    exact hm

example : extents (expandAxes [1] [1] [[4, 4, 1], [3]]) [2, 0, 0] = some [1, 1, 3] := by decide

/-! ### partial_reduce, tree levels, scan level -/

/-- `partial_reduce` with a keepdims reduction and default `combine_sizes`: reduced axes get
`(1,) * ⌈nb/split⌉` and every block has length 1 there; other axes keep their chunk. -/
theorem C12_block_shape_ok_partial_reduce (p : PartialReduce) (hk : p.kind = .keepdims) (hc : p.combine = [])
    (hs : ∀ i k, p.split.lookup i = some k → 0 < k)
    (coords s : List Nat) (he : extents (prChunkss p) coords = some s) : prBlock p coords = some s := by
  apply prBlock_ok p _ coords s he
  intro j c k b v _ hk' hv
  have hpos := hs j k hk'
  simp only [prAxisChunks, hk', hc, List.lookup_nil] at hv
  rw [List.getElem?_replicate] at hv
  split at hv
  · next hb =>
    simp only [Option.some.injEq] at hv
    exact ⟨(lt_ceilDiv_iff b c.length k hpos).mp hb, by simp [prAxisLen, hk, hv]⟩
  · simp at hv

example : prChunkss { x := [[4, 4, 1], [3, 3, 3, 1]], split := [(1, 2)], combine := [] } = [[4, 4, 1], [1, 1]]
    ∧ prBlock { x := [[4, 4, 1], [3, 3, 3, 1]], split := [(1, 2)], combine := [] } [2, 1] = some [1, 1] := by decide
example : ∀ i k, ([(1, 2)] : List (Nat × Nat)).lookup i = some k → 0 < k := by
  intro i k h
  by_cases hi : i = 1
  · subst hi; simp [List.lookup] at h; omega
  · have : (i == 1) = false := by simpa using hi
    simp [List.lookup, this] at h

/-- the scan level (`reduce = identity`: the block keeps one entry per input block of its group) with the
explicit sizes the repaired `scan` passes, `(k,) * (nb // k) + (nb % k,)` = the regular grid of chunk `k` over
`nb`: every group — including a short last one — is declared with its real size. -/
theorem C12_block_shape_ok_scan_level (p : PartialReduce) (hk : p.kind = .concat)
    (hs : ∀ j c k, p.x[j]? = some c → p.split.lookup j = some k →
      0 < k ∧ 0 < c.length ∧ p.combine.lookup j = some (.sizes (regGrid k c.length)))
    (coords s : List Nat) (he : extents (prChunkss p) coords = some s) : prBlock p coords = some s := by
  apply prBlock_ok p _ coords s he
  intro j c k b v hj hk' hv
  obtain ⟨hpos, hlen, hcomb⟩ := hs j c k hj hk'
  simp only [prAxisChunks, hk', hcomb] at hv
  have hb := getElem?_lt_length _ _ _ hv
  rw [regGrid_length k c.length hpos hlen] at hb
  rw [regGrid_get k c.length b hpos hlen hb] at hv
  simp only [Option.some.injEq] at hv
  exact ⟨(lt_ceilDiv_iff b c.length k hpos).mp hb, by simp [prAxisLen, hk, hv]⟩

/-- 7 blocks, groups of 5: declared (5, 2), blocks 5 and 2 -/
example : prChunkss { x := [[1, 1, 1, 1, 1, 1, 1]], split := [(0, 5)], combine := [(0, .sizes (regGrid 5 7))], kind := .concat } = [[5, 2]]
    ∧ prBlock { x := [[1, 1, 1, 1, 1, 1, 1]], split := [(0, 5)], combine := [(0, .sizes (regGrid 5 7))], kind := .concat } [1] = some [2] := by decide

/-- the OLD variant of the scan level (`combine_sizes = {axis: k}`: every group declared with `k` entries) wrote
a short last group into a longer region — 7 blocks, groups of 5: block of 2 entries, region of 5 (the `assert`
in `scan` turned this into a build-time failure). -/
theorem C12_scan_level_old_variant_fails :
    ¬ ∀ (p : PartialReduce), p.kind = .concat → ∀ coords s, extents (prChunkss p) coords = some s → prBlock p coords = some s := by
  intro h
  have := h { x := [[1, 1, 1, 1, 1, 1, 1]], split := [(0, 5)], combine := [(0, .const 5)], kind := .concat } rfl [1] [5] (by decide)
  revert this; decide

/-- `tree_reduce`: after `d` rounds with `k^d ≥ nb` a reduced axis has one block (so its declared length
is 1, NumPy's keepdims length). -/
theorem C12_tree_reduce_reaches_one (k d nb : Nat) (hk : 0 < k) (hnb : 0 < nb) (h : nb ≤ k ^ d) :
    treeLevels k d nb = 1 ∧ (List.replicate (treeLevels k d nb) 1).sum = 1 := by
  rw [treeLevels_one k d nb hk hnb h]; exact ⟨rfl, rfl⟩

example : treeLevels 4 2 13 = 1 := by decide

/-- reference: after the tree every reduced axis is the single chunk `(1,)`; with `keepdims` the declared
shape is NumPy's (1 on the reduced axes), without it the reduced axes are squeezed away
(`C12_declared_eq_reference_squeeze`). -/
theorem C12_declared_eq_reference_reduction (x : Chunks) (axes : List Nat) :
    shapeOf (mapIdxFrom (fun i c => if axes.contains i then [1] else c) 0 x) = reducedShape (shapeOf x) axes true :=
  reduced_keepdims_shape x axes

example : reducedShape [9, 3, 5] [0, 2] true = [1, 3, 1] ∧ reducedShape [9, 3, 5] [0, 2] false = [3] := by decide

/-- `adjust_chunks={i: k}` / `map_blocks(chunks=(…, k, …))` with an integer: every block of that axis is declared
with length `k` (the block function must return exactly `k` entries there, e.g. 1 for the arg-reductions' first
step) and the number of blocks is unchanged. -/
theorem C12_adjust_chunks_const (c c' : List Nat) (k b v : Nat)
    (h : applyAdjust (some (.const k)) c = some c' ) (hv : c'[b]? = some v) : v = k ∧ b < c.length := by
  simp only [applyAdjust, Option.some.injEq] at h
  subst h
  exact adjust_const_block c k b v hv

example : applyAdjust (some (.const 1)) [4, 4, 1] = some [1, 1, 1] := by decide

/-! ### concat, stack, unstack, repeat -/

/-- `concat`: the block function allocates the declared chunk (`target_chunks[block_id]`); the declared
length along the axis is the sum of the operands' lengths and is chunked as a regular grid. -/
theorem C12_block_shape_ok_concat (c : Concat) (d : Chunks) (hd : concatChunkss c = some d)
    (coords : List Nat) : concatBlock c coords = extents d coords := by
  simp [concatBlock, hd]

theorem C12_declared_eq_reference_concat (cmax total : Nat) (hc : 0 < cmax) :
    (regGrid cmax total).sum = total ∧ Canon (regGrid cmax total) :=
  ⟨regGrid_sum cmax total, canon_regGrid cmax total hc⟩

example : concatChunkss { args := [[[4, 4, 1], [3]], [[2], [3]]], axis := 0 } = some [[4, 4, 3], [3]] := by decide

/-- the pieces `_array_slices` yields for the out block `[start, stop)` of the concatenated axis (one per
operand it overlaps) have total length `stop - start`: the allocated block is filled completely, by
in-range pieces. -/
theorem C12_concat_pieces_cover (lens : List Nat) (start stop : Nat) (h1 : start ≤ stop) (h2 : stop ≤ lens.sum) :
    piecesLen (arraySlices lens 0 0 start stop) = stop - start := by
  rw [arraySlices_len]; omega

example : arraySlices [9, 2, 0, 5] 0 0 8 12 = [(0, 8, 9), (1, 0, 2), (3, 0, 1)] := by decide

/-- "every block written by the `stack` op over operands `args` matches its region" -/
def StackBlockShapeOK (args : List Chunks) (axis : Nat) : Prop :=
  ∀ d, stackChunkss args axis = some d → ∀ coords s, extents d coords = some s → stackBlock args axis coords = some s

/-- clause for `stack` as a whole (repaired code: operands are unified by `stackUnify` first) -/
def StackOK (args : List Chunks) (axis : Nat) : Prop :=
  ∀ u, stackUnify args = some u → StackBlockShapeOK u axis

/-- … holds for every accepted input without a zero-length axis (the first operand's chunks being regular
grids, as every cubed array's are): after unification all operands have the first one's chunks … -/
theorem C12_stack_block_shape_partial (a : Chunks) (rest : List Chunks) (axis : Nat)
    (hcan : ∀ c ∈ a, Canon c) (hnz : (shapeOf a).any (· == 0) = false) : StackOK (a :: rest) axis :=
  fun u hu d hd coords s he =>
    stackBlock_ok u axis a (stackUnify_all_eq (a :: rest) a rest rfl hcan hnz u hu) d hd coords s he

example : stackUnify [[[2]], [[1, 1]]] = some [[[2]], [[2]]] := by decide
example : (shapeOf [[2]]).any (· == 0) = false ∧ Canon [2] := ⟨by decide, 2, 2, by decide, by decide⟩

/-- … and still fails for zero-size operands chunked differently, because `rechunk` returns a zero-size array
unchanged: shape (2, 0), first operand chunked (1, 1) rows, second (2,): a (1, 2, 0) block goes into a
(1, 1, 0) region (no elements, so no data is affected). -/
theorem C12_stack_zero_size_fails : ¬ ∀ args axis, StackOK args axis := by
  intro h
  have := h [[[1, 1], [0]], [[2], [0]]] 0 [[[1, 1], [0]], [[2], [0]]] (by decide)
    [[1, 1], [1, 1], [0]] (by decide) [1, 0, 0] [1, 1, 0] (by decide)
  revert this; decide

/-- the OLD variant (no unification, the op is built on the operands as given) failed for any operands chunked
differently: `(2,)` and `(1,1)` — a `1×1` block written into a `1×2` region (silently broadcast). -/
theorem C12_stack_old_variant_fails : ¬ ∀ args axis, StackBlockShapeOK args axis := by
  intro h
  have := h [[[2]], [[1, 1]]] 0 [[1, 1], [2]] (by decide) [1, 0] [1, 2] (by decide)
  revert this; decide

theorem C12_declared_eq_reference_stack (k : Nat) : (List.replicate k 1).sum = k := sum_replicate_one k

example : shapeOf [[1, 1], [2, 1]] = [2, 3] := by decide

/-- `unstack`: every yielded slice has the extents of the declared chunk (the input chunks without `axis`). -/
theorem C12_block_shape_ok_unstack (x : Chunks) (axis : Nat) (d : Chunks) (hd : unstackChunkss x axis = some d)
    (coords : List Nat) : unstackBlock x axis coords = extents d coords := by
  unfold unstackChunkss at hd
  unfold unstackBlock
  split at hd
  · next h => rw [if_pos h]; simp at hd; rw [hd]
  · simp at hd

example : unstackChunkss [[2, 1], [2, 2]] 0 = some [[2, 2]] ∧ unstackBlock [[2, 1], [2, 2]] 0 [1] = some [2] := by decide

/-- `repeat(x, r, axis)`: the slice `[bi*c, (bi+1)*c)` of the `r`-fold repeated input block `coords[axis] // r`
(`bi = coords[axis] % r`) has exactly the length of chunk `coords[axis]` of the regular grid with the input's
chunk size over `n*r` — including the clipped last chunks. -/
theorem C12_block_shape_ok_repeat (x : Chunks) (r axis : Nat) (hr : 0 < r) (hcan : ∀ c ∈ x, Canon c)
    (d : Chunks) (hd : repeatChunkss x r axis = some d) (coords s : List Nat) (he : extents d coords = some s) :
    repeatBlock x r axis coords = some s :=
  repeatBlock_ok x r axis hr hcan d hd coords s he

example : repeatChunkss [[4, 4, 1]] 3 0 = some [[4, 4, 4, 4, 4, 4, 3]]
    ∧ repeatBlock [[4, 4, 1]] 3 0 [6] = some [3] ∧ repeatBlock [[4, 4, 1]] 3 0 [5] = some [4] := by decide

/-- the repaired `repeat` normalises a negative axis first, and `repeats == 0` declares a zero-length axis -/
example : repeatDeclared [[2, 1], [2]] 2 (-2) = some [[2, 2, 2], [2]] ∧ repeatDeclared [[2, 1], [2]] 2 (-1) = some [[2, 1], [2, 2]]
    ∧ repeatDeclared [[2, 1], [2]] 2 (-3) = none ∧ repeatDeclared [[2, 1], [2]] 0 (-2) = some [[0], [2]] := by decide

theorem C12_declared_eq_reference_repeat (c n r : Nat) : (regGrid c (n * r)).sum = n * r := regGrid_sum c (n * r)

example : ∀ c ∈ ([[4, 4, 1]] : Chunks), Canon c := by
  intro c hc
  simp at hc; subst hc
  exact ⟨4, 9, by decide, by decide⟩
example : shapeOf [[4, 4, 4, 4, 4, 4, 3]] = [9 * 3] := by decide

/-! ### copy regions (rechunk, merge_chunks) and index -/

/-- `_rechunk` / `merge_chunks`: the block assembled for the selection `get_item(copy chunks, coords)` has the
extents of that copy chunk. -/
theorem C12_block_shape_ok_copy_regions (x : Chunks) (copy : List Nat) (d : Chunks) (hd : copyChunkss x copy = some d)
    (coords s : List Nat) (he : extents d coords = some s) : copyBlock x copy coords = some s :=
  copyBlock_ok x copy d hd coords s he

example : copyChunkss [[4, 4, 1], [3]] [3, 2] = some [[3, 3, 3], [2, 1]]
    ∧ copyBlock [[4, 4, 1], [3]] [3, 2] [2, 1] = some [3, 1] := by decide

/-- `index` with integers, integer arrays and slices of any positive step (negative steps are converted to
positive ones followed by `flip`): the block zarr's indexer assembles for out block `coords` has the extents
of the declared chunk.  `SelOK`: the slice's step is positive and its stop is within the axis (ndindex's
canonical form). -/
theorem C12_block_shape_ok_index (x : Chunks) (sels : List Sel) (hok : ∀ p ∈ x.zip sels, SelOK p.1 p.2)
    (d : Chunks) (hd : indexChunkss x sels = some d) (coords s : List Nat) (he : extents d coords = some s) :
    indexBlock x sels coords = some s :=
  indexBlock_ok x sels hok d hd coords s he

example : indexChunkss [[4, 4, 4, 1], [3]] [.slice 1 12 3 3, .int] = some [[1, 1, 1, 1]]
    ∧ indexBlock [[4, 4, 4, 1], [3]] [.slice 1 12 3 3, .int] [3] = some [1]
    ∧ indexChunkss [[4, 4, 4, 1]] [.slice 1 12 2 2] = some [[2, 2, 2]]
    ∧ indexBlock [[4, 4, 4, 1]] [.slice 1 12 2 2] [2] = some [2] := by decide
example : ∀ p ∈ ([[4, 4, 4, 1], [3]] : Chunks).zip [Sel.slice 1 12 3 3, Sel.int], SelOK p.1 p.2 := by
  intro p hp
  simp at hp
  rcases hp with rfl | rfl
  · exact ⟨by decide, by decide⟩
  · trivial

/-- reference: the declared length `⌈(stop-start)/step⌉` of a sliced axis counts the selected positions. -/
theorem C12_declared_eq_reference_slice (start stop step k : Nat) (hstep : 0 < step) :
    k < sliceLen start stop step ↔ start + k * step < stop :=
  sliceLen_spec start stop step k hstep

example : sliceLen 1 12 3 = 4 ∧ 1 + 3 * 3 < 12 ∧ ¬ (1 + 4 * 3 < 12) := by decide

/-- `Array.blocks[...]` (integers, slices and lists of block indexes in any order, with repeats): the declared
chunks are the real sizes of the selected blocks, so the block passed through for out coordinate `coords` — input
block `sel[coords]` — has exactly the extents of its region, short last blocks included. -/
theorem C12_block_shape_ok_blocks (x : Chunks) (sels : List (List Nat)) (d : Chunks) (hd : blocksChunkss x sels = some d)
    (coords s : List Nat) (he : extents d coords = some s) : blocksBlock x sels coords = some s :=
  blocksBlock_ok x sels d hd coords s he

/-- `arange(9, chunks=4).blocks[[0, 2]]`: declared ((4, 1),) — shape (5,) — and block 1 is the short block -/
example : blocksChunkss [[4, 4, 1]] [[0, 2]] = some [[4, 1]] ∧ shapeOf [[4, 1]] = [5]
    ∧ blocksBlock [[4, 4, 1]] [[0, 2]] [1] = some [1] ∧ arrChunks [[4, 1]] = some [[4, 1]] := by decide
/-- a selection whose sizes are not a regular grid is rejected by `to_chunksize` ("Array must have regular chunks") -/
example : blocksChunkss [[4, 4, 1]] [[2, 0]] = some [[1, 4]] ∧ arrChunks [[1, 4]] = none := by decide

/-! ### tall-and-skinny QR -/

/-- every block written by the first step of `qr` matches its region — for every accepted input (the repaired
`_qr_first_step` raises ValueError when a row chunk has fewer rows than there are columns). -/
theorem C12_block_shape_ok_qr (a q r : Chunks) (hqr : qr1Chunkss a = some (q, r)) (coords sq sr : List Nat)
    (hq : extents q coords = some sq) (hr : extents r coords = some sr) : qr1Block a coords = some (sq, sr) := by
  obtain ⟨rows, n, rfl, hrows, rfl, rfl⟩ := qr1Chunkss_eq a q r hqr
  exact qr1Block_ok rows n hrows coords sq sr hq hr

example : qr1Chunkss [[4, 4, 2], [2]] = some ([[4, 4, 2], [2]], [[2, 2, 2], [2]])
    ∧ qr1Block [[4, 4, 2], [2]] [2, 0] = some ([2, 2], [2, 2]) := by decide
/-- 9×4 with 4-row chunks is now rejected -/
example : qr1Chunkss [[4, 4, 1], [4]] = none := by decide

/-- the OLD variant (no check) failed: 9×4 with 4-row chunks — the last R-block is 1×4 but declared 4×4, the last
Q-block 1×1 but declared 1×4 (zarr broadcast both silently). -/
theorem C12_qr_old_variant_fails :
    ¬ ∀ a q r, qr1ChunkssOld a = some (q, r) → ∀ coords sq sr,
      extents q coords = some sq → extents r coords = some sr → qr1Block a coords = some (sq, sr) := by
  intro h
  have := h [[4, 4, 1], [4]] [[4, 4, 1], [4]] [[4, 4, 4], [4]] (by decide) [2, 0] [1, 4] [4, 4] (by decide) (by decide)
  revert this; decide

/-- second and third step: with at least as many rows as columns in the stacked R the blocks are as declared;
the final shapes `(m, n)`, `(n, n)` are NumPy's reduced-mode shapes for `m ≥ n`. -/
theorem C12_qr_later_steps (r n m : Nat) (h : n ≤ r) :
    qr2Block r n = ([r, n], [n, n]) ∧ (qr2Chunkss r n).1 = [[r], [n]] ∧ (qr2Chunkss r n).2 = [[n], [n]]
      ∧ (n ≤ m → qrShapes m n = ([m, n], [n, n])) := by
  refine ⟨by simp [qr2Block, qrShapes, Nat.min_eq_right h], rfl, rfl, fun hm => by simp [qrShapes, Nat.min_eq_right hm]⟩

example : qr3Block [[4, 4, 1], [4]] 12 4 [2, 0] = some [1, 4] := by decide

end Cubed.C12
