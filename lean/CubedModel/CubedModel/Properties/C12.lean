/-
  C12 — Declared shape/dtype/chunks are truthful; written blocks match their chunk shape.

  Property theorems only (helper lemmas live in Proofs/ShapeCalc.lean).
-/
import CubedModel.Proofs.ShapeCalc

namespace Cubed.C12

open Cubed Cubed.ShapeCalc

/-- Block `i` of a regular grid with chunk size `c` over an axis of length `n` has length
`min c (n - i*c)`; the lengths add up to `n`, there are `⌈n/c⌉` of them and none exceeds `c`. -/
theorem C12_regular_grid_block_len (c n i : Nat) (hc : 0 < c) (hn : 0 < n) (hi : i < ceilDiv n c) :
    (regGrid c n)[i]? = some (min c (n - i * c))
      ∧ (regGrid c n).sum = n ∧ (regGrid c n).length = ceilDiv n c ∧ ∀ x ∈ regGrid c n, 0 < x ∧ x ≤ c :=
  ⟨regGrid_get c n i hc hn hi, regGrid_sum c n, regGrid_length c n hc hn,
   fun x hx => ⟨regGrid_pos c n x hc hn hx, regGrid_le c n x hc hx⟩⟩

example : regGrid 4 9 = [4, 4, 1] ∧ (2 : Nat) < ceilDiv 9 4 := by decide

end Cubed.C12
