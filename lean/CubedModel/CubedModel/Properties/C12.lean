/-
  C12 — Declared shape/dtype/chunks are truthful; written blocks match their chunk shape.

  Property theorems only (model: Model/ShapeCalc.lean, helper lemmas: Proofs/ShapeCalc.lean).
  All statements are for every rank, every axis length and every chunk size.  `extents d coords = some s`
  says "coords is a block of the declared grid `d` and the chunk region there has shape `s`"; the
  conclusion `…Block … coords = some s` says the block the operation's function returns for that
  coordinate has exactly this shape (nothing is broadcast or truncated by the write).

  Two clauses are false for the unchanged code and are kept as `def … : Prop` with a `_partial` theorem
  under an explicit extra hypothesis and a `_fails` theorem from a concrete witness:
  stack (operands chunked differently) and qr (a row chunk shorter than the number of columns).
  dtype rules are not part of the Lean model (compared differentially by the harness).
-/
import CubedModel.Proofs.ShapeCalc

namespace Cubed.C12

open Cubed Cubed.ShapeCalc

/-! ### grids, regions, declared chunks -/

/-- Block `i` of a regular grid with chunk size `c` over an axis of length `n` has length
`min c (n - i*c)`; the lengths add up to `n`, there are `⌈n/c⌉` of them, all positive and `≤ c`. -/
theorem C12_regular_grid_block_len (c n i : Nat) (hc : 0 < c) (hn : 0 < n) (hi : i < ceilDiv n c) :
    (regGrid c n)[i]? = some (min c (n - i * c))
      ∧ (regGrid c n).sum = n ∧ (regGrid c n).length = ceilDiv n c ∧ ∀ x ∈ regGrid c n, 0 < x ∧ x ≤ c :=
  ⟨regGrid_get c n i hc hn hi, regGrid_sum c n, regGrid_length c n hc hn,
   fun x hx => ⟨regGrid_pos c n x hc hn hx, regGrid_le c n x hc hx⟩⟩

example : regGrid 4 9 = [4, 4, 1] ∧ (2 : Nat) < ceilDiv 9 4 := by decide

/-- The write region `get_item(chunks, coords)` (start/stop pairs from cumulative sums) has exactly the
extents of the chunk at `coords`. -/
theorem C12_region_is_chunk (cs : Chunks) (coords : List Nat) : regionExtents cs coords = extents cs coords :=
  regionExtents_eq_extents cs coords

example : regionExtents [[4, 4, 1], [3]] [2, 0] = some [1, 3] := by decide

/-- Declared chunks are truthful: when every axis an op asks for is a regular grid, the chunks that
`Array.chunks` reports after the zarr round trip (`normalize_chunks(to_chunksize(d), shape)`), which is also
the grid the write regions are cut from, are exactly the chunks the op computed. -/
theorem C12_declared_roundtrip (d : Chunks) (h : ∀ l ∈ d, Canon l) : arrChunks d = some d :=
  arrChunks_of_canon d h

example : arrChunks [[4, 4, 1], [0], [1, 1, 1]] = some [[4, 4, 1], [0], [1, 1, 1]] := by decide
example : Canon [4, 4, 1] := ⟨4, 9, by decide, by decide⟩

/-- the chunk lists the modelled ops produce are regular grids -/
theorem C12_canon_closed (c n k : Nat) (hc : 0 < c) (hk : 0 < k) :
    Canon (regGrid c n) ∧ Canon (List.replicate k c) :=
  ⟨canon_regGrid c n hc, canon_replicate k c hc hk⟩

example : Canon (regGrid 4 9) ∧ Canon (List.replicate 3 4) := C12_canon_closed 4 9 3 (by decide) (by decide)

/-! ### blockwise: elementwise with broadcasting, permute_dims -/

/-- `blockwise` with an index-faithful block function (elementwise with NumPy broadcasting, transposition),
no `adjust_chunks` / `new_axes`: if along every out index the operands' chunkings are the common one or `(1,)`
(what `unify_chunks` establishes), the block returned for `coords` has the extents of the declared chunk. -/
theorem C12_block_shape_ok_elementwise (b : Bw) (hadj : b.adjust = []) (hnew : b.newAxes = [])
    (hu : ∀ i ∈ b.outInd, ∀ u, labelDim b i = some u → ∀ ch ∈ labelChunks b.args i, ch = u ∨ ch = [1])
    (d : Chunks) (hd : bwChunkss b = some d) (coords s : List Nat) (he : extents d coords = some s) :
    bwBlockFaithful b coords = some s :=
  bwBlockFaithful_ok b hadj hnew hu d hd coords s he

/-- add of a (9,3) array chunked (4,3) and a (1,3) array: declared ((4,4,1),(3,)), block (2,0) is 1×3. -/
def exAdd : Bw := elemwiseBw [[[4, 4, 1], [3]], [[1], [3]]]
example : bwChunkss exAdd = some [[4, 4, 1], [3]] ∧ bwBlockFaithful exAdd [2, 0] = some [1, 3] := by decide
example : ∀ i ∈ exAdd.outInd, ∀ u, labelDim exAdd i = some u → ∀ ch ∈ labelChunks exAdd.args i, ch = u ∨ ch = [1] := by
  decide

/-- reference: NumPy broadcasting of the operands' lengths along an index gives the declared length. -/
theorem C12_declared_eq_reference_elementwise (L : List (List Nat)) (u : List Nat)
    (hL : ∀ ch ∈ L, ch = u ∨ ch = [1]) (hu : u ∈ L) : bcastAll (L.map List.sum) = some u.sum :=
  label_shape_reference L u hL hu

example : bcastAll ([[4, 4, 1], [1]].map List.sum) = some 9 := by decide

/-- `permute_dims(x, axes)`: the transposed block has the extents of the declared (transposed) chunk. -/
theorem C12_block_shape_ok_permute_dims (x : Chunks) (axes : List Nat) (d : Chunks)
    (hd : bwChunkss (permuteBw x axes) = some d) (coords s : List Nat) (he : extents d coords = some s) :
    bwBlockFaithful (permuteBw x axes) coords = some s :=
  permuteBlock_ok x axes d hd coords s he

example : bwChunkss (permuteBw [[4, 4, 1], [3]] [1, 0]) = some [[3], [4, 4, 1]]
    ∧ bwBlockFaithful (permuteBw [[4, 4, 1], [3]] [1, 0]) [0, 2] = some [3, 1] := by decide

/-! ### map_blocks with chunks / drop_axis / new_axis: squeeze, expand_dims -/

/-- `squeeze(x, axes)` (declared chunks `x.chunks` without `axes`; every squeezed axis has the single chunk
`(1,)`, which `squeeze` checks): the block read is the one at `coords` with 0 inserted on the squeezed axes, and
`nxp.squeeze` of it has the extents of the declared chunk. -/
theorem C12_block_shape_ok_squeeze (axes : List Nat) (x : Chunks)
    (hone : ∀ j c, x[j]? = some c → axes.contains j = true → c = [1])
    (coords s : List Nat) (he : extents (removeAxes axes x) coords = some s) :
    ∃ t, extents x (unsqueezeCoords axes 0 x coords) = some t ∧ squeezeShape axes t = some s := by
  obtain ⟨t, ht, hrem, hones⟩ := squeeze_core axes x 0 (by simpa using hone) coords s he
  refine ⟨t, ht, ?_⟩
  rw [squeezeShape_of_ones axes t (by simpa using hones)]
  exact congrArg some hrem

example : extents (removeAxes [1] [[4, 4, 1], [1], [3]]) [2, 0] = some [1, 3]
    ∧ extents [[4, 4, 1], [1], [3]] (unsqueezeCoords [1] 0 [[4, 4, 1], [1], [3]] [2, 0]) = some [1, 1, 3]
    ∧ squeezeShape [1] [1, 1, 3] = some [1, 3] := by decide

/-- reference: the declared shape of `squeeze` is the input shape without the squeezed axes. -/
theorem C12_declared_eq_reference_squeeze (axes : List Nat) (x : Chunks) :
    shapeOf (removeAxes axes x) = reducedShape (shapeOf x) axes false := by
  rw [shapeOf_removeAxes]; rfl

example : shapeOf (removeAxes [1] [[4, 4, 1], [1], [3]]) = [9, 3] := by decide
example : ∀ j c, [[4, 4, 1], [1], [3]][j]? = some c → [1].contains j = true → c = [1] := by
  intro j c hj hc
  have : j = 1 := by simpa using hc
  subst this; simpa using hj.symm

/-- `expand_dims(x, axis)` (declared chunks: `(1,)` inserted at `axis`): the block of `x` at the other
coordinates with a length-1 axis inserted has the extents of the declared chunk. -/
theorem C12_block_shape_ok_expand_dims (x : Chunks) (axis : Nat) (hax : axis ≤ x.length)
    (coords s : List Nat) (he : extents (expandAxes [axis] [1] x) coords = some s) :
    (extents x (coords.eraseIdx axis)).map (expandAxes [axis] 1) = some s := by
  rw [expandAxes_single axis [1] x hax] at he
  obtain ⟨j, _, _, hm⟩ := stack_core 1 x axis hax coords s he
  cases ht : extents x (coords.eraseIdx axis) with
  | none => rw [ht] at hm; simp at hm
  | some t =>
    rw [ht] at hm
    have hlen := (extents_length x _ t ht).1
    simp only [Option.map_some] at hm ⊢
    rw [expandAxes_single axis 1 t (by omega)]
    exact hm

example : extents (expandAxes [1] [1] [[4, 4, 1], [3]]) [2, 0, 0] = some [1, 1, 3] := by decide

/-! ### partial_reduce, tree levels, scan level -/

/-- `partial_reduce` with a keepdims reduction and default `combine_sizes`: reduced axes get
`(1,) * ⌈nb/split⌉` and every block has length 1 there; other axes keep their chunk. -/
theorem C12_block_shape_ok_partial_reduce (p : PartialReduce) (hk : p.kind = .keepdims) (hc : p.combine = [])
    (hs : ∀ i k, p.split.lookup i = some k → 0 < k)
    (coords s : List Nat) (he : extents (prChunkss p) coords = some s) : prBlock p coords = some s := by
  apply prBlock_ok p _ coords s he
  intro j c k b _ hk' _
  refine ⟨hs j k hk', ?_⟩
  simp [prAxisLen, hk, hc]

example : prChunkss { x := [[4, 4, 1], [3, 3, 3, 1]], split := [(1, 2)], combine := [] } = [[4, 4, 1], [1, 1]]
    ∧ prBlock { x := [[4, 4, 1], [3, 3, 3, 1]], split := [(1, 2)], combine := [] } [2, 1] = some [1, 1] := by decide
example : ∀ i k, ([(1, 2)] : List (Nat × Nat)).lookup i = some k → 0 < k := by
  intro i k h
  by_cases hi : i = 1
  · subst hi; simp [List.lookup] at h; omega
  · have : (i == 1) = false := by simpa using hi
    simp [List.lookup, this] at h

/-- the scan level (`reduce = identity`, `combine_sizes = split`): every group must be full, which holds when
the split size divides the number of blocks (this is what the `assert` in `scan` enforces while building). -/
theorem C12_block_shape_ok_scan_level (p : PartialReduce) (hk : p.kind = .concat) (hc : p.combine = p.split)
    (hs : ∀ j c k, p.x[j]? = some c → p.split.lookup j = some k → 0 < k ∧ k ∣ c.length)
    (coords s : List Nat) (he : extents (prChunkss p) coords = some s) : prBlock p coords = some s := by
  apply prBlock_ok p _ coords s he
  intro j c k b hj hk' hb
  have ⟨hpos, hdvd⟩ := hs j c k hj hk'
  refine ⟨hpos, ?_⟩
  simp only [prAxisLen, hk, hc, hk', Option.getD_some]
  exact concat_group_full k c.length b hpos hdvd hb

example : prBlock { x := [[1, 1, 1, 1]], split := [(0, 2)], combine := [(0, 2)], kind := .concat } [1] = some [2] := by decide
example : (2 : Nat) ∣ ([1, 1, 1, 1] : List Nat).length := ⟨2, rfl⟩
/-- … and a group that is not full would be written into a longer region (7 blocks, split 5) -/
example : extents (prChunkss { x := [[1, 1, 1, 1, 1, 1, 1]], split := [(0, 5)], combine := [(0, 5)], kind := .concat }) [1] = some [5]
    ∧ prBlock { x := [[1, 1, 1, 1, 1, 1, 1]], split := [(0, 5)], combine := [(0, 5)], kind := .concat } [1] = some [2] := by decide

/-- `tree_reduce`: after `d` rounds with `k^d ≥ nb` a reduced axis has one block (so its declared length
is 1, NumPy's keepdims length). -/
theorem C12_tree_reduce_reaches_one (k d nb : Nat) (hk : 0 < k) (hnb : 0 < nb) (h : nb ≤ k ^ d) :
    treeLevels k d nb = 1 ∧ (List.replicate (treeLevels k d nb) 1).sum = 1 := by
  rw [treeLevels_one k d nb hk hnb h]; exact ⟨rfl, rfl⟩

example : treeLevels 4 2 13 = 1 := by decide

/-- reference: after the tree every reduced axis is the single chunk `(1,)`; with `keepdims` the declared
shape is NumPy's (1 on the reduced axes), without it the reduced axes are squeezed away
(`C12_declared_eq_reference_squeeze`). -/
theorem C12_declared_eq_reference_reduction (x : Chunks) (axes : List Nat) :
    shapeOf (mapIdxFrom (fun i c => if axes.contains i then [1] else c) 0 x) = reducedShape (shapeOf x) axes true :=
  reduced_keepdims_shape x axes

example : reducedShape [9, 3, 5] [0, 2] true = [1, 3, 1] ∧ reducedShape [9, 3, 5] [0, 2] false = [3] := by decide

/-- `adjust_chunks={i: k}` / `map_blocks(chunks=(…, k, …))` with an integer: every block of that axis is declared
with length `k` (the block function must return exactly `k` entries there, e.g. 1 for the arg-reductions' first
step) and the number of blocks is unchanged. -/
theorem C12_adjust_chunks_const (c c' : List Nat) (k b v : Nat)
    (h : applyAdjust (some (.const k)) c = some c' ) (hv : c'[b]? = some v) : v = k ∧ b < c.length := by
  simp only [applyAdjust, Option.some.injEq] at h
  subst h
  exact adjust_const_block c k b v hv

example : applyAdjust (some (.const 1)) [4, 4, 1] = some [1, 1, 1] := by decide

/-! ### concat, stack, unstack, repeat -/

/-- `concat`: the block function allocates the declared chunk (`target_chunks[block_id]`); the declared
length along the axis is the sum of the operands' lengths and is chunked as a regular grid. -/
theorem C12_block_shape_ok_concat (c : Concat) (d : Chunks) (hd : concatChunkss c = some d)
    (coords : List Nat) : concatBlock c coords = extents d coords := by
  simp [concatBlock, hd]

theorem C12_declared_eq_reference_concat (cmax total : Nat) (hc : 0 < cmax) :
    (regGrid cmax total).sum = total ∧ Canon (regGrid cmax total) :=
  ⟨regGrid_sum cmax total, canon_regGrid cmax total hc⟩

example : concatChunkss { args := [[[4, 4, 1], [3]], [[2], [3]]], axis := 0 } = some [[4, 4, 3], [3]] := by decide

/-- the pieces `_array_slices` yields for the out block `[start, stop)` of the concatenated axis (one per
operand it overlaps) have total length `stop - start`: the allocated block is filled completely, by
in-range pieces. -/
theorem C12_concat_pieces_cover (lens : List Nat) (start stop : Nat) (h1 : start ≤ stop) (h2 : stop ≤ lens.sum) :
    piecesLen (arraySlices lens 0 0 start stop) = stop - start := by
  rw [arraySlices_len]; omega

example : arraySlices [9, 2, 0, 5] 0 0 8 12 = [(0, 8, 9), (1, 0, 2), (3, 0, 1)] := by decide

/-- clause "every block written by `stack` matches its region" -/
def StackBlockShapeOK (args : List Chunks) (axis : Nat) : Prop :=
  ∀ d, stackChunkss args axis = some d → ∀ coords s, extents d coords = some s → stackBlock args axis coords = some s

/-- … holds when all operands have the same chunks … -/
theorem C12_stack_block_shape_partial (args : List Chunks) (axis : Nat) (a : Chunks) (hargs : ∀ x ∈ args, x = a) :
    StackBlockShapeOK args axis :=
  fun d hd coords s he => stackBlock_ok args axis a hargs d hd coords s he

example : StackBlockShapeOK [[[2, 1]], [[2, 1]]] 0 := C12_stack_block_shape_partial _ 0 [[2, 1]] (by decide)
example : stackChunkss [[[2, 1]], [[2, 1]]] 0 = some [[1, 1], [2, 1]] := by decide

/-- … and fails in general (the code takes the chunks of the first operand only): stacking an array chunked
`(2,)` and one chunked `(1,1)` writes a `1×1` block into a `1×2` region. -/
theorem C12_stack_full_fails : ¬ ∀ args axis, StackBlockShapeOK args axis := by
  intro h
  have := h [[[2]], [[1, 1]]] 0 [[1, 1], [2]] (by decide) [1, 0] [1, 2] (by decide)
  revert this; decide

theorem C12_declared_eq_reference_stack (k : Nat) : (List.replicate k 1).sum = k := sum_replicate_one k

example : shapeOf [[1, 1], [2, 1]] = [2, 3] := by decide

/-- `unstack`: every yielded slice has the extents of the declared chunk (the input chunks without `axis`). -/
theorem C12_block_shape_ok_unstack (x : Chunks) (axis : Nat) (d : Chunks) (hd : unstackChunkss x axis = some d)
    (coords : List Nat) : unstackBlock x axis coords = extents d coords := by
  unfold unstackChunkss at hd
  unfold unstackBlock
  split at hd
  · next h => rw [if_pos h]; simp at hd; rw [hd]
  · simp at hd

example : unstackChunkss [[2, 1], [2, 2]] 0 = some [[2, 2]] ∧ unstackBlock [[2, 1], [2, 2]] 0 [1] = some [2] := by decide

/-- `repeat(x, r, axis)`: the slice `[bi*c, (bi+1)*c)` of the `r`-fold repeated input block `coords[axis] // r`
(`bi = coords[axis] % r`) has exactly the length of chunk `coords[axis]` of the regular grid with the input's
chunk size over `n*r` — including the clipped last chunks. -/
theorem C12_block_shape_ok_repeat (x : Chunks) (r axis : Nat) (hr : 0 < r) (hcan : ∀ c ∈ x, Canon c)
    (d : Chunks) (hd : repeatChunkss x r axis = some d) (coords s : List Nat) (he : extents d coords = some s) :
    repeatBlock x r axis coords = some s :=
  repeatBlock_ok x r axis hr hcan d hd coords s he

example : repeatChunkss [[4, 4, 1]] 3 0 = some [[4, 4, 4, 4, 4, 4, 3]]
    ∧ repeatBlock [[4, 4, 1]] 3 0 [6] = some [3] ∧ repeatBlock [[4, 4, 1]] 3 0 [5] = some [4] := by decide

theorem C12_declared_eq_reference_repeat (c n r : Nat) : (regGrid c (n * r)).sum = n * r := regGrid_sum c (n * r)

example : ∀ c ∈ ([[4, 4, 1]] : Chunks), Canon c := by
  intro c hc
  simp at hc; subst hc
  exact ⟨4, 9, by decide, by decide⟩
example : shapeOf [[4, 4, 4, 4, 4, 4, 3]] = [9 * 3] := by decide

/-! ### copy regions (rechunk, merge_chunks) and index -/

/-- `_rechunk` / `merge_chunks`: the block assembled for the selection `get_item(copy chunks, coords)` has the
extents of that copy chunk. -/
theorem C12_block_shape_ok_copy_regions (x : Chunks) (copy : List Nat) (d : Chunks) (hd : copyChunkss x copy = some d)
    (coords s : List Nat) (he : extents d coords = some s) : copyBlock x copy coords = some s :=
  copyBlock_ok x copy d hd coords s he

example : copyChunkss [[4, 4, 1], [3]] [3, 2] = some [[3, 3, 3], [2, 1]]
    ∧ copyBlock [[4, 4, 1], [3]] [3, 2] [2, 1] = some [3, 1] := by decide

/-- `index` with integers, integer arrays and slices of any positive step (negative steps are converted to
positive ones followed by `flip`): the block zarr's indexer assembles for out block `coords` has the extents
of the declared chunk.  `SelOK`: the slice's step is positive and its stop is within the axis (ndindex's
canonical form). -/
theorem C12_block_shape_ok_index (x : Chunks) (sels : List Sel) (hok : ∀ p ∈ x.zip sels, SelOK p.1 p.2)
    (d : Chunks) (hd : indexChunkss x sels = some d) (coords s : List Nat) (he : extents d coords = some s) :
    indexBlock x sels coords = some s :=
  indexBlock_ok x sels hok d hd coords s he

example : indexChunkss [[4, 4, 4, 1], [3]] [.slice 1 12 3 3, .int] = some [[1, 1, 1, 1]]
    ∧ indexBlock [[4, 4, 4, 1], [3]] [.slice 1 12 3 3, .int] [3] = some [1]
    ∧ indexChunkss [[4, 4, 4, 1]] [.slice 1 12 2 2] = some [[2, 2, 2]]
    ∧ indexBlock [[4, 4, 4, 1]] [.slice 1 12 2 2] [2] = some [2] := by decide
example : ∀ p ∈ ([[4, 4, 4, 1], [3]] : Chunks).zip [Sel.slice 1 12 3 3, Sel.int], SelOK p.1 p.2 := by
  intro p hp
  simp at hp
  rcases hp with rfl | rfl
  · exact ⟨by decide, by decide⟩
  · trivial

/-- reference: the declared length `⌈(stop-start)/step⌉` of a sliced axis counts the selected positions. -/
theorem C12_declared_eq_reference_slice (start stop step k : Nat) (hstep : 0 < step) :
    k < sliceLen start stop step ↔ start + k * step < stop :=
  sliceLen_spec start stop step k hstep

example : sliceLen 1 12 3 = 4 ∧ 1 + 3 * 3 < 12 ∧ ¬ (1 + 4 * 3 < 12) := by decide

/-! ### tall-and-skinny QR -/

/-- clause "every block written by the first step of `qr` matches its region" -/
def QrBlockShapeOK (a : Chunks) : Prop :=
  ∀ q r, qr1Chunkss a = some (q, r) → ∀ coords sq sr,
    extents q coords = some sq → extents r coords = some sr → qr1Block a coords = some (sq, sr)

/-- … holds when every row chunk has at least as many rows as there are columns … -/
theorem C12_qr_block_shape_partial (rows : List Nat) (n : Nat) (hrows : ∀ m ∈ rows, n ≤ m) :
    QrBlockShapeOK [rows, [n]] := by
  intro q r hqr coords sq sr hq hr
  simp only [qr1Chunkss, maxOf_singleton, Option.some.injEq, Prod.mk.injEq] at hqr
  obtain ⟨rfl, rfl⟩ := hqr
  exact qr1Block_ok rows n hrows coords sq sr hq hr

example : QrBlockShapeOK [[4, 4], [4]] := C12_qr_block_shape_partial [4, 4] 4 (by decide)

/-- … and fails in general: 9×4 with 4-row chunks — the last R-block is 1×4 but declared 4×4, the last Q-block
1×1 but declared 1×4 (zarr broadcasts both silently). -/
theorem C12_qr_full_fails : ¬ ∀ a, QrBlockShapeOK a := by
  intro h
  have := h [[4, 4, 1], [4]] [[4, 4, 1], [4]] [[4, 4, 4], [4]] (by decide) [2, 0] [1, 4] [4, 4] (by decide) (by decide)
  revert this; decide

/-- second and third step: with at least as many rows as columns in the stacked R the blocks are as declared;
the final shapes `(m, n)`, `(n, n)` are NumPy's reduced-mode shapes for `m ≥ n`. -/
theorem C12_qr_later_steps (r n m : Nat) (h : n ≤ r) :
    qr2Block r n = ([r, n], [n, n]) ∧ (qr2Chunkss r n).1 = [[r], [n]] ∧ (qr2Chunkss r n).2 = [[n], [n]]
      ∧ (n ≤ m → qrShapes m n = ([m, n], [n, n])) := by
  refine ⟨by simp [qr2Block, qrShapes, Nat.min_eq_right h], rfl, rfl, fun hm => by simp [qrShapes, Nat.min_eq_right hm]⟩

example : qr3Block [[4, 4, 1], [4]] 12 4 [2, 0] = some [1, 4] := by decide

end Cubed.C12
