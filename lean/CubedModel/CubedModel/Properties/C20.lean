/-
  C20 — Serialized arrays compute the same and are never confused with other arrays.

  Property theorems only (helper lemmas live in Proofs/Names.lean).  All statements are for arbitrary
  value interpretations `I`, arbitrary process states, arbitrary programs / plans — nothing is bounded.

  The unchanged code falsifies the cross-process clause: the full statement is kept as
  `CrossProcessCombineCorrect`, refuted by `C20_cross_process_fails` from the reproduced history, and
  proved under the decidable hypothesis `NamesAgree …` (`C20_combine_correct_partial`,
  `C20_merge_correct_partial`).
-/
import CubedModel.Proofs.Names
import CubedModel.Model.GeneratedC20

namespace Cubed.C20

open Cubed.Names

/-! ### name generation -/

/-- `gensym` returns the next counter value of its module and increments only that counter, so within
one process a generated name is larger than every name the same module generated before. -/
theorem C20_gensym_fresh (P : Proc) (m : Module) (pfx : String) :
    (P.gensym m pfx).1 = ⟨pfx, P.ctr m + 1⟩ ∧ (P.gensym m pfx).2.ctr m = P.ctr m + 1 ∧
    (∀ m', m' ≠ m → (P.gensym m pfx).2.ctr m' = P.ctr m') ∧ (P.gensym m pfx).2.ctx = P.ctx := by
  refine ⟨rfl, ?_, ?_, ?_⟩
  · cases m <;> rfl
  · intro m' h; cases m <;> cases m' <;> first | rfl | exact absurd rfl h
  · cases m <;> rfl

/-- The root of the defect: any two freshly started processes generate the *same* names. -/
theorem C20_fresh_processes_generate_equal_names (c₁ c₂ : Nat) (m : Module) (pfx : String) :
    ((Proc.fresh c₁).gensym m pfx).1 = ((Proc.fresh c₂).gensym m pfx).1 := by
  cases m <;> rfl

/-- … whereas the storage locations they create differ (the context directory is per process). -/
theorem C20_fresh_processes_use_distinct_locations (c₁ c₂ : Nat) (h : c₁ ≠ c₂) (fn : String)
    (xs ys : List Arr) :
    ((Proc.fresh c₁).apply fn xs).1.loc ≠ ((Proc.fresh c₂).apply fn ys).1.loc := by
  intro e
  simp only [apply_eq, Proc.fresh] at e
  injection e with e1 _
  exact h e1

/-- The regenerated source facts are the ones the model is built on: five per-module counters starting
at 0 and pre-incremented by 1, the name format, no pickling hook and no other writer of a counter,
`nx.compose_all` over the plans in argument order, one `gensym()` in `Plan._new` followed by
`add_node` (overwrite) of the two new nodes, `reads_map` keyed by array name, target path = name. -/
theorem C20_generated_facts_match_model :
    GeneratedC20.gensymModules =
      Module.all.map (fun m => (m.path, m.defaultPrefix, (Proc.fresh 0).ctr m,
        ((Proc.fresh 0).gensym m "").1.idx - (Proc.fresh 0).ctr m, "pre")) ∧
    GeneratedC20.gensymFormat = "{name}-{sym_counter:03}" ∧
    GeneratedC20.picklingHooks = [] ∧
    (GeneratedC20.counterWriters.length = 5 ∧
      GeneratedC20.counterWriters.all (fun w => (Module.all.map (fun m => m.path ++ ":gensym")).contains w) = true) ∧
    GeneratedC20.composeCall = "nx.compose_all(dags)" ∧
    GeneratedC20.composeOrder = "arrays-in-argument-order" ∧
    GeneratedC20.planNewGensyms = 1 ∧ GeneratedC20.planNewComposesSources = true ∧
    GeneratedC20.newNodesOverwrite = true ∧ GeneratedC20.sourceEdgesByName = true ∧
    GeneratedC20.readsKeyedByName = true ∧ GeneratedC20.targetPathIsName = true ∧
    GeneratedC20.chunkReadByKeyName = true ∧ GeneratedC20.inNamesFromArrays = true ∧
    GeneratedC20.contextIdHasUuid = true := by
  decide

/-! ### merging plans -/

/-- (partial) Composing plans (`nx.compose_all`) preserves the value of every array of every constituent
plan, **provided equal names denote equal nodes**: whatever `x` computes to with its own plan it
computes to with the composed plan. -/
theorem C20_merge_correct_partial {V : Type} (I : Interp V) (dags : List Dag)
    (hag : NamesAgree dags) (x : Arr) (hx : x.dag ∈ dags) (v : V) (h : Denotes I x v) :
    Denotes I { x with dag := merge dags } v := by
  obtain ⟨n, hn⟩ := h
  exact ⟨n, valArr_merge I dags hag x.dag hx n x.name x.loc v hn⟩

/-- The hypothesis of the partial theorems is decidable, by the executable test the driver uses. -/
theorem C20_namesAgree_decidable (dags : List Dag) : NamesAgree dags ↔ namesAgreeB dags = true :=
  ⟨check_of_namesAgree dags, namesAgree_of_check dags⟩

/-- (partial) One combination step `fn(*xs)` in any process state `P`, for operands built anywhere:
if the operand plans and the two nodes about to be added agree on names, the result computes to `fn`
applied to what the operands compute to. -/
theorem C20_combine_correct_partial {V : Type} (I : Interp V) (P : Proc) (fn : String)
    (xs : List (Arr × V)) (hx : ∀ p ∈ xs, Denotes I p.1 p.2)
    (hag : NamesAgree (xs.map (·.1.dag) ++ [P.newNodes fn (xs.map (·.1))])) :
    Denotes I (P.apply fn (xs.map (·.1))).1 (I.app fn (xs.map (·.2))) :=
  apply_denotes I P fn xs hx hag

/-! ### one process -/

/-- Within one process — started with any counter values, running any program of creations,
combinations, failed builds and pickle round trips — every generated name is fresh, so all plans
built so far agree on names. -/
theorem C20_single_process_names_agree {V : Type} (I : Interp V) (P : Proc) (prog : List (Instr V))
    (hloc : ∀ ins ∈ prog, ins.isLocal = true) :
    NamesAgree ((run I P prog).2.map (·.1.dag)) := by
  obtain ⟨G, inv⟩ := run_inv I prog P [] []
    hloc ⟨by simp, by simp [assocGet], by simp⟩
  apply namesAgree_of_subMap _ G
  intro d hd n x h
  obtain ⟨p, hp, e⟩ := List.mem_map.mp hd
  subst e
  exact inv.sub p hp n x h

/-- … and every array computes to its reference value (the value of the expression that built it),
including arrays that went through `cloudpickle.loads(cloudpickle.dumps(·))` and arrays combined with
their own copies or with relatives of the original. -/
theorem C20_single_process_correct {V : Type} (I : Interp V) (P : Proc) (prog : List (Instr V))
    (hloc : ∀ ins ∈ prog, ins.isLocal = true) :
    ∀ p ∈ (run I P prog).2, Denotes I p.1 p.2 := by
  obtain ⟨G, inv⟩ := run_inv I prog P [] []
    hloc ⟨by simp, by simp [assocGet], by simp⟩
  exact inv.den

/-- Pickle → unpickle is the identity on the array (name, storage location, plan) and leaves every
counter of the process where it was. -/
theorem C20_roundtrip_same_process (P : Proc) (x : Arr) : unpickle P (pickle x) = (x, P) := rfl

/-- Consequently the copy computes to the same value, and can join any family of plans the original
agrees with. -/
theorem C20_roundtrip_preserves {V : Type} (I : Interp V) (P : Proc) (x : Arr) (v : V)
    (dags : List Dag) :
    (Denotes I x v → Denotes I (unpickle P (pickle x)).1 v) ∧
    (NamesAgree (x.dag :: dags) → NamesAgree ((unpickle P (pickle x)).1.dag :: x.dag :: dags)) := by
  refine ⟨fun h => h, fun h => ?_⟩
  apply namesAgree_sublist (x.dag :: dags) _ _ h
  intro d hd
  rcases List.mem_cons.mp hd with e | e
  · subst e; simp [unpickle, pickle]
  · exact e

/-! ### two processes -/

/-- An array deserialized in *another* process (any state `Q`) computes, on its own, to the value
it had where it was built. -/
theorem C20_recv_alone_correct {V : Type} (I : Interp V) (Q : Proc) (x : Arr) (v : V)
    (h : Denotes I x v) : Denotes I (unpickle Q (pickle x)).1 v ∧ (unpickle Q (pickle x)).2 = Q :=
  ⟨h, rfl⟩

/-- The full cross-process clause of the property: a child process (fresh counters, context `c`)
builds `x`; the parent (fresh counters, context `p`) builds `y`, deserializes `x` and combines them;
the result computes to `fn` of the two values. -/
def CrossProcessCombineCorrect : Prop :=
  ∀ (V : Type) (I : Interp V) (c p : Nat), c ≠ p →
  ∀ (progC progP : List (Instr V)),
    (∀ ins ∈ progC, ins.isLocal = true) → (∀ ins ∈ progP, ins.isLocal = true) →
  ∀ (i j : Nat) (x y : Arr × V) (fn : String),
    (run I (Proc.fresh c) progC).2[i]? = some x → (run I (Proc.fresh p) progP).2[j]? = some y →
    Denotes I (((unpickle (run I (Proc.fresh p) progP).1 (pickle x.1)).2).apply fn
      [(unpickle (run I (Proc.fresh p) progP).1 (pickle x.1)).1, y.1]).1 (I.app fn [x.2, y.2])

/-- (partial) The clause holds whenever the two plans and the new nodes agree on names. -/
theorem C20_cross_process_combine_partial {V : Type} (I : Interp V) (c p : Nat)
    (progC progP : List (Instr V))
    (hC : ∀ ins ∈ progC, ins.isLocal = true) (hP : ∀ ins ∈ progP, ins.isLocal = true)
    (i j : Nat) (x y : Arr × V) (fn : String)
    (hx : (run I (Proc.fresh c) progC).2[i]? = some x) (hy : (run I (Proc.fresh p) progP).2[j]? = some y)
    (hag : NamesAgree [x.1.dag, y.1.dag, (run I (Proc.fresh p) progP).1.newNodes fn [x.1, y.1]]) :
    Denotes I (((unpickle (run I (Proc.fresh p) progP).1 (pickle x.1)).2).apply fn
      [(unpickle (run I (Proc.fresh p) progP).1 (pickle x.1)).1, y.1]).1 (I.app fn [x.2, y.2]) := by
  have dx := C20_single_process_correct I (Proc.fresh c) progC hC x (List.mem_of_getElem? hx)
  have dy := C20_single_process_correct I (Proc.fresh p) progP hP y (List.mem_of_getElem? hy)
  have := apply_denotes I (run I (Proc.fresh p) progP).1 fn [x, y]
    (by intro q hq; rcases List.mem_cons.mp hq with e | e
        · subst e; exact dx
        · simp at e; subst e; exact dy)
    (by simpa using hag)
  simpa [unpickle, pickle] using this

/-! The reproduced history: child `b = -asarray([10,20,30,40])`, parent `d = -asarray([1,2,3,4])`,
both are `array-002`; `b + d` in the parent. -/

/-- A value interpretation that keeps operands apart: a value is the list of the data ids it was
computed from, tagged with the length of the function name. -/
def witnessI : Interp (List Nat) :=
  { input := fun l => match l with
      | .data k => [k]
      | .zarr _ _ => [0],
    app := fun f vs => f.length :: vs.flatten }

def childProg : List (Instr (List Nat)) := [.leaf 10, .apply "negative" [0]]
def parentProg : List (Instr (List Nat)) := [.leaf 1, .apply "negative" [0]]

/-- The cross-process clause fails on the unchanged code: in the reproduced history `b + d` computes
`add(neg 1, neg 1)` instead of `add(neg 10, neg 1)` — `b` is mistaken for `d`. -/
theorem C20_cross_process_fails : ¬ CrossProcessCombineCorrect := by
  intro h
  have hd := h (List Nat) witnessI 1 0 (by decide) childProg parentProg (by decide) (by decide) 1 1
    ((run witnessI (Proc.fresh 1) childProg).2[1]!) ((run witnessI (Proc.fresh 0) parentProg).2[1]!)
    "add" (by decide) (by decide)
  have hactual : Denotes witnessI
      (((unpickle (run witnessI (Proc.fresh 0) parentProg).1
          (pickle ((run witnessI (Proc.fresh 1) childProg).2[1]!).1)).2).apply "add"
        [(unpickle (run witnessI (Proc.fresh 0) parentProg).1
          (pickle ((run witnessI (Proc.fresh 1) childProg).2[1]!).1)).1,
         ((run witnessI (Proc.fresh 0) parentProg).2[1]!).1]).1 [3, 8, 1, 8, 1] :=
    ⟨3, by decide⟩
  have := denotes_unique witnessI _ _ _ hd hactual
  exact absurd this (by decide)

/-! ### non-vacuity -/

/-- the two plans of the reproduced history do *not* agree on names … -/
example : ¬ NamesAgree [((run witnessI (Proc.fresh 1) childProg).2[1]!).1.dag,
    ((run witnessI (Proc.fresh 0) parentProg).2[1]!).1.dag] := by decide

/-- … the value the child's array has on its own is the right one (`C20_recv_alone_correct`) … -/
example : denote witnessI ((run witnessI (Proc.fresh 1) childProg).2[1]!).1 = some [8, 10] := by decide

/-- … and when the parent had already created three arrays and two more ops than arrays the names are
disjoint, the hypothesis of the partial theorems holds and the combination is right. -/
def busyParentProg : List (Instr (List Nat)) :=
  [.leaf 5, .leaf 6, .apply "negative" [1], .bump, .leaf 1, .apply "negative" [3]]

example : (run witnessI (Proc.fresh 0) busyParentProg).2[4]?.map (·.1.name) = some ⟨"array", 6⟩ := by decide

example :
    let x := (run witnessI (Proc.fresh 1) childProg).2[1]!
    let y := (run witnessI (Proc.fresh 0) busyParentProg).2[4]!
    let P := (run witnessI (Proc.fresh 0) busyParentProg).1
    NamesAgree [x.1.dag, y.1.dag, P.newNodes "add" [x.1, y.1]] ∧
    denote witnessI (P.apply "add" [x.1, y.1]).1 = some [3, 8, 10, 8, 1] := by decide

/-- a single process with a round trip and a combination of the copy with a relative of the original:
hypotheses of the single-process theorems hold (all instructions local) and the values are defined. -/
def localProg : List (Instr (List Nat)) :=
  [.leaf 1, .apply "negative" [0], .roundtrip 1, .leaf 2, .apply "subtract" [2, 0], .apply "add" [4, 1, 3]]

example : (∀ ins ∈ localProg, ins.isLocal = true) ∧
    ((run witnessI (Proc.fresh 7) localProg).2.map (fun p => denote witnessI p.1 == some p.2)).all id = true := by
  decide

/-- a merge of agreeing plans that is not a no-op: two plans sharing an ancestor. -/
example :
    let r := (run witnessI (Proc.fresh 7) localProg).2
    NamesAgree [r[1]!.1.dag, r[4]!.1.dag] ∧ (merge [r[1]!.1.dag, r[4]!.1.dag]).length = 12 ∧
    (live (merge [r[1]!.1.dag, r[4]!.1.dag])).length = 6 := by decide

end Cubed.C20
