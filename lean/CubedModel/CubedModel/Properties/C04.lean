/-
  C04 — Over-budget plans are refused before anything runs; fusion stays within budget.
-/
import CubedModel.Proofs.Optimize

namespace Cubed.C04

open Cubed Cubed.Opt

/-- (a) A plan with an op whose projected memory exceeds the allowed memory is refused: the outcome
carries no event and no write (nothing ran, nothing was written). The comparison operator, the fact that
`execute` calls `validate()` first and that `validate` raises iff the finalized plan recorded an
exceeding op are regenerated from the source on every run. -/
theorem C04_execute_refuses {E W : Type} (d : DagRec) (run : DagRec → List E × List W)
    (o : OpRec) (ho : o ∈ d.ops) (hp : o.isPrim = true) (hex : o.projMem > o.allowedMem) :
    execute d run = Outcome.refused := by
  have hadm : admits d = false := by
    cases h : admits d with
    | false => rfl
    | true => have := (admit_iff d).mp h o ho hp; omega
  have h1 : Generated.executeValidatesFirst = true := by decide
  have h2 : Generated.validateRaisesIffExceeding = true := by decide
  have h3 : Generated.finalizeRecordsExceeding = true := by decide
  simp [execute, hadm, h1, h2, h3]

/-- (b) … otherwise execution proceeds. -/
theorem C04_execute_admits {E W : Type} (d : DagRec) (run : DagRec → List E × List W)
    (h : ∀ o ∈ d.ops, o.isPrim = true → o.projMem ≤ o.allowedMem) :
    execute d run = Outcome.ran (run d).1 (run d).2 := by
  have hadm : admits d = true := (admit_iff d).mpr h
  simp [execute, hadm]

/-- (c) The default optimizer — any `max_total_source_arrays`, any `max_total_num_input_blocks`
(incl. None), any `never_fuse`, but no forced fusion — never turns a plan that fits within the
allowed memory into one that does not. -/
theorem C04_fusion_within_budget (d d' : DagRec) (order : List String) (ps : Params)
    (hal : ps.always = none) (hadm : admits d = true) (h : optimize d order ps = some d') :
    admits d' = true :=
  (admit_iff d').mpr (optimize_fits order d d' ps hal ((admit_iff d).mp hadm) h)

/-- (d) No optimizer (forced ones included) reports less projected memory for a fused op than for
the successor or any of the ops it replaced. -/
theorem C04_fused_mem_ge (o : OpRec) (preds : List (Option OpRec)) :
    o.projMem ≤ (fuseRec o preds).projMem ∧
    ∀ p, some p ∈ preds → p.projMem ≤ (fuseRec o preds).projMem :=
  fused_mem_ge o preds

/-- (d') the same for the legacy pairwise `fuse`. -/
theorem C04_fused_pair_mem_ge (o1 o2 : OpRec) :
    o1.projMem ≤ (fusePairRec o1 o2).projMem ∧ o2.projMem ≤ (fusePairRec o1 o2).projMem := by
  have hgen : Generated.fusedPairMemIsMax = true := by decide
  simp only [fusePairRec, hgen, if_true]
  omega

/-- (d'') exact value: the fused op's projected memory is the larger of the successor's own and the modelled peak of
running the fused predecessors back to back (`peak_projected_mem`). -/
theorem C04_fused_mem_exact (o : OpRec) (preds : List (Option OpRec)) :
    ((fuseRec o preds).projMem : Int) = max (o.projMem : Int) (peakProjected (preds.filterMap id)) := by
  have hgen : Generated.fusedMemIsMax = true := by decide
  simp only [fuseRec, hgen, if_true]
  have := peak_nonneg (preds.filterMap id)
  omega

/-- (e) End to end: a plan that is admitted unoptimized is still admitted — and therefore executed, not refused —
after the default optimizer ran with any limits (no forced fusion). -/
theorem C04_optimized_plan_runs {E W : Type} (d d' : DagRec) (order : List String) (ps : Params)
    (run : DagRec → List E × List W)
    (hal : ps.always = none) (hadm : admits d = true) (h : optimize d order ps = some d') :
    execute d' run = Outcome.ran (run d').1 (run d').2 := by
  have hfit := optimize_fits order d d' ps hal ((admit_iff d).mp hadm) h
  exact C04_execute_admits d' run hfit

/-! Non-vacuity -/

def exOp (n : String) (src outs : List String) (pm : Nat) : OpRec :=
  { name := n, sources := src, inEdges := src, outputs := outs, isPrim := true, blockwise := true,
    fusPred := true, fusSucc := true, numTasks := 4, numInputBlocks := src.map (fun _ => 1),
    projMem := pm, allowedMem := 100, targetChunkMem := 10 }

def exDag : DagRec :=
  { ops := [ { exOp "op-000" [] ["array-001"] 0 with isPrim := false },
             exOp "op-002" ["array-001"] ["array-003"] 50,
             exOp "op-004" ["array-003"] ["array-005"] 60 ],
    virtual := [] }

-- the example dag is admitted, the optimizer fuses op-002 into op-004, and the result is admitted
example : admits exDag = true := by decide
example : (fusePreds exDag "op-004" { arrayNames := ["array-005"] }).map
      (fun d => d.ops.map (fun o => (o.name, o.sources, o.projMem)))
    = some [("op-000", [], 0), ("op-004", ["array-001"], 60)] := by decide
example : admits { exDag with ops := exDag.ops.map (fun o => { o with allowedMem := 55 }) } = false := by decide

end Cubed.C04
