/-
  C10 — A lazy array's value is fixed when built; inputs and earlier outputs stay intact.

  Property theorems only (model: Model/History.lean, lemmas: Proofs/History.lean).  All statements range
  over *every* history of API calls (derive, compute of any subset optimized or not / resuming or not,
  store / to_zarr eager or lazy of any array, re-compute, plan / visualize / config change), every pool size
  and every fusion size policy `soft`; nothing is enumerated.

  The unchanged code falsifies the full statement: `store`/`to_zarr` re-targets a lazy array *in place*,
  behind the back of arrays already derived from it.  So
    * `C10_full` is kept as a `def … : Prop`,
    * `C10_partial` proves it under the explicit decidable hypothesis `NoLate` (no call stores a lazy array
      that already has dependants),
    * `C10_full_fails` refutes it from the concrete history  x = a+1; y = x*2; to_zarr(x, p); y.compute().
  Two clauses hold unconditionally, defect or not: what an array was *built* to be never changes
  (`C10_value_fixed_at_build`), and source data is never written (`C10_sources_never_written`).
-/
import CubedModel.Proofs.History
import CubedModel.Model.GeneratedC10

namespace Cubed.C10

open Cubed.History

/-! ### two concrete sessions used for the examples and the refutation -/

/-- x = a+1; y = x*2; to_zarr(x, p); y.compute()  —  pool: 0 = a (in-memory input 0), 1 = x = F₁(a),
2 = y = F₂(x); target 0 = p -/
def witness : List Step :=
  [.input true 0, .derive 1 [0] true true, .derive 2 [1] true true, .store [(1, 0)] true true,
   .compute [2] true false]

def beforeStore : State := (State.run softAll {} (witness.take 3)).1
def afterStore : State := (State.run softAll {} (witness.take 4)).1

/-- A history that satisfies the hypothesis of `C10_partial`, over a diamond: a; x = F₁(a); y = F₂(x, a);
z = F₃(y); to_zarr(z, p) eagerly (z has no dependants yet); w = F₄(z, x) derived afterwards; compute [w, x]
optimized with resume; lazy store of the input a (identity branch, new array 5); recompute y unoptimized;
v = from_zarr(p) (array 6); compute [v, w]. -/
def safeHist : List Step :=
  [.input true 0, .derive 1 [0] true true, .derive 2 [1, 0] true true, .derive 3 [2] true true,
   .store [(3, 0)] true true, .derive 4 [3, 1] true true, .compute [4, 1] true true,
   .store [(0, 1)] false true, .compute [2] false false, .fromZarr 0, .compute [6, 4] true false]

def safeEnd : State := (State.run softAll {} safeHist).1

/-- the invariant holds at the end of the safe session (hypothesis of (a) and (b) is inhabited, non-trivially:
7 arrays, 2 store targets, shared sub-graphs, a re-targeted op) -/
theorem C10_example_session_inv : Inv safeEnd := inv_run_of_noLate softAll safeHist {} inv_init (by decide)

/-- (a) `linked_compute_correct`.  In a state where every consumer reads where its producer currently
writes (`Inv` = structural well-formedness ∧ `Linked` ∧ store contents are built values), `compute` of any
arrays — optimized or not, resuming or not, whatever the fusion size policy — succeeds, returns exactly
`denote` (the value determined solely by how each array was built), modifies no existing content of any
location (sources, earlier targets, intermediates: an existing value is at most rewritten with itself),
and re-establishes the invariant. -/
theorem C10_linked_compute_correct (soft : List OpObj → List XOp → Nat → Bool) (s : State) (hi : Inv s)
    (idxs : List Nat) (opt resume : Bool) (as : List Arr)
    (has : mapOpt (fun i => s.arrs[i]?) idxs = some as) (hne : as.isEmpty = false) :
    ∃ s' vs, s.compute soft idxs opt resume = some (s', vs) ∧
      mapOpt (fun a => denote s.heap a.name) as = some vs ∧
      Inv s' ∧ (∀ l v, s.store l = some v → s'.store l = some v) := by
  obtain ⟨s', vs, h1, h2, h3, h4, h5, h6, h7⟩ := compute_ok soft s hi idxs opt resume as has hne
  exact ⟨s', vs, h1, h2, inv_of_compute_ok hi h3 h4 h5 h6, h7⟩

example : ∃ s' vs, safeEnd.compute softAll [4, 2, 6] true true = some (s', vs) ∧ Inv s' := by
  have hsome : (mapOpt (fun i => safeEnd.arrs[i]?) [4, 2, 6]).isSome = true := by decide
  cases has : mapOpt (fun i => safeEnd.arrs[i]?) [4, 2, 6] with
  | none => rw [has] at hsome; cases hsome
  | some as =>
    have hne : as.isEmpty = false := by
      have := mapOpt_length _ _ _ has
      cases as with
      | nil => simp at this
      | cons _ _ => rfl
    obtain ⟨s', vs, h1, _, h3, _⟩ := C10_linked_compute_correct softAll safeEnd C10_example_session_inv [4, 2, 6] true true as has hne
    exact ⟨s', vs, h1, h3⟩

/-- (b) `step_preserves_linked_partial`.  Every API call except a late re-targeting keeps the invariant,
and behaves as the property demands (`GoodStep`). -/
theorem C10_step_preserves_linked_partial (soft : List OpObj → List XOp → Nat → Bool) (s : State)
    (hi : Inv s) (st : Step) (hsafe : st.lateRetarget s = false) :
    Inv (s.step soft st).1 ∧ GoodStep soft s st :=
  step_inv soft s hi st hsafe

example : (Step.store [(4, 7)] true true).lateRetarget safeEnd = false := by decide  -- w has no dependants: (b) applies
example : (Step.store [(1, 0)] true true).lateRetarget beforeStore = true := by decide  -- x has: (b) does not apply

/-- The property at full strength: along every history from the empty session, every call is good. -/
def C10_full : Prop :=
  ∀ (soft : List OpObj → List XOp → Nat → Bool) (hist : List Step), AllGood soft {} hist

/-- (c) The property for all histories without a late re-targeting. -/
theorem C10_partial (soft : List OpObj → List XOp → Nat → Bool) (hist : List Step)
    (h : NoLate soft {} hist = true) : AllGood soft {} hist :=
  allGood_of_noLate soft hist {} inv_init h

example : NoLate softAll {} safeHist = true := by decide
example : AllGood softAll {} safeHist := C10_partial softAll safeHist (by decide)

/-- (d) What an array was built to be is fixed at build time — for **every** history, late re-targeting
included: no call changes `denote` of an existing array, and pool entries keep their identity. -/
theorem C10_value_fixed_at_build (soft : List OpObj → List XOp → Nat → Bool) (hist : List Step) (s : State) :
    PoolStable s (s.run soft hist).1 :=
  poolStable_run soft hist s

/-- (e) `writes_subset_targets`.  A computation changes only locations that its plan's create step creates
(lazy targets of the merged dag of the computed arrays, absent before) or that a primitive op of its plan
writes — for every state, `Linked` or not. -/
theorem C10_writes_subset_targets (soft : List OpObj → List XOp → Nat → Bool) (s : State) (idxs : List Nat)
    (opt resume : Bool) (s' : State) (vs : List Val) (h : s.compute soft idxs opt resume = some (s', vs)) :
    ∃ as, mapOpt (fun i => s.arrs[i]?) idxs = some as ∧ ∀ l, s'.store l = s.store l ∨
      (∃ a ∈ as, ∃ nd ∈ a.dag, nd.lazy = true ∧ nd.target = l ∧ s.store l = none ∧ s'.store l ≠ none) ∨
      (∃ e ∈ (finalize soft s.heap as opt).plan, ∃ o ∈ s.heap, o.prim = true ∧ o.out = e.out ∧
          wlocOf s.heap e.out = some l) :=
  compute_frame soft s idxs opt resume s' vs h

example : (safeEnd.compute softAll [4, 2, 6] false false).isSome = true := by decide

/-- (f) Source data (in-memory inputs, Zarr arrays opened for reading) is never modified — along every
history, late re-targeting included. -/
theorem C10_sources_never_written (soft : List OpObj → List XOp → Nat → Bool) (pre post : List Step)
    (k : Nat) (v : Val) (h : (State.run soft {} pre).1.store (.ext k) = some v) :
    ((State.run soft {} pre).1.run soft post).1.store (.ext k) = some v := by
  have hb : Basic (State.run soft {} pre).1 := by
    have : ∀ (hist : List Step) (s : State), Basic s → Basic (s.run soft hist).1 := by
      intro hist
      induction hist with
      | nil => intro s hs; exact hs
      | cons st rest ih => intro s hs; exact ih _ (basic_step soft s hs st).1
    exact this pre {} basic_init
  exact sources_intact_run soft post _ hb k v h

example : (State.run softAll {} (safeHist.take 1)).1.store (.ext 0) = some (.src 0) := by decide

/-- (h) The code shapes that Model/History.lean transcribes are the ones found in the tree under test
(facts regenerated from the source by harness/extract_c10.py on every run): `_store_array` re-targets a lazy
source in place (array object, its own dag node, the shared op's target / write proxy, not fusable with
successors, returns the same object), plans are merged with `nx.compose_all`, finalization and fusion work on
copies, a fused op is a fresh `PrimitiveOperation` that is fusable again, `reads_map`s are merged by name,
read proxies are captured at build time, `from_zarr` opens read-only, create-arrays uses mode "a". -/
theorem C10_model_matches_source :
    GeneratedC10.storeRetargetsArrayObject = true ∧ GeneratedC10.storeRetargetsOwnDagNode = true ∧
    GeneratedC10.storeRetargetsSharedOp = true ∧ GeneratedC10.storeMarksUnfusable = true ∧
    GeneratedC10.storeReturnsSameObject = true ∧ GeneratedC10.storeIdentityUnfusable = true ∧
    GeneratedC10.fromZarrMode = "r" ∧ GeneratedC10.dagsMergedByComposeAll = true ∧
    GeneratedC10.finalizeCopiesDag = true ∧ GeneratedC10.createArraysMode = "a" ∧
    GeneratedC10.newPlanComposesSources = true ∧ GeneratedC10.fuseCopiesDag = true ∧
    GeneratedC10.canFuseNeedsFlagAndSingleConsumer = true ∧ GeneratedC10.noFuseWhenPredecessorRequested = true ∧
    GeneratedC10.fusedOpFusableAgain = true ∧ GeneratedC10.fusedReadsMergedByName = true ∧
    GeneratedC10.readProxyCapturedAtBuild = true ∧ GeneratedC10.readBackUsesCurrentZarray = true := by
  decide

/-! ### the witness: x = a+1; y = x*2; to_zarr(x, p); y.compute() -/

/-- the fourth call *is* a late re-targeting … -/
example : (Step.store [(1, 0)] true true).lateRetarget beforeStore = true := by decide

/-- … before it the session is `Linked`, after it it is not (y's op still reads x's old location) … -/
theorem C10_late_retarget_breaks_linked : Linked beforeStore ∧ ¬ Linked afterStore := by
  constructor <;> decide

/-- … and y computes to a value made from fill values, not to what it was built to be. -/
theorem C10_witness_values :
    (afterStore.step softAll (.compute [2] true false)).2 = .values [.app 2 [.fill]] ∧
    denote afterStore.heap 2 = some (.app 2 [.app 1 [.src 0]]) := by
  constructor <;> decide

/-- (g) The full statement is false for the code as it is. -/
theorem C10_full_fails : ¬ C10_full := by
  intro h
  have hw := h softAll witness
  simp only [witness, AllGood] at hw
  obtain ⟨_, _, _, _, h5, _⟩ := hw
  have h5' := h5.2
  have hs : ((((({} : State).step softAll (.input true 0)).1.step softAll (.derive 1 [0] true true)).1.step softAll
      (.derive 2 [1] true true)).1.step softAll (.store [(1, 0)] true true)).1 = afterStore := rfl
  rw [hs] at h5'
  cases hm : mapOpt (fun i => afterStore.arrs[i]?) [2] with
  | none =>
    have : (mapOpt (fun i => afterStore.arrs[i]?) [2]).isSome = true := by decide
    rw [hm] at this; cases this
  | some as =>
    obtain ⟨vs, hobs, hden⟩ := h5' as hm (by simp)
    rw [C10_witness_values.1] at hobs
    cases hobs
    have hd : (mapOpt (fun i => afterStore.arrs[i]?) [2]).bind
        (fun as => mapOpt (fun a => denote afterStore.heap a.name) as) = some [.app 2 [.app 1 [.src 0]]] := by
      decide
    rw [hm] at hd
    simp only [Option.bind] at hd
    rw [hd] at hden
    cases hden

/-! ### further concrete facts about the safe session -/

/-- the last compute of the safe history returns the built values (from_zarr of p is z's value) -/
example : ((State.run softAll {} (safeHist.take 10)).1.step softAll (.compute [6, 4] true false)).2
    = .values [.app 3 [.app 2 [.app 1 [.src 0], .src 0]],
               .app 4 [.app 3 [.app 2 [.app 1 [.src 0], .src 0]], .app 1 [.src 0]]] := by decide +kernel

/-- fusion really happens in it: computing z = F₃(F₂(x, a)) alone absorbs y and x into z's op -/
example : ((finalize softAll (State.run softAll {} (safeHist.take 4)).1.heap
    [((State.run softAll {} (safeHist.take 4)).1.arrs[3]?).getD default] true).plan.map (fun e => (e.out, e.members)))
    = [(3, [2, 1])] := by decide

end Cubed.C10
