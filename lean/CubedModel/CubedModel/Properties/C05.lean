/-
  C05 — Every stored chunk has exactly one writer task, written whole; outputs covered.

  Property theorems only (helper lemmas: Proofs/Grid.lean; executable model: Model/Grid.lean).
  All statements are for every rank (lists of per-axis records) and every size; nothing is enumerated.

  Reading guide.  `SingleWriter stored write` (Model/Grid.lean) says: for every chunk key `ks` of the stored
  grid there is a task `cs` (a block coordinate accepted by `get_item` on the write-proxy grid) whose region
  touches `ks`, covers it entirely (zarr then issues one `set` and no prior `get`), and every task whose
  region touches `ks` is that task.  Existence for every key is the coverage clause.
-/
import CubedModel.Proofs.Grid

namespace Cubed.C05

open Cubed.Grid

/-- all sizes of all axes positive -/
def PosN (gs : List (List Nat)) : Prop := ∀ g ∈ gs, Pos g

/-- (model glue) what the driver's `taskWrites` returns is exactly `writesN` / `wholeN` of the task's region. -/
theorem C05_taskWrites_spec (gs ws : List (List Nat)) (cs : List Nat) (l : List (List Nat × Bool))
    (h : taskWrites gs ws cs = some l) :
    ∃ rs, getItemN ws cs = some rs ∧ ∀ ks b, (ks, b) ∈ l ↔ (ks ∈ writesN gs rs ∧ b = wholeN gs rs ks) := by
  unfold taskWrites at h
  cases hg : getItemN ws cs with
  | none => simp [hg] at h
  | some rs =>
    simp only [hg, Option.some.injEq] at h
    subst h
    refine ⟨rs, rfl, ?_⟩
    intro ks b
    simp only [List.mem_map, Prod.mk.injEq]
    constructor
    · rintro ⟨ks', hk, rfl, rfl⟩; exact ⟨hk, rfl⟩
    · rintro ⟨hk, rfl⟩; exact ⟨ks, hk, rfl, rfl⟩

/-- **blockwise ops without `target_chunks_`** (write-proxy grid = stored grid, regular or rectilinear):
every stored chunk has exactly one writer, written whole, all chunks covered; the task with out coords
`cs` writes exactly chunk `cs`; `ChunkKeys` enumerates every accepted coordinate exactly once
(tasks ↔ chunks is a bijection). -/
theorem C05_blockwise_single_writer (gs : List (List Nat)) (hpos : PosN gs) :
    SingleWriter gs gs ∧
    (∀ cs rs, getItemN gs cs = some rs → (∀ ks, ks ∈ writesN gs rs ↔ ks = cs) ∧ wholeN gs rs cs = true) ∧
    (chunkKeys gs).Nodup ∧ (∀ cs, cs ∈ chunkKeys gs ↔ (getItemN gs cs).isSome = true) :=
  ⟨singleWriter_of_axes gs gs (axesOK_self gs hpos), writesN_self gs hpos, chunkKeys_nodup gs,
    mem_chunkKeys_iff gs⟩

example : PosN [regular 10 4, [3, 2, 5]] := by unfold PosN Pos; decide
example : taskWrites [regular 10 4, [3, 2, 5]] [regular 10 4, [3, 2, 5]] [2, 1] = some [([2, 1], true)] := by decide

/-- **multi-output ops** (`general_blockwise` requires matching numblocks; tasks come from the grid of one
output `g0`): each output is single-writer/whole/covered and its task set is the common task set. -/
theorem C05_multi_output_single_writer (outs : List (List (List Nat))) (g0 : List (List Nat))
    (hpos : ∀ gs ∈ outs, PosN gs)
    (hmatch : ∀ gs ∈ outs, gs.map List.length = g0.map List.length) :
    ∀ gs ∈ outs, SingleWriter gs gs ∧ chunkKeys gs = chunkKeys g0 :=
  fun gs hgs => ⟨(C05_blockwise_single_writer gs (hpos gs hgs)).1, chunkKeys_congr gs g0 (hmatch gs hgs)⟩

example : ∀ gs ∈ [[regular 9 4, regular 4 4], [regular 5 2, regular 4 4]],
    gs.map List.length = [regular 9 4, regular 4 4].map List.length := by decide

/-- `split_chunksizes n sc tc` refines both the copy grid and the target grid, has no other boundaries,
positive sizes and total `n` — for all `n, sc, tc ≥ 1`. -/
theorem C05_split_refines_both (n sc tc : Nat) (hn : 0 < n) (hsc : 0 < sc) (htc : 0 < tc) :
    Refines (splitChunksizes n sc tc) (regular n sc) ∧ Refines (splitChunksizes n sc tc) (regular n tc) ∧
    (∀ x, IsBound (splitChunksizes n sc tc) x → IsBound (regular n sc) x ∨ IsBound (regular n tc) x) ∧
    Pos (splitChunksizes n sc tc) ∧ (splitChunksizes n sc tc).sum = n :=
  ⟨split_refines_copy n sc tc hn hsc, split_refines_target n sc tc hn htc,
    split_bounds_only n sc tc hn hsc htc, split_pos n sc tc, split_sum n sc tc⟩

/-- **rechunk, `allow_irregular=True`**: stored grid `split_chunks(shape, copy, target)`, tasks write the
blocks of the regular copy grid.  Each copy region is a union of whole stored chunks and each stored chunk
lies in exactly one copy region. -/
theorem C05_rechunk_irregular_single_writer (axes : List RechunkAxis)
    (hwf : ∀ a ∈ axes, 0 < a.n ∧ 0 < a.copy ∧ 0 < a.target) :
    SingleWriter (axes.map fun a => splitChunksizes a.n a.copy a.target) (axes.map fun a => regular a.n a.copy) := by
  apply singleWriter_of_axes
  apply axesOK_map
  intro a ha
  obtain ⟨hn, hc, _⟩ := hwf a ha
  exact axis1_of_refines _ _ (split_pos _ _ _) (by rw [split_sum, regular_sum _ _ hn hc])
    (split_refines_copy _ _ _ hn hc)

example : ∀ a ∈ [(⟨40, 7, 5⟩ : RechunkAxis), ⟨30, 28, 9⟩], 0 < a.n ∧ 0 < a.copy ∧ 0 < a.target := by decide
example : splitChunksizes 40 7 5 = [5, 2, 3, 4, 1, 5, 1, 4, 3, 2, 5, 5] := by decide
example : taskWrites [splitChunksizes 40 7 5, splitChunksizes 30 28 9] [regular 40 7, regular 30 28] [1, 1]
    = some [([2, 4], true), ([3, 4], true)] := by decide

/-- **rechunk, `allow_irregular=False`**: stored grid regular with the target chunk; under the planner
invariant "copy chunk is a multiple of the stored chunk or spans the axis" (established by
`_fix_copy_chunks`, next theorem, and for the other stages by `multspace`/`consolidate_chunks` — property
C14) single-writer/whole/covered holds. -/
theorem C05_rechunk_regular_single_writer (axes : List RechunkAxis)
    (hwf : ∀ a ∈ axes, 0 < a.n ∧ 0 < a.copy ∧ 0 < a.target)
    (hplan : ∀ a ∈ axes, a.copy % a.target = 0 ∨ a.n ≤ a.copy) :
    SingleWriter (axes.map fun a => regular a.n a.target) (axes.map fun a => regular a.n a.copy) := by
  apply singleWriter_of_axes
  apply axesOK_map
  intro a ha
  obtain ⟨hn, hc, ht⟩ := hwf a ha
  exact axis1_of_refines _ _ (regular_pos _ _ hn ht) (by rw [regular_sum _ _ hn ht, regular_sum _ _ hn hc])
    ((refines_regular_iff _ _ _ hn ht hc).2 (hplan a ha))

example : (∀ a ∈ [(⟨40, 6, 3⟩ : RechunkAxis), ⟨30, 30, 7⟩], 0 < a.n ∧ 0 < a.copy ∧ 0 < a.target) ∧
    (∀ a ∈ [(⟨40, 6, 3⟩ : RechunkAxis), ⟨30, 30, 7⟩], a.copy % a.target = 0 ∨ a.n ≤ a.copy) := by decide

/-- `_fix_copy_chunks` establishes that invariant against the stored chunk `min(copy', next)` of the stage
(`_calculate_shared_chunks`), never enlarges the copy chunk and keeps it positive. -/
theorem C05_fix_copy_chunks_establishes (n cc tc : Nat) (hcc : 0 < cc) (htc : 0 < tc) :
    (fixCopy n cc tc % sharedChunk (fixCopy n cc tc) tc = 0 ∨ n ≤ fixCopy n cc tc) ∧
      0 < fixCopy n cc tc ∧ fixCopy n cc tc ≤ cc ∧ 0 < sharedChunk (fixCopy n cc tc) tc :=
  fixCopy_spec n cc tc hcc htc

example : fixCopy 40 7 3 = 6 ∧ fixCopy 40 40 3 = 40 ∧ fixCopy 40 2 3 = 2 := by decide

/-! ### store into an existing array

`_store_array` (no region) as repaired by d416aac: when some source chunk is neither a multiple of the target
chunk nor spans the axis, the source is first rechunked to the target chunks and the final rechunk op is
re-targeted to the user's array.  `storeWriteOld` is the code before that commit; its counterexample is kept
as documentation of what the fix repaired (and is replayed by the harness as a must-hold regression case). -/

/-- geometry: tasks that write blocks of chunk size `src` into an array stored with chunk size `tgt` are
single-writer/whole/covering exactly when per axis `src` is a multiple of `tgt` or spans the axis. -/
theorem C05_store_single_writer_iff (axes : List StoreAxis)
    (hwf : ∀ a ∈ axes, 0 < a.n ∧ 0 < a.src ∧ 0 < a.tgt) :
    SingleWriter (axes.map fun a => regular a.n a.tgt) (storeWriteOld axes) ↔
      ∀ a ∈ axes, a.src % a.tgt = 0 ∨ a.n ≤ a.src := by
  constructor
  · intro h a ha
    obtain ⟨hn, hs, ht⟩ := hwf a ha
    have hne : ∀ g ∈ (axes.map fun a => regular a.n a.tgt), 0 < g.length := by
      intro g hg
      simp only [List.mem_map] at hg
      obtain ⟨b, hb, rfl⟩ := hg
      obtain ⟨hn', _, ht'⟩ := hwf b hb
      exact (lt_regular_length _ _ hn' ht' 0).2 (by omega)
    have hax := axes_of_singleWriter _ (storeWriteOld axes) (by simp [storeWriteOld]) hne h
    have h1 := axesOK_map_inv _ _ axes hax a ha
    have h2 := refines_of_axis1 _ _ (regular_pos _ _ hn hs)
      (by rw [regular_sum _ _ hn ht, regular_sum _ _ hn hs]) h1
    exact (refines_regular_iff _ _ _ hn ht hs).1 h2
  · intro h
    apply singleWriter_of_axes
    apply axesOK_map
    intro a ha
    obtain ⟨hn, hs, ht⟩ := hwf a ha
    exact axis1_of_refines _ _ (regular_pos _ _ hn ht)
      (by rw [regular_sum _ _ hn ht, regular_sum _ _ hn hs])
      ((refines_regular_iff _ _ _ hn ht hs).2 (h a ha))

/-- **store into an existing array (repaired code)**: for every request — whatever the source chunking —
the tasks that write the user's array are single-writer/whole/covering.  When the guard passes they are the
source blocks; otherwise they are the copy blocks of the final stage of the inserted rechunk, which satisfy
the planner invariant `hplan` (copy chunk = `consolidate_chunks` of the target chunks: property C14;
validated by the harness on every traced store). -/
theorem C05_store_single_writer_holds (axes : List StoreReq)
    (hwf : ∀ a ∈ axes, 0 < a.n ∧ 0 < a.src ∧ 0 < a.tgt ∧ 0 < a.last)
    (hplan : ∀ a ∈ axes, a.last % a.tgt = 0 ∨ a.n ≤ a.last) :
    SingleWriter (storeStoredFixed axes) (storeWriteFixed axes) := by
  unfold storeStoredFixed storeWriteFixed
  split
  · rename_i hg
    have hg' := (storeGuard_iff axes).1 hg
    apply singleWriter_of_axes
    apply axesOK_map
    intro a ha
    obtain ⟨hn, hs, ht, _⟩ := hwf a ha
    exact axis1_of_refines _ _ (regular_pos _ _ hn ht)
      (by rw [regular_sum _ _ hn ht, regular_sum _ _ hn hs])
      ((refines_regular_iff _ _ _ hn ht hs).2 (hg' a ha))
  · apply singleWriter_of_axes
    apply axesOK_map
    intro a ha
    obtain ⟨hn, _, ht, hl⟩ := hwf a ha
    exact axis1_of_refines _ _ (regular_pos _ _ hn ht)
      (by rw [regular_sum _ _ hn ht, regular_sum _ _ hn hl])
      ((refines_regular_iff _ _ _ hn ht hl).2 (hplan a ha))

/-- the old trigger under the repaired code: 4×4, source chunks (1,1), target chunks (4,4); the guard fails,
the inserted rechunk copies with chunks (4,4): one task writes the one stored chunk, whole. -/
def storeRegression : List StoreReq := [⟨4, 1, 4, 4⟩, ⟨4, 1, 4, 4⟩]

example : (∀ a ∈ storeRegression, 0 < a.n ∧ 0 < a.src ∧ 0 < a.tgt ∧ 0 < a.last) ∧
    (∀ a ∈ storeRegression, a.last % a.tgt = 0 ∨ a.n ≤ a.last) ∧ storeGuard storeRegression = false := by decide
example : taskWrites (storeStoredFixed storeRegression) (storeWriteFixed storeRegression) [0, 0]
    = some [([0, 0], true)] := by decide
/-- a request that passes the guard (no rechunk inserted) -/
example : storeGuard [⟨8, 4, 2, 1⟩, ⟨5, 7, 3, 1⟩] = true := by decide

/-- sharded target: `_store_array` first rechunks the source to the shard shape, so source chunk = stored
object (shard) size and the store is single-writer/whole. -/
theorem C05_store_sharded_single_writer (axes : List StoreAxis)
    (hwf : ∀ a ∈ axes, 0 < a.n ∧ 0 < a.src ∧ 0 < a.tgt) (h : ∀ a ∈ axes, a.src = a.tgt) :
    SingleWriter (axes.map fun a => regular a.n a.tgt) (storeWriteOld axes) :=
  (C05_store_single_writer_iff axes hwf).2 (fun a ha => Or.inl (by rw [h a ha]; exact Nat.mod_self _))

/-- OLD variant (before d416aac), kept as documentation: without the guard the clause "every store into an
existing array is single-writer" was false. -/
def C05_store_single_writer_old : Prop :=
  ∀ axes : List StoreAxis, (∀ a ∈ axes, 0 < a.n ∧ 0 < a.src ∧ 0 < a.tgt) →
    SingleWriter (axes.map fun a => regular a.n a.tgt) (storeWriteOld axes)

/-- the witness that the fix repaired: a 4×4 array with chunks (1,1) stored into an existing array with
chunks (4,4): 16 tasks each partially wrote the one stored chunk. -/
def storeWitness : List StoreAxis := [⟨4, 1, 4⟩, ⟨4, 1, 4⟩]

example : taskWrites (storeWitness.map fun a => regular a.n a.tgt) (storeWriteOld storeWitness) [2, 3]
    = some [([0, 0], false)] := by decide

theorem C05_store_old_mismatch_fails : ¬ C05_store_single_writer_old := by
  intro h
  have h1 := h storeWitness (by decide)
  have h2 := (C05_store_single_writer_iff storeWitness (by decide)).1 h1
  revert h2
  decide

/-! ### region stores

`_store_array(region=…)` as repaired by ba97b91: slices are validated (`regionAccept`), and the source is
rechunked to the target chunks when they differ (`RegionAxis.effective`).  `regionTaskOK` on the axes as given
is the code before that commit. -/

def RegionWF (r : RegionAxis) : Prop := 0 < r.ct ∧ 0 < r.cs ∧ r.a < r.b ∧ r.b ≤ r.nt

def regionStored (axes : List RegionAxis) : List (List Nat) := axes.map fun r => regular r.nt r.ct

/-- an accepted region slice has step `None`/1, is the `slice.indices` normalisation of the request, lies
inside the target and passes the alignment test (whatever the source chunks). -/
theorem C05_region_accept_spec (nt ct cs : Nat) (s : SliceReq) (a b : Nat)
    (h : regionAccept nt ct s = some (a, b)) :
    (s.step = none ∨ s.step = some 1) ∧ (a, b) = sliceIndices nt s ∧ a ≤ nt ∧ b ≤ nt ∧
      RegionAxis.aligned ⟨nt, ct, a, b, cs⟩ = true :=
  regionAccept_spec nt ct cs s a b h

example : regionAccept 16 4 ⟨some (-12), none, none⟩ = some (4, 16) ∧ regionAccept 16 4 ⟨some 2, some 8, none⟩ = none ∧
    regionAccept 16 4 ⟨some 0, some 8, some 2⟩ = none ∧ regionAccept 10 4 ⟨some 8, some 99, some 1⟩ = some (8, 10) := by
  decide

/-- The tasks of a region store are exactly the target chunks that meet the region box, each once, and the
task with out coords `js` writes exactly target chunk `js`, whole (write proxy chunks = target chunks). -/
theorem C05_region_tasks_single_writer (axes : List RegionAxis) (hwf : ∀ r ∈ axes, RegionWF r) :
    regionTasks axes = writesN (regionStored axes) (axes.map fun r => (r.a, r.b)) ∧
    (regionTasks axes).Nodup ∧
    (∀ js rs, getItemN (regionStored axes) js = some rs →
      (∀ ks, ks ∈ writesN (regionStored axes) rs ↔ ks = js) ∧ wholeN (regionStored axes) rs js = true) := by
  refine ⟨regionTasks_eq_writesN axes, ?_, ?_⟩
  · rw [regionTasks_eq_writesN]; exact writesN_nodup _ _
  · apply writesN_self
    intro g hg
    simp only [regionStored, List.mem_map] at hg
    obtain ⟨r, hr, rfl⟩ := hg
    obtain ⟨hct, _, hab, hb⟩ := hwf r hr
    exact regular_pos _ _ (by omega) hct

/-- geometry: when per axis the source chunk equals the target chunk (or the region is a single block of
both) every task of an aligned region is well-formed: its source block exists, is exactly the data of the
chunk interval it writes, and that interval lies inside the region. -/
theorem C05_region_tasks_ok_of_equal_chunks (axes : List RegionAxis)
    (hwf : ∀ r ∈ axes, RegionWF r ∧ r.aligned = true)
    (hsrc : ∀ r ∈ axes, r.cs = r.ct ∨ (r.b - r.a ≤ r.cs ∧ r.b - r.a ≤ r.ct)) :
    ∀ js ∈ regionTasks axes, regionTaskOK axes js = true := by
  apply regionTaskOK_of_axes
  intro r hr j hj
  obtain ⟨⟨hct, hcs, hab, hb⟩, hal⟩ := hwf r hr
  exact region_taskOK r hct hcs hab hb hal (hsrc r hr) j hj

/-- **region store (repaired code)**: for every accepted non-empty region and *any* source chunking, every
task is well-formed — the inserted rechunk makes the source grid agree with the target grid on the region. -/
theorem C05_region_store_ok_holds (axes : List RegionAxis)
    (hwf : ∀ r ∈ axes, RegionWF r ∧ r.aligned = true) :
    ∀ js ∈ regionTasks axes, regionTaskOK (axes.map RegionAxis.effective) js = true := by
  intro js hjs
  rw [← regionTasks_effective] at hjs
  refine C05_region_tasks_ok_of_equal_chunks (axes.map RegionAxis.effective) ?_ ?_ js hjs
  · intro r hr
    simp only [List.mem_map] at hr
    obtain ⟨r0, hr0, rfl⟩ := hr
    obtain ⟨⟨hct, hcs, hab, hb⟩, hal⟩ := hwf r0 hr0
    exact ⟨⟨hct, (effective_chunks_agree r0 hct hcs hab).1, hab, hb⟩, hal⟩
  · intro r hr
    simp only [List.mem_map] at hr
    obtain ⟨r0, hr0, rfl⟩ := hr
    obtain ⟨⟨hct, hcs, hab, _⟩, _⟩ := hwf r0 hr0
    exact (effective_chunks_agree r0 hct hcs hab).2

/-- the old trigger (and a 2-d request with differing chunks) satisfy the hypotheses -/
example : ∀ r ∈ [(⟨16, 4, 0, 8, 8⟩ : RegionAxis), ⟨10, 4, 8, 10, 5⟩, ⟨10, 4, 0, 8, 7⟩], RegionWF r ∧ r.aligned = true := by
  simp only [RegionWF]; decide
example : regionTaskOK ([(⟨16, 4, 0, 8, 8⟩ : RegionAxis)].map RegionAxis.effective) [1] = true := by decide

/-- OLD variant (before ba97b91), kept as documentation: without the inserted rechunk the clause "every
aligned region gives well-formed tasks" was false. -/
def C05_region_store_ok_old : Prop :=
  ∀ axes : List RegionAxis, (∀ r ∈ axes, RegionWF r ∧ r.aligned = true) →
    ∀ js ∈ regionTasks axes, regionTaskOK axes js = true

/-- the witness that the fix repaired: 8 elements with source chunk 8 stored into `[0, 8)` of a 16-element
target with chunk 4: the second task asked for source block 1, which did not exist (IndexError mid-run). -/
def regionWitness : List RegionAxis := [⟨16, 4, 0, 8, 8⟩]

theorem C05_region_old_mismatch_fails : ¬ C05_region_store_ok_old := by
  intro h
  have h1 := h regionWitness (by simp only [RegionWF]; decide) [1] (by decide)
  revert h1
  decide

end Cubed.C05
