/-
  C14 — Rechunk plans are well-formed, aligned and memory-bounded for every geometry.

  Property theorems only (lemmas live in Proofs/Rechunk.lean).  Every theorem is stated for all ranks,
  extents, chunk sizes, item sizes and budgets.  The float-dependent steps of the Python code are the
  parameter `O : Oracles`; the hypotheses `DivOK O`, `GeoOK O`, `RegOK O` say what is assumed about them
  (validated by the harness on every number the real code computes) — `exactO` (exact arithmetic)
  satisfies all three, see the examples.
-/
import CubedModel.Proofs.Rechunk

namespace Cubed.C14

open Cubed Cubed.Rechunk

/-! ## 1. the planners terminate with a plan or an explicit error -/

/-- Totality / termination of `multistage_rechunking_plan`: the loop is structural recursion on the fuel
`MAX_STAGES - 1`, and for positive inputs the outcome is a non-empty plan, one of the explicit
`ValueError`s, or the explicit "no feasible scheme" error when the stage bound is reached.  In particular
`assert headroom >= 1` and a division by zero inside `consolidate_chunks` are unreachable. -/
theorem C14_irregular_total (O : Oracles) (hO : DivOK O) (shape source target : List Nat)
    (itemsize minMem maxMem : Nat) (hn : ∀ n ∈ shape, 0 < n) (hs : ∀ c ∈ source, 0 < c)
    (ht : ∀ c ∈ target, 0 < c) (hi : 0 < itemsize) :
    (∃ plan, irregularPlan O shape source target itemsize minMem maxMem = .ok plan ∧ plan ≠ []) ∨
    (∃ e, irregularPlan O shape source target itemsize minMem maxMem = .error e ∧
      (e ∈ explicitErrors ∨ e = errMaxStages)) := by
  cases h : irregularPlan O shape source target itemsize minMem maxMem with
  | ok plan =>
    left
    obtain ⟨read, write, k, _, rfl⟩ := irregularPlan_result O hO shape source target itemsize minMem maxMem plan h
    exact ⟨_, rfl, mkPlan_ne_nil _ _ _⟩
  | error e =>
    exact Or.inr ⟨e, rfl, irregularPlan_outcome O hO shape source target itemsize minMem maxMem hn hs ht hi e h⟩

/-- `consolidate_chunks` alone: success or one of its two `ValueError`s (`consolidate_headroom`). -/
theorem C14_consolidate_never_asserts (O : Oracles) (hO : DivOK O) (shape chunks : List Nat)
    (itemsize maxMem : Nat) (limits : Option (List Lim)) (hn : ∀ n ∈ shape, 0 < n)
    (hc : ∀ c ∈ chunks, 0 < c) (hi : 0 < itemsize) (hlen : chunks.length = shape.length)
    (hl : (defaultLims shape limits).length = shape.length) :
    (∃ res, consolidate O shape chunks itemsize maxMem limits = .ok res) ∨
    consolidate O shape chunks itemsize maxMem limits = .error errInvalidLimits ∨
    consolidate O shape chunks itemsize maxMem limits = .error errChunkMem :=
  consolidate_outcome O hO shape chunks itemsize maxMem limits hn hc hi hlen hl

/-- The same for `multistage_regular_rechunking_plan`; additionally `multspace`'s `NotImplementedError`,
a ragged stage array and a modulo by zero in `_fix_copy_chunks` are unreachable. -/
theorem C14_regular_total (O : Oracles) (hO : DivOK O) (hR : RegOK O) (shape source target : List Nat)
    (itemsize minMem maxMem : Nat) (hn : ∀ n ∈ shape, 0 < n) (hs : ∀ c ∈ source, 0 < c)
    (ht : ∀ c ∈ target, 0 < c) (hi : 0 < itemsize) :
    (∃ plan, regularPlan O shape source target itemsize minMem maxMem = .ok plan ∧ plan ≠ []) ∨
    (∃ e, regularPlan O shape source target itemsize minMem maxMem = .error e ∧
      (e ∈ explicitErrors ∨ e = errMaxStages)) := by
  cases h : regularPlan O shape source target itemsize minMem maxMem with
  | ok plan =>
    left
    obtain ⟨_, _, _, _, _, _, _, _, _, _, rfl⟩ :=
      regularPlan_result O hO hR shape source target itemsize minMem maxMem plan h
    exact ⟨_, rfl, mkPlan_ne_nil _ _ _⟩
  | error e =>
    exact Or.inr ⟨e, rfl, regularPlan_outcome O hO hR shape source target itemsize minMem maxMem hn hs ht hi e h⟩

/-! ## 2. every stage fits in the memory budget -/

/-- Every read, intermediate and write chunk of every stage, times the item size, is at most `max_mem`
(both planners). -/
theorem C14_stage_mem_bounded (O : Oracles) (hO : DivOK O) (hG : GeoOK O) (hR : RegOK O) (irregular : Bool)
    (shape source target : List Nat) (itemsize minMem maxMem : Nat) (plan : List Stage)
    (h : choosePlan O irregular shape source target itemsize minMem maxMem = .ok plan) :
    ∀ s ∈ plan, itemsize * lprod s.read ≤ maxMem ∧ itemsize * lprod s.int ≤ maxMem ∧
      itemsize * lprod s.write ≤ maxMem :=
  (choosePlan_facts O hO hG hR irregular shape source target itemsize minMem maxMem plan h).2.1

/-- The result of `consolidate_chunks` fits in `max_mem` (for any chunk limits). -/
theorem C14_consolidate_mem_bounded (O : Oracles) (hO : DivOK O) (shape chunks : List Nat)
    (itemsize maxMem : Nat) (limits : Option (List Lim)) (res : List Nat)
    (hlen : chunks.length = shape.length)
    (h : consolidate O shape chunks itemsize maxMem limits = .ok res) : itemsize * lprod res ≤ maxMem :=
  consolidate_mem O hO shape chunks itemsize maxMem limits res hlen h

/-! ## 3. shape of a plan: stages are chained, the last stage writes chunks aligned with the target -/

/-- Stage `k+1` reads exactly what stage `k` wrote, the intermediate chunk is the pointwise minimum, all
chunks have the array's rank and positive entries, and the last stage writes chunks each of which is a
multiple of the requested target chunk or spans the axis (and never exceeds the extent). -/
theorem C14_plan_shape (O : Oracles) (hO : DivOK O) (hG : GeoOK O) (hR : RegOK O) (irregular : Bool)
    (shape source target : List Nat) (itemsize minMem maxMem : Nat) (plan : List Stage)
    (h : choosePlan O irregular shape source target itemsize minMem maxMem = .ok plan) :
    ∃ (r : List Nat) (st : List (List Nat)) (write : List Nat),
      plan.map (·.read) = r :: st ∧ plan.map (·.write) = st ++ [write] ∧
      (∀ s ∈ plan, s.int = shared s.read s.write) ∧
      All3 (fun n t w => (t ∣ w ∨ w = n) ∧ w ≤ n) shape target write ∧
      (∀ x ∈ write, 0 < x) ∧ source.length = shape.length ∧ target.length = shape.length := by
  obtain ⟨⟨read, write, r, st, hp, rfl⟩, _, _⟩ :=
    choosePlan_facts O hO hG hR irregular shape source target itemsize minMem maxMem plan h
  obtain ⟨h1, h2, h3⟩ := mkPlan_maps st r write
  exact ⟨r, st, write, h1, h2, h3, hp.writeAligned, hp.writePos, hp.srcLen, hp.tgtLen⟩

/-! ## 4. alignment, regular planner (`allow_irregular=False`) -/

/-- The divisibility chain of `_multspace` holds for *every* sequence of float quotients: each value is a
multiple of the previous one or was reset to 1 by `max(…, 1)`, and all values are positive. -/
theorem C14_multspace_chain (qs : List Nat) : ChainR UpP (msVals 1 qs) :=
  (msVals_chain qs 1 (by omega)).tail

/-- `_fix_copy_chunks` aligns the copy chunks with the target chunks and never enlarges them. -/
theorem C14_fix_copy_aligned (shape copy target fixed : List Nat) (h : fixCopy shape copy target = .ok fixed)
    (hc : copy.length = shape.length) (ht : target.length = shape.length) :
    All3 (fun n c t => c ≤ t ∨ t ∣ c ∨ c = n) shape fixed target ∧
    All2 (fun c c' => c' ≤ c ∧ (0 < c → 0 < c')) copy fixed :=
  fixCopy_spec shape copy target fixed h hc ht

/-- Every stage of a regular plan is aligned: in every axis the chunk copied is not larger than the chunk
written (then the copy chunk *is* the stored chunk), or is a multiple of it, or spans the axis. -/
theorem C14_regular_stage_aligned (O : Oracles) (hO : DivOK O) (hR : RegOK O) (shape source target : List Nat)
    (itemsize minMem maxMem : Nat) (plan : List Stage)
    (h : regularPlan O shape source target itemsize minMem maxMem = .ok plan) :
    ∀ s ∈ plan, All3 (fun n r w => r ≤ w ∨ w ∣ r ∨ r = n) shape s.read s.write :=
  regularPlan_aligned O hO hR shape source target itemsize minMem maxMem plan h

/-- Every copy op `_rechunk_plan` derives from a regular plan copies with chunks that are a multiple of the
chunks of the array it writes, or span the axis: every stored chunk is written by exactly one task. -/
theorem C14_regular_ops_aligned (O : Oracles) (hO : DivOK O) (hG : GeoOK O) (hR : RegOK O)
    (shape source target : List Nat) (itemsize : Nat) (b : Budget) (minMem : Option Nat)
    (ops : List (List Nat × List Nat))
    (h : rechunkPlanOps O false shape source target itemsize b minMem = .ok ops) :
    ∀ op ∈ ops, All3 (fun n c t => t ∣ c ∨ c = n) shape op.1 op.2 := by
  rcases rechunkPlanOps_spec O false shape source target itemsize b minMem ops h with ⟨rfl, _⟩ | ⟨stages, hp, rfl, _⟩
  · intro op hop; simp at hop
  · obtain ⟨⟨read, write, r, st, hprep, hplan⟩, _, hal⟩ :=
      choosePlan_facts O hO hG hR false shape source target itemsize _ _ stages hp
    intro op hop
    rcases opsOfStages_cases target stages op hop with ⟨s, hs, rfl⟩ | ⟨s, hs, _, rfl⟩ | ⟨s, hs, rfl⟩
    · have hint : s.int = shared s.read s.write := by
        subst hplan; exact (mkPlan_maps st r write).2.2 s hs
      show All3 OpAxisOK shape s.read s.int
      rw [hint]; exact stage_to_op_int shape s.read s.write (hal rfl s hs)
    · rename_i heq
      show All3 OpAxisOK shape s.read s.write
      rw [← heq]; exact stage_to_op_self shape s.read s.write (hal rfl s hs)
    · have hw : s.write = write := by subst hplan; exact mkPlan_last st r write s hs
      show All3 OpAxisOK shape s.write target
      rw [hw]; exact write_to_op shape target write hprep.writeAligned

/-! ## 5. alignment, irregular planner (`allow_irregular=True`): `split_chunksizes` -/

/-- `split_chunksizes(n, cc, tc)` — the chunks `_rechunk` stores when copying with chunk `cc` into target
chunks `tc` — is the coarsest common refinement of the copy grid and the target grid:
(a) its boundaries are exactly `n` and the multiples of `cc` or `tc` below `n`, strictly increasing;
(b) every stored chunk is non-empty and lies in exactly one copy region and in exactly one target chunk;
(c) every copy region starts and ends at a stored-chunk boundary (is a union of whole stored chunks);
(d) the sizes are positive and sum to `n`. -/
theorem C14_split_common_refinement (n cc tc : Nat) (hc : 0 < cc) (ht : 0 < tc) :
    (∀ b, b ∈ splitCuts n cc tc ↔ 0 < b ∧ b ≤ n ∧ (b = n ∨ cc ∣ b ∨ tc ∣ b)) ∧
    List.Pairwise (· < ·) (splitCuts n cc tc) ∧
    (∀ lo hi, (lo, hi) ∈ intervals 0 (splitCuts n cc tc) →
      lo < hi ∧ hi ≤ n ∧ (hi - 1) / cc = lo / cc ∧ (hi - 1) / tc = lo / tc) ∧
    (∀ k, k * cc < n → (k = 0 ∨ k * cc ∈ splitCuts n cc tc) ∧ min ((k + 1) * cc) n ∈ splitCuts n cc tc) ∧
    (∃ l, splitSizes n cc tc = some l ∧ l.sum = n ∧ ∀ x ∈ l, 0 < x) :=
  ⟨fun b => split_boundaries n cc tc b hc ht, split_sorted n cc tc hc ht,
   fun lo hi h => split_chunk_in_one_region n cc tc lo hi hc ht h,
   fun k hk => split_region_is_union n cc tc k hc ht hk,
   ⟨_, splitSizes_isSome n cc tc hc ht,
    splitSizes_sum n cc tc _ (splitSizes_isSome n cc tc hc ht),
    splitSizes_pos n cc tc _ (splitSizes_isSome n cc tc hc ht)⟩⟩

/-- An aligned copy chunk (multiple of the target chunk, or spanning the axis) stores exactly the regular
target grid — so for aligned ops the two `allow_irregular` modes store the same chunks. -/
theorem C14_aligned_split_is_regular (n cc tc : Nat) (hc : 0 < cc) (ht : 0 < tc) (h : tc ∣ cc ∨ n ≤ cc) :
    splitSizes n cc tc = some (regularSizes n tc) :=
  splitSizes_aligned n cc tc hc ht h

/-! ## 6. `_rechunk_plan` / `rechunk_plan`: the copy ops -/

/-- The copy ops form a chain: the first reads the array's own chunking, each op reads the chunking the
previous one wrote (`rechunk_plan`), and the pairs are exactly those `_rechunk_plan` yields. -/
theorem C14_copy_ops_chain (source : List Nat) (ops : List (List Nat × List Nat)) :
    Chained source (copyOps source ops) ∧ (copyOps source ops).map (fun o => (o.copy, o.target)) = ops :=
  ⟨copyOps_chained ops source, copyOps_pairs ops source⟩

/-- Unless source and target chunking coincide (or the array is empty) there is at least one copy op, and
the last one writes exactly the requested target chunks, copying with chunks aligned to them; with
`allow_irregular=True` the chunks it stores (`split_chunksizes`) are exactly the regular requested grid. -/
theorem C14_last_writes_target (O : Oracles) (hO : DivOK O) (hG : GeoOK O) (hR : RegOK O) (irregular : Bool)
    (shape source target : List Nat) (itemsize : Nat) (b : Budget) (minMem : Option Nat)
    (ops : List (List Nat × List Nat))
    (h : rechunkPlanOps O irregular shape source target itemsize b minMem = .ok ops)
    (hne : source ≠ target) (hsz : lprod shape ≠ 0) :
    ∃ o, (copyOps source ops).getLast? = some o ∧ o.target = target ∧
      All3 (fun n c t => (t ∣ c ∨ c = n) ∧ splitSizes n c t = some (regularSizes n t)) shape o.copy target := by
  rcases rechunkPlanOps_spec O irregular shape source target itemsize b minMem ops h with
    ⟨_, h1 | h1⟩ | ⟨stages, hp, rfl, _⟩
  · exact absurd h1 hne
  · exact absurd h1 hsz
  · obtain ⟨⟨read, write, r, st, hprep, rfl⟩, _, _⟩ :=
      choosePlan_facts O hO hG hR irregular shape source target itemsize _ _ stages hp
    cases hl : (mkPlan r st write).getLast? with
    | none =>
      have := mkPlan_ne_nil st r write
      cases hm : mkPlan r st write with
      | nil => exact absurd hm this
      | cons a as => rw [hm] at hl; simp at hl
    | some s =>
      have hw := mkPlan_last st r write s hl
      have hlast := opsOfStages_last target _ s hl
      obtain ⟨o, ho, hc, htg⟩ := copyOps_last _ source _ _ hlast
      refine ⟨o, ho, htg, ?_⟩
      rw [hc, hw]
      exact last_aligned_split shape target write hprep.writeAligned hprep.writePos hprep.tgtPos

/-- Memory budget of `_rechunk_plan`: every copy chunk, counted once per buffer copy
(`total_copies = 1 + read copies + 1 + 1 + write copies`), fits into `allowed_mem - reserved_mem`. -/
theorem C14_copy_chunks_within_budget (O : Oracles) (hO : DivOK O) (hG : GeoOK O) (hR : RegOK O)
    (irregular : Bool) (shape source target : List Nat) (itemsize : Nat) (b : Budget) (minMem : Option Nat)
    (ops : List (List Nat × List Nat))
    (h : rechunkPlanOps O irregular shape source target itemsize b minMem = .ok ops) :
    ∀ op ∈ ops, itemsize * lprod op.1 * totalCopies b ≤ b.allowedMem - b.reservedMem := by
  rcases rechunkPlanOps_spec O irregular shape source target itemsize b minMem ops h with ⟨rfl, _⟩ | ⟨stages, hp, rfl, _⟩
  · intro op hop; simp at hop
  · obtain ⟨_, hmem, _⟩ := choosePlan_facts O hO hG hR irregular shape source target itemsize _ _ stages hp
    intro op hop
    have hle : itemsize * lprod op.1 ≤ rechunkerMaxMem b := by
      rcases opsOfStages_cases target stages op hop with ⟨s, hs, rfl⟩ | ⟨s, hs, _, rfl⟩ | ⟨s, hs, rfl⟩
      · exact (hmem s hs).1
      · exact (hmem s hs).1
      · exact (hmem s (List.mem_of_getLast? hs)).2.2
    exact Nat.le_trans (Nat.mul_le_mul_right _ hle) (rechunkerMaxMem_budget b)

/-! ## 7. facts of the source text the model depends on (regenerated on every run) -/

/-- The constants and syntactic shapes the model was written against. -/
theorem C14_source_facts :
    GeneratedC14.maxStages = 100 ∧ GeneratedC14.stageCountStart = 1 ∧ GeneratedC14.minMemDivisor = 20 ∧
    GeneratedC14.totalCopiesConst = 3 ∧ GeneratedC14.totalCopiesReadCoeff = 1 ∧
    GeneratedC14.totalCopiesWriteCoeff = 1 ∧
    GeneratedC14.maxMemFormula = "(spec.allowed_mem - spec.reserved_mem) // total_copies" ∧
    GeneratedC14.irrSuccessOp = "ge" ∧ GeneratedC14.regSuccessOp = "ge" ∧
    GeneratedC14.irrIoStopOp = "gt" ∧ GeneratedC14.regIoStopOp = "gt" ∧
    GeneratedC14.sharedChunksExpr =
      "tuple((min(c_read, c_target) for c_read, c_target in zip(read_chunks, write_chunks)))" ∧
    GeneratedC14.stageChunksExpr = "[tuple((floor(c) for c in stage)) for stage in approx_stages[1:-1]]" ∧
    GeneratedC14.multspaceStep =
      "vals = np.geomspace(start, stop, num + 2) ; vint = 1 ; vint = max(floor(v / vint) * vint, 1)" ∧
    GeneratedC14.fixCopyExpr =
      "tuple((cc if cc <= tc or cc == n or cc % tc == 0 else cc // tc * tc for n, cc, tc in zip(shape, copy_chunks, target_chunks)))" ∧
    GeneratedC14.regFixCall =
      "read_chunks = _fix_copy_chunks(shape, read_chunks, (stage_chunks + [write_chunks])[0])" ∧
    GeneratedC14.regFixTarget = "(stage_chunks + [write_chunks])[0]" ∧
    GeneratedC14.regFixArgs = "shape , read_chunks" ∧
    GeneratedC14.regFixInLoopBetweenStageAndPre = true ∧
    GeneratedC14.regPreChunks = "[read_chunks] + stage_chunks" ∧
    GeneratedC14.regPostChunks = "stage_chunks + [write_chunks]" ∧
    GeneratedC14.consolidateMaxedTest = "upper_bound_headroom > 1" ∧
    GeneratedC14.consolidateRejectTest = "chunk_mem > max_mem" ∧
    GeneratedC14.consolidateLargerChunk = "int(chunks[n_axis] * int(headroom))" ∧
    GeneratedC14.consolidateUpperBound = "min(shape[n_axis], chunk_limit_per_axis[n_axis])" ∧
    GeneratedC14.consolidateAxesOrder = "sorted(chunk_limit_per_axis.keys())[::-1]" ∧
    GeneratedC14.consolidateAssert = "headroom >= 1" ∧
    GeneratedC14.multspaceReturns =
      "list(_multspace(start, stop, num))[1:-1] ; list(reversed(multspace(stop, start, num)))" ∧
    GeneratedC14.planFuncChoice =
      "multistage_rechunking_plan if allow_irregular else multistage_regular_rechunking_plan" ∧
    GeneratedC14.stageTranslation =
      "last_stage = i == len(stages) - 1 ; read_chunks, int_chunks, write_chunks = stage ; target_chunks_ = target_chunks if last_stage else write_chunks ; if read_chunks == write_chunks:     yield (read_chunks, target_chunks_) else:     yield (read_chunks, int_chunks)     if last_stage:         yield (write_chunks, target_chunks_)" ∧
    GeneratedC14.splitChunksizesBody =
      "a = np.arange(0, n, step=sc) ; b = np.arange(0, n, step=tc) ; c = np.union1d(a, b) ; if n not in c:     c = np.append(c, [n]) ; return tuple(np.diff(c).tolist())" ∧
    GeneratedC14.irrGuards = GeneratedC14.regGuards ∧
    GeneratedC14.irrGuards =
      "len(source_chunks) != ndim ; len(target_chunks) != ndim ; source_chunk_mem > max_mem ; target_chunk_mem > max_mem ; max_mem < min_mem" ∧
    GeneratedC14.irrChunkMemFormulas = "itemsize * prod(source_chunks) | itemsize * prod(target_chunks)" ∧
    GeneratedC14.regChunkMemFormulas = GeneratedC14.irrChunkMemFormulas := by
  repeat' apply And.intro
  all_goals rfl

/-! ## Non-vacuity: the hypotheses are satisfiable and the statements talk about real plans -/

/-- exact arithmetic satisfies every hypothesis made about the float-dependent steps -/
example : DivOK exactO ∧ GeoOK exactO ∧ RegOK exactO := ⟨exactO_div, exactO_geo, exactO_reg⟩

/-- 24×24 int64 array, chunks (24,1) → (1,24), max_mem 200 bytes: both planners with `exactO` -/
example : irregularPlan exactO [24, 24] [24, 1] [1, 24] 8 8 200 = .ok [⟨[24, 1], [1, 1], [1, 24]⟩] := by rfl
example : regularPlan exactO [24, 24] [24, 1] [1, 24] 8 8 200 = .ok [⟨[24, 1], [1, 1], [1, 24]⟩] := by rfl
example : rechunkPlanOps exactO false [24, 24] [24, 1] [1, 24] 8 ⟨1000, 0, 1, 1⟩ (some 8)
    = .ok [([24, 1], [1, 1]), ([1, 24], [1, 24])] := by rfl
example : copyOps [24, 1] [([24, 1], [1, 1]), ([1, 24], [1, 24])]
    = [⟨[24, 1], [24, 1], [1, 1]⟩, ⟨[1, 1], [1, 24], [1, 24]⟩] := by rfl

/-- consolidation really consolidates: 100×100, chunks (10,10) of 1-byte items, 2500 bytes -/
example : consolidate exactO [100, 100] [10, 10] 1 2500 none = .ok [20, 100] := by rfl

/-- the numbers Python really computed for the same geometry with min_mem = 10 (recorded by the harness):
`200/192 → (>1, int 1)`, `200/4608 → (not >1, int 0)`, geomspace stage chunk `(4,4)`; the model returns the
two-stage plan `x.rechunk` executes (three copy ops). -/
def realO : Oracles :=
  { gt1 := fun _ b => b == 192, ge1 := fun _ b => b == 192, hr := fun _ b => if b == 192 then 1 else 0
    geo := fun _ _ k => if k == 2 then [[4, 4]] else []
    msq := fun a b n => if (a, b, n) == (1, 24, 1) then [1, 4, 6] else if (a, b, n) == (1, 24, 0) then [1, 24] else [] }

example : irregularPlan realO [24, 24] [24, 1] [1, 24] 8 10 200
    = .ok [⟨[24, 1], [4, 1], [4, 4]⟩, ⟨[4, 4], [1, 4], [1, 24]⟩] := by rfl
example : regularPlan realO [24, 24] [24, 1] [1, 24] 8 10 200
    = .ok [⟨[24, 1], [4, 1], [4, 4]⟩, ⟨[4, 4], [1, 4], [1, 24]⟩] := by rfl
example : (rechunkPlanOps realO true [24, 24] [24, 1] [1, 24] 8 ⟨1000, 0, 1, 1⟩ none).map (copyOps [24, 1])
    = .ok [⟨[24, 1], [24, 1], [4, 1]⟩, ⟨[4, 1], [4, 4], [1, 4]⟩, ⟨[1, 4], [1, 24], [1, 24]⟩] := by rfl

/-- split_chunksizes(20, 5, 7): the docstring example of `_count_intermediate_chunks` -/
example : splitSizes 20 5 7 = some [5, 2, 3, 4, 1, 5] := by rfl
example : splitSizes 20 8 4 = some (regularSizes 20 4) := by rfl
example : msVals 1 [24, 3, 0, 5] = [24, 72, 1, 5] := by rfl

end Cubed.C14
