/-
  C16 — Building, planning and visualizing are lazy and free of side effects.

  Two kinds of statements:
  (A) about the execution-site table regenerated from the source on every run (`GeneratedC16.sites`):
      closed `by decide`, so a new eager call site / a changed mode no longer type-checks;
  (B) about the lifecycle model (`Model/Lazy.lean`): for every history of API calls, every optimizer and
      every schedule.  The executor contract is an explicit hypothesis (`Barrier`, C07's property).
  The tie between the table/model and the running code is the API-wide sweep of harness/props/c16.py
  (differential validation, not proof).
-/
import CubedModel.Proofs.Lazy
import CubedModel.Model.GeneratedC16

namespace Cubed.C16

open Cubed Cubed.Lazy

/-- The generated table as `Site` records. -/
def sites : List Site := GeneratedC16.sites.map Site.ofTuple

/-! ### (A) the execution-site table -/

/-- Every call site in `cubed/` that can start execution or create storage is one of the allowed ones:
a public entry point of the property's list (with its guard: `if compute:` in `store`/`to_zarr`,
`isinstance(dim_sel, CoreArray)` in `index`), the plan's own execute path, or the storage layer. -/
theorem C16_sites_allowed : ∀ s ∈ sites, siteAllowed s = true := by decide

/-- The functions that contain an execution-starting call are exactly these (sorted): the conversion
dunders, `CoreArray.compute`, `compute` (→ `FinalizedPlan.execute` → executor), `index`, `measure_reserved_mem`,
`store`, `store_icechunk`, `to_zarr`. -/
theorem C16_exec_entry_points :
    execEnclosing sites =
      ["Array.__array__", "Array.__bool__", "Array.__complex__", "Array.__float__", "Array.__index__",
       "Array.__int__", "CoreArray.compute", "FinalizedPlan.execute", "compute", "index", "measure_reserved_mem",
       "store", "store_icechunk", "to_zarr"] := by decide

/-- Storage is created (`.create`, `zarr.create_array`, `group.create_array`, a group opened with a
writing mode) only inside the storage layer and the create-arrays task function. -/
theorem C16_create_sites :
    ∀ s ∈ sites, [".create", "zarr.create_array", ".create_array", "zarr.open_group", "zarr.create", "zarr.open",
                  "zarr.create_group", ".create_group"].contains s.callee = true →
      ["create_zarr_array", "open_zarr_v3_array"].contains s.enclosing = true := by decide

/-- `open_storage_array` is reached from three places only, and `from_zarr` opens read-only: its mode is
one of the modes for which `open_zarr_v3_array` returns before `zarr.create_array`. -/
theorem C16_from_zarr_readonly :
    (∀ s ∈ sites, s.callee = "open_storage_array" →
        (s.enclosing = "from_zarr" ∧ modeCreates GeneratedC16.readOnlyModes s.mode = false)
        ∨ (s.enclosing = "LazyZarrArray.open" ∧ modeCreates GeneratedC16.readOnlyModes s.mode = false)
        ∨ (s.enclosing = "LazyZarrArray.create" ∧ s.mode = "param:mode"))
    ∧ GeneratedC16.openStoragePassesMode = true
    ∧ (∃ s ∈ sites, s.enclosing = "from_zarr" ∧ s.callee = "open_storage_array" ∧ s.mode = "r") := by decide

/-- Constructing a `LazyZarrArray` calls nothing but `super().__init__`; `lazy_zarr_array` only calls the
constructor; the create-arrays task creates with mode "a" (create, or open when it already exists). -/
theorem C16_lazy_constructor_pure :
    GeneratedC16.lazyInitCalls = ["super", "super().__init__"]
    ∧ GeneratedC16.lazyFactoryCalls = ["LazyZarrArray"]
    ∧ (∀ s ∈ sites, s.callee = ".create" → s.enclosing = "create_zarr_array" ∧ s.mode = "a")
    ∧ modeCreates GeneratedC16.readOnlyModes "a" = true := by decide

/-! ### (B) the lifecycle model -/

/-- Building arrays, composing operations, `from_zarr`, `plan()` and `visualize()` — in any number and
order — leave the store log and the set of created arrays unchanged. -/
theorem C16_build_plan_visualize_no_effect (opt : List Op → List Op) (s : St) (h : List Api)
    (hne : ∀ a ∈ h, a.isExecute = false) :
    (run opt s h).log = s.log ∧ (run opt s h).created = s.created :=
  run_nonexec opt h s hne

/-- No Zarr array is created in storage before execution starts: a lazy array that is *constructed*
stays *constructed* (never *created*) through every non-executing history. -/
theorem C16_constructed_until_execute (opt : List Op → List Op) (s : St) (h : List Api) (a : String)
    (hne : ∀ x ∈ h, x.isExecute = false) (ha : life s a ≠ Life.created) :
    life (run opt s h) a ≠ Life.created := by
  have hc := (run_nonexec opt h s hne).2
  intro hl
  apply ha
  have h1 : a ∈ (run opt s h).created := (life_created_iff _ a).mp hl
  rw [hc] at h1
  exact (life_created_iff s a).mpr h1

/-- Creation happens only inside an executing call: if a history created an array, it contains an
`execute` step. -/
theorem C16_create_only_in_execute (opt : List Op → List Op) (s : St) (h : List Api) (a : String)
    (ha : a ∈ (run opt s h).created) (h0 : a ∉ s.created) :
    ∃ optimize sched, Api.execute optimize sched ∈ h := by
  by_cases hex : ∃ x ∈ h, x.isExecute = true
  · obtain ⟨x, hx, hxe⟩ := hex
    cases x with
    | execute o sc => exact ⟨o, sc, hx⟩
    | build _ => simp [Api.isExecute] at hxe
    | fromZarr _ => simp [Api.isExecute] at hxe
    | plan _ => simp [Api.isExecute] at hxe
    | visualize _ => simp [Api.isExecute] at hxe
  · have hall : ∀ x ∈ h, x.isExecute = false := by
      intro x hx
      cases hxe : x.isExecute with
      | false => rfl
      | true => exact absurd ⟨x, hx, hxe⟩ hex
    rw [(run_nonexec opt h s hall).2] at ha
    exact absurd ha h0

/-- … and inside an executing call only through a task of the create-arrays op. -/
theorem C16_created_by_create_task (opt : List Op → List Op) (s : St) (optimize : Bool) (sched : List Task)
    (a : String) (ha : a ∈ (step opt s (Api.execute optimize sched)).created) (h0 : a ∉ s.created) :
    Task.create a ∈ sched := by
  simp only [step] at ha
  have hm := foldl_applyEvent_new_created _ s a ha h0
  simp only [schedEvents, List.mem_flatMap] at hm
  obtain ⟨t, ht, hte⟩ := hm
  cases t with
  | create b =>
    simp [taskEvents] at hte
    subst hte
    exact ht
  | run n i =>
    simp only [taskEvents] at hte
    split at hte <;> simp at hte

/-- The finalized plan makes create-arrays a predecessor of every pipeline node whenever the (optimized)
dag contains a lazy array, whatever the optimizer does. -/
theorem C16_create_is_predecessor (opt : List Op → List Op) (ops : List Op) (n : String) (o o' : Op) (a : String)
    (ho : (finalize opt ops).pipes.find? (·.name == n) = some o)
    (ho' : o' ∈ (finalize opt ops).ops) (ha : Target.lazy a ∈ o'.targets) :
    Node.createArrays ∈ preds (finalize opt ops) (Node.op n) :=
  createArrays_pred _ n o ho a (lazy_target_in_creates opt ops o' a ho' ha)

/-- In every execution whose schedule respects the executor contract (`Barrier`: a task starts only after
all tasks of all predecessor nodes — the topological-order hypothesis, C07) and runs only tasks of the
plan, the metadata of a lazy array is written before any chunk of it. -/
theorem C16_create_before_tasks (opt : List Op → List Op) (ops : List Op) (sched : List Task)
    (hV : Valid (finalize opt ops) sched) (hB : Barrier (finalize opt ops) sched)
    (pre post : List Ev) (a : String) (i : Nat)
    (h : schedEvents (finalize opt ops) sched = pre ++ Ev.chunk a i :: post)
    (o : Op) (ho : o ∈ (finalize opt ops).ops) (ha : Target.lazy a ∈ o.targets) :
    Ev.mkmeta a ∈ pre :=
  meta_before_chunk _ sched hV hB pre post a i h (lazy_target_in_creates opt ops o a ho ha)

/-- The acceptor used on observed traces means what it should (1): without an executing call around,
an accepted trace contains no `set`/`delete` at all. -/
theorem C16_acceptor_lazy_sound (tr : List Obs) (hok : traceOk tr = true)
    (hlazy : ∀ e ∈ tr, e ≠ Obs.enter true) : ∀ e ∈ tr, e.isMutation = false := by
  have : scanTrace tr {} 0 = none := by simpa [traceOk, Option.isNone_iff_eq_none] using hok
  exact scanTrace_lazy_no_mutation tr {} 0 this rfl hlazy

/-- (2): in an accepted trace every chunk write is preceded by the creation of its array, unless the
array existed before the session. -/
theorem C16_acceptor_order_sound (tr : List Obs) (hok : traceOk tr = true)
    (pre post : List Obs) (a : String) (h : tr = pre ++ Obs.chunk a :: post) :
    Obs.mkmeta a ∈ pre ∨ Obs.pre a ∈ pre := by
  have hs : scanTrace tr {} 0 = none := by simpa [traceOk, Option.isNone_iff_eq_none] using hok
  rcases scanTrace_chunk_after_create tr {} 0 hs pre post a h with h1 | h1 | h1
  · simp at h1
  · exact Or.inl h1
  · exact Or.inr h1

/-! ### Non-vacuity -/

/-- `a = asarray(...)` (virtual), `b = negative(a)`, `c = sum(b)` with two blocks. -/
def exOps : List Op :=
  [⟨"op-001", [.virt], false, 0, []⟩,
   ⟨"op-002", [.lazy "array-002"], true, 2, ["op-001"]⟩,
   ⟨"op-003", [.lazy "array-003"], true, 1, ["op-002"]⟩]

def exHistory : List Api := exOps.map Api.build ++ [Api.plan true, Api.visualize false, Api.fromZarr "z"]

def exSched : List Task :=
  [.create "array-002", .create "array-003", .run "op-002" 1, .run "op-002" 0, .run "op-003" 0]

def s0 : St := ⟨[], [], []⟩

example : ∀ a ∈ exHistory, a.isExecute = false := by decide
example : (run id s0 exHistory).log = [] ∧ life (run id s0 exHistory) "array-002" = Life.constructed := by decide
example : (finalize id exOps).creates = ["array-002", "array-003"] := by decide
example : schedEvents (finalize id exOps) exSched
    = [.mkmeta "array-002", .mkmeta "array-003", .chunk "array-002" 1, .chunk "array-002" 0, .chunk "array-003" 0] := by
  decide
example : (run id s0 (exHistory ++ [Api.execute true exSched])).created = ["array-002", "array-003"] := by decide
example : Valid (finalize id exOps) exSched := by
  intro t ht
  simp [exSched] at ht
  rcases ht with rfl | rfl | rfl | rfl | rfl
  · exact ⟨Node.createArrays, by decide⟩
  · exact ⟨Node.createArrays, by decide⟩
  · exact ⟨Node.op "op-002", by decide⟩
  · exact ⟨Node.op "op-002", by decide⟩
  · exact ⟨Node.op "op-003", by decide⟩

example : Barrier (finalize id exOps) exSched := barrierOk_sound _ _ (by decide)
/-- a schedule that writes a chunk before create-arrays ran violates the contract (so the hypothesis is not trivial). -/
example : barrierOk (finalize id exOps) [.run "op-002" 0, .create "array-002", .create "array-003"] = false := by decide

/-- accepted: build, plan, then a compute that creates before it writes. -/
example : traceOk [.enter false, .exit, .enter false, .exit, .enter true, .mkmeta "a", .chunk "a", .exit] = true := by
  decide
/-- rejected: metadata written by a build step; a chunk written before its array exists. -/
example : traceOk [.enter false, .mkmeta "a", .exit] = false := by decide
example : traceOk [.enter true, .chunk "a", .mkmeta "a", .exit] = false := by decide

end Cubed.C16
