/-
  C01 — Computed values equal NumPy's for every expression, chunking and executor.

  Property theorems only (helper lemmas live in Proofs/ArraySem.lean and Proofs/Ops.lean).  Every theorem is
  stated for an arbitrary element type, arbitrary sizes and arbitrary (regular, possibly uneven-last) chunk
  sizes; nothing is enumerated.  What is proved is the *block plumbing*: which input blocks an out block
  reads (key functions), where inside the block each element comes from (block functions), and that writing
  every out block at its grid position yields the NumPy reference.  NumPy's kernels on one block, the zarr
  indexer and dtype rules are modelled, not verified (harness/props/c01.py ASSUMPTIONS).

  (a) chunk grids      C01_assemble_blocks, C01_index_in_exactly_one_block, C01_get_item_regular, C01_block_id_roundtrip
  (b) reductions       C01_reduce_groups_partition(_nd), C01_reduce_tree_correct, C01_argmax_first
  (c) one-to-one ops   C01_repeat_correct(_1d), C01_concat_slices_correct, C01_unstack_correct, C01_reshape_key_bijective,
                       C01_stack_correct (since f3856f5: chunks are unified), C01_stack_unified_blocks_correct,
                       C01_stack_old_variant_fails (the variant before f3856f5, without unification)
  (d) selections       C01_selection_correct(_nd), C01_rechunk_correct(_nd), C01_index_slice_correct, C01_flip_correct
  (e) scan             C01_scan_accepts (since 5fff6ae: every block count), C01_scan_increment_read_in_bounds,
                       C01_scan_correct_partial, C01_scan_old_accepts_iff / C01_scan_old_variant_fails (before 5fff6ae)
-/
import CubedModel.Proofs.ArraySem
import CubedModel.Proofs.Ops

namespace Cubed.C01

open Cubed.ArraySem Cubed.Ops

/-! ## (a) chunk grids -/

/-- Cutting an n-d array into the blocks of a chunk grid and writing every block back at its grid position
gives the array back (every rank, every chunk size, uneven last chunks included). -/
theorem C01_assemble_blocks {α : Type} (A : List Nat → α) (cs is : List Nat) (h : is.length = cs.length) :
    assembleN cs (blockN A cs) is = A is :=
  assembleN_blockN A cs is (by omega)

/-- Every in-range index lies in an existing block at an in-range local position (block lengths
`min c (n - b*c)`), and in no other block: `i = (i / c) * c + i % c` is the only decomposition. -/
theorem C01_index_in_exactly_one_block (shape cs is : List Nat) (hlen : shape.length = cs.length)
    (hpos : AllPos cs) (h : InBox is shape) :
    (InBox (divs is cs) (numblocksN shape cs) ∧ InBox (mods is cs) (blockShapeN shape cs (divs is cs)))
    ∧ ∀ bs js, bs.length = cs.length → InBox js cs → glob cs bs js = is → bs = divs is cs ∧ js = mods is cs :=
  ⟨divs_mods_inBox hlen hpos h, fun _ _ hb hj hg => glob_unique hb hj hg⟩

/-- `get_item` (cumulative sums over the chunk tuple) on a regular chunk tuple is
`slice(b*c, min((b+1)*c, n))`, and the tuple has `ceil(n/c)` entries summing to `n`. -/
theorem C01_get_item_regular (n c b : Nat) (hc : 0 < c) (hb : b < nblocks n c) :
    getItem (chunksOf n c) b = (b * c, min ((b + 1) * c) n)
    ∧ (chunksOf n c).length = nblocks n c ∧ (chunksOf n c).sum = n :=
  ⟨getItem_chunksOf hc hb, length_chunksOf n c hc, sum_chunksOf n c⟩

/-- `map_blocks` / `general_blockwise` deliver the block id through a virtual offsets array:
`offset_to_block_id(block_id_to_offset(c, numblocks), numblocks) = c`, and back. -/
theorem C01_block_id_roundtrip (coords numblocks : List Nat) (h : InBox coords numblocks) :
    unravel (ravel coords numblocks) numblocks = coords
    ∧ ∀ off, off < numblocks.foldl (· * ·) 1 → ravel (unravel off numblocks) numblocks = off :=
  ⟨unravel_ravel h, fun off ho => ravel_unravel off numblocks ho⟩

/-! ## (b) reductions -/

/-- `partial_reduce`: the groups `range(bi*k, min((bi+1)*k, nb))` of the `ceil(nb/k)` out blocks,
concatenated in order, are exactly the blocks `0 … nb-1` in order; a block `c` is in group `bi` iff
`bi = c / k`. -/
theorem C01_reduce_groups_partition (k nb : Nat) (hk : 0 < k) :
    (List.range (nblocks nb k)).flatMap (groupKeys k nb) = List.range nb
    ∧ ∀ b c, c ∈ groupKeys k nb b ↔ (c < nb ∧ b = c / k) :=
  ⟨groupKeys_flat k nb hk, fun _ _ => mem_groupKeys hk⟩

/-- n-d `partial_reduce` (several axes, fan-in `ks` per axis, 1 on the axes that are not reduced): in block
`cs` is among the keys of out block `bs` iff it is in the grid and `bs = cs // ks` coordinate-wise — every in
block is read by exactly one out block, and only blocks that exist are read. -/
theorem C01_reduce_groups_partition_nd (ks nbs bs cs : List Nat) (hpos : AllPos ks)
    (h1 : nbs.length = ks.length) (h2 : bs.length = ks.length) :
    cs ∈ partialReduceKeys ks nbs bs ↔ (InBox cs nbs ∧ bs = divs cs ks) :=
  mem_partialReduceKeys ks nbs bs cs hpos h1 h2

/-- `tree_reduce`: after `d` rounds of `partial_reduce` with fan-in `k`, where `k^d ≥ nb` (the code
computes `d` as a float `ceil(log(nb, k))`; the depth is taken as given), exactly one block is left and,
for an *associative* combine function, it is the left fold of the original blocks in index order.  No
commutativity is needed: groups are contiguous and order preserving. -/
theorem C01_reduce_tree_correct {β : Type} (op : β → β → β)
    (hassoc : ∀ a b c, op (op a b) c = op a (op b c)) (k d n : Nat) (hk : 0 < k)
    (hpow : n + 1 ≤ k ^ d) (blk : Nat → β) :
    (treeReduce op k d (n + 1) (fun i => some (blk i))).1 = 1
    ∧ (treeReduce op k d (n + 1) (fun i => some (blk i))).2 0
        = some (((List.range n).map (fun i => blk (i + 1))).foldl op (blk 0)) := by
  have hcount := treeReduce_count op k hk d (n + 1) (fun i => some (blk i)) hpow (by omega)
  refine ⟨hcount, ?_⟩
  have hfold := treeReduce_fold op hassoc k hk d (n + 1) (fun i => some (blk i))
  rw [hcount] at hfold
  have h1 : ofoldO op ((List.range 1).map (treeReduce op k d (n + 1) (fun i => some (blk i))).2)
      = (treeReduce op k d (n + 1) (fun i => some (blk i))).2 0 := by
    simp [ofoldO, List.range_succ, oop_none_left]
  rw [h1] at hfold
  rw [hfold]
  have h2 : (List.range (n + 1)).map (fun i => some (blk i))
      = (blk 0 :: (List.range n).map (fun i => blk (i + 1))).map some := by
    rw [List.range_succ_eq_map]
    simp [List.map_map, Function.comp_def]
  rw [h2]
  exact ofold_cons op _ _

/-- `argmax` (arg_reduction): with the `(index, value)` candidate encoding — candidate `i` is the first
maximum of block `i` with its absolute index — the tree returns the *first* maximal candidate in block order
(every earlier candidate is strictly smaller, every later one not larger), as `np.argmax` does.  The combine
step is associative, so the tree theorem applies. -/
theorem C01_argmax_first (k d n : Nat) (hk : 0 < k) (hpow : n + 1 ≤ k ^ d) (cand : Nat → Nat × Nat) :
    ∃ r pre post, (treeReduce argmaxCombine k d (n + 1) (fun i => some (cand i))).2 0 = some r
      ∧ (List.range (n + 1)).map cand = pre ++ r :: post
      ∧ (∀ y ∈ pre, y.2 < r.2) ∧ (∀ y ∈ post, y.2 ≤ r.2) := by
  have ht := (C01_reduce_tree_correct argmaxCombine argmaxCombine_assoc k d n hk hpow cand).2
  obtain ⟨pre, post, he, hp, hm⟩ :=
    argmax_fold_first ((List.range n).map (fun i => cand (i + 1))) (cand 0) [] [] (by simp) (by simp)
  refine ⟨_, pre, post, ht, ?_, hp, hm⟩
  rw [← he, List.range_succ_eq_map]
  simp [List.map_map, Function.comp_def]

/-! ## (c) one-to-one families -/

/-- `repeat` along one axis: out block `bi` reads in block `bi / r` and keeps the `(bi % r)`-th
chunk-sized slice of `nxp.repeat(block, r)`; assembled, this is `np.repeat`. -/
theorem C01_repeat_correct_1d {α : Type} (A : Nat → α) (r c i : Nat) (hr : 0 < r) :
    repeatOut1 A r c i = repeatRef1 A r i :=
  repeatOut1_correct A r c i hr

/-- … lifted to n dimensions: key function `repeatKey` (`bi // repeats` on `axis`, identity elsewhere). -/
theorem C01_repeat_correct {α : Type} (A : List Nat → α) (r axis c : Nat) (cs is : List Nat) (hr : 0 < r)
    (hlen : is.length = cs.length) (hc : cs[axis]? = some c) :
    assembleN cs (fun bs js => A (glob cs (repeatKey r axis bs) (onAxis2 (repeatLocal r c) axis bs js))) is
      = A (onAxis (· / r) axis is) :=
  repeatN_correct A r axis c cs is hr (by omega) hc

/-- `concat`: the pieces `_array_slices` yields for `[start, stop)`, expanded element by element in order,
are exactly the positions `start … stop-1` of the concatenation, each located in its array (empty arrays
are skipped) at its local index. -/
theorem C01_concat_slices_correct (lens : List Nat) (start stop : Nat) :
    (arraySlices lens 0 start stop).flatMap pieceElems
      = (List.range' start (stop - start)).filterMap (locate lens 0) :=
  arraySlices_correct lens 0 start stop

/-- `unstack`: output number `m` is `A[…, m, …]`: the task reads every block along `axis`, and the
`m`-th yielded slice is slice `m % c` of block `m / c`. -/
theorem C01_unstack_correct {α : Type} (A : List Nat → α) (cs : List Nat) (axis c m : Nat) (js : List Nat)
    (hc : cs[axis]? = some c) (hlen : js.length + 1 = cs.length) (ha : axis ≤ js.length) :
    unstackEval A cs axis c m js = A (insertAt axis m js) :=
  unstack_correct A cs axis c m js hc hlen ha

/-- `reshape_chunks`: out block ↦ the in block with the same C-order offset; a bijection of the block
grids when they have equally many blocks.  (That the element ranges of the two blocks agree is a property of
dask's `reshape_rechunk`, which is not modelled.) -/
theorem C01_reshape_key_bijective (inNb outNb : List Nat)
    (hprod : inNb.foldl (· * ·) 1 = outNb.foldl (· * ·) 1) :
    (∀ out, InBox out outNb →
        InBox (reshapeKey inNb outNb out) inNb ∧ ravel (reshapeKey inNb outNb out) inNb = ravel out outNb)
    ∧ (∀ o1 o2, InBox o1 outNb → InBox o2 outNb → reshapeKey inNb outNb o1 = reshapeKey inNb outNb o2 → o1 = o2) :=
  ⟨fun out h => reshapeKey_spec inNb outNb out hprod h,
   fun o1 o2 h1 h2 h => reshapeKey_injective inNb outNb o1 o2 h1 h2 h hprod⟩

/-- `stack` (since f3856f5 the inputs are checked for equal shape and the other inputs are rechunked to the
chunking of the first): for inputs of equal shape and *any* regular chunkings, element `(…, k, …)` of the
result is element `…` of input `k`.  Composition of `C01_rechunk_correct_nd` and the block-level lemma below. -/
theorem C01_stack_correct {α : Type} (arrs : Nat → List Nat → α) (shape : List Nat) (css : Nat → List Nat)
    (axis k : Nat) (js : List Nat) (hpos : AllPos (css 0)) (hlen : ∀ k, (css k).length = shape.length)
    (hjs : InBox js shape) (ha : axis ≤ js.length) :
    stackUnified arrs shape css axis (insertAt axis k js) = some (arrs k js) :=
  stackUnified_correct arrs shape css axis k js hpos hlen hjs ha

/-- the block-level op (out block `(…, k, …)` reads the block with the remaining coordinates of input `k`,
`expand_dims`) is correct when every input has the chunking of the first — the situation after unification. -/
theorem C01_stack_unified_blocks_correct {α : Type} (arrs : Nat → List Nat → α) (shape cs : List Nat) (axis k : Nat)
    (js : List Nat) (hpos : AllPos cs) (hlen : shape.length = cs.length) (hjs : InBox js shape)
    (ha : axis ≤ js.length) :
    stackEval arrs (fun _ => shape) (fun _ => cs) axis (insertAt axis k js) = some (arrs k js) :=
  stack_correct_partial arrs shape cs axis k js hpos hlen hjs ha

/-- OLD variant (before f3856f5, no unification): the full statement for the block-level op applied to
inputs with their own chunkings … -/
def C01_stack_old_full : Prop :=
  ∀ (arrs : Nat → List Nat → Nat) (shape : List Nat) (css : Nat → List Nat) (axis k : Nat) (js : List Nat),
    (∀ k, AllPos (css k) ∧ (css k).length = shape.length) → InBox js shape → axis ≤ js.length →
    stackEval arrs (fun _ => shape) css axis (insertAt axis k js) = some (arrs k js)

/-- … is false: `stack([a chunks (2,), b chunks (1,)])` with `a = [1,2]`, `b = [3,4]`: element `(1,1)` is read
from block 0 of `b` (a single element, broadcast into the 1×2 chunk) and is `3`, not `4`.  This is why the
unification step is needed; reverting f3856f5 re-introduces exactly this. -/
theorem C01_stack_old_variant_fails : ¬ C01_stack_old_full := by
  intro h
  have := h (fun k idx => 2 * k + idx.headD 0 + 1) [2] (fun k => if k = 0 then [2] else [1]) 0 1 [1]
    (by intro k; by_cases hk : k = 0 <;> simp [hk, AllPos]) (by simp [InBox]) (by simp)
  revert this
  decide

/-! ## (d) selection-based ops (`map_selection`: rechunk, merge_chunks, index, flip) -/

/-- Generic selection theorem (one axis): if the per-block selections tile the output — the `t`-th element
selected for out block `b` is `selTotal (b*oc + t)` — then assembling each out block from the pieces the
indexer yields (input block `e / c`, local index `e % c` for selected position `e`) and writing it at its
grid position computes `A[selTotal]`. -/
theorem C01_selection_correct {α : Type} (A : Nat → α) (c oc : Nat) (sel : Nat → Sel) (selTotal : Nat → Nat)
    (i : Nat) (htile : (selElems (sel (i / oc)))[i % oc]? = some (selTotal i)) :
    assemble1 oc (fun b t => assembleIndexChunk1 A c (sel b) t) i = some (A (selTotal i)) :=
  selection_correct1 A c oc sel selTotal i htile

/-- `_rechunk` / `merge_chunks` (selection `get_item(target_chunks, b)`): values are unchanged, for every
source chunk size `c` and target chunk size `tc`. -/
theorem C01_rechunk_correct {α : Type} (A : Nat → α) (n c tc i : Nat) (htc : 0 < tc) (hi : i < n) :
    assemble1 tc (fun b t => assembleIndexChunk1 A c (.slice (b * tc) (min ((b + 1) * tc) n) 1) t) i = some (A i) :=
  rechunk_correct1 A n c tc i htc hi

/-- … in n dimensions: generic selection theorem (orthogonal per-axis selections, integers drop an axis)
and its instance for `_rechunk` / `merge_chunks` with arbitrary source chunks `ics` and target chunks `tcs`. -/
theorem C01_selection_correct_nd {α : Type} (A : List Nat → α) (ics ocs : List Nat) (sel : List Nat → List Sel)
    (selTotal : List Nat → List Nat) (is : List Nat)
    (htile : selPick (sel (divs is ocs)) (mods is ocs) = some (selTotal is))
    (hlen : (selTotal is).length ≤ ics.length) :
    assembleN ocs (fun b js => assembleIndexChunkN A ics (sel b) js) is = some (A (selTotal is)) :=
  selectionN_correct A ics ocs sel selTotal is htile hlen

theorem C01_rechunk_correct_nd {α : Type} (A : List Nat → α) (shape ics tcs is : List Nat)
    (hlen : shape.length = tcs.length) (hil : shape.length = ics.length) (hpos : AllPos tcs) (h : InBox is shape) :
    assembleN tcs (fun b js => assembleIndexChunkN A ics (rechunkSel shape tcs b) js) is = some (A is) :=
  rechunkN_correct A shape ics tcs is hlen hil hpos h

/-- `x[offset::step]` for any positive step (also one that does not divide the chunk size):
`_target_chunk_selection` (`offset + step * cumsum(target_chunks)`) tiles, so the op computes the slice. -/
theorem C01_index_slice_correct {α : Type} (A : Nat → α) (c m oc offset step i : Nat) (hoc : 0 < oc)
    (hstep : 0 < step) (hi : i < m) :
    assemble1 oc (fun b t => assembleIndexChunk1 A c (targetChunkSel1 (chunksOf m oc) offset step b) t) i
      = some (sliceRef1 A offset step i) :=
  index_slice_correct A c m oc offset step i hoc hstep hi

/-- `flip`: out block `b` selects the mirrored slice `[n - min((b+1)c, n), n - b*c)` and reverses it. -/
theorem C01_flip_correct {α : Type} (A : Nat → α) (n c i : Nat) (hc : 0 < c) (hi : i < n) :
    assemble1 c (fun b => flipBlock1 (blockLen n c b)
        (assembleIndexChunk1 A c (.slice (n - min ((b + 1) * c) n) (n - b * c) 1))) i
      = some (flipRef1 A n i) :=
  flip_correct1 A n c i hc hi

/-! ## (e) scan (cumulative_sum / cumulative_prod) -/

/-- `scan` (since 5fff6ae): the array of per-block totals is declared with the chunk sizes
`(split_size,) * (nb // split_size) + (nb % split_size,)`; there are `ceil(nb / split_size)` of them and they
sum to `nb`, so the build-time assertion `increment.shape[axis] == numblocks[axis]` holds for *every* block
count and every `split_every`. -/
theorem C01_scan_accepts (s nb : Nat) :
    scanAccepts s nb = true ∧ (scanReducedSizes s nb).sum = nb
    ∧ (0 < s → 0 < nb → (scanReducedSizes s nb).length = nblocks nb (scanSplitSize s nb)) :=
  ⟨scanAccepts_all s nb, by unfold scanReducedSizes; exact sum_chunksOf _ _,
   fun hs hnb => length_scanReducedSizes s nb hs hnb⟩

/-- `_scan_binop` reads `inc[bi % split_every]` of increment block `bi // split_every`: that block exists,
the local index is inside it (also in the ragged last block), and it is position `bi` of the increment array. -/
theorem C01_scan_increment_read_in_bounds (s nb bi : Nat) (hs : 0 < s) (hbi : bi < nb) :
    bi / s < nblocks nb (scanSplitSize s nb) ∧ bi % s < blockLen nb (scanSplitSize s nb) (bi / s)
    ∧ scanIncPos s (scanSplitSize s nb) bi = bi :=
  ⟨(scanInc_inBounds s nb bi hs hbi).1, (scanInc_inBounds s nb bi hs hbi).2, scanIncPos_eq s nb bi hbi⟩

/-- OLD variant (before 5fff6ae, all chunks of the totals array declared `split_size`): the assertion held
exactly when `nb ≤ split_every` or `split_every ∣ nb` … -/
theorem C01_scan_old_accepts_iff (s nb : Nat) (hs : 0 < s) (hnb : 0 < nb) :
    scanAcceptsOld s nb = true ↔ (nb ≤ s ∨ nb % s = 0) :=
  scanAcceptsOld_iff s nb hs hnb

def C01_scan_old_full : Prop := ∀ s nb, 0 < s → 0 < nb → scanAcceptsOld s nb = true

/-- … so it rejected e.g. 6 blocks (reverting 5fff6ae re-introduces this `AssertionError`). -/
theorem C01_scan_old_variant_fails : ¬ C01_scan_old_full := by
  intro h
  have := h 5 6 (by decide) (by decide)
  revert this
  decide

/-- One level of `scan` for every block count (no acceptance hypothesis is needed any more), under the explicit
hypothesis that the increment array holds at position `p` the fold of everything before block `p` (delivered
by `partial_reduce` and the recursive call, which is not unfolded here — that is what is missing for the full
statement): `binop(scanned, increment[bi])` is the
inclusive scan of the whole axis.  The code applies `binop(scanned, inc)`, hence commutativity. -/
theorem C01_scan_correct_partial {β : Type} (op : β → β → β) (hassoc : ∀ a b c, op (op a b) c = op a (op b c))
    (hcomm : ∀ a b, op a b = op b a) (A : Nat → β) (n c s i : Nat) (hc : 0 < c) (hi : i < n)
    (inc : Nat → Option β)
    (hinc : ∀ p, p < nblocks n c → inc p = ofold op ((List.range (p * c)).map A)) :
    scanOut1 op A c s (nblocks n c) inc i = scanRef1 op A i :=
  scanOut1_correct op hassoc hcomm A n c s i hc hi inc hinc

/-! ## Non-vacuity: concrete instances satisfying the hypotheses -/

-- a 5×7 array in chunks (2,3): index (4,5) is in block (2,1) at (0,2); the last blocks are short
example : InBox [4, 5] [5, 7] ∧ AllPos [2, 3] := by simp [InBox, AllPos]
example : divs [4, 5] [2, 3] = [2, 1] ∧ mods [4, 5] [2, 3] = [0, 2] ∧ blockShapeN [5, 7] [2, 3] [2, 2] = [1, 1] := by decide
example : getItem (chunksOf 7 3) 2 = (6, 7) := by decide
example : InBox [2, 1] [3, 3] ∧ ravel [2, 1] [3, 3] = 7 ∧ unravel 7 [3, 3] = [2, 1] := by decide
-- 7 blocks, fan-in 2, depth 3 (2^3 ≥ 7): groups [0,1] [2,3] [4,5] [6]; string concatenation is associative, not commutative
example : (List.range (nblocks 7 2)).map (groupKeys 2 7) = [[0, 1], [2, 3], [4, 5], [6]] := by decide
example : partialReduceKeys [2, 1] [5, 3] [2, 1] = [[4, 1]] ∧ AllPos [2, 1] := by simp [AllPos]; decide
example : 6 + 1 ≤ 2 ^ 3 := by decide
example : (treeReduce (· ++ ·) 2 3 7 (fun i => some [i])).2 0 = some [0, 1, 2, 3, 4, 5, 6] := by decide
-- argmax candidates (index, value) of 5 blocks: the first of the two maxima (value 9) wins
example : (treeReduce argmaxCombine 2 3 5 (fun i => some ([(1, 4), (3, 9), (4, 2), (7, 9), (8, 1)].getD i (0, 0)))).2 0 = some (3, 9) := by decide
-- repeat: 5 elements in chunks of 2, repeated 3 times
example : (List.range 15).map (repeatOut1 (fun x => x) 3 2) = [0, 0, 0, 1, 1, 1, 2, 2, 2, 3, 3, 3, 4, 4, 4] := by decide
example : ([2, 3] : List Nat)[1]? = some 3 := by decide
-- concat of arrays of lengths 3, 0, 4: out block [2, 5) takes [2,3) of array 0 and [0,2) of array 2
example : arraySlices [3, 0, 4] 0 2 5 = [(0, 2, 3), (2, 0, 2)] := by decide
-- stack: inputs chunked (2,) and (1,): correct after unification, wrong in the old variant
example : AllPos [2] ∧ InBox [1] [2] := by simp [InBox, AllPos]
example : stackUnified (fun k idx => 2 * k + idx.headD 0 + 1) [2] (fun k => if k = 0 then [2] else [1]) 0 [1, 1] = some 4 := by decide
example : stackEval (fun k idx => 2 * k + idx.headD 0 + 1) (fun _ => [2]) (fun k => if k = 0 then [2] else [1]) 0 [1, 1] = some 3 := by decide
example : stackEval (fun k idx => 2 * k + idx.headD 0 + 1) (fun _ => [2]) (fun _ => [2]) 0 [1, 1] = some 4 := by decide
-- selections: x[1:12:3] on 12 elements in chunks of 4 (out chunk 1): tiles
example : (selElems (targetChunkSel1 (chunksOf 4 1) 1 3 2))[0]? = some 7 := by decide
example : selPick (rechunkSel [5, 7] [2, 3] (divs [4, 5] [2, 3])) (mods [4, 5] [2, 3]) = some [4, 5] := by decide
example : inBox [1, 0] [2, 2] = true ∧ reshapeKey [4] [2, 2] [1, 0] = [2] := by decide
-- scan: 6 blocks: totals array declared with chunks (5, 1); the old declaration (5, 5) was refused
example : scanReducedSizes 5 6 = [5, 1] ∧ scanReducedSizes 5 26 = [5, 5, 5, 5, 5, 1] ∧ scanReducedSizes 5 3 = [3] := by decide
example : scanAcceptsOld 5 10 = true ∧ scanAcceptsOld 5 6 = false ∧ scanAcceptsOld 5 3 = true := by decide
example : (7 : Nat) < 11 ∧ 7 / 5 < nblocks 11 (scanSplitSize 5 11) ∧ 7 % 5 < blockLen 11 (scanSplitSize 5 11) (7 / 5) := by decide
example : ∀ p, p < nblocks 6 2 → (fun p => ofold (· + ·) ((List.range (p * 2)).map (fun x => x + 1))) p
    = ofold (· + ·) ((List.range (p * 2)).map (fun x => x + 1)) := fun _ _ => rfl

end Cubed.C01
