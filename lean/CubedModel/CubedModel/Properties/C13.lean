/-
  C13 — Plan task counts match execution; callbacks see each event exactly once in order.

  Property theorems only (model: Model/Sched.lean, lemmas: Proofs/Sched.lean).  The executor model is
  the transition system of C07; callback emission is a function of the step label (`emit`).
-/
import CubedModel.Proofs.Sched
import CubedModel.Model.GeneratedC13

namespace Cubed.C13

open Cubed.Sched

/-! ## Counts -/

/-- (a) `num_tasks = math.prod(len(c) for c in chunks)` is the number of keys `ChunkKeys` enumerates
(the length of `pipeline.mappable`), for every grid. -/
theorem C13_num_tasks_eq_len (nb : List Nat) : (chunkKeys nb).length = numTasks nb :=
  length_chunkKeys nb

/-- (a') in general: `itertools.product` of pools has the product of their lengths. -/
theorem C13_product_length {α : Type} (pools : List (List α)) :
    (product pools).length = numTasks (pools.map List.length) :=
  length_product pools

/-- (a'') each block of the grid is enumerated exactly once (one task per output block). -/
theorem C13_keys_each_block_once (nb : List Nat) :
    (chunkKeys nb).Nodup ∧ ∀ key, key ∈ chunkKeys nb ↔ InGrid key nb :=
  ⟨chunkKeys_nodup nb, mem_chunkKeys nb⟩

/-- (b) `ChunkKeys.range(start)` (`product_from`) is the enumeration from position `start` on.
Full statement: -/
def RangeEqDrop : Prop :=
  ∀ (nb : List Nat) (start : Nat), productFrom nb start = (chunkKeys nb).drop start

/-- (b) holds for every grid of rank ≥ 1 (any block counts, including empty axes, any start) … -/
theorem C13_range_eq_drop_partial (nb : List Nat) (hne : nb ≠ []) (start : Nat) :
    productFrom nb start = (chunkKeys nb).drop start :=
  productFrom_eq_drop nb hne start

/-- … and with a stop: `ChunkKeys.range(start, stop) = all_keys[start:stop]`. -/
theorem C13_range_slice_partial (nb : List Nat) (hne : nb ≠ []) (start stop : Nat) :
    chunkKeysRange nb start (some stop) = ((chunkKeys nb).drop start).take (stop - start) :=
  chunkKeysRange_eq nb hne start stop

/-- … but not for rank 0: `product_from()` returns nothing (`if not pools: return`) while
`itertools.product()` yields the empty key — `list(ChunkKeys(()).range(0)) == []` but
`list(ChunkKeys(())) == [[]]`.  (No executor in the repository calls `range`; the per-op counts (a),
(c) are unaffected.) -/
theorem C13_range_eq_drop_fails : ¬ RangeEqDrop := by
  intro h
  have := h [] 0
  simp [productFrom, chunkKeys, product] at this

/-- (b'') **Region stores advertise the number of tasks they run.**  `_store_array` rechunks the source
to the target's chunks when they differ and then advertises `source.npartitions`; its task iterable has
one element per target block met by the region.  For every region the code accepts (positive target
chunks, chunk-aligned start; axes are `(start, stop, source chunk, target chunk)`), whatever the
chunking of the source: -/
theorem C13_region_count (axes : List (Nat × Nat × Nat × Nat))
    (h : ∀ a ∈ axes, 0 < a.2.2.2 ∧ a.1 % a.2.2.2 = 0 ∧ a.1 ≤ a.2.1) :
    regionAdvertised axes = regionReal axes :=
  region_count_eq axes h

/-- What the fix (repository commit ba97b91) repaired: the variant without the inserted rechunk
(`regionAdvertisedOld`, `source.npartitions` of the source as given) was right only for sources chunked
like the target … -/
theorem C13_region_count_before_fix_equal_chunks (axes : List (Nat × Nat × Nat × Nat))
    (h : ∀ a ∈ axes, 0 < a.2.2.2 ∧ a.2.2.1 = a.2.2.2 ∧ a.1 % a.2.2.2 = 0 ∧ a.1 ≤ a.2.1) :
    regionAdvertisedOld axes = regionReal axes :=
  region_count_old_eq axes h

/-- … and wrong otherwise: a source of one chunk of 4 stored into `[0,4)` of a target with chunks of 2
advertised 1 task and ran 2.  A recurrence of this on the tree under test is a violation. -/
theorem C13_region_count_before_fix_wrong :
    ¬ ∀ axes : List (Nat × Nat × Nat × Nat),
      (∀ a ∈ axes, 0 < a.2.2.1 ∧ 0 < a.2.2.2 ∧ a.1 % a.2.2.2 = 0 ∧ a.1 ≤ a.2.1) →
      regionAdvertisedOld axes = regionReal axes := by
  intro h
  have := h [(0, 4, 4, 2)] (by intro a ha; simp at ha; subst ha; decide)
  revert this; decide

/-! ## Events -/

/-- (c) **The event list of every complete run is in the language**
`computeStart · (opStart* · taskEnd^n interleaved · opEnd*)* · computeEnd`, one block per generation
of the schedule, `n = ntasks o` (= `len(list(pipeline.mappable))`) for each op `o` of the generation —
for every DAG, every scheduling policy (batch size, workers), sequential or parallel mode. -/
theorem C13_events_in_language (d : Dag) (allow : St → Nat → Nat → Bool) (sched : List (List Nat))
    (ls : List Label) (s : St) (hr : Run d allow (init sched) ls s) (hc : s.complete) :
    Lang d sched (events ls) :=
  events_in_lang hr hc

/-- (c') in sequential mode (one op per generation: single-threaded, or `compute_arrays_in_parallel`
off) the language is exactly `computeStart · (opStart · taskEnd^n · opEnd)* · computeEnd`. -/
theorem C13_sequential_language (d : Dag) (allow : St → Nat → Nat → Bool) (order : List Nat)
    (ls : List Label) (s : St) (hr : Run d allow (init (seqSchedule d order)) ls s) (hc : s.complete) :
    events ls = .computeStart :: (visitNodes d order).flatMap (opBlock d) ++ [.computeEnd] :=
  (lang_seq (visitNodes d order) _).1 (events_in_lang hr hc)

/-- (d) **Each operation: exactly one start, then its task ends, then exactly one end.**  The event
list splits as `A · opStart o · B · opEnd o · C` with no event of `o` in `A` or `C`, no further start /
end of `o` in `B`, and exactly `ntasks o` task ends of `o` in `B`. -/
theorem C13_each_op_once_in_order (d : Dag) (allow : St → Nat → Nat → Bool) (sched : List (List Nat))
    (hnd : sched.flatten.Nodup) (ls : List Label) (s : St)
    (hr : Run d allow (init sched) ls s) (hc : s.complete) (o : Nat) (ho : o ∈ sched.flatten) :
    OpShape (events ls) o (d.ntasks o) :=
  lang_shape (events_in_lang hr hc) hnd ho

/-- (d') as counts: one operation-start, one operation-end, `ntasks o` task-end notifications. -/
theorem C13_counts (d : Dag) (allow : St → Nat → Nat → Bool) (sched : List (List Nat))
    (hnd : sched.flatten.Nodup) (ls : List Label) (s : St)
    (hr : Run d allow (init sched) ls s) (hc : s.complete) (o : Nat) (ho : o ∈ sched.flatten) :
    (events ls).count (.opStart o) = 1 ∧ (events ls).count (.opEnd o) = 1 ∧
      (events ls).count (.taskEnd o) = d.ntasks o :=
  opShape_counts (lang_shape (events_in_lang hr hc) hnd ho)

/-- (e) the computation as a whole: one compute-start, first, and one compute-end, last. -/
theorem C13_compute_events_once (d : Dag) (allow : St → Nat → Nat → Bool) (sched : List (List Nat))
    (ls : List Label) (s : St) (hr : Run d allow (init sched) ls s) (hc : s.complete) :
    ∃ body, events ls = .computeStart :: body ++ [.computeEnd] ∧
      body.count .computeStart = 0 ∧ body.count .computeEnd = 0 :=
  lang_compute_once (events_in_lang hr hc)

/-- (f) **Plan total**: when every op advertises its real task count, the number of task-end
notifications of a run is the plan's total (`_calculate_stats` sums the advertised counts). -/
theorem C13_plan_total (d : Dag) (allow : St → Nat → Nat → Bool) (sched : List (List Nat))
    (adv : Nat → Nat) (hadv : ∀ o ∈ sched.flatten, adv o = d.ntasks o)
    (hnd : sched.flatten.Nodup) (ls : List Label) (s : St)
    (hr : Run d allow (init sched) ls s) (hc : s.complete) :
    ((events ls).filter isTaskEnd).length = planTotal (sched.flatten.map adv) := by
  rw [lang_total (events_in_lang hr hc) hnd, planTotal_eq_sum]
  congr 1
  exact (List.map_congr_left hadv).symm

/-- (g) the executable membership test is sound: an accepted event list is the event list of a
complete run (so observed lists that pass are in the language of (c)). -/
theorem C13_accepts_sound (d : Dag) (sched : List (List Nat)) (tr : List Event)
    (h : accepts d sched tr = true) :
    ∃ ls s, Run d anyPolicy (init sched) ls s ∧ s.complete ∧ events ls = tr ∧ Lang d sched tr := by
  obtain ⟨ls, s, hr, hc, he⟩ := accepts_sound h
  exact ⟨ls, s, hr, hc, he, he ▸ events_in_lang hr hc⟩

/-- (h) **Tie to the source** (facts regenerated by `harness/extract_c13.py` on every run): blockwise ops
count the same chunk grid they enumerate (`math.prod(len(c) for c in X)` next to `ChunkKeys(X)`), only when the
caller gave no count, and pass both on; fused ops keep the successor's iterable and count; a region store
rechunks the source to the target's chunks and then advertises `source.npartitions` for `OutputBlocksIterable` (see (b'')); create-arrays counts its own list;
the plan total accumulates the advertised counts; compute-start / -end bracket the executor's run. -/
theorem C13_code_shape :
    GeneratedC13.blockwiseCountSource = GeneratedC13.blockwiseMappableSource ∧
    GeneratedC13.blockwiseCountOnlyIfNone = true ∧
    GeneratedC13.blockwisePassesCount = true ∧ GeneratedC13.blockwisePassesMappable = true ∧
    GeneratedC13.fuseKeepsSuccessorTasks = true ∧ GeneratedC13.fuseMultipleKeepsSuccessorTasks = true ∧
    GeneratedC13.regionCountSource = "source.npartitions" ∧
    GeneratedC13.regionRechunksSource = true ∧
    GeneratedC13.regionChunksizeSource = "to_chunksize(normalize_chunks(chunks, source.shape, dtype=source.dtype))" ∧
    GeneratedC13.regionBlocksSource = "OutputBlocksIterable(region, shape, chunks)" ∧
    GeneratedC13.createCountIsLenOfMappable = true ∧
    GeneratedC13.planTotalAccumulates = true ∧
    GeneratedC13.executeBracket = "start,run,end" := by decide

/-! ## Non-vacuity -/

example : chunkKeys [2, 3] = [[0,0],[0,1],[0,2],[1,0],[1,1],[1,2]] := by decide
example : numTasks [2, 3] = 6 := by decide
example : productFrom [2, 3] 4 = [[1,1],[1,2]] := by decide
example : chunkKeysRange [2, 3] 3 (some 5) = [[1,0],[1,1]] := by decide
example : InGrid [1, 2] [2, 3] := by simp [InGrid]
example : regionAdvertised [(2, 6, 2, 2), (0, 3, 3, 3)] = 2 ∧ regionReal [(2, 6, 2, 2), (0, 3, 3, 3)] = 2 := by decide
example : regionAdvertised [(0, 4, 1, 2)] = 2 ∧ regionReal [(0, 4, 1, 2)] = 2 ∧ regionAdvertisedOld [(0, 4, 1, 2)] = 4 := by decide
example : regionAdvertised [(0, 4, 4, 2), (3, 5, 1, 3)] = 2 ∧ regionReal [(0, 4, 4, 2), (3, 5, 1, 3)] = 2 := by decide

/-- two independent ops (1: 2 tasks, 2: 1 task) after create-arrays (0: 2 tasks) -/
def exDag : Dag :=
  { edges := [(0,5),(5,1),(5,2),(1,3),(2,4)]
    pipeline := fun n => [0,1,2].contains n
    computed := fun _ => false
    ntasks := fun n => match n with | 0 => 2 | 1 => 2 | 2 => 1 | _ => 0
    create := some 0 }

def exTrace : List Event :=
  [.computeStart, .opStart 0, .taskEnd 0, .taskEnd 0, .opEnd 0,
   .opStart 1, .opStart 2, .taskEnd 1, .taskEnd 2, .taskEnd 1, .opEnd 1, .opEnd 2, .computeEnd]

example : genSchedule exDag [[0],[5],[1,2],[3,4]] = [[0],[1,2]] := by decide
example : accepts exDag [[0],[1,2]] exTrace = true := by decide
example : ([[0],[1,2]] : List (List Nat)).flatten.Nodup := by decide

/-- a complete run exists, so the hypotheses of (c)–(f) are satisfiable -/
example : ∃ ls s, Run exDag anyPolicy (init [[0],[1,2]]) ls s ∧ s.complete ∧ events ls = exTrace :=
  let ⟨ls, s, hr, hc, he, _⟩ := C13_accepts_sound exDag _ exTrace (by decide)
  ⟨ls, s, hr, hc, he⟩

/-- sequential mode on the same DAG -/
example : accepts exDag (seqSchedule exDag [0,5,1,2,3,4])
    [.computeStart, .opStart 0, .taskEnd 0, .taskEnd 0, .opEnd 0, .opStart 1, .taskEnd 1, .taskEnd 1,
     .opEnd 1, .opStart 2, .taskEnd 2, .opEnd 2, .computeEnd] = true := by decide

/-- an operation end before the last task end, a missing task end, a doubled start: all rejected -/
example : accepts exDag [[0],[1,2]]
    [.computeStart, .opStart 0, .taskEnd 0, .opEnd 0, .taskEnd 0,
     .opStart 1, .opStart 2, .taskEnd 1, .taskEnd 2, .taskEnd 1, .opEnd 1, .opEnd 2, .computeEnd] = false := by decide
example : accepts exDag [[0],[1,2]]
    [.computeStart, .opStart 0, .taskEnd 0, .taskEnd 0, .opEnd 0,
     .opStart 1, .opStart 2, .taskEnd 1, .taskEnd 2, .opEnd 1, .opEnd 2, .computeEnd] = false := by decide

end Cubed.C13
