/-
  C06 — Tasks are idempotent and independent of order, repetition and placement.

  Property theorems only (lemmas in Proofs/TaskStore.lean).  Stores are arbitrary functions `K → Option V`
  over arbitrary key and value types; ops, plans and schedules are arbitrary lists — nothing is bounded.

  Hypotheses kept explicit (each is another property or a structural fact of plans):
    OpOK.single      (i)   a key is written by at most one task of an op                       (C05)
    OpOK.noSelfRead  (ii)  no task of an op reads a key written by a task of the same op
    PlanOK.final     (iii) no later op writes a key that an earlier op reads or writes
                           (arrays have one producer, producers run first: inputs are complete and final, C07)
  They are checked on the observed read/write footprint of real plans by the correspondence (drivers/C06.lean).
-/
import CubedModel.Proofs.TaskStore
import CubedModel.Model.GeneratedC06

namespace Cubed.C06

open Cubed.TaskStore

variable {K V : Type} [DecidableEq K]

/-- Repetition: executing a task twice in a row leaves the store exactly as executing it once. -/
theorem C06_run_idem (t : Task K V) (s : Store K V) (hns : ∀ k ∈ t.reads, k ∉ t.writes) :
    run t (run t s) = run t s :=
  run_idem t s hns

/-- Order: two tasks of one op (disjoint writes, neither reads what the other writes) commute. -/
theorem C06_run_comm (t u : Task K V) (s : Store K V)
    (hw : ∀ k, k ∈ t.writes → k ∉ u.writes)
    (htu : ∀ k ∈ t.reads, k ∉ u.writes) (hut : ∀ k ∈ u.reads, k ∉ t.writes) :
    run t (run u s) = run u (run t s) :=
  run_comm t u s hw htu hut

/-- Order and repetition: any execution list that runs exactly the tasks of an op — in any order, each any
number of times — yields the same store as the plain task list. -/
theorem C06_perm_dup_invariant (o sched : List (Task K V)) (hop : OpOK o) (hc : Covers sched o)
    (s : Store K V) : runAll sched s = runAll o s :=
  perm_dup_invariant hop sched hc s

/-- Granularity: a task stores its chunks one key at a time (multi-output ops; a backup cancelled half way; two
executions of one task overlapping in time).  Any interleaving of such single-key writes in which every key of
the op is written at least once ends in the same store as the plain task list. -/
theorem C06_write_level_interleaving (o sched : List (Task K V)) (hop : OpOK o)
    (hc : Covers sched (splitOp o)) (s : Store K V) : runAll sched s = runAll o s :=
  write_level_invariant hop sched hc s

/-- Late repetition: re-executing a task after its op completed and after any executions of tasks that do
not write its inputs or outputs (downstream ops) leaves the store unchanged. -/
theorem C06_late_rerun_noop (o later : List (Task K V)) (t : Task K V) (hop : OpOK o) (ht : t ∈ o)
    (hl : ∀ u ∈ later, ∀ k, k ∈ u.writes → k ∉ t.reads ∧ k ∉ t.writes) (s : Store K V) :
    run t (runAll later (runAll o s)) = runAll later (runAll o s) :=
  late_rerun_noop hop t ht later hl s

/-- Whole plans: an adversarial execution — per op any covering schedule, followed by any re-executions of
tasks of ops completed so far — ends in the same store as running every op once in plain order. -/
theorem C06_adversarial_schedule_invariant (ps : List (Phase K V)) (s : Store K V)
    (hp : PlanOK (ps.map (·.op))) (hv : PhasesOK [] ps) :
    runAll (execPhases ps) s = runAll (ps.map (·.op)).flatten s := by
  have := phases_invariant ps [] s (by simpa using hp) hv
  simpa [runAll] using this

/-- … and therefore any further re-execution of any task of the plan is a no-op on the final store. -/
theorem C06_rerun_on_final_store (ops : List (List (Task K V))) (hp : PlanOK ops) (t : Task K V)
    (ht : t ∈ ops.flatten) (s : Store K V) : run t (runAll ops.flatten s) = runAll ops.flatten s :=
  rerun_in_plan ops hp t ht s

/-- Placement: if task bodies ignore process-global state, then running every execution in a process with
an arbitrary state of its own (fresh spawned process, reused worker, …) is the same as running all in one. -/
theorem C06_placement_independent {G : Type} (l : List (PTask G K V × G)) (g₀ : G)
    (hpure : ∀ pg ∈ l, pg.1.Pure) (s : Store K V) :
    runAll (l.map (fun pg => pg.1.at pg.2)) s = runAll (l.map (fun pg => pg.1.at g₀)) s := by
  have : l.map (fun pg => pg.1.at pg.2) = l.map (fun pg => pg.1.at g₀) :=
    List.map_congr_left (fun pg h => pure_at_eq pg.1 (hpure pg h) pg.2 g₀)
  rw [this]

/-- Open-or-create never truncates: a `mode="a"` creation leaves every present key as it is. -/
theorem C06_create_never_truncates (t : Task K V) (hab : t.ifAbsent = true) (s : Store K V) (k : K)
    (hk : (s k).isSome) : run t s k = s k := by
  by_cases hw : k ∈ t.writes
  · rw [run_of_mem t s hw]; simp [Task.val, hab, hk]
  · exact run_of_not_mem t s hw

/-- The executable association-list store used by the driver computes the same lookups as the model. -/
theorem C06_executable_store_refines (ts : List (Task K V)) (l : StoreL K V) :
    lookupL (runAllL ts l) = runAll ts (lookupL l) :=
  lookupL_runAllL ts l

/-- The syntactic shape of the code the model transcribes (facts regenerated from the source by
harness/extract_c06.py on every run; this stops compiling when one of them changes):
the task body reads the designated chunks, applies the function and *assigns* the result to the output chunk
without ever reading the output array; an executor task is the bare call `func(input, config=config)`;
arrays are created with mode "a"; the offset helpers are NumPy's ravel / unravel of `(block_id, numblocks)`;
a random block's Philox key is `root_seed + block_id_to_offset(block_id, numblocks)`, `_random` mentions no
name other than its arguments, and `block_id` is decoded from the offsets argument of the task. -/
theorem C06_source_shape :
    GeneratedC06.taskWriteIsPlainAssignment = true ∧ GeneratedC06.taskNeverReadsItsOutput = true
    ∧ GeneratedC06.taskResultsFromHelper = true ∧ GeneratedC06.taskReadsThenApplies = true
    ∧ GeneratedC06.getChunkReadsNamedArray = true ∧ GeneratedC06.taskIsFunctionOfInputAndConfig = true
    ∧ GeneratedC06.createArrayMode = "a"
    ∧ GeneratedC06.blockIdToOffsetExpr = "int(np.ravel_multi_index(block_id, numblocks))"
    ∧ GeneratedC06.offsetToBlockIdExpr = "tuple((int(i) for i in np.unravel_index(offset, numblocks)))"
    ∧ GeneratedC06.randomStreamExpr = "block_id_to_offset(block_id, numblocks)"
    ∧ GeneratedC06.randomKeyExpr = "root_seed + stream_id"
    ∧ GeneratedC06.randomUsesOnlyItsArguments = true ∧ GeneratedC06.rootSeedDrawnAtConstruction = true
    ∧ GeneratedC06.blockIdFromOffsetsArgument = true := by decide

/-! ### random arrays: block offsets -/

/-- `offset_to_block_id ∘ block_id_to_offset = id` on every grid of every rank. -/
theorem C06_offset_roundtrip (block nbs : List Nat) (o : Nat) (h : ravel? block nbs = some o) :
    unravel? o nbs = some block :=
  unravel_ravel h

/-- `block_id_to_offset ∘ offset_to_block_id = id`. -/
theorem C06_offset_inverse (block nbs : List Nat) (o : Nat) (h : unravel? o nbs = some block) :
    ravel? block nbs = some o :=
  ravel_unravel h

/-- offsets are defined exactly on the grid and lie below the number of blocks -/
theorem C06_offset_defined (block nbs : List Nat) :
    ((ravel? block nbs).isSome ↔ InGrid block nbs) ∧ (∀ o, ravel? block nbs = some o → o < prod nbs) :=
  ⟨ravel_isSome_iff block nbs, fun _ h => ravel_lt h⟩

/-- `block_id_to_offset` is injective on the grid. -/
theorem C06_offset_injective (a b nbs : List Nat) (o : Nat) (ha : ravel? a nbs = some o)
    (hb : ravel? b nbs = some o) : a = b :=
  ravel_injective ha hb

/-- the `block_id` a `map_blocks` function receives (through the offsets virtual array) is the task's own
output block -/
theorem C06_block_id_is_coords (coords nbs : List Nat) (h : InGrid coords nbs) :
    blockIdOf coords nbs = some coords :=
  blockIdOf_eq h

/-- Distinct blocks of a random array draw from distinct Philox keys … -/
theorem C06_random_streams_distinct (root : Nat) (a b nbs : List Nat) (k : Nat)
    (ha : philoxKey root a nbs = some k) (hb : philoxKey root b nbs = some k) : a = b := by
  unfold philoxKey at ha hb
  rw [streamId_eq] at ha hb
  cases hra : ravel? a nbs with
  | none => simp [hra] at ha
  | some oa =>
    cases hrb : ravel? b nbs with
    | none => simp [hrb] at hb
    | some ob =>
      simp only [hra, hrb] at ha hb
      split at ha <;> split at hb <;> simp at ha hb
      have : oa = ob := by omega
      subst this
      exact ravel_injective hra hrb

/-- … the key is defined for every block of the grid (root seed small enough for NumPy's 128-bit key), and
is `root + block_id_to_offset(block)`: a function of (root seed, block, grid) alone. -/
theorem C06_random_key_defined (root : Nat) (coords nbs : List Nat) (h : InGrid coords nbs)
    (hroot : root + prod nbs ≤ 2 ^ 128) :
    ∃ o, ravel? coords nbs = some o ∧ philoxKey root coords nbs = some (root + o) := by
  have hs := (ravel_isSome_iff coords nbs).mpr h
  cases hr : ravel? coords nbs with
  | none => simp [hr] at hs
  | some o =>
    refine ⟨o, rfl, ?_⟩
    have hlt := ravel_lt hr
    have : root + o < 2 ^ 128 := by omega
    simp [philoxKey, streamId_eq, hr, this]

/-! ### Non-vacuity: a concrete plan satisfying every hypothesis -/

section Example

/-- keys: 0,1 source chunks; 10,11 chunks of the first op's output; 20 the second op's output. -/
def tA : Task Nat Nat := { reads := [0], writes := [10], f := fun vs _ => (vs.headD none).map (· + 1) }
def tB : Task Nat Nat := { reads := [1], writes := [11], f := fun vs _ => (vs.headD none).map (· + 1) }
def tC : Task Nat Nat := { reads := [10, 11], writes := [20], f := fun vs _ => some (vs.filterMap id).sum }
def mk : Task Nat Nat := { reads := [], writes := [99], f := fun _ _ => some 7, ifAbsent := true }

def s0 : Store Nat Nat := fun k => if k = 0 then some 5 else if k = 1 then some 6 else none

theorem opAB_ok : OpOK [tA, tB] := by
  constructor
  · intro t₁ h₁ t₂ h₂ k hk₁ hk₂
    simp at h₁ h₂
    rcases h₁ with rfl | rfl <;> rcases h₂ with rfl | rfl <;> simp_all [tA, tB]
  · intro t₁ h₁ t₂ h₂ k hk
    simp at h₁ h₂
    rcases h₁ with rfl | rfl <;> rcases h₂ with rfl | rfl <;> simp_all [tA, tB]

theorem opC_ok : OpOK [tC] := by
  constructor
  · intro t₁ h₁ t₂ h₂ k _ _
    simp at h₁ h₂; rw [h₁, h₂]
  · intro t₁ h₁ t₂ h₂ k hk
    simp at h₁ h₂; subst h₁; subst h₂; simp [tC] at hk ⊢; omega

theorem opMk_ok : OpOK [mk] := by
  constructor
  · intro t₁ h₁ t₂ h₂ k _ _
    simp at h₁ h₂; rw [h₁, h₂]
  · intro t₁ h₁ t₂ h₂ k hk
    simp at h₁; subst h₁; simp [mk] at hk

theorem plan_ok : PlanOK [[mk], [tA, tB], [tC]] := by
  constructor
  · intro o ho
    simp at ho
    rcases ho with rfl | rfl | rfl
    · exact opMk_ok
    · exact opAB_ok
    · exact opC_ok
  · simp only [List.pairwise_cons, List.mem_cons, List.not_mem_nil, or_false, false_imp_iff,
      implies_true, List.Pairwise.nil, and_true, forall_eq_or_imp, forall_eq, Final]
    simp [mk, tA, tB, tC]

/-- an adversarial execution of that plan: shuffled, duplicated, with late re-executions -/
def phases : List (Phase Nat Nat) :=
  [ { op := [mk], sched := [mk, mk], late := [] },
    { op := [tA, tB], sched := [tB, tA, tB], late := [mk, tA] },
    { op := [tC], sched := [tC], late := [tA, mk, tC, tB] } ]

example : PhasesOK [] phases := by
  simp [PhasesOK, phases, Covers]

example : Covers [tB, tA, tB] [tA, tB] := by simp [Covers]

/-- the theorem applies, and the final store really holds the computed values -/
example : runAll (execPhases phases) s0 = runAll [mk, tA, tB, tC] s0 :=
  C06_adversarial_schedule_invariant phases s0 plan_ok (by simp [PhasesOK, phases, Covers])

example : (runAll (execPhases phases) s0 20, runAll (execPhases phases) s0 99,
           runAll (execPhases phases) s0 10) = (some 13, some 7, some 6) := by decide

/-- a two-output task, its single-key writes, and an interleaving with a repeated and a reordered write -/
def tD : Task Nat Nat := { reads := [10], writes := [30, 31], f := fun vs k => (vs.headD none).map (· + k) }
def d30 : Task Nat Nat := { tD with writes := [30] }
def d31 : Task Nat Nat := { tD with writes := [31] }

theorem opD_ok : OpOK [tD] := by
  constructor
  · intro t₁ h₁ t₂ h₂ k _ _
    simp at h₁ h₂; rw [h₁, h₂]
  · intro t₁ h₁ t₂ h₂ k hk
    simp at h₁ h₂; subst h₁; subst h₂; simp [tD] at hk ⊢; omega

example : splitOp [tD] = [d30, d31] := rfl

example (s : Store Nat Nat) : runAll [d31, d30, d31] s = runAll [tD] s :=
  C06_write_level_interleaving [tD] [d31, d30, d31] opD_ok
    (by show Covers [d31, d30, d31] [d30, d31]; simp [Covers]) s

/-- hypothesis (ii) is needed: a task that accumulates into its own output is not idempotent -/
def tAcc : Task Nat Nat := { reads := [10], writes := [10], f := fun vs _ => some ((vs.headD none).getD 0 + 1) }
example : run tAcc (run tAcc s0) 10 ≠ run tAcc s0 10 := by decide

/-- offsets on a 2×3×1 grid -/
example : ravel? [1, 2, 0] [2, 3, 1] = some 5 ∧ unravel? 5 [2, 3, 1] = some [1, 2, 0]
    ∧ ravel? [] [] = some 0 ∧ ravel? [2, 0, 0] [2, 3, 1] = none ∧ unravel? 6 [2, 3, 1] = none := by decide

example : InGrid [1, 2, 0] [2, 3, 1] := by simp [InGrid]

example : philoxKey 1000 [1, 2, 0] [2, 3, 1] = some 1005 := by decide

end Example

end Cubed.C06
