/-
  Helper lemmas for the shape calculus (property C12).
-/
import CubedModel.Model.ShapeCalc

namespace Cubed.ShapeCalc

/-! ## arithmetic -/

theorem div_mul_add_mod (n c : Nat) : n / c * c + n % c = n := by
  have := Nat.div_add_mod n c
  rw [Nat.mul_comm] at this
  exact this

theorem succ_mul' (a c : Nat) : (a + 1) * c = a * c + c := Nat.succ_mul a c

theorem mul_le_of_lt (i q c : Nat) (h : i < q) : i * c + c ≤ q * c := by
  have := Nat.mul_le_mul_right c (Nat.succ_le_of_lt h)
  rw [Nat.succ_mul] at this
  exact this

theorem ceilDiv_eq (n c : Nat) (hc : 0 < c) :
    ceilDiv n c = n / c + (if n % c = 0 then 0 else 1) := by
  unfold ceilDiv
  have h1 := div_mul_add_mod n c
  have h2 := Nat.mod_lt n hc
  split
  · next h0 =>
    rw [Nat.add_zero]
    apply Nat.div_eq_of_lt_le
    · omega
    · rw [succ_mul']; omega
  · next h0 =>
    apply Nat.div_eq_of_lt_le
    · rw [succ_mul']; omega
    · rw [succ_mul', succ_mul']; omega

theorem ceilDiv_mul_ge (n c : Nat) (hc : 0 < c) : n ≤ ceilDiv n c * c := by
  rw [ceilDiv_eq n c hc]
  have h1 := div_mul_add_mod n c
  have h2 := Nat.mod_lt n hc
  split
  · rw [Nat.add_zero]; omega
  · rw [succ_mul']; omega

theorem lt_ceilDiv_iff (i n c : Nat) (hc : 0 < c) : i < ceilDiv n c ↔ i * c < n := by
  rw [ceilDiv_eq n c hc]
  have h1 := div_mul_add_mod n c
  have h2 := Nat.mod_lt n hc
  constructor
  · intro h
    split at h
    · have := mul_le_of_lt i (n / c) c (by omega); omega
    · by_cases hq : i < n / c
      · have := mul_le_of_lt i (n / c) c hq; omega
      · have : i = n / c := by omega
        subst this; omega
  · intro h
    by_cases hq : i < n / c
    · split <;> omega
    · have hge : n / c * c ≤ i * c := Nat.mul_le_mul_right c (by omega)
      split
      · omega
      · by_cases he : i = n / c
        · omega
        · have := mul_le_of_lt (n / c) i c (by omega); omega

/-! ## regular grids -/

theorem regGrid_sum (c n : Nat) : (regGrid c n).sum = n := by
  unfold regGrid
  have h1 := div_mul_add_mod n c
  split
  · simp_all
  · rw [List.sum_append, List.sum_replicate_nat]
    split
    · simp; omega
    · simp; omega

theorem regGrid_length (c n : Nat) (hc : 0 < c) (hn : 0 < n) : (regGrid c n).length = ceilDiv n c := by
  unfold regGrid
  rw [ceilDiv_eq n c hc]
  split
  · omega
  · simp only [List.length_append, List.length_replicate]
    split <;> simp

theorem regGrid_zero (c : Nat) : regGrid c 0 = [0] := by simp [regGrid]

/-- block `i` of a regular grid has length `min c (n - i*c)`. -/
theorem regGrid_get (c n i : Nat) (hc : 0 < c) (hn : 0 < n) (hi : i < ceilDiv n c) :
    (regGrid c n)[i]? = some (min c (n - i * c)) := by
  have hlt := (lt_ceilDiv_iff i n c hc).mp hi
  rw [ceilDiv_eq n c hc] at hi
  unfold regGrid
  have h1 := div_mul_add_mod n c
  have h2 := Nat.mod_lt n hc
  rw [if_neg (by omega)]
  by_cases hq : i < n / c
  · rw [List.getElem?_append_left (by simpa using hq), List.getElem?_replicate, if_pos hq]
    have := mul_le_of_lt i (n / c) c hq
    congr 1; omega
  · have hi' : i = n / c := by split at hi <;> omega
    have hr : n % c ≠ 0 := by
      intro h0; rw [if_pos h0] at hi; omega
    rw [List.getElem?_append_right (by simp; omega), if_neg hr]
    simp only [List.length_replicate]
    subst hi'
    simp only [Nat.sub_self, List.getElem?_cons_zero]
    congr 1; omega

theorem regGrid_le (c n x : Nat) (hc : 0 < c) (hx : x ∈ regGrid c n) : x ≤ c := by
  unfold regGrid at hx
  have h2 := Nat.mod_lt n hc
  split at hx
  · simp at hx; omega
  · rw [List.mem_append] at hx
    rcases hx with hx | hx
    · rw [List.mem_replicate] at hx; omega
    · split at hx
      · simp at hx
      · simp at hx; omega

theorem regGrid_pos (c n x : Nat) (hc : 0 < c) (hn : 0 < n) (hx : x ∈ regGrid c n) : 0 < x := by
  unfold regGrid at hx
  rw [if_neg (by omega)] at hx
  rw [List.mem_append] at hx
  rcases hx with hx | hx
  · rw [List.mem_replicate] at hx; omega
  · split at hx
    · simp at hx
    · simp at hx; omega


/-! ## Option plumbing -/

theorem consOpt_eq_some {α : Type} (a : Option α) (b : Option (List α)) (s : List α) :
    consOpt a b = some s ↔ ∃ x xs, a = some x ∧ b = some xs ∧ s = x :: xs := by
  cases a <;> cases b <;> simp [consOpt, eq_comm]

theorem consOpt_some {α : Type} (x : α) (xs : List α) : consOpt (some x) (some xs) = some (x :: xs) := rfl

theorem allSome_map_self {α : Type} (f : α → Option α) (l : List α) (h : ∀ x ∈ l, f x = some x) :
    allSome (l.map f) = some l := by
  induction l with
  | nil => rfl
  | cons x xs ih =>
    simp only [List.map_cons, allSome]
    rw [h x (by simp), ih (fun y hy => h y (by simp [hy]))]
    rfl

theorem allSome_eq_some_length {α : Type} (l : List (Option α)) (s : List α) (h : allSome l = some s) :
    s.length = l.length := by
  induction l generalizing s with
  | nil => simp [allSome] at h; subst h; rfl
  | cons x xs ih =>
    simp only [allSome] at h
    obtain ⟨y, ys, _, hys, rfl⟩ := (consOpt_eq_some _ _ _).mp h
    simp [ih ys hys]

/-! ## `Array.chunks` after the zarr round trip (`arrChunks`) -/

def arrAxis (l : List Nat) : Option (List Nat) := (toChunksize1 l).map (fun c => regGrid c l.sum)

theorem arrChunks_eq (d : Chunks) : arrChunks d = allSome (d.map arrAxis) := rfl

theorem allButLastEq_replicate (c q : Nat) (t : List Nat) (ht : t.length ≤ 1) :
    allButLastEq c (List.replicate q c ++ t) = true := by
  induction q with
  | zero =>
    match t, ht with
    | [], _ => rfl
    | [_], _ => rfl
  | succ q ih =>
    rw [List.replicate_succ, List.cons_append]
    cases hq : List.replicate q c ++ t with
    | nil => rfl
    | cons y l =>
      simp only [allButLastEq]
      rw [← hq, ih]
      simp

theorem lastOr_append_singleton (l : List Nat) (r d : Nat) : lastOr (l ++ [r]) d = r := by
  induction l generalizing d with
  | nil => rfl
  | cons x xs ih => simp [lastOr, ih]

theorem lastOr_replicate (q c d : Nat) : lastOr (List.replicate q c) d = if q = 0 then d else c := by
  induction q generalizing d with
  | zero => rfl
  | succ q ih =>
    rw [List.replicate_succ]
    simp only [lastOr]
    rw [ih]
    split <;> simp

theorem regGrid_self (n : Nat) (hn : 0 < n) : regGrid n n = [n] := by
  unfold regGrid
  rw [if_neg (by omega), Nat.div_self hn, Nat.mod_self]
  rfl

theorem regGrid_of_lt (c n : Nat) (hn : 0 < n) (h : n < c) : regGrid c n = [n] := by
  unfold regGrid
  rw [if_neg (by omega), Nat.div_eq_of_lt h, Nat.mod_eq_of_lt h, if_neg (by omega)]
  rfl

/-- the round trip `normalize_chunks(to_chunksize(l), sum l)` is the identity on a regular grid. -/
theorem arrAxis_regGrid (c n : Nat) (hc : 0 < c) : arrAxis (regGrid c n) = some (regGrid c n) := by
  by_cases hn : n = 0
  · subst hn; rw [regGrid_zero]; rfl
  · have hn' : 0 < n := by omega
    by_cases hlt : n < c
    · rw [regGrid_of_lt c n hn' hlt]
      simp only [arrAxis, toChunksize1, regularAxis, allButLastEq, lastOr]
      simp only [Nat.le_refl, decide_true, Bool.and_self, if_true, Option.map_some, List.sum_cons, List.sum_nil,
        Nat.add_zero]
      rw [Nat.max_eq_left hn', regGrid_self n hn']
    · have hq : 0 < n / c := Nat.div_pos (by omega) hc
      have hsum := regGrid_sum c n
      have h2 := Nat.mod_lt n hc
      obtain ⟨q, hq'⟩ : ∃ q, n / c = q + 1 := ⟨n / c - 1, by omega⟩
      have hform : regGrid c n = c :: (List.replicate q c ++ (if n % c = 0 then [] else [n % c])) := by
        unfold regGrid
        rw [if_neg hn, hq', List.replicate_succ, List.cons_append]
      have hreg : regularAxis (regGrid c n) = true := by
        rw [hform]
        simp only [regularAxis, Bool.and_eq_true, decide_eq_true_eq]
        constructor
        · have := allButLastEq_replicate c (q + 1) (if n % c = 0 then [] else [n % c]) (by split <;> simp)
          rw [List.replicate_succ, List.cons_append] at this
          exact this
        · split
          · rw [List.append_nil, lastOr_replicate]; split <;> omega
          · rw [lastOr_append_singleton]; omega
      unfold arrAxis toChunksize1
      rw [hreg, if_pos rfl, hsum]
      rw [hform]
      simp only [Option.map_some]
      rw [Nat.max_eq_left hc, ← hform]

/-- chunk lists that are regular grids (what every cubed array has, see `CoreArray.__init__`). -/
def Canon (l : List Nat) : Prop := ∃ c n, 0 < c ∧ l = regGrid c n

theorem arrChunks_of_canon (d : Chunks) (h : ∀ l ∈ d, Canon l) : arrChunks d = some d := by
  rw [arrChunks_eq]
  apply allSome_map_self
  intro l hl
  obtain ⟨c, n, hc, rfl⟩ := h l hl
  exact arrAxis_regGrid c n hc

theorem canon_regGrid (c n : Nat) (hc : 0 < c) : Canon (regGrid c n) := ⟨c, n, hc, rfl⟩

theorem regGrid_mul (k c : Nat) (hc : 0 < c) (hk : 0 < k) : regGrid c (k * c) = List.replicate k c := by
  unfold regGrid
  have : k * c ≠ 0 := Nat.mul_ne_zero (by omega) (by omega)
  rw [if_neg this, Nat.mul_div_cancel k hc, Nat.mul_mod_left, if_pos rfl, List.append_nil]

theorem canon_replicate (k c : Nat) (hc : 0 < c) (hk : 0 < k) : Canon (List.replicate k c) :=
  ⟨c, k * c, hc, (regGrid_mul k c hc hk).symm⟩

/-! ## extents / get_item -/

theorem extents_length (cs : Chunks) (coords s : List Nat) (h : extents cs coords = some s) :
    s.length = cs.length ∧ coords.length = cs.length := by
  induction cs generalizing coords s with
  | nil =>
    cases coords with
    | nil => simp [extents] at h; subst h; simp
    | cons _ _ => simp [extents] at h
  | cons c cs ih =>
    cases coords with
    | nil => simp [extents] at h
    | cons i is =>
      simp only [extents] at h
      obtain ⟨x, xs, _, hxs, rfl⟩ := (consOpt_eq_some _ _ _).mp h
      have := ih is xs hxs
      simp [this.1, this.2]

theorem take_succ_sum (c : List Nat) (i x : Nat) (h : c[i]? = some x) :
    (c.take (i + 1)).sum = (c.take i).sum + x := by
  induction c generalizing i with
  | nil => simp at h
  | cons y ys ih =>
    cases i with
    | zero => simp at h; subst h; simp
    | succ j =>
      simp only [List.getElem?_cons_succ] at h
      simp only [List.take_succ_cons, List.sum_cons]
      rw [ih j h]; omega

/-- the region `get_item(chunks, coords)` has the extents of the chunk at `coords`. -/
theorem regionExtents_eq_extents (cs : Chunks) (coords : List Nat) :
    regionExtents cs coords = extents cs coords := by
  unfold regionExtents
  induction cs generalizing coords with
  | nil => cases coords <;> simp [getItem, extents]
  | cons c cs ih =>
    cases coords with
    | nil => simp [getItem, extents]
    | cons i is =>
      simp only [getItem, extents]
      by_cases hi : i < c.length
      · rw [if_pos hi]
        have hx : c[i]? = some c[i] := List.getElem?_eq_getElem hi
        rw [hx, ← ih is, take_succ_sum c i c[i] hx]
        cases getItem cs is <;> simp [consOpt]
      · rw [if_neg hi]
        have : c[i]? = none := List.getElem?_eq_none (by omega)
        rw [this]; simp [consOpt]

theorem extents_append (l1 l2 : Chunks) (cs s : List Nat) :
    extents (l1 ++ l2) cs = some s ↔
      ∃ s1 s2, extents l1 (cs.take l1.length) = some s1 ∧ extents l2 (cs.drop l1.length) = some s2 ∧ s = s1 ++ s2 := by
  induction l1 generalizing cs s with
  | nil => simp [extents]
  | cons c l1 ih =>
    cases cs with
    | nil => simp [extents]
    | cons i is =>
      simp only [List.cons_append, extents, List.length_cons, List.take_succ_cons, List.drop_succ_cons, consOpt_eq_some]
      constructor
      · rintro ⟨x, xs, hx, hxs, rfl⟩
        obtain ⟨s1, s2, h1, h2, rfl⟩ := (ih is xs).mp hxs
        exact ⟨x :: s1, s2, ⟨x, s1, hx, h1, rfl⟩, h2, rfl⟩
      · rintro ⟨s1', s2, ⟨x, s1, hx, h1, rfl⟩, h2, rfl⟩
        exact ⟨x, s1 ++ s2, hx, (ih is (s1 ++ s2)).mpr ⟨s1, s2, h1, h2, rfl⟩, rfl⟩


/-! ## partial_reduce -/

theorem prBlockFrom_ok (p : PartialReduce) (xs : Chunks) (i : Nat)
    (hax : ∀ j c k b v, xs[j]? = some c → p.split.lookup (i + j) = some k →
      (prAxisChunks p (i + j) c)[b]? = some v →
      b * k < c.length ∧ prAxisLen p (i + j) k c.length b = v)
    (coords s : List Nat) (he : extents (mapIdxFrom (prAxisChunks p) i xs) coords = some s) :
    prBlockFrom p i xs coords = some s := by
  induction xs generalizing i coords s with
  | nil =>
    cases coords with
    | nil => simpa [mapIdxFrom, extents, prBlockFrom] using he
    | cons _ _ => simp [mapIdxFrom, extents] at he
  | cons c cs ih =>
    cases coords with
    | nil => simp [mapIdxFrom, extents] at he
    | cons b bs =>
      simp only [mapIdxFrom, extents] at he
      obtain ⟨v, vs, hv, hvs, rfl⟩ := (consOpt_eq_some _ _ _).mp he
      simp only [prBlockFrom]
      have htail : prBlockFrom p (i + 1) cs bs = some vs := by
        apply ih (i + 1) _ bs vs hvs
        intro j c' k b' v' hj hk hb
        have e : i + 1 + j = i + (j + 1) := by omega
        rw [e] at hk hb ⊢
        exact hax (j + 1) c' k b' v' (by simpa using hj) hk hb
      rw [htail]
      have hhead : prAxisBlock p i c b = some v := by
        unfold prAxisBlock
        cases hk : p.split.lookup i with
        | none =>
          unfold prAxisChunks at hv
          rw [hk] at hv; simpa using hv
        | some k =>
          have h0 := hax 0 c k b v (by simp) (by simpa using hk) (by simpa using hv)
          simp only [Nat.add_zero] at h0
          simp only
          rw [if_pos h0.1, h0.2]
      rw [hhead]; rfl

theorem prBlock_ok (p : PartialReduce)
    (hax : ∀ j c k b v, p.x[j]? = some c → p.split.lookup j = some k →
      (prAxisChunks p j c)[b]? = some v →
      b * k < c.length ∧ prAxisLen p j k c.length b = v)
    (coords s : List Nat) (he : extents (prChunkss p) coords = some s) : prBlock p coords = some s := by
  apply prBlockFrom_ok p p.x 0 _ coords s he
  intro j c k b v hj hk hb
  simp only [Nat.zero_add] at hk hb ⊢
  exact hax j c k b v hj hk hb

/-- the blocks of one group `b` of a scan level: `min k (nb - b*k) = k` exactly when `k` divides `nb`. -/
theorem concat_group_full (k nb b : Nat) (hk : 0 < k) (hd : k ∣ nb) (hb : b < ceilDiv nb k) :
    min k (nb - b * k) = k := by
  obtain ⟨m, rfl⟩ := hd
  have h1 := (lt_ceilDiv_iff b (k * m) k hk).mp hb
  have h2 : b < m := by
    rw [Nat.mul_comm k m] at h1
    exact Nat.lt_of_mul_lt_mul_right h1
  have := mul_le_of_lt b m k h2
  rw [Nat.mul_comm k m]
  omega

/-! ## tree_reduce -/

theorem ceilDiv_le_of_le_mul (n m k : Nat) (hk : 0 < k) (h : n ≤ m * k) : ceilDiv n k ≤ m := by
  apply Nat.le_of_not_lt
  intro hlt
  have := (lt_ceilDiv_iff m n k hk).mp hlt
  omega

theorem ceilDiv_pos (n k : Nat) (hk : 0 < k) (hn : 0 < n) : 0 < ceilDiv n k :=
  (lt_ceilDiv_iff 0 n k hk).mpr (by omega)

theorem treeLevels_one (k d nb : Nat) (hk : 0 < k) (hnb : 0 < nb) (h : nb ≤ k ^ d) : treeLevels k d nb = 1 := by
  induction d generalizing nb with
  | zero => simp at h; simp [treeLevels]; omega
  | succ d ih =>
    simp only [treeLevels]
    apply ih
    · exact ceilDiv_pos nb k hk hnb
    · apply ceilDiv_le_of_le_mul nb (k ^ d) k hk
      rw [Nat.pow_succ] at h; exact h

/-! ## tall-and-skinny QR -/

theorem maxOf_singleton (n : Nat) : maxOf [n] = n := by simp [maxOf]


/-! ## stack -/

theorem stack_core (n : Nat) (a : Chunks) (axis : Nat) (hax : axis ≤ a.length) (coords s : List Nat)
    (he : extents (a.take axis ++ List.replicate n 1 :: a.drop axis) coords = some s) :
    ∃ j, coords[axis]? = some j ∧ j < n ∧
      (extents a (coords.eraseIdx axis)).map (fun t => t.take axis ++ 1 :: t.drop axis) = some s := by
  induction axis generalizing a coords s with
  | zero =>
    simp only [List.take_zero, List.nil_append, List.drop_zero] at he
    cases coords with
    | nil => simp [extents] at he
    | cons j c2 =>
      simp only [extents] at he
      obtain ⟨v, vs, hv, hvs, rfl⟩ := (consOpt_eq_some _ _ _).mp he
      rw [List.getElem?_replicate] at hv
      split at hv
      · next hj =>
        simp at hv; subst hv
        exact ⟨j, by simp, hj, by simp [hvs]⟩
      · simp at hv
  | succ axis ih =>
    cases a with
    | nil => simp at hax
    | cons c a' =>
      cases coords with
      | nil => simp [extents] at he
      | cons i is =>
        simp only [List.take_succ_cons, List.drop_succ_cons, List.cons_append, extents] at he
        obtain ⟨x, xs, hx, hxs, rfl⟩ := (consOpt_eq_some _ _ _).mp he
        obtain ⟨j, hj, hjn, hm⟩ := ih a' (by simpa using hax) is xs hxs
        refine ⟨j, by simpa using hj, hjn, ?_⟩
        simp only [List.eraseIdx_cons_succ, extents, hx]
        cases ht : extents a' (is.eraseIdx axis) with
        | none => rw [ht] at hm; simp at hm
        | some t =>
          rw [ht] at hm
          simp only [Option.map_some, Option.some.injEq] at hm
          simp [consOpt, ← hm]

theorem stackBlock_ok (args : List Chunks) (axis : Nat) (a : Chunks) (hargs : ∀ x ∈ args, x = a)
    (d : Chunks) (hd : stackChunkss args axis = some d) (coords s : List Nat) (he : extents d coords = some s) :
    stackBlock args axis coords = some s := by
  unfold stackChunkss at hd
  cases hargs' : args with
  | nil => rw [hargs'] at hd; simp at hd
  | cons a0 rest =>
    rw [hargs'] at hd
    simp only at hd
    have ha0 : a0 = a := hargs a0 (by rw [hargs']; simp)
    subst ha0
    split at hd
    · next hax =>
      simp only [Option.some.injEq] at hd
      subst hd
      obtain ⟨j, hj, hjn, hm⟩ := stack_core (a0 :: rest).length a0 axis hax coords s he
      unfold stackBlock
      rw [hj]
      simp only
      have hjl : j < (a0 :: rest).length := hjn
      have hx : (a0 :: rest)[j]? = some (a0 :: rest)[j] := List.getElem?_eq_getElem hjl
      rw [hx]
      simp only
      have : (a0 :: rest)[j] = a0 := hargs _ (by rw [hargs']; exact List.getElem_mem hjl)
      rw [this]; exact hm
    · simp at hd

/-! ## QR first step -/

theorem qr1Block_ok (rows : List Nat) (n : Nat) (hrows : ∀ m ∈ rows, n ≤ m)
    (coords sq sr : List Nat)
    (hq : extents [rows, [n]] coords = some sq)
    (hr : extents [List.replicate rows.length n, [n]] coords = some sr) :
    qr1Block [rows, [n]] coords = some (sq, sr) := by
  match coords, hq, hr with
  | [i, j], hq, hr =>
    simp only [extents, consOpt_eq_some] at hq hr
    obtain ⟨m, _, hm, ⟨w, t2, hw, ht2, rfl⟩, rfl⟩ := hq
    obtain ⟨m', _, hm', ⟨w', t2', hw', ht2', rfl⟩, rfl⟩ := hr
    simp only [Option.some.injEq] at ht2 ht2'
    subst ht2; subst ht2'
    have hmem : m ∈ rows := List.mem_of_getElem? hm
    have hle := hrows m hmem
    rw [List.getElem?_replicate] at hm'
    have hj : j = 0 := by
      cases j with
      | zero => rfl
      | succ j => simp at hw
    subst hj
    simp at hw hw'
    subst hw; subst hw'
    split at hm'
    · simp at hm'; subst hm'
      simp [qr1Block, hm, qrShapes, Nat.min_eq_right hle]
    · simp at hm'
  | [], hq, _ => simp [extents] at hq
  | [_], hq, _ => simp [extents, consOpt] at hq
  | _ :: _ :: _ :: _, hq, _ => simp [extents, consOpt] at hq

/-! ## blockwise with an index-faithful function (elementwise / transposition) -/

theorem mem_dedupAux {α : Type} [BEq α] (seen l : List α) (y : α) (h : y ∈ dedupAux seen l) : y ∈ l := by
  induction l generalizing seen with
  | nil => simp [dedupAux] at h
  | cons x xs ih =>
    simp only [dedupAux] at h
    split at h
    · exact List.mem_cons_of_mem _ (ih _ h)
    · rcases List.mem_cons.mp h with h | h
      · subst h; simp
      · exact List.mem_cons_of_mem _ (ih _ h)

theorem mem_dedup {α : Type} [BEq α] (l : List α) (y : α) (h : y ∈ dedup l) : y ∈ l := mem_dedupAux [] l y h

theorem foldl_pick_mem {α : Type} (g : α → α → α) (hg : ∀ b x, g b x = b ∨ g b x = x) (d : α) (ds : List α) :
    ds.foldl g d ∈ d :: ds := by
  induction ds generalizing d with
  | nil => simp
  | cons x xs ih =>
    simp only [List.foldl_cons]
    have := ih (g d x)
    rcases hg d x with h | h <;> rw [h] at this ⊢
    · rcases List.mem_cons.mp this with h' | h'
      · rw [h']; simp
      · simp [h']
    · simp [this]

theorem pickMost_mem (L : List (List Nat)) (u : List Nat) (h : pickMost L = some u) : u ∈ L := by
  cases L with
  | nil => simp [pickMost] at h
  | cons c cs =>
    simp only [pickMost, Option.some.injEq] at h
    rw [← h]
    apply foldl_pick_mem
    intro b x; split <;> simp

theorem smallestBlockdim_mem (S : List (List Nat)) (u : List Nat) (h : smallestBlockdim S = some u) : u ∈ S := by
  unfold smallestBlockdim at h
  have hsub : ∀ y, y ∈ dedup (S.filter (fun d => d.length > 1)) → y ∈ S := fun y hy =>
    (List.mem_filter.mp (mem_dedup _ y hy)).1
  split at h
  · next d hd =>
    simp only [Option.some.injEq] at h; subst h
    exact hsub _ (by rw [hd]; simp)
  · next hd =>
    cases S with
    | nil => simp at h
    | cons d ds =>
      simp only [Option.some.injEq] at h
      rw [← h]
      apply foldl_pick_mem
      intro b x; split <;> simp
  · next d ds _ hd =>
    split at h
    · simp at h
    · simp only [Option.some.injEq] at h
      have : u ∈ d :: ds := by
        rw [← h]; apply foldl_pick_mem
        intro b x; split <;> simp
      exact hsub _ (by rw [hd]; exact this)

theorem unifyPick_mem (L : List (List Nat)) (u : List Nat) (h : unifyPick L = some u) : u ∈ L := by
  unfold unifyPick at h
  simp only at h
  have := smallestBlockdim_mem _ u h
  split at this
  · exact mem_dedup _ _ (List.mem_filter.mp this).1
  · exact mem_dedup _ _ this

theorem bcast_fold_from_x (vals : List Nat) (x : Nat) (h : ∀ v ∈ vals, v = x ∨ v = 1) :
    vals.foldl (fun acc v => acc.bind (fun a => bcast2 a v)) (some x) = some x := by
  induction vals with
  | nil => rfl
  | cons v vs ih =>
    simp only [List.foldl_cons, Option.bind_some]
    have hv := h v (by simp)
    have : bcast2 x v = some x := by
      unfold bcast2
      rcases hv with hv | hv
      · subst hv; simp
      · subst hv; split <;> simp_all
    rw [this]
    exact ih (fun w hw => h w (by simp [hw]))

theorem bcastAll_unified (vals : List Nat) (x : Nat) (h : ∀ v ∈ vals, v = x ∨ v = 1) (hx : x ∈ vals) :
    bcastAll vals = some x := by
  unfold bcastAll
  induction vals with
  | nil => simp at hx
  | cons v vs ih =>
    simp only [List.foldl_cons, Option.bind_some]
    by_cases hvx : v = x
    · subst hvx
      have : bcast2 1 v = some v := by unfold bcast2; split <;> simp_all
      rw [this]
      exact bcast_fold_from_x vs v (fun w hw => h w (by simp [hw]))
    · have hv1 : v = 1 := by
        rcases h v (by simp) with h' | h'
        · exact absurd h' hvx
        · exact h'
      subst hv1
      have : bcast2 1 1 = some 1 := by simp [bcast2]
      rw [this]
      apply ih (fun w hw => h w (by simp [hw]))
      rcases List.mem_cons.mp hx with h' | h'
      · exact absurd h'.symm hvx
      · exact h'

theorem labelVals_unified (L : List (List Nat)) (u : List Nat) (c x : Nat)
    (hL : ∀ ch ∈ L, ch = u ∨ ch = [1]) (hx : u[c]? = some x) :
    ∃ vals, allSome (L.map (fun ch => if ch.length > 1 then ch[c]? else ch[0]?)) = some vals ∧
      (∀ v ∈ vals, v = x ∨ v = 1) ∧ (u ∈ L → x ∈ vals) := by
  induction L with
  | nil => exact ⟨[], rfl, by simp, by simp⟩
  | cons ch rest ih =>
    obtain ⟨vals, hv, hall, hmem⟩ := ih (fun w hw => hL w (by simp [hw]))
    have hfu : (if u.length > 1 then u[c]? else u[0]?) = some x := by
      split
      · exact hx
      · next hlen =>
        have hc : c < u.length := by
          rcases Nat.lt_or_ge c u.length with h | h
          · exact h
          · rw [List.getElem?_eq_none h] at hx; simp at hx
        have : c = 0 := by omega
        subst this; exact hx
    rcases hL ch (by simp) with hch | hch
    · subst hch
      refine ⟨x :: vals, ?_, ?_, ?_⟩
      · simp only [List.map_cons, allSome]; rw [hfu, hv]; rfl
      · intro v hv'; rcases List.mem_cons.mp hv' with h | h
        · exact Or.inl h
        · exact hall v h
      · intro _; simp
    · subst hch
      refine ⟨1 :: vals, ?_, ?_, ?_⟩
      · simp only [List.map_cons, allSome]; rw [hv]; rfl
      · intro v hv'; rcases List.mem_cons.mp hv' with h | h
        · exact Or.inr h
        · exact hall v h
      · intro hu
        rcases List.mem_cons.mp hu with h | h
        · -- u = [1]
          subst h
          have : x = 1 := by
            cases c with
            | zero => simpa using hx.symm
            | succ c => simp at hx
          subst this; simp
        · exact List.mem_cons_of_mem _ (hmem h)

theorem labelBlockLen_unified (args : List BwArg) (i : Nat) (u : List Nat) (c x : Nat)
    (hL : ∀ ch ∈ labelChunks args i, ch = u ∨ ch = [1]) (hu : u ∈ labelChunks args i) (hx : u[c]? = some x) :
    labelBlockLen args i c = some x := by
  unfold labelBlockLen
  obtain ⟨vals, hv, hall, hmem⟩ := labelVals_unified (labelChunks args i) u c x hL hx
  rw [hv]
  simp only [Option.bind_some]
  exact bcastAll_unified vals x hall (hmem hu)

theorem faithful_core (args : List BwArg) (dim : Nat → Option (List Nat)) (is : List Nat)
    (hu : ∀ i ∈ is, ∀ u, dim i = some u →
      u ∈ labelChunks args i ∧ ∀ ch ∈ labelChunks args i, ch = u ∨ ch = [1])
    (d : Chunks) (hd : allSome (is.map dim) = some d) (coords s : List Nat) (he : extents d coords = some s) :
    allSome ((is.zip coords).map (fun p => labelBlockLen args p.1 p.2)) = some s ∧ coords.length = is.length := by
  induction is generalizing d coords s with
  | nil =>
    simp [allSome] at hd; subst hd
    cases coords with
    | nil => simp [extents] at he; subst he; simp [allSome]
    | cons _ _ => simp [extents] at he
  | cons i is ih =>
    simp only [List.map_cons, allSome] at hd
    obtain ⟨u, d', hu', hd', rfl⟩ := (consOpt_eq_some _ _ _).mp hd
    cases coords with
    | nil => simp [extents] at he
    | cons c cs =>
      simp only [extents] at he
      obtain ⟨x, xs, hx, hxs, rfl⟩ := (consOpt_eq_some _ _ _).mp he
      have ⟨h1, h2⟩ := ih (fun j hj => hu j (by simp [hj])) d' hd' cs xs hxs
      have ⟨hm, hall⟩ := hu i (by simp) u hu'
      simp only [List.zip_cons_cons, List.map_cons, allSome, List.length_cons]
      rw [labelBlockLen_unified args i u c x hall hm hx, h1]
      exact ⟨rfl, by omega⟩

theorem labelDim_mem (b : Bw) (hnew : b.newAxes = []) (i : Nat) (u : List Nat) (h : labelDim b i = some u) :
    u ∈ labelChunks b.args i := by
  unfold labelDim at h
  rw [hnew] at h
  simp only [List.lookup_nil] at h
  split at h
  · exact unifyPick_mem _ _ h
  · exact pickMost_mem _ _ h

theorem bwChunkss_no_adjust (b : Bw) (hadj : b.adjust = []) :
    bwChunkss b = allSome (b.outInd.map (labelDim b)) := by
  unfold bwChunkss
  congr 1
  apply List.map_congr_left
  intro i _
  rw [hadj]
  cases labelDim b i <;> simp [applyAdjust]

theorem bwBlockFaithful_ok (b : Bw) (hadj : b.adjust = []) (hnew : b.newAxes = [])
    (hu : ∀ i ∈ b.outInd, ∀ u, labelDim b i = some u → ∀ ch ∈ labelChunks b.args i, ch = u ∨ ch = [1])
    (d : Chunks) (hd : bwChunkss b = some d) (coords s : List Nat) (he : extents d coords = some s) :
    bwBlockFaithful b coords = some s := by
  rw [bwChunkss_no_adjust b hadj] at hd
  have ⟨h1, h2⟩ := faithful_core b.args (labelDim b) b.outInd
    (fun i hi u hu' => ⟨labelDim_mem b hnew i u hu', hu i hi u hu'⟩) d hd coords s he
  unfold bwBlockFaithful
  rw [if_pos h2, h1]


/-! ## maxOf -/

theorem foldl_max_le (l : List Nat) (a m : Nat) (ha : a ≤ m) (hl : ∀ x ∈ l, x ≤ m) : l.foldl max a ≤ m := by
  induction l generalizing a with
  | nil => simpa using ha
  | cons x xs ih =>
    simp only [List.foldl_cons]
    apply ih
    · have := hl x (by simp); omega
    · intro y hy; exact hl y (by simp [hy])

theorem foldl_max_ge_init (l : List Nat) (a : Nat) : a ≤ l.foldl max a := by
  induction l generalizing a with
  | nil => simp
  | cons x xs ih =>
    simp only [List.foldl_cons]
    have := ih (max a x); omega

theorem foldl_max_ge_mem (l : List Nat) (a m : Nat) (hm : m ∈ l) : m ≤ l.foldl max a := by
  induction l generalizing a with
  | nil => simp at hm
  | cons x xs ih =>
    simp only [List.foldl_cons]
    rcases List.mem_cons.mp hm with h | h
    · subst h; have := foldl_max_ge_init xs (max a m); omega
    · exact ih _ h

theorem maxOf_eq (l : List Nat) (m : Nat) (hle : ∀ x ∈ l, x ≤ m) (hm : m ∈ l) : maxOf l = m := by
  unfold maxOf
  have h1 := foldl_max_le l 0 m (by omega) hle
  have h2 := foldl_max_ge_mem l 0 m hm
  omega

theorem maxOf_regGrid (c n : Nat) (hc : 0 < c) (hn : 0 < n) : maxOf (regGrid c n) = min c n := by
  by_cases hlt : n < c
  · rw [regGrid_of_lt c n hn hlt, maxOf_singleton]; omega
  · apply maxOf_eq
    · intro x hx
      have := regGrid_le c n x hc hx
      omega
    · have hq : 0 < n / c := Nat.div_pos (by omega) hc
      unfold regGrid
      rw [if_neg (by omega), List.mem_append]
      left
      rw [List.mem_replicate]
      exact ⟨by omega, by omega⟩

theorem regGrid_min (c n : Nat) (hn : 0 < n) : regGrid (min c n) n = regGrid c n := by
  by_cases hlt : n < c
  · rw [regGrid_of_lt c n hn hlt, Nat.min_eq_right (by omega), regGrid_self n hn]
  · rw [Nat.min_eq_left (by omega)]

theorem getElem?_lt_length {α : Type} (l : List α) (i : Nat) (x : α) (h : l[i]? = some x) : i < l.length := by
  rcases Nat.lt_or_ge i l.length with h' | h'
  · exact h'
  · rw [List.getElem?_eq_none h'] at h; simp at h

/-! ## repeat -/

theorem repeat_arith (c n r b : Nat) (hc : 0 < c) (hr : 0 < r) (hb : b * c < n * r) :
    (b / r) * c < n ∧
    min ((b % r + 1) * c) (r * min c (n - (b / r) * c)) - min ((b % r) * c) (r * min c (n - (b / r) * c))
      = min c (n * r - b * c) := by
  have hdm := div_mul_add_mod b r
  have hbi := Nat.mod_lt b hr
  generalize hi : b / r = i at *
  generalize hbi' : b % r = bi at *
  -- b * c = (i*c)*r + bi*c
  have e1 : b * c = i * c * r + bi * c := by
    rw [← hdm, Nat.add_mul, Nat.mul_assoc, Nat.mul_comm r c, ← Nat.mul_assoc]
  have e2 : (bi + 1) * c = bi * c + c := succ_mul' bi c
  have e3 : bi * c + c ≤ r * c := mul_le_of_lt bi r c hbi
  have hlt : i * c < n := by
    apply Nat.lt_of_not_le
    intro hge
    have := Nat.mul_le_mul_right r hge
    omega
  refine ⟨hlt, ?_⟩
  by_cases hfull : i * c + c ≤ n
  · have hL : min c (n - i * c) = c := by omega
    rw [hL, e2]
    have e4 : (i * c + c) * r ≤ n * r := Nat.mul_le_mul_right r hfull
    rw [Nat.add_mul] at e4
    rw [Nat.mul_comm c r] at e4
    omega
  · have hL : min c (n - i * c) = n - i * c := by omega
    rw [hL, e2]
    have e4 : n * r = i * c * r + r * (n - i * c) := by
      have : n = i * c + (n - i * c) := by omega
      conv => lhs; rw [this]
      rw [Nat.add_mul, Nat.mul_comm (n - i * c) r]
    omega

theorem repeatAxis_ok (c0 n r b v : Nat) (hc : 0 < c0) (hn : 0 < n) (hr : 0 < r)
    (hv : (regGrid (maxOf (regGrid c0 n)) ((regGrid c0 n).sum * r))[b]? = some v) :
    repeatAxisBlock r (regGrid c0 n) b = some v := by
  rw [regGrid_sum, maxOf_regGrid c0 n hc hn] at hv
  have hcz : 0 < min c0 n := by omega
  have hnr : 0 < n * r := Nat.mul_pos hn hr
  have hblen := getElem?_lt_length _ _ _ hv
  rw [regGrid_length _ _ hcz hnr] at hblen
  rw [regGrid_get _ _ b hcz hnr hblen] at hv
  have hbc := (lt_ceilDiv_iff b (n * r) (min c0 n) hcz).mp hblen
  obtain ⟨h1, h2⟩ := repeat_arith (min c0 n) n r b hcz hr hbc
  unfold repeatAxisBlock
  rw [if_neg (by omega), maxOf_regGrid c0 n hc hn, ← regGrid_min c0 n hn]
  have hi : b / r < ceilDiv n (min c0 n) := (lt_ceilDiv_iff _ n _ hcz).mpr h1
  rw [regGrid_get _ _ _ hcz hn hi]
  simp only [Option.map_some]
  rw [h2]
  exact hv

/-! ## copy regions (rechunk / merge_chunks) and index -/

theorem take_sum_le (l : List Nat) (i : Nat) : (l.take i).sum ≤ l.sum := by
  induction l generalizing i with
  | nil => simp
  | cons x xs ih =>
    cases i with
    | zero => simp
    | succ j => simp only [List.take_succ_cons, List.sum_cons]; have := ih j; omega

theorem ceilDiv_one (y : Nat) : ceilDiv y 1 = y := by simp [ceilDiv]

theorem copyAxis_ok (n : Nat) (t : List Nat) (ht : t.sum = n) (b v : Nat) (hv : t[b]? = some v) :
    copyAxisBlock n t b = some v := by
  unfold copyAxisBlock
  rw [if_pos (getElem?_lt_length _ _ _ hv), take_succ_sum t b v hv]
  have := take_sum_le t (b + 1)
  rw [take_succ_sum t b v hv, ht] at this
  unfold selLen
  rw [ceilDiv_one]
  congr 1; omega

theorem copyBlock_ok (x : Chunks) (copy : List Nat) (d : Chunks) (hd : copyChunkss x copy = some d)
    (coords s : List Nat) (he : extents d coords = some s) : copyBlock x copy coords = some s := by
  induction x generalizing copy d coords s with
  | nil =>
    cases copy with
    | nil =>
      simp [copyChunkss] at hd; subst hd
      cases coords with
      | nil => simpa [extents, copyBlock] using he
      | cons _ _ => simp [extents] at he
    | cons _ _ => simp [copyChunkss] at hd
  | cons l ls ih =>
    cases copy with
    | nil => simp [copyChunkss] at hd
    | cons c cs =>
      simp only [copyChunkss, Option.map_eq_some_iff] at hd
      obtain ⟨r, hr, rfl⟩ := hd
      cases coords with
      | nil => simp [extents] at he
      | cons b bs =>
        simp only [extents] at he
        obtain ⟨v, vs, hv, hvs, rfl⟩ := (consOpt_eq_some _ _ _).mp he
        simp only [copyBlock]
        rw [ih cs r hr bs vs hvs, copyAxis_ok l.sum _ (regGrid_sum _ _) b v hv]
        rfl

theorem ceilDiv_zero (k : Nat) (hk : 0 < k) : ceilDiv 0 k = 0 := by
  unfold ceilDiv
  exact Nat.div_eq_of_lt (by omega)

theorem ceilDiv_eq_of_bounds (x v k : Nat) (hk : 0 < k) (hv : 0 < v) (h1 : (v - 1) * k < x) (h2 : x ≤ v * k) :
    ceilDiv x k = v := by
  have a : v - 1 < ceilDiv x k := (lt_ceilDiv_iff (v - 1) x k hk).mpr h1
  have b : ¬ v < ceilDiv x k := by
    intro h
    have := (lt_ceilDiv_iff v x k hk).mp h
    omega
  omega

/-- a block of `v` consecutive selected positions `start + k*step` (`lo ≤ k < lo+v`), all below
`stop ≤ n`: zarr's indexer counts exactly `v` items for `slice(start+lo*step, start+(lo+v)*step, step)`. -/
theorem slice_block_len (n start stop step lo v : Nat) (hstep : 0 < step) (hstop : stop ≤ n)
    (hin : lo + v ≤ sliceLen start stop step) :
    selLen n (start + lo * step) (start + (lo + v) * step) step = v := by
  unfold selLen
  by_cases hv0 : v = 0
  · subst hv0
    simp only [Nat.add_zero, Nat.sub_self]
    exact ceilDiv_zero step hstep
  · have hv : 0 < v := by omega
    unfold sliceLen at hin
    have hk : lo + v - 1 < ceilDiv (stop - start) step := by omega
    have hlast := (lt_ceilDiv_iff _ _ _ hstep).mp hk
    have e1 : (lo + v) * step = lo * step + v * step := Nat.add_mul lo v step
    have e2 : (lo + v - 1) * step = lo * step + (v - 1) * step := by
      have : lo + v - 1 = lo + (v - 1) := by omega
      rw [this, Nat.add_mul]
    have e3 : v * step = (v - 1) * step + step := by
      have : v = (v - 1) + 1 := by omega
      conv => lhs; rw [this]
      rw [succ_mul']
    apply ceilDiv_eq_of_bounds _ v step hstep hv
    · omega
    · omega

theorem indexAxis_ok (c : List Nat) (s : Sel) (b v : Nat)
    (hs : match s with
          | .slice _ stop step _ => 0 < step ∧ stop ≤ c.sum
          | _ => True)
    (hv : (regGrid (max (indexChunkLen s (maxOf c)) 1) (indexAxisLen s))[b]? = some v)
    (hne : s ≠ .int) :
    indexAxisBlock c s b = some v := by
  unfold indexAxisBlock
  simp only
  have hlen := getElem?_lt_length _ _ _ hv
  rw [if_pos hlen]
  have hsucc := take_succ_sum _ b v hv
  have hle := take_sum_le (regGrid (max (indexChunkLen s (maxOf c)) 1) (indexAxisLen s)) (b + 1)
  rw [hsucc, regGrid_sum] at hle
  rw [hsucc]
  cases s with
  | int => exact absurd rfl hne
  | arr n =>
    simp only [indexAxisLen] at hle ⊢
    congr 1; omega
  | slice start stop step orig =>
    simp only [indexAxisLen] at hle ⊢
    simp only at hs
    congr 1
    exact slice_block_len c.sum start stop step _ v hs.1 hs.2 hle

def SelOK (c : List Nat) (s : Sel) : Prop :=
  match s with
  | .slice _ stop step _ => 0 < step ∧ stop ≤ c.sum
  | _ => True

theorem indexBlock_ok (x : Chunks) (sels : List Sel)
    (hok : ∀ p ∈ x.zip sels, SelOK p.1 p.2)
    (d : Chunks) (hd : indexChunkss x sels = some d) (coords s : List Nat) (he : extents d coords = some s) :
    indexBlock x sels coords = some s := by
  induction x generalizing sels d coords s with
  | nil =>
    cases sels with
    | nil =>
      simp [indexChunkss] at hd; subst hd
      cases coords with
      | nil => simpa [extents, indexBlock] using he
      | cons _ _ => simp [extents] at he
    | cons _ _ => simp [indexChunkss] at hd
  | cons c cs ih =>
    cases sels with
    | nil => simp [indexChunkss] at hd
    | cons sel ss =>
      have hok' : ∀ p ∈ cs.zip ss, SelOK p.1 p.2 := fun p hp => hok p (by simp [hp])
      have hsel : SelOK c sel := hok (c, sel) (by simp)
      simp only [indexChunkss] at hd
      cases hr : indexChunkss cs ss with
      | none => rw [hr] at hd; simp at hd
      | some r =>
        rw [hr] at hd
        by_cases hint : sel = .int
        · subst hint
          simp only [Option.some.injEq] at hd; subst hd
          simp only [indexBlock]
          exact ih ss hok' r hr coords s he
        · have hd' : d = regGrid (max (indexChunkLen sel (maxOf c)) 1) (indexAxisLen sel) :: r := by
            cases sel with
            | int => exact absurd rfl hint
            | arr n => simpa using hd.symm
            | slice a b st o => simpa using hd.symm
          subst hd'
          cases coords with
          | nil => simp [extents] at he
          | cons b bs =>
            simp only [extents] at he
            obtain ⟨v, vs, hv, hvs, rfl⟩ := (consOpt_eq_some _ _ _).mp he
            have hb := indexAxis_ok c sel b v hsel hv hint
            have ht := ih ss hok' r hr bs vs hvs
            cases sel with
            | int => exact absurd rfl hint
            | arr n => simp only [indexBlock]; rw [hb, ht]; rfl
            | slice a b' st o => simp only [indexBlock]; rw [hb, ht]; rfl

/-- `sliceLen` counts the selected positions: `k < sliceLen ↔ start + k*step < stop`. -/
theorem sliceLen_spec (start stop step k : Nat) (hstep : 0 < step) :
    k < sliceLen start stop step ↔ start + k * step < stop := by
  unfold sliceLen
  rw [lt_ceilDiv_iff k (stop - start) step hstep]
  omega


/-! ## repeat, whole array -/

theorem canon_regrid_self (c : List Nat) (h : Canon c) : regGrid (maxOf c) c.sum = c := by
  obtain ⟨c0, n, hc, rfl⟩ := h
  rw [regGrid_sum]
  by_cases hn : n = 0
  · subst hn; simp [regGrid]
  · have hn' : 0 < n := by omega
    rw [maxOf_regGrid c0 n hc hn', regGrid_min c0 n hn']

theorem repeatAxis_ok' (c : List Nat) (hcan : Canon c) (r b v : Nat) (hr : 0 < r)
    (hv : (regGrid (maxOf c) (c.sum * r))[b]? = some v) : repeatAxisBlock r c b = some v := by
  obtain ⟨c0, n, hc, rfl⟩ := hcan
  by_cases hn : n = 0
  · subst hn
    rw [regGrid_zero] at hv ⊢
    have hv' : ([0] : List Nat)[b]? = some v := by simpa [regGrid, maxOf] using hv
    cases b with
    | zero =>
      simp at hv'; subst hv'
      unfold repeatAxisBlock
      rw [if_neg (by omega)]
      simp [maxOf]
    | succ b => simp at hv'
  · exact repeatAxis_ok c0 n r b v hc (by omega) hr hv

theorem repeatBlockFrom_ok (r axis : Nat) (hr : 0 < r) (xs : Chunks) (hcan : ∀ c ∈ xs, Canon c) (i : Nat)
    (coords s : List Nat)
    (he : extents (mapIdxFrom (fun j c => regGrid (maxOf c) (if j = axis then c.sum * r else c.sum)) i xs) coords = some s) :
    repeatBlockFrom r axis i xs coords = some s := by
  induction xs generalizing i coords s with
  | nil =>
    cases coords with
    | nil => simpa [mapIdxFrom, extents, repeatBlockFrom] using he
    | cons _ _ => simp [mapIdxFrom, extents] at he
  | cons c cs ih =>
    cases coords with
    | nil => simp [mapIdxFrom, extents] at he
    | cons b bs =>
      simp only [mapIdxFrom, extents] at he
      obtain ⟨v, vs, hv, hvs, rfl⟩ := (consOpt_eq_some _ _ _).mp he
      simp only [repeatBlockFrom]
      rw [ih (fun c' hc' => hcan c' (by simp [hc'])) (i + 1) bs vs hvs]
      have hc := hcan c (by simp)
      have : (if i = axis then repeatAxisBlock r c b else c[b]?) = some v := by
        split
        · next h => rw [if_pos h] at hv; exact repeatAxis_ok' c hc r b v hr hv
        · next h => rw [if_neg h, canon_regrid_self c hc] at hv; exact hv
      rw [this]; rfl

theorem repeatBlock_ok (x : Chunks) (r axis : Nat) (hr : 0 < r) (hcan : ∀ c ∈ x, Canon c)
    (d : Chunks) (hd : repeatChunkss x r axis = some d) (coords s : List Nat) (he : extents d coords = some s) :
    repeatBlock x r axis coords = some s := by
  unfold repeatChunkss at hd
  split at hd
  · simp only [Option.some.injEq] at hd; subst hd
    exact repeatBlockFrom_ok r axis hr x hcan 0 coords s he
  · simp at hd

/-! ## squeeze (several axes) -/

theorem squeeze_core (axes : List Nat) (x : Chunks) (k : Nat)
    (hone : ∀ j c, x[j]? = some c → axes.contains (k + j) = true → c = [1])
    (coords s : List Nat) (he : extents (removeAxesFrom axes k x) coords = some s) :
    ∃ t, extents x (unsqueezeCoords axes k x coords) = some t ∧ removeAxesFrom axes k t = s ∧
      (∀ j, axes.contains (k + j) = true → j < t.length → t[j]? = some 1) := by
  induction x generalizing k coords s with
  | nil =>
    cases coords with
    | nil => simp [removeAxesFrom, extents] at he; subst he; exact ⟨[], by simp [unsqueezeCoords, extents], rfl, by simp⟩
    | cons _ _ => simp [removeAxesFrom, extents] at he
  | cons c cs ih =>
    have hone' : ∀ j c', cs[j]? = some c' → axes.contains (k + 1 + j) = true → c' = [1] := by
      intro j c' hj hc
      have e : k + 1 + j = k + (j + 1) := by omega
      rw [e] at hc
      exact hone (j + 1) c' (by simpa using hj) hc
    by_cases hk : axes.contains k = true
    · simp only [removeAxesFrom, hk, if_true] at he
      obtain ⟨t, ht, hrem, hones⟩ := ih (k + 1) hone' coords s he
      have hc1 : c = [1] := hone 0 c (by simp) (by simpa using hk)
      refine ⟨1 :: t, ?_, ?_, ?_⟩
      · simp only [unsqueezeCoords, hk, if_true, extents]
        rw [ht, hc1]; rfl
      · simp only [removeAxesFrom, hk, if_true]; exact hrem
      · intro j hj hlt
        cases j with
        | zero => simp
        | succ j =>
          simp only [List.getElem?_cons_succ]
          have e : k + (j + 1) = k + 1 + j := by omega
          rw [e] at hj
          exact hones j hj (by simpa using hlt)
    · have hk' : axes.contains k = false := by simpa using hk
      simp only [removeAxesFrom, hk'] at he
      cases coords with
      | nil => simp [extents] at he
      | cons b bs =>
        simp only [Bool.false_eq_true, if_false, extents] at he
        obtain ⟨v, vs, hv, hvs, rfl⟩ := (consOpt_eq_some _ _ _).mp he
        obtain ⟨t, ht, hrem, hones⟩ := ih (k + 1) hone' bs vs hvs
        refine ⟨v :: t, ?_, ?_, ?_⟩
        · simp only [unsqueezeCoords, hk', Bool.false_eq_true, if_false, extents]
          rw [ht, hv]; rfl
        · simp only [removeAxesFrom, hk', Bool.false_eq_true, if_false, hrem]
        · intro j hj hlt
          cases j with
          | zero => simp only [Nat.add_zero] at hj; exact absurd hj hk
          | succ j =>
            simp only [List.getElem?_cons_succ]
            have e : k + (j + 1) = k + 1 + j := by omega
            rw [e] at hj
            exact hones j hj (by simpa using hlt)

theorem map_removeAxesFrom {α β : Type} (f : α → β) (axes : List Nat) (k : Nat) (l : List α) :
    (removeAxesFrom axes k l).map f = removeAxesFrom axes k (l.map f) := by
  induction l generalizing k with
  | nil => rfl
  | cons x xs ih =>
    simp only [removeAxesFrom, List.map_cons]
    split <;> simp [ih]

/-! ## permute_dims -/

theorem labelChunks_range' (x : Chunks) (k i : Nat) :
    (x.zip (List.range' k x.length)).filterMap (fun p => if p.2 = i then some p.1 else none)
      = if k ≤ i then (x[i - k]?).toList else [] := by
  induction x generalizing k with
  | nil => simp
  | cons c cs ih =>
    simp only [List.length_cons, List.range'_succ, List.zip_cons_cons, List.filterMap_cons]
    by_cases hki : k = i
    · subst hki
      rw [ih (k + 1)]
      have hnot : ¬ (k + 1 ≤ k) := by omega
      simp [hnot]
    · rw [if_neg hki, ih (k + 1)]
      by_cases hle : k ≤ i
      · have h1 : k + 1 ≤ i := by omega
        rw [if_pos h1, if_pos hle]
        have : i - k = (i - (k + 1)) + 1 := by omega
        rw [this, List.getElem?_cons_succ]
      · rw [if_neg (by omega), if_neg hle]

theorem labelChunks_single (x : Chunks) (i : Nat) :
    labelChunks [⟨x, List.range x.length⟩] i = (x[i]?).toList := by
  unfold labelChunks
  simp only [List.flatMap_cons, List.flatMap_nil, List.append_nil]
  rw [List.range_eq_range', labelChunks_range' x 0 i]
  simp

theorem permuteBlock_ok (x : Chunks) (axes : List Nat) (d : Chunks) (hd : bwChunkss (permuteBw x axes) = some d)
    (coords s : List Nat) (he : extents d coords = some s) : bwBlockFaithful (permuteBw x axes) coords = some s := by
  apply bwBlockFaithful_ok (permuteBw x axes) rfl rfl _ d hd coords s he
  intro i _ u hu ch hch
  have hmem := labelDim_mem (permuteBw x axes) rfl i u hu
  simp only [permuteBw] at hmem hch
  rw [labelChunks_single] at hmem hch
  cases hx : x[i]? with
  | none => rw [hx] at hch; simp at hch
  | some c =>
    rw [hx] at hmem hch
    simp at hmem hch
    left; rw [hch, hmem]

/-! ## reference shapes -/

/-- NumPy broadcasting of the operands' lengths along one label gives the declared length. -/
theorem label_shape_reference (L : List (List Nat)) (u : List Nat)
    (hL : ∀ ch ∈ L, ch = u ∨ ch = [1]) (hu : u ∈ L) : bcastAll (L.map List.sum) = some u.sum := by
  apply bcastAll_unified
  · intro v hv
    obtain ⟨ch, hch, rfl⟩ := List.mem_map.mp hv
    rcases hL ch hch with h | h
    · left; rw [h]
    · right; rw [h]; rfl
  · exact List.mem_map.mpr ⟨u, hu, rfl⟩

theorem sum_replicate_one (k : Nat) : (List.replicate k 1).sum = k := by
  rw [List.sum_replicate_nat]; omega

theorem shapeOf_removeAxes (axes : List Nat) (x : Chunks) : shapeOf (removeAxes axes x) = removeAxes axes (shapeOf x) := by
  unfold shapeOf removeAxes
  exact map_removeAxesFrom List.sum axes 0 x


/-! ## expand_dims with one axis, squeeze shape -/

theorem expandAxesFrom_hit {α : Type} (axes : List Nat) (v : α) (f k : Nat) (l : List α)
    (h : axes.contains k = true) : expandAxesFrom axes v (f + 1) k l = v :: expandAxesFrom axes v f (k + 1) l := by
  simp only [expandAxesFrom, h, if_true]

theorem expandAxesFrom_miss {α : Type} (axes : List Nat) (v : α) (f k : Nat) (y : α) (ys : List α)
    (h : axes.contains k = false) :
    expandAxesFrom axes v (f + 1) k (y :: ys) = y :: expandAxesFrom axes v f (k + 1) ys := by
  simp only [expandAxesFrom, h, Bool.false_eq_true, if_false]

theorem expandAxesFrom_nohit {α : Type} (a : Nat) (v : α) (f k : Nat) (xs : List α) (h : a < k) :
    expandAxesFrom [a] v f k xs = xs.take f := by
  induction f generalizing k xs with
  | zero => simp [expandAxesFrom]
  | succ f ih =>
    have hk : ([a] : List Nat).contains k = false := by simp; omega
    cases xs with
    | nil => simp only [expandAxesFrom, hk, Bool.false_eq_true, if_false]; simp
    | cons y ys => rw [expandAxesFrom_miss _ _ _ _ _ _ hk, ih (k + 1) ys (by omega)]; simp

theorem expandAxesFrom_single {α : Type} (a : Nat) (v : α) (k : Nat) (xs : List α) (h1 : k ≤ a) (h2 : a ≤ k + xs.length) :
    expandAxesFrom [a] v (xs.length + 1) k xs = xs.take (a - k) ++ v :: xs.drop (a - k) := by
  induction xs generalizing k with
  | nil =>
    have : a = k := by simp at h2; omega
    subst this
    simp [expandAxesFrom]
  | cons y ys ih =>
    by_cases hka : k = a
    · subst hka
      have hk : ([k] : List Nat).contains k = true := by simp
      rw [expandAxesFrom_hit _ _ _ _ _ hk, expandAxesFrom_nohit k v _ (k + 1) (y :: ys) (by omega)]
      simp
    · have hk : ([a] : List Nat).contains k = false := by simp; omega
      rw [List.length_cons, expandAxesFrom_miss _ _ _ _ _ _ hk, ih (k + 1) (by omega) (by simp at h2; omega)]
      have : a - k = (a - (k + 1)) + 1 := by omega
      rw [this]
      simp

theorem expandAxes_single {α : Type} (a : Nat) (v : α) (xs : List α) (h : a ≤ xs.length) :
    expandAxes [a] v xs = xs.take a ++ v :: xs.drop a := by
  unfold expandAxes
  simp only [List.length_cons, List.length_nil, Nat.zero_add]
  rw [expandAxesFrom_single a v 0 xs (by omega) (by omega)]
  simp

theorem squeezeShape_of_ones (axes : List Nat) (t : List Nat)
    (h : ∀ j, axes.contains j = true → j < t.length → t[j]? = some 1) :
    squeezeShape axes t = some (removeAxes axes t) := by
  unfold squeezeShape
  rw [if_pos]
  rw [List.all_eq_true]
  intro k hk
  have hk' : k < t.length := by simpa using hk
  cases hc : axes.contains k with
  | false => simp
  | true => simp [h k hc hk']


/-! ## reduction reference shape, adjust_chunks -/

theorem map_mapIdxFrom {α β γ : Type} (f : Nat → α → β) (g : β → γ) (k : Nat) (l : List α) :
    (mapIdxFrom f k l).map g = mapIdxFrom (fun i a => g (f i a)) k l := by
  induction l generalizing k with
  | nil => rfl
  | cons x xs ih => simp [mapIdxFrom, ih]

theorem mapIdxFrom_map {α β γ : Type} (f : Nat → β → γ) (g : α → β) (k : Nat) (l : List α) :
    mapIdxFrom f k (l.map g) = mapIdxFrom (fun i a => f i (g a)) k l := by
  induction l generalizing k with
  | nil => rfl
  | cons x xs ih => simp [mapIdxFrom, ih]

theorem reduced_keepdims_shape (x : Chunks) (axes : List Nat) :
    shapeOf (mapIdxFrom (fun i c => if axes.contains i then [1] else c) 0 x) = reducedShape (shapeOf x) axes true := by
  unfold shapeOf reducedShape
  rw [if_pos rfl, map_mapIdxFrom, mapIdxFrom_map]
  congr 1
  funext i c
  split <;> simp

theorem adjust_const_block (c : List Nat) (k b v : Nat) (h : (c.map (fun _ => k))[b]? = some v) :
    v = k ∧ b < c.length := by
  have hb := getElem?_lt_length _ _ _ h
  simp only [List.length_map] at hb
  simp only [List.getElem?_map] at h
  rw [List.getElem?_eq_getElem hb] at h
  simp at h
  exact ⟨h.symm, hb⟩


/-! ## concat: the pieces read for one out block cover it exactly -/

def piecesLen (ps : List (Nat × Nat × Nat)) : Nat := (ps.map (fun p => p.2.2 - p.2.1)).sum

theorem arraySlices_len (lens : List Nat) (i off start stop : Nat) :
    piecesLen (arraySlices lens i off start stop) = min stop (off + lens.sum) - max start off := by
  induction lens generalizing i off with
  | nil => simp [arraySlices, piecesLen]; omega
  | cons n rest ih =>
    simp only [arraySlices, piecesLen, List.map_append, List.sum_append, List.sum_cons]
    have := ih (i + 1) (off + n)
    simp only [piecesLen] at this
    rw [this]
    split <;> simp <;> omega


/-! ## repaired stack: the operands are unified first -/

theorem zipWith_regGrid_self (a : Chunks) (hcan : ∀ c ∈ a, Canon c) :
    List.zipWith regGrid (chunkSize a) (shapeOf a) = a := by
  unfold chunkSize shapeOf
  induction a with
  | nil => rfl
  | cons c cs ih =>
    simp only [List.map_cons, List.zipWith_cons_cons]
    rw [canon_regrid_self c (hcan c (by simp)), ih (fun c' hc' => hcan c' (by simp [hc']))]

theorem stackUnify_all_eq (args : List Chunks) (a : Chunks) (rest : List Chunks) (hargs : args = a :: rest)
    (hcan : ∀ c ∈ a, Canon c) (hnz : (shapeOf a).any (· == 0) = false)
    (u : List Chunks) (hu : stackUnify args = some u) : ∀ x ∈ u, x = a := by
  subst hargs
  unfold stackUnify at hu
  simp only at hu
  split at hu
  · simp at hu
  · next hshape =>
    simp only [Option.some.injEq] at hu
    subst hu
    intro x hx
    obtain ⟨y, hy, rfl⟩ := List.mem_map.mp hx
    have hsy : shapeOf y = shapeOf a := by
      have := hshape
      simp only [Bool.not_eq_true, List.any_eq_false] at this
      have h' := this y hy
      simpa using h'
    split
    · next h => simpa using h
    · rw [hsy, hnz]
      simp only [Bool.false_eq_true, if_false]
      exact zipWith_regGrid_self a hcan

/-! ## repaired qr: short row chunks are rejected -/

theorem qr1Chunkss_eq (a : Chunks) (q r : Chunks) (h : qr1Chunkss a = some (q, r)) :
    ∃ rows n, a = [rows, [n]] ∧ (∀ m ∈ rows, n ≤ m) ∧ q = [rows, [n]] ∧ r = [List.replicate rows.length n, [n]] := by
  unfold qr1Chunkss at h
  split at h
  · next rows n =>
    split at h
    · simp at h
    · next hany =>
      simp only [Option.some.injEq, Prod.mk.injEq] at h
      refine ⟨rows, n, rfl, ?_, h.1.symm, h.2.symm⟩
      intro m hm
      simp only [Bool.not_eq_true, List.any_eq_false, decide_eq_true_eq] at hany
      have := hany m hm
      omega
  · simp at h


/-! ## BlockView -/

theorem allSome_map_get {α β : Type} (f : α → Option β) (l : List α) (r : List β) (h : allSome (l.map f) = some r)
    (b : Nat) (v : β) (hv : r[b]? = some v) : (l[b]?).bind f = some v := by
  induction l generalizing r b with
  | nil => simp [allSome] at h; subst h; simp at hv
  | cons x xs ih =>
    simp only [List.map_cons, allSome] at h
    obtain ⟨y, ys, hy, hys, rfl⟩ := (consOpt_eq_some _ _ _).mp h
    cases b with
    | zero => simp at hv; subst hv; simpa using hy
    | succ b => simp only [List.getElem?_cons_succ] at hv ⊢; exact ih ys hys b hv

theorem blocksBlock_ok (x : Chunks) (sels : List (List Nat)) (d : Chunks) (hd : blocksChunkss x sels = some d)
    (coords s : List Nat) (he : extents d coords = some s) : blocksBlock x sels coords = some s := by
  induction x generalizing sels d coords s with
  | nil =>
    cases sels with
    | nil =>
      simp [blocksChunkss] at hd; subst hd
      cases coords with
      | nil => simpa [extents, blocksBlock] using he
      | cons _ _ => simp [extents] at he
    | cons _ _ => simp [blocksChunkss] at hd
  | cons c cs ih =>
    cases sels with
    | nil => simp [blocksChunkss] at hd
    | cons idx is =>
      simp only [blocksChunkss] at hd
      obtain ⟨l, r, hl, hr, rfl⟩ := (consOpt_eq_some _ _ _).mp hd
      cases coords with
      | nil => simp [extents] at he
      | cons b bs =>
        simp only [extents] at he
        obtain ⟨v, vs, hv, hvs, rfl⟩ := (consOpt_eq_some _ _ _).mp he
        simp only [blocksBlock]
        rw [ih is r hr bs vs hvs, allSome_map_get _ idx l hl b v hv]
        rfl

end Cubed.ShapeCalc
