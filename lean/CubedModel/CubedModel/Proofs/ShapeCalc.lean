/-
  Helper lemmas for the shape calculus (property C12).
-/
import CubedModel.Model.ShapeCalc

namespace Cubed.ShapeCalc

/-! ## arithmetic -/

theorem div_mul_add_mod (n c : Nat) : n / c * c + n % c = n := by
  have := Nat.div_add_mod n c
  rw [Nat.mul_comm] at this
  exact this

theorem succ_mul' (a c : Nat) : (a + 1) * c = a * c + c := Nat.succ_mul a c

theorem mul_le_of_lt (i q c : Nat) (h : i < q) : i * c + c ≤ q * c := by
  have := Nat.mul_le_mul_right c (Nat.succ_le_of_lt h)
  rw [Nat.succ_mul] at this
  exact this

theorem ceilDiv_eq (n c : Nat) (hc : 0 < c) :
    ceilDiv n c = n / c + (if n % c = 0 then 0 else 1) := by
  unfold ceilDiv
  have h1 := div_mul_add_mod n c
  have h2 := Nat.mod_lt n hc
  split
  · next h0 =>
    rw [Nat.add_zero]
    apply Nat.div_eq_of_lt_le
    · omega
    · rw [succ_mul']; omega
  · next h0 =>
    apply Nat.div_eq_of_lt_le
    · rw [succ_mul']; omega
    · rw [succ_mul', succ_mul']; omega

theorem ceilDiv_mul_ge (n c : Nat) (hc : 0 < c) : n ≤ ceilDiv n c * c := by
  rw [ceilDiv_eq n c hc]
  have h1 := div_mul_add_mod n c
  have h2 := Nat.mod_lt n hc
  split
  · rw [Nat.add_zero]; omega
  · rw [succ_mul']; omega

theorem lt_ceilDiv_iff (i n c : Nat) (hc : 0 < c) : i < ceilDiv n c ↔ i * c < n := by
  rw [ceilDiv_eq n c hc]
  have h1 := div_mul_add_mod n c
  have h2 := Nat.mod_lt n hc
  constructor
  · intro h
    split at h
    · have := mul_le_of_lt i (n / c) c (by omega); omega
    · by_cases hq : i < n / c
      · have := mul_le_of_lt i (n / c) c hq; omega
      · have : i = n / c := by omega
        subst this; omega
  · intro h
    by_cases hq : i < n / c
    · split <;> omega
    · have hge : n / c * c ≤ i * c := Nat.mul_le_mul_right c (by omega)
      split
      · omega
      · by_cases he : i = n / c
        · omega
        · have := mul_le_of_lt (n / c) i c (by omega); omega

/-! ## regular grids -/

theorem regGrid_sum (c n : Nat) : (regGrid c n).sum = n := by
  unfold regGrid
  have h1 := div_mul_add_mod n c
  split
  · simp_all
  · rw [List.sum_append, List.sum_replicate_nat]
    split
    · simp; omega
    · simp; omega

theorem regGrid_length (c n : Nat) (hc : 0 < c) (hn : 0 < n) : (regGrid c n).length = ceilDiv n c := by
  unfold regGrid
  rw [ceilDiv_eq n c hc]
  split
  · omega
  · simp only [List.length_append, List.length_replicate]
    split <;> simp

theorem regGrid_zero (c : Nat) : regGrid c 0 = [0] := by simp [regGrid]

/-- block `i` of a regular grid has length `min c (n - i*c)`. -/
theorem regGrid_get (c n i : Nat) (hc : 0 < c) (hn : 0 < n) (hi : i < ceilDiv n c) :
    (regGrid c n)[i]? = some (min c (n - i * c)) := by
  have hlt := (lt_ceilDiv_iff i n c hc).mp hi
  rw [ceilDiv_eq n c hc] at hi
  unfold regGrid
  have h1 := div_mul_add_mod n c
  have h2 := Nat.mod_lt n hc
  rw [if_neg (by omega)]
  by_cases hq : i < n / c
  · rw [List.getElem?_append_left (by simpa using hq), List.getElem?_replicate, if_pos hq]
    have := mul_le_of_lt i (n / c) c hq
    congr 1; omega
  · have hi' : i = n / c := by split at hi <;> omega
    have hr : n % c ≠ 0 := by
      intro h0; rw [if_pos h0] at hi; omega
    rw [List.getElem?_append_right (by simp; omega), if_neg hr]
    simp only [List.length_replicate]
    subst hi'
    simp only [Nat.sub_self, List.getElem?_cons_zero]
    congr 1; omega

theorem regGrid_le (c n x : Nat) (hc : 0 < c) (hx : x ∈ regGrid c n) : x ≤ c := by
  unfold regGrid at hx
  have h2 := Nat.mod_lt n hc
  split at hx
  · simp at hx; omega
  · rw [List.mem_append] at hx
    rcases hx with hx | hx
    · rw [List.mem_replicate] at hx; omega
    · split at hx
      · simp at hx
      · simp at hx; omega

theorem regGrid_pos (c n x : Nat) (hc : 0 < c) (hn : 0 < n) (hx : x ∈ regGrid c n) : 0 < x := by
  unfold regGrid at hx
  rw [if_neg (by omega)] at hx
  rw [List.mem_append] at hx
  rcases hx with hx | hx
  · rw [List.mem_replicate] at hx; omega
  · split at hx
    · simp at hx
    · simp at hx; omega

end Cubed.ShapeCalc
