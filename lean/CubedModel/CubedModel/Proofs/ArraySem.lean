/-
  Lemmas about chunk grids, blocks, assembly, ravel/unravel and the `_partial_reduce` fold.
-/
import CubedModel.Model.ArraySem

namespace Cubed.ArraySem

/-! ### one axis -/

theorem div_mul_add_mod (i c : Nat) : i / c * c + i % c = i := by
  have := Nat.div_add_mod i c
  rw [Nat.mul_comm] at this
  exact this

theorem assemble1_block1 {α : Type} (A : Nat → α) (c i : Nat) :
    assemble1 c (block1 A c) i = A i := by
  simp [assemble1, block1, div_mul_add_mod]

theorem div_lt_nblocks {n c i : Nat} (hc : 0 < c) (hi : i < n) : i / c < nblocks n c := by
  unfold nblocks
  have h1 : i / c * c ≤ i := Nat.div_mul_le_self i c
  have h2 : (i / c + 1) * c ≤ n + c - 1 := by
    rw [Nat.add_mul, Nat.one_mul]; omega
  exact (Nat.le_div_iff_mul_le hc).mpr h2

theorem mod_lt_blockLen {n c i : Nat} (hc : 0 < c) (hi : i < n) : i % c < blockLen n c (i / c) := by
  unfold blockLen
  have h1 := div_mul_add_mod i c
  have h2 := Nat.mod_lt i hc
  omega

/-- a position `b*c + j` with `j < c` lies in block `b` at local index `j` and nowhere else. -/
theorem block_unique {c b j i : Nat} (hj : j < c) (h : b * c + j = i) : b = i / c ∧ j = i % c := by
  subst h
  have hc : 0 < c := by omega
  constructor
  · rw [Nat.mul_comm, Nat.mul_add_div hc, Nat.div_eq_of_lt hj]; rfl
  · rw [Nat.mul_comm, Nat.mul_add_mod, Nat.mod_eq_of_lt hj]

theorem blockLen_le (n c b : Nat) : blockLen n c b ≤ c := by unfold blockLen; omega

/-- inside the grid every block is non-empty. -/
theorem blockLen_pos {n c b : Nat} (hc : 0 < c) (hb : b < nblocks n c) : 0 < blockLen n c b := by
  unfold blockLen nblocks at *
  have : b * c < n := by
    have h := (Nat.lt_div_iff_mul_lt hc).mp hb
    rw [Nat.mul_comm]
    have : c * b = b * c := Nat.mul_comm _ _
    omega
  omega

theorem nblocks_mul_ge {n c : Nat} (hc : 0 < c) : n ≤ nblocks n c * c := by
  unfold nblocks
  have h := Nat.lt_div_mul_add (a := n + c - 1) hc
  omega

theorem lt_of_lt_nblocks {n c b : Nat} (hc : 0 < c) (hb : b < nblocks n c) : b * c < n := by
  unfold nblocks at hb
  have h := (Nat.lt_div_iff_mul_lt hc).mp hb
  have : c * b = b * c := Nat.mul_comm _ _
  omega

/-! ### `get_item` on a regular chunk tuple is `(b*c, min ((b+1)*c) n)` -/

theorem sum_replicate' (k c : Nat) : (List.replicate k c).sum = k * c := by
  induction k with
  | zero => simp
  | succ k ih => simp [List.replicate_succ, ih, Nat.add_mul]; omega

theorem div_eq_of_bounds {x c q : Nat} (hc : 0 < c) (h1 : q * c ≤ x) (h2 : x < (q + 1) * c) : x / c = q := by
  have a := (Nat.le_div_iff_mul_le hc).mpr h1
  have b := (Nat.div_lt_iff_lt_mul hc).mpr h2
  omega

theorem nblocks_eq {n c : Nat} (hc : 0 < c) : nblocks n c = n / c + (if n % c = 0 then 0 else 1) := by
  unfold nblocks
  have h := div_mul_add_mod n c
  have hlt := Nat.mod_lt n hc
  by_cases hm : n % c = 0
  · rw [if_pos hm, Nat.add_zero]
    apply div_eq_of_bounds hc
    · omega
    · rw [Nat.add_mul]; omega
  · rw [if_neg hm]
    apply div_eq_of_bounds hc
    · rw [Nat.add_mul]; omega
    · rw [Nat.add_mul, Nat.add_mul]; omega

theorem sum_take_chunksOf {n c k : Nat} (hk : k ≤ n / c) : ((chunksOf n c).take k).sum = k * c := by
  unfold chunksOf
  rw [List.take_append_of_le_length (by simp; exact hk)]
  rw [List.take_replicate, Nat.min_eq_left hk]
  exact sum_replicate' k c

theorem sum_chunksOf (n c : Nat) : (chunksOf n c).sum = n := by
  unfold chunksOf
  have h := div_mul_add_mod n c
  by_cases hm : n % c = 0
  · simp [hm] at *; omega
  · simp [hm]; omega

theorem length_chunksOf (n c : Nat) (hc : 0 < c) : (chunksOf n c).length = nblocks n c := by
  rw [nblocks_eq hc]
  unfold chunksOf
  by_cases hm : n % c = 0 <;> simp [hm]

theorem getItem_chunksOf {n c b : Nat} (hc : 0 < c) (hb : b < nblocks n c) :
    getItem (chunksOf n c) b = (b * c, min ((b + 1) * c) n) := by
  have hbn : b * c < n := lt_of_lt_nblocks hc hb
  have hb' : b ≤ n / c := by
    have : b * c ≤ n := Nat.le_of_lt hbn
    exact (Nat.le_div_iff_mul_le hc).mpr this
  unfold getItem
  rw [sum_take_chunksOf hb']
  by_cases hlast : b + 1 ≤ n / c
  · rw [sum_take_chunksOf hlast]
    have : (b + 1) * c ≤ n := (Nat.le_div_iff_mul_le hc).mp hlast
    rw [Nat.min_eq_left this]
  · have hbeq : b = n / c := by omega
    have hlen : (chunksOf n c).length ≤ b + 1 := by
      rw [length_chunksOf n c hc, nblocks_eq hc]
      split <;> omega
    rw [List.take_of_length_le hlen, sum_chunksOf]
    have : n < (b + 1) * c := by
      rw [hbeq, Nat.add_mul, Nat.one_mul]
      have h := div_mul_add_mod n c
      have hlt := Nat.mod_lt n hc
      omega
    rw [Nat.min_eq_right (Nat.le_of_lt this)]

/-! ### n dimensions -/

theorem glob_divs_mods (cs is : List Nat) (h : is.length ≤ cs.length) :
    glob cs (divs is cs) (mods is cs) = is := by
  induction is generalizing cs with
  | nil => cases cs <;> simp [glob, divs, mods]
  | cons i is ih =>
    cases cs with
    | nil => simp at h
    | cons c cs =>
      simp [glob, divs, mods, div_mul_add_mod]
      exact ih cs (by simpa using h)

/-- cutting into blocks and writing every block back at its grid position gives the array back. -/
theorem assembleN_blockN {α : Type} (A : List Nat → α) (cs is : List Nat) (h : is.length ≤ cs.length) :
    assembleN cs (blockN A cs) is = A is := by
  simp [assembleN, blockN, glob_divs_mods cs is h]

theorem InBox.length_eq {is ns : List Nat} (h : InBox is ns) : is.length = ns.length := by
  induction is generalizing ns with
  | nil => cases ns <;> simp [InBox] at *
  | cons i is ih =>
    cases ns with
    | nil => simp [InBox] at h
    | cons n ns => simp [InBox] at h; simp [ih h.2]

theorem inBox_iff (is ns : List Nat) : inBox is ns = true ↔ InBox is ns := by
  induction is generalizing ns with
  | nil => cases ns <;> simp [inBox, InBox]
  | cons i is ih =>
    cases ns with
    | nil => simp [inBox, InBox]
    | cons n ns => simp [inBox, InBox, ih]

instance (is ns : List Nat) : Decidable (InBox is ns) :=
  decidable_of_iff _ (inBox_iff is ns)

/-- All chunk sizes positive. -/
def AllPos : List Nat → Prop
  | [] => True
  | c :: cs => 0 < c ∧ AllPos cs

/-- an in-range index lies in an in-range block, at an in-range local position. -/
theorem divs_mods_inBox {is shape cs : List Nat} (hlen : shape.length = cs.length) (hpos : AllPos cs)
    (h : InBox is shape) :
    InBox (divs is cs) (numblocksN shape cs) ∧ InBox (mods is cs) (blockShapeN shape cs (divs is cs)) := by
  induction is generalizing shape cs with
  | nil =>
    cases shape with
    | nil => cases cs <;> simp [divs, mods, numblocksN, blockShapeN, InBox] at *
    | cons n ns => simp [InBox] at h
  | cons i is ih =>
    cases shape with
    | nil => simp [InBox] at h
    | cons n ns =>
      cases cs with
      | nil => simp at hlen
      | cons c cs =>
        simp [InBox] at h
        simp [AllPos] at hpos
        have := ih (shape := ns) (cs := cs) (by simpa using hlen) hpos.2 h.2
        simp [divs, mods, numblocksN, blockShapeN, InBox]
        exact ⟨⟨div_lt_nblocks hpos.1 h.1, this.1⟩, ⟨mod_lt_blockLen hpos.1 h.1, this.2⟩⟩

/-- … and in no other block: block coordinates and local position are determined by the index. -/
theorem glob_unique {cs bs js is : List Nat} (hb : bs.length = cs.length) (hj : InBox js cs)
    (h : glob cs bs js = is) : bs = divs is cs ∧ js = mods is cs := by
  induction cs generalizing bs js is with
  | nil =>
    cases bs with
    | nil => cases js <;> simp [InBox, glob] at * <;> subst h <;> simp [divs, mods]
    | cons b bs => simp at hb
  | cons c cs ih =>
    cases bs with
    | nil => simp at hb
    | cons b bs =>
      cases js with
      | nil => simp [InBox] at hj
      | cons j js =>
        simp [InBox] at hj
        simp [glob] at h
        subst h
        have h1 := block_unique (b := b) (i := b * c + j) hj.1 rfl
        have h2 := ih (bs := bs) (js := js) (by simpa using hb) hj.2 rfl
        simp only [divs, mods, List.cons.injEq]
        exact ⟨⟨h1.1, h2.1⟩, ⟨h1.2, h2.2⟩⟩

/-! ### ravel / unravel -/

def prod (ds : List Nat) : Nat := ds.foldl (· * ·) 1

theorem foldl_mul_eq (ds : List Nat) (a : Nat) : ds.foldl (· * ·) a = a * ds.foldl (· * ·) 1 := by
  induction ds generalizing a with
  | nil => simp
  | cons d ds ih => simp [List.foldl]; rw [ih (a * d), ih d]; simp [Nat.mul_assoc]

theorem ravel_lt {cs ds : List Nat} (h : InBox cs ds) : ravel cs ds < ds.foldl (· * ·) 1 := by
  induction cs generalizing ds with
  | nil => cases ds <;> simp [InBox, ravel] at *
  | cons c cs ih =>
    cases ds with
    | nil => simp [InBox] at h
    | cons d ds =>
      simp [InBox] at h
      have := ih h.2
      simp [ravel, List.foldl]
      rw [foldl_mul_eq ds d]
      have hle : (c + 1) * List.foldl (· * ·) 1 ds ≤ d * List.foldl (· * ·) 1 ds :=
        Nat.mul_le_mul_right _ h.1
      rw [Nat.add_mul, Nat.one_mul] at hle
      omega

/-- `offset_to_block_id(block_id_to_offset(c, nb), nb) = c`: the block id a task receives through the
virtual offsets array is the coordinate of the block it computes. -/
theorem unravel_ravel {cs ds : List Nat} (h : InBox cs ds) : unravel (ravel cs ds) ds = cs := by
  induction cs generalizing ds with
  | nil => cases ds <;> simp [InBox, ravel, unravel] at *
  | cons c cs ih =>
    cases ds with
    | nil => simp [InBox] at h
    | cons d ds =>
      simp [InBox] at h
      have hlt := ravel_lt h.2
      have hpos : 0 < List.foldl (· * ·) 1 ds := by omega
      simp [ravel, unravel]
      constructor
      · rw [Nat.mul_comm, Nat.mul_add_div hpos, Nat.div_eq_of_lt hlt]; rfl
      · rw [Nat.mod_eq_of_lt hlt]; exact ih h.2

theorem ravel_unravel (off : Nat) (ds : List Nat) (h : off < ds.foldl (· * ·) 1) :
    ravel (unravel off ds) ds = off := by
  induction ds generalizing off with
  | nil => simp [ravel, unravel] at *; omega
  | cons d ds ih =>
    simp [List.foldl] at h
    rw [foldl_mul_eq ds d] at h
    have hpos : 0 < List.foldl (· * ·) 1 ds := by
      rcases Nat.eq_zero_or_pos (List.foldl (· * ·) 1 ds) with h0 | h0
      · rw [h0] at h; simp at h
      · exact h0
    simp [ravel, unravel]
    rw [ih _ (Nat.mod_lt _ hpos)]
    exact div_mul_add_mod off _

/-! ### the `_partial_reduce` fold is a monoid fold -/

theorem oop_none_left {β : Type} (op : β → β → β) (y : Option β) : oop op none y = y := by
  cases y <;> rfl

theorem oop_none_right {β : Type} (op : β → β → β) (x : Option β) : oop op x none = x := by
  cases x <;> rfl

theorem oop_assoc {β : Type} (op : β → β → β) (hassoc : ∀ a b c, op (op a b) c = op a (op b c))
    (x y z : Option β) : oop op (oop op x y) z = oop op x (oop op y z) := by
  cases x <;> cases y <;> cases z <;> simp [oop, hassoc]

theorem foldl_oop {β : Type} (op : β → β → β) (hassoc : ∀ a b c, op (op a b) c = op a (op b c))
    (xs : List (Option β)) (a : Option β) : xs.foldl (oop op) a = oop op a (xs.foldl (oop op) none) := by
  induction xs generalizing a with
  | nil => simp [oop_none_right]
  | cons x xs ih =>
    simp only [List.foldl]
    rw [ih (oop op a x), ih (oop op none x), oop_none_left, oop_assoc op hassoc]

theorem ofoldO_append {β : Type} (op : β → β → β) (hassoc : ∀ a b c, op (op a b) c = op a (op b c))
    (xs ys : List (Option β)) : ofoldO op (xs ++ ys) = oop op (ofoldO op xs) (ofoldO op ys) := by
  unfold ofoldO
  rw [List.foldl_append, foldl_oop op hassoc]

/-- folding group by group and then folding the group results equals folding everything in order. -/
theorem ofoldO_flatMap {β ι : Type} (op : β → β → β) (hassoc : ∀ a b c, op (op a b) c = op a (op b c))
    (L : List ι) (f : ι → List (Option β)) :
    ofoldO op (L.map (fun x => ofoldO op (f x))) = ofoldO op (L.flatMap f) := by
  induction L with
  | nil => rfl
  | cons x L ih =>
    have h1 : (x :: L).map (fun x => ofoldO op (f x)) = [ofoldO op (f x)] ++ L.map (fun x => ofoldO op (f x)) := rfl
    rw [h1, ofoldO_append op hassoc, List.flatMap_cons, ofoldO_append op hassoc, ih]
    congr 1

/-- a non-empty fold is the plain left fold from the first block. -/
theorem ofold_cons {β : Type} (op : β → β → β) (x : β) (xs : List β) :
    ofold op (x :: xs) = some (xs.foldl op x) := by
  unfold ofold ofoldO
  simp only [List.map, List.foldl, oop_none_left]
  induction xs generalizing x with
  | nil => rfl
  | cons y ys ih => simp only [List.map, List.foldl, oop]; exact ih (op x y)

end Cubed.ArraySem
