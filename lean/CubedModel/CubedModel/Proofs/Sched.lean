/-
  Helper lemmas for the scheduling model (C07, C13).
-/
import CubedModel.Model.Sched

namespace Cubed.Sched

variable {d : Dag} {allow : St → Nat → Nat → Bool}

/-! ## Runs -/

theorem Run.append {s s' s'' : St} {l1 l2 : List Label}
    (h1 : Run d allow s l1 s') (h2 : Run d allow s' l2 s'') : Run d allow s (l1 ++ l2) s'' := by
  induction h1 with
  | nil s => simpa using h2
  | cons hs _ ih => exact Run.cons hs (ih h2)

theorem Run.split {s s'' : St} {l1 l2 : List Label}
    (h : Run d allow s (l1 ++ l2) s'') : ∃ s', Run d allow s l1 s' ∧ Run d allow s' l2 s'' := by
  induction l1 generalizing s with
  | nil => exact ⟨s, Run.nil s, by simpa using h⟩
  | cons l ls ih =>
    cases h with
    | cons hs hr =>
      obtain ⟨s', h1, h2⟩ := ih hr
      exact ⟨s', Run.cons hs h1, h2⟩

theorem Run.single {s s' : St} {l : Label} (h : Step d allow s l s') : Run d allow s [l] s' :=
  Run.cons h (Run.nil s')

/-! ## Orders, generations, schedules -/

theorem mem_flatten_split {pre : List (List Nat)} {w : Nat} (h : w ∈ pre.flatten) :
    ∃ p1 g p2, pre = p1 ++ g :: p2 ∧ w ∈ g := by
  obtain ⟨g, hg, hw⟩ := List.mem_flatten.1 h
  obtain ⟨p1, p2, rfl⟩ := List.append_of_mem hg
  exact ⟨p1, g, p2, rfl, hw⟩

/-- `Gens` extends from direct predecessors to all ancestors. -/
theorem gens_reach {gens : List (List Nat)} (h : Gens d gens) {u v : Nat} (hr : Reach d u v) :
    ∀ pre g post, gens = pre ++ g :: post → v ∈ g → u ∈ pre.flatten := by
  induction hr with
  | edge he => intro pre g post hg hv; exact h pre g post hg _ hv _ he
  | step _ he ih =>
    intro pre g post hg hv
    have hw := h pre g post hg _ hv _ he
    obtain ⟨p1, g', p2, rfl, hwg⟩ := mem_flatten_split hw
    have := ih p1 g' (p2 ++ g :: post) (by simp [hg]) hwg
    simp only [List.flatten_append, List.mem_append]
    exact Or.inl this

/-- `Topo` is `Gens` for singleton generations. -/
theorem topo_gens {order : List Nat} (h : Topo d order) : Gens d (order.map fun o => [o]) := by
  intro pre g post hg v hv u he
  obtain ⟨l1, l2, hord, hpre, hl2⟩ := List.map_eq_append_iff.1 hg
  cases l2 with
  | nil => simp at hl2
  | cons x l2 =>
    simp only [List.map_cons, List.cons.injEq] at hl2
    obtain ⟨hx, _⟩ := hl2
    subst hx
    simp only [List.mem_singleton] at hv
    subst hv
    have := h l1 v l2 hord u he
    rw [← hpre]
    simp only [List.mem_flatten, List.mem_map]
    exact ⟨[u], ⟨u, this, rfl⟩, by simp⟩

theorem genSchedule_cons (g : List Nat) (gs : List (List Nat)) :
    genSchedule d (g :: gs) =
      if (g.filter (fun n => !d.skip n)).isEmpty then genSchedule d gs
      else g.filter (fun n => !d.skip n) :: genSchedule d gs := by
  unfold genSchedule
  simp only [List.map_cons, List.filter_cons]
  split <;> simp_all

theorem seqSchedule_eq (order : List Nat) :
    seqSchedule d order = genSchedule d (order.map fun o => [o]) := by
  induction order with
  | nil => rfl
  | cons o os ih =>
    rw [List.map_cons, genSchedule_cons, ← ih]
    unfold seqSchedule visitNodes
    by_cases hs : d.skip o <;> simp [hs]

theorem mem_genSchedule_flatten {gens : List (List Nat)} {p : Nat} :
    p ∈ (genSchedule d gens).flatten ↔ p ∈ gens.flatten ∧ d.skip p = false := by
  induction gens with
  | nil => simp [genSchedule]
  | cons g gs ih =>
    rw [genSchedule_cons]
    split
    · rename_i he
      have : ∀ x ∈ g, d.skip x = true := by
        intro x hx
        have := List.filter_eq_nil_iff.1 (List.isEmpty_iff.1 he) x hx
        simpa using this
      rw [ih]
      simp only [List.flatten_cons, List.mem_append]
      constructor
      · rintro ⟨h1, h2⟩; exact ⟨Or.inr h1, h2⟩
      · rintro ⟨h1 | h1, h2⟩
        · have := this p h1; simp_all
        · exact ⟨h1, h2⟩
    · simp only [List.flatten_cons, List.mem_append, List.mem_filter, ih]
      constructor
      · rintro (⟨h1, h2⟩ | ⟨h1, h2⟩)
        · exact ⟨Or.inl h1, by simpa using h2⟩
        · exact ⟨Or.inr h1, h2⟩
      · rintro ⟨h1 | h1, h2⟩
        · exact Or.inl ⟨h1, by simpa using h2⟩
        · exact Or.inr ⟨h1, h2⟩

/-- A position in the filtered schedule comes from a position in networkx's generations. -/
theorem genSchedule_split {gens : List (List Nat)} :
    ∀ {pre' : List (List Nat)} {g' : List Nat} {post' : List (List Nat)},
      genSchedule d gens = pre' ++ g' :: post' →
      ∃ pre g post, gens = pre ++ g :: post ∧ g' = g.filter (fun n => !d.skip n) ∧
        pre' = genSchedule d pre := by
  induction gens with
  | nil => intro pre' g' post' h; simp [genSchedule] at h
  | cons h t ih =>
    intro pre' g' post' hh
    rw [genSchedule_cons] at hh
    split at hh
    · rename_i he
      obtain ⟨pre, g, post, rfl, hg, hp⟩ := ih hh
      refine ⟨h :: pre, g, post, rfl, hg, ?_⟩
      rw [genSchedule_cons, if_pos he]; exact hp
    · rename_i he
      cases pre' with
      | nil =>
        simp only [List.nil_append, List.cons.injEq] at hh
        exact ⟨[], h, t, rfl, hh.1.symm, rfl⟩
      | cons x pre'' =>
        simp only [List.cons_append, List.cons.injEq] at hh
        obtain ⟨pre, g, post, rfl, hg, hp⟩ := ih hh.2
        refine ⟨h :: pre, g, post, rfl, hg, ?_⟩
        rw [genSchedule_cons, if_neg he, ← hh.1, hp]

/-- The schedule `visit_node_generations` hands to `async_map_dag` is sound when networkx's
generations are. -/
theorem schedOK_of_gens {gens : List (List Nat)} (h : Gens d gens) : SchedOK d (genSchedule d gens) := by
  intro pre' g' post' hs o ho p hr hp
  obtain ⟨pre, g, post, hg, hg', hpre⟩ := genSchedule_split hs
  subst hg' hpre
  have hog : o ∈ g := (List.mem_filter.1 ho).1
  have := gens_reach h hr pre g post hg hog
  exact mem_genSchedule_flatten.2 ⟨this, hp⟩

/-- … and the order `visit_nodes` hands to the sequential executors when networkx's order is. -/
theorem schedOK_of_topo {order : List Nat} (h : Topo d order) : SchedOK d (seqSchedule d order) := by
  rw [seqSchedule_eq]; exact schedOK_of_gens (topo_gens h)

theorem genSchedule_not_skipped {gens : List (List Nat)} {g : List Nat} {o : Nat}
    (hg : g ∈ genSchedule d gens) (ho : o ∈ g) : d.skip o = false :=
  (mem_genSchedule_flatten.1 (List.mem_flatten.2 ⟨g, hg, ho⟩)).2

/-- the executable check establishes the hypothesis -/
theorem checkGensFrom_sound {seen : List Nat} {gens : List (List Nat)}
    (h : checkGensFrom d seen gens = true) :
    ∀ pre g post, gens = pre ++ g :: post → ∀ v ∈ g, ∀ u, (u, v) ∈ d.edges → u ∈ seen ++ pre.flatten := by
  induction gens generalizing seen with
  | nil => intro pre g post hg; simp at hg
  | cons g0 gs ih =>
    intro pre g post hg v hv u he
    simp only [checkGensFrom, Bool.and_eq_true, List.all_eq_true] at h
    cases pre with
    | nil =>
      simp only [List.nil_append, List.cons.injEq] at hg
      obtain ⟨rfl, _⟩ := hg
      have := h.1 v hv (u, v) he
      simp at this
      simpa using this
    | cons x pre' =>
      simp only [List.cons_append, List.cons.injEq] at hg
      obtain ⟨rfl, hg⟩ := hg
      have := ih h.2 pre' g post hg v hv u he
      simpa [List.append_assoc] using this

theorem checkGens_sound {gens : List (List Nat)} (h : checkGens d gens = true) : Gens d gens := by
  intro pre g post hg v hv u he
  simpa using checkGensFrom_sound h pre g post hg v hv u he

theorem checkCreateFirst_sound {c : Nat} {nodes : List Nat}
    (h : checkCreateFirst d c nodes = true) (hn : ∀ n, d.pipeline n = true → n ∈ nodes) : CreateFirst d c := by
  simp only [checkCreateFirst, Bool.and_eq_true, List.all_eq_true, beq_iff_eq] at h
  refine ⟨h.1, ?_⟩
  intro n hp hne
  have := h.2 n (hn n hp)
  simp only [hp, Bool.not_true, Bool.false_or, Bool.or_eq_true, beq_iff_eq, List.any_eq_true,
    Bool.and_eq_true, List.contains_iff_mem] at this
  rcases this with h1 | ⟨e, he, hc, hm⟩
  · exact absurd h1 hne
  · refine ⟨e.2, ?_, hm⟩
    have : e = (c, e.2) := by rw [← hc]
    rw [← this]; exact he

/-! ## The invariant behind C07 -/

/-- Position in the schedule, and running tasks belong to the open generation. -/
structure Inv (sched : List (List Nat)) (s : St) : Prop where
  pos : sched = s.closed ++ s.opened.toList ++ s.todo
  run_open : ∀ o t, (o, t) ∈ s.running → ∃ g, s.opened = some g ∧ o ∈ g

theorem inv_init (sched : List (List Nat)) : Inv sched (init sched) :=
  ⟨by simp [init], by intro o t h; simp [init] at h⟩

theorem inv_step {sched : List (List Nat)} {s s' : St} {l : Label}
    (hi : Inv sched s) (hs : Step d allow s l s') : Inv sched s' := by
  obtain ⟨hpos, hro⟩ := hi
  cases hs with
  | openGen ho ht =>
    constructor
    · simp [hpos, ho, ht]
    · intro o t h
      obtain ⟨g', hg', _⟩ := hro o t h
      simp [ho] at hg'
  | launch ho hog _ _ _ _ =>
    constructor
    · simpa using hpos
    · intro o' t' h
      simp only [List.mem_cons] at h
      rcases h with h | h
      · cases h; exact ⟨_, ho, hog⟩
      · exact hro o' t' h
  | finish _ =>
    constructor
    · simpa using hpos
    · intro o' t' h
      exact hro o' t' (List.mem_filter.1 h).1
  | closeGen ho hr _ =>
    constructor
    · simp [hpos, ho]
    · intro o' t' h; simp [hr] at h
  | read _ _ => exact ⟨hpos, hro⟩
  | write _ _ => exact ⟨hpos, hro⟩
  | create _ _ => exact ⟨hpos, hro⟩
  | backup _ => exact ⟨hpos, hro⟩
  | copyFail _ => exact ⟨hpos, hro⟩

theorem inv_run {sched : List (List Nat)} {s s' : St} {ls : List Label}
    (hi : Inv sched s) (hr : Run d allow s ls s') : Inv sched s' := by
  induction hr with
  | nil => exact hi
  | cons hs _ ih => exact ih (inv_step hi hs)

theorem safe_of_inv {sched : List (List Nat)} {s : St} (hok : SchedOK d sched) (hi : Inv sched s) :
    Safe d s := by
  intro o t hrun p hreach hskip
  obtain ⟨g, hg, hog⟩ := hi.run_open o t hrun
  have hpos := hi.pos
  rw [hg] at hpos
  exact hok s.closed g s.todo (by simpa using hpos) o hog p hreach hskip

/-- `closed` only grows, at its end. -/
theorem closed_mono {s s' : St} {ls : List Label} (hr : Run d allow s ls s') :
    ∃ ext, s'.closed = s.closed ++ ext := by
  induction hr with
  | nil => exact ⟨[], by simp⟩
  | cons hs _ ih =>
    obtain ⟨ext, he⟩ := ih
    cases hs with
    | @closeGen g _ _ _ => exact ⟨g :: ext, by simp [he]⟩
    | openGen _ _ => exact ⟨ext, he⟩
    | launch _ _ _ _ _ _ => exact ⟨ext, he⟩
    | finish _ => exact ⟨ext, he⟩
    | read _ _ => exact ⟨ext, he⟩
    | write _ _ => exact ⟨ext, he⟩
    | create _ _ => exact ⟨ext, he⟩
    | backup _ => exact ⟨ext, he⟩
    | copyFail _ => exact ⟨ext, he⟩

/-- Once an op is closed none of its tasks ever runs again (each op occurs once in the schedule). -/
theorem closed_never_runs {sched : List (List Nat)} {s1 s2 : St} {l1 l2 : List Label} {p t : Nat}
    (hnd : sched.flatten.Nodup)
    (h1 : Run d allow (init sched) l1 s1) (hp : p ∈ s1.closed.flatten)
    (h2 : Run d allow s1 l2 s2) : (p, t) ∉ s2.running := by
  intro hrun
  have hi2 := inv_run (inv_run (inv_init sched) h1) h2
  obtain ⟨g, hg, hpg⟩ := hi2.run_open p t hrun
  obtain ⟨ext, hext⟩ := closed_mono h2
  have hpos := hi2.pos
  rw [hg, hext] at hpos
  rw [hpos] at hnd
  simp only [Option.toList_some, List.flatten_append, List.flatten_cons, List.flatten_nil,
    List.append_nil, List.append_assoc] at hnd
  have h := (List.nodup_append.1 hnd).2.2 p hp p
    (by simp only [List.mem_append]; exact Or.inr (Or.inl hpg))
  exact h rfl

/-! ## Counting -/

/-- A duplicate-free list of numbers below `n` that contains every number below `n` has length `n`. -/
theorem length_eq_of_nodup_complete {n : Nat} : ∀ {l : List Nat}, l.Nodup → (∀ t ∈ l, t < n) →
    (∀ t, t < n → t ∈ l) → l.length = n := by
  induction n with
  | zero =>
    intro l _ hlt _
    cases l with
    | nil => rfl
    | cons x xs => exact absurd (hlt x (by simp)) (by omega)
  | succ n ih =>
    intro l hnd hlt hall
    have hn : n ∈ l := hall n (by omega)
    have hlen := List.length_erase_of_mem hn
    have hnd' : (l.erase n).Nodup := hnd.erase n
    have h1 : ∀ t ∈ l.erase n, t < n := by
      intro t ht
      have hm := (List.Nodup.mem_erase_iff hnd).1 ht
      have := hlt t hm.2
      omega
    have h2 : ∀ t, t < n → t ∈ l.erase n := by
      intro t ht
      exact (List.Nodup.mem_erase_iff hnd).2 ⟨by omega, hall t (by omega)⟩
    have := ih hnd' h1 h2
    have hpos : 0 < l.length := List.length_pos_of_mem hn
    omega

theorem count_fst (l : List (Nat × Nat)) (o : Nat) :
    (l.map Prod.fst).count o = ((l.filter (fun p => p.1 == o)).map Prod.snd).length := by
  induction l with
  | nil => rfl
  | cons p l ih =>
    by_cases h : p.1 = o
    · simp [h, ih]
    · simp [h, ih]

theorem nodup_snd_filter {l : List (Nat × Nat)} (o : Nat) (h : l.Nodup) :
    ((l.filter (fun p => p.1 == o)).map Prod.snd).Nodup := by
  induction l with
  | nil => simp
  | cons p l ih =>
    have hl := (List.nodup_cons.1 h)
    by_cases hp : p.1 = o
    · simp only [List.filter_cons, hp, beq_self_eq_true, if_true, List.map_cons, List.nodup_cons]
      refine ⟨?_, ih hl.2⟩
      intro hmem
      obtain ⟨q, hq, hq2⟩ := List.mem_map.1 hmem
      obtain ⟨hql, hq1⟩ := List.mem_filter.1 hq
      have : q = p := by
        cases q; cases p
        simp only [beq_iff_eq] at hq1
        simp_all
      exact hl.1 (this ▸ hql)
    · have h' : ¬ (p.1 == o) = true := by simpa using hp
      simp only [List.filter_cons, h']
      exact ih hl.2

/-- The counting step of C13: when a generation is closed, exactly `ntasks o` results of `o` were
yielded. -/
theorem count_finished {fin : List (Nat × Nat)} {o n : Nat} (hnd : fin.Nodup)
    (hlt : ∀ t, (o, t) ∈ fin → t < n) (hall : ∀ t, t < n → (o, t) ∈ fin) :
    (fin.reverse.map Prod.fst).count o = n := by
  rw [List.map_reverse, List.count_reverse, count_fst]
  apply length_eq_of_nodup_complete (nodup_snd_filter o hnd)
  · intro t ht
    obtain ⟨q, hq, hq2⟩ := List.mem_map.1 ht
    obtain ⟨hql, hq1⟩ := List.mem_filter.1 hq
    apply hlt
    cases q
    simp only [beq_iff_eq] at hq1
    simp_all
  · intro t ht
    exact List.mem_map.2 ⟨(o, t), List.mem_filter.2 ⟨hall t ht, by simp⟩, rfl⟩

/-! ## From runs to the event language (C13) -/

theorem langGens_snoc {C : List (List Nat)} {past b : List Event} {g : List Nat}
    (h : LangGens d C past) (hb : GenLang d g b) : LangGens d (C ++ [g]) (past ++ b) := by
  induction C generalizing past with
  | nil =>
    simp only [LangGens] at h
    subst h
    exact ⟨b, [], hb, rfl, by simp⟩
  | cons c C ih =>
    obtain ⟨b0, rest, hb0, hrest, rfl⟩ := h
    exact ⟨b0, rest ++ b, hb0, ih hrest, by simp⟩

/-- events of the open generation so far -/
def curEvents (s : St) : List Event :=
  match s.opened with
  | none => []
  | some g => g.map .opStart ++ (s.finished.reverse.map Prod.fst).map .taskEnd

structure EvInv (d : Dag) (s : St) (E : List Event) : Prop where
  ev : ∃ past, LangGens d s.closed past ∧ E = past ++ curEvents s
  fin_nodup : s.finished.Nodup
  fin_ok : ∀ o t, (o, t) ∈ s.finished → (∃ g, s.opened = some g ∧ o ∈ g) ∧ t < d.ntasks o
  run_ok : ∀ o t, (o, t) ∈ s.running → (∃ g, s.opened = some g ∧ o ∈ g) ∧ t < d.ntasks o
  run_fin : ∀ p ∈ s.running, p ∉ s.finished

theorem evInv_init (sched : List (List Nat)) : EvInv d (init sched) [] :=
  ⟨⟨[], by simp [init, LangGens], by simp [init, curEvents]⟩, by simp [init],
   by intro o t h; simp [init] at h, by intro o t h; simp [init] at h, by intro p h; simp [init] at h⟩

theorem evInv_step {s s' : St} {l : Label} {E : List Event}
    (hi : EvInv d s E) (hs : Step d allow s l s') : EvInv d s' (E ++ (emit l).filterMap evOf) := by
  obtain ⟨⟨past, hpast, hE⟩, hnd, hfin, hrun, hrf⟩ := hi
  cases hs with
  | @openGen g rest ho ht =>
    have hf : s.finished = [] := by
      cases hf : s.finished with
      | nil => rfl
      | cons p ps =>
        obtain ⟨⟨g', hg', _⟩, _⟩ := hfin p.1 p.2 (by rw [hf]; simp)
        simp [ho] at hg'
    have hr : s.running = [] := by
      cases hr : s.running with
      | nil => rfl
      | cons p ps =>
        obtain ⟨⟨g', hg', _⟩, _⟩ := hrun p.1 p.2 (by rw [hr]; simp)
        simp [ho] at hg'
    refine ⟨⟨past, hpast, ?_⟩, hnd, ?_, ?_, hrf⟩
    · simp [hE, curEvents, ho, hf, emit, List.filterMap_map, Function.comp_def, evOf]
    · intro o t h; simp [hf] at h
    · intro o t h; simp [hr] at h
  | @launch g o t ho hog hlt hnr hnf _ =>
    refine ⟨⟨past, hpast, ?_⟩, hnd, hfin, ?_, ?_⟩
    · simp [hE, curEvents, emit]
    · intro o' t' h
      simp only [List.mem_cons] at h
      rcases h with h | h
      · cases h; exact ⟨⟨g, ho, hog⟩, hlt⟩
      · exact hrun o' t' h
    · intro p hp
      simp only [List.mem_cons] at hp
      rcases hp with hp | hp
      · subst hp; exact hnf
      · exact hrf p hp
  | @finish o t hr =>
    obtain ⟨⟨g, hg, hog⟩, hlt⟩ := hrun o t hr
    refine ⟨⟨past, hpast, ?_⟩, ?_, ?_, ?_, ?_⟩
    · simp [hE, curEvents, hg, emit, evOf]
    · exact List.nodup_cons.2 ⟨hrf _ hr, hnd⟩
    · intro o' t' h
      simp only [List.mem_cons] at h
      rcases h with h | h
      · cases h; exact ⟨⟨g, hg, hog⟩, hlt⟩
      · exact hfin o' t' h
    · intro o' t' h
      exact hrun o' t' (List.mem_filter.1 h).1
    · intro p hp
      obtain ⟨hp1, hp2⟩ := List.mem_filter.1 hp
      simp only [List.mem_cons, not_or]
      exact ⟨by simpa using hp2, hrf p hp1⟩
  | @closeGen g ho hr hall =>
    refine ⟨⟨past ++ (g.map .opStart ++ (s.finished.reverse.map Prod.fst).map .taskEnd ++ g.map .opEnd), ?_, ?_⟩,
      by simp, ?_, ?_, ?_⟩
    · apply langGens_snoc hpast
      refine ⟨s.finished.reverse.map Prod.fst, rfl, ?_, ?_⟩
      · intro w hw
        obtain ⟨q, hq, rfl⟩ := List.mem_map.1 hw
        obtain ⟨⟨g', hg', hqg⟩, _⟩ := hfin q.1 q.2 (by simpa using hq)
        rw [ho] at hg'; cases hg'; exact hqg
      · intro o hog
        exact count_finished hnd (fun t ht => (hfin o t ht).2) (fun t ht => hall o hog t ht)
    · simp [hE, curEvents, ho, emit, List.filterMap_map, Function.comp_def, evOf]
    · intro o t h; simp at h
    · intro o t h; simp [hr] at h
    · intro p hp; simp
  | read _ _ => exact ⟨⟨past, hpast, by simp [hE, emit, evOf]⟩, hnd, hfin, hrun, hrf⟩
  | write _ _ => exact ⟨⟨past, hpast, by simp [hE, emit, evOf]⟩, hnd, hfin, hrun, hrf⟩
  | create _ _ => exact ⟨⟨past, hpast, by simp [hE, emit, evOf]⟩, hnd, hfin, hrun, hrf⟩
  | backup _ => exact ⟨⟨past, hpast, by simp [hE, emit]⟩, hnd, hfin, hrun, hrf⟩
  | copyFail _ => exact ⟨⟨past, hpast, by simp [hE, emit]⟩, hnd, hfin, hrun, hrf⟩

theorem evInv_run {s s' : St} {ls : List Label} {E : List Event}
    (hi : EvInv d s E) (hr : Run d allow s ls s') : EvInv d s' (E ++ evBody ls) := by
  induction hr generalizing E with
  | nil => simpa [evBody, obsBody] using hi
  | cons hs _ ih =>
    have := ih (evInv_step hi hs)
    simpa [evBody, obsBody, List.flatMap_cons, List.filterMap_append, List.append_assoc] using this

/-- Every complete run's callback events are in the language. -/
theorem events_in_lang {sched : List (List Nat)} {s : St} {ls : List Label}
    (hr : Run d allow (init sched) ls s) (hc : s.complete) : Lang d sched (events ls) := by
  have hi := evInv_run (evInv_init sched) hr
  have hpos := (inv_run (inv_init sched) hr).pos
  obtain ⟨past, hpast, hE⟩ := hi.ev
  obtain ⟨ht, ho⟩ := hc
  simp only [ho, ht, Option.toList_none, List.append_nil] at hpos
  refine ⟨past, by rw [hpos]; exact hpast, ?_⟩
  simp only [curEvents, ho, List.nil_append, List.append_nil] at hE
  simp [events, observations, List.filterMap_append, evOf, ← hE, evBody]

/-! ## Consequences of membership in the language -/

/-- the op an event speaks about -/
def Event.op : Event → Option Nat
  | .opStart o => some o
  | .taskEnd o => some o
  | .opEnd o => some o
  | _ => none

theorem count_taskEnd_map (ws : List Nat) (o : Nat) :
    (ws.map Event.taskEnd).count (.taskEnd o) = ws.count o := by
  induction ws with
  | nil => rfl
  | cons w ws ih =>
    by_cases h : w = o
    · simp [h, ih]
    · have : ¬ (Event.taskEnd w = Event.taskEnd o) := by intro hh; cases hh; exact h rfl
      simp [h, this, ih]

theorem genLang_ops {g : List Nat} {b : List Event} (h : GenLang d g b) :
    ∀ e ∈ b, ∃ o ∈ g, e.op = some o := by
  obtain ⟨ws, rfl, hws, _⟩ := h
  intro e he
  simp only [List.mem_append, List.mem_map] at he
  rcases he with (⟨x, hx, rfl⟩ | ⟨x, hx, rfl⟩) | ⟨x, hx, rfl⟩
  · exact ⟨x, hx, rfl⟩
  · exact ⟨x, hws x hx, rfl⟩
  · exact ⟨x, hx, rfl⟩

theorem langGens_ops {gs : List (List Nat)} {tr : List Event} (h : LangGens d gs tr) :
    ∀ e ∈ tr, ∃ o ∈ gs.flatten, e.op = some o := by
  induction gs generalizing tr with
  | nil => simp only [LangGens] at h; subst h; intro e he; simp at he
  | cons g gs ih =>
    obtain ⟨b, rest, hb, hrest, rfl⟩ := h
    intro e he
    simp only [List.mem_append] at he
    rcases he with he | he
    · obtain ⟨o, ho, heo⟩ := genLang_ops hb e he
      exact ⟨o, by simp [ho], heo⟩
    · obtain ⟨o, ho, heo⟩ := ih hrest e he
      exact ⟨o, by simp [ho], heo⟩

/-- The events of one op inside a trace: exactly one start, then (among other ops' events) exactly
`n` task ends, then exactly one end; nothing of that op before the start or after the end. -/
def OpShape (tr : List Event) (o n : Nat) : Prop :=
  ∃ A B C, tr = A ++ .opStart o :: B ++ .opEnd o :: C ∧
    (∀ e ∈ A, e.op ≠ some o) ∧ (∀ e ∈ C, e.op ≠ some o) ∧
    (∀ e ∈ B, e ≠ .opStart o ∧ e ≠ .opEnd o) ∧ B.count (.taskEnd o) = n

theorem genLang_shape {g : List Nat} {b : List Event} {o : Nat} (h : GenLang d g b) (hnd : g.Nodup)
    (ho : o ∈ g) : OpShape b o (d.ntasks o) := by
  obtain ⟨ws, rfl, hws, hcnt⟩ := h
  obtain ⟨g1, g2, rfl⟩ := List.append_of_mem ho
  have hnd' := List.nodup_append.1 hnd
  have h1 : o ∉ g1 := fun hm => hnd'.2.2 o hm o (by simp) rfl
  have h2 : o ∉ g2 := (List.nodup_cons.1 hnd'.2.1).1
  refine ⟨g1.map .opStart, g2.map .opStart ++ ws.map .taskEnd ++ g1.map .opEnd, g2.map .opEnd,
    by simp, ?_, ?_, ?_, ?_⟩
  · intro e he
    obtain ⟨x, hx, rfl⟩ := List.mem_map.1 he
    intro hh; simp only [Event.op, Option.some.injEq] at hh; exact h1 (hh ▸ hx)
  · intro e he
    obtain ⟨x, hx, rfl⟩ := List.mem_map.1 he
    intro hh; simp only [Event.op, Option.some.injEq] at hh; exact h2 (hh ▸ hx)
  · intro e he
    simp only [List.mem_append, List.mem_map] at he
    rcases he with (⟨x, hx, rfl⟩ | ⟨x, hx, rfl⟩) | ⟨x, hx, rfl⟩
    · refine ⟨?_, by simp⟩
      intro hh; cases hh; exact h2 hx
    · exact ⟨by simp, by simp⟩
    · refine ⟨by simp, ?_⟩
      intro hh; cases hh; exact h1 hx
  · have hz1 : (g2.map Event.opStart).count (.taskEnd o) = 0 :=
      List.count_eq_zero.2 (by simp)
    have hz2 : (g1.map Event.opEnd).count (.taskEnd o) = 0 :=
      List.count_eq_zero.2 (by simp)
    simp only [List.count_append, hz1, hz2, count_taskEnd_map]
    have := hcnt o ho
    omega

theorem opShape_append_left {tr : List Event} {o n : Nat} (pre : List Event)
    (hpre : ∀ e ∈ pre, e.op ≠ some o) (h : OpShape tr o n) : OpShape (pre ++ tr) o n := by
  obtain ⟨A, B, C, rfl, hA, hC, hB, hn⟩ := h
  refine ⟨pre ++ A, B, C, by simp, ?_, hC, hB, hn⟩
  intro e he
  rcases List.mem_append.1 he with he | he
  · exact hpre e he
  · exact hA e he

theorem opShape_append_right {tr : List Event} {o n : Nat} (post : List Event)
    (hpost : ∀ e ∈ post, e.op ≠ some o) (h : OpShape tr o n) : OpShape (tr ++ post) o n := by
  obtain ⟨A, B, C, rfl, hA, hC, hB, hn⟩ := h
  refine ⟨A, B, C ++ post, by simp, hA, ?_, hB, hn⟩
  intro e he
  rcases List.mem_append.1 he with he | he
  · exact hC e he
  · exact hpost e he

theorem langGens_shape {gs : List (List Nat)} {tr : List Event} {o : Nat} (h : LangGens d gs tr)
    (hnd : gs.flatten.Nodup) (ho : o ∈ gs.flatten) : OpShape tr o (d.ntasks o) := by
  induction gs generalizing tr with
  | nil => simp at ho
  | cons g gs ih =>
    obtain ⟨b, rest, hb, hrest, rfl⟩ := h
    simp only [List.flatten_cons] at hnd ho
    obtain ⟨hg, hgs, hdis⟩ := List.nodup_append.1 hnd
    rcases List.mem_append.1 ho with hog | hogs
    · apply opShape_append_right rest _ (genLang_shape hb hg hog)
      intro e he hh
      obtain ⟨x, hx, hxe⟩ := langGens_ops hrest e he
      rw [hxe] at hh; cases hh
      exact hdis _ hog _ hx rfl
    · apply opShape_append_left b _ (ih hrest hgs hogs)
      intro e he hh
      obtain ⟨x, hx, hxe⟩ := genLang_ops hb e he
      rw [hxe] at hh; cases hh
      exact hdis _ hx _ hogs rfl

theorem lang_shape {sched : List (List Nat)} {tr : List Event} {o : Nat} (h : Lang d sched tr)
    (hnd : sched.flatten.Nodup) (ho : o ∈ sched.flatten) : OpShape tr o (d.ntasks o) := by
  obtain ⟨body, hb, rfl⟩ := h
  have := langGens_shape hb hnd ho
  have h1 := opShape_append_right [Event.computeEnd] (by intro e he; simp at he; subst he; simp [Event.op]) this
  have h2 := opShape_append_left [Event.computeStart] (by intro e he; simp at he; subst he; simp [Event.op]) h1
  simpa using h2

theorem count_zero_of_op_ne {l : List Event} {o : Nat} {e : Event} (he : e.op = some o)
    (h : ∀ x ∈ l, x.op ≠ some o) : l.count e = 0 :=
  List.count_eq_zero.2 (fun hm => h e hm he)

theorem opShape_counts {tr : List Event} {o n : Nat} (h : OpShape tr o n) :
    tr.count (.opStart o) = 1 ∧ tr.count (.opEnd o) = 1 ∧ tr.count (.taskEnd o) = n := by
  obtain ⟨A, B, C, rfl, hA, hC, hB, hn⟩ := h
  have a1 := count_zero_of_op_ne (e := .opStart o) rfl hA
  have a2 := count_zero_of_op_ne (e := .opEnd o) rfl hA
  have a3 := count_zero_of_op_ne (e := .taskEnd o) rfl hA
  have c1 := count_zero_of_op_ne (e := .opStart o) rfl hC
  have c2 := count_zero_of_op_ne (e := .opEnd o) rfl hC
  have c3 := count_zero_of_op_ne (e := .taskEnd o) rfl hC
  have b1 : B.count (.opStart o) = 0 := List.count_eq_zero.2 (fun hm => (hB _ hm).1 rfl)
  have b2 : B.count (.opEnd o) = 0 := List.count_eq_zero.2 (fun hm => (hB _ hm).2 rfl)
  refine ⟨?_, ?_, ?_⟩ <;>
    simp [List.count_append, a1, a2, a3, b1, b2, c1, c2, c3, hn]

/-! ### totals -/

def isTaskEnd : Event → Bool
  | .taskEnd _ => true
  | _ => false

theorem sum_map_zero {g : List Nat} {f : Nat → Nat} (h : ∀ y ∈ g, f y = 0) : (g.map f).sum = 0 := by
  induction g with
  | nil => rfl
  | cons x g ih =>
    simp only [List.map_cons, List.sum_cons, h x (by simp), ih (fun y hy => h y (by simp [hy]))]

theorem sum_map_add (g : List Nat) (f h : Nat → Nat) :
    (g.map (fun x => f x + h x)).sum = (g.map f).sum + (g.map h).sum := by
  induction g with
  | nil => rfl
  | cons x g ih => simp only [List.map_cons, List.sum_cons, ih]; omega

theorem sum_indicator {g : List Nat} {w : Nat} (hnd : g.Nodup) (hw : w ∈ g) :
    (g.map (fun x => if w = x then 1 else 0)).sum = 1 := by
  induction g with
  | nil => simp at hw
  | cons x g ih =>
    obtain ⟨hx, hg⟩ := List.nodup_cons.1 hnd
    simp only [List.map_cons, List.sum_cons]
    rcases List.mem_cons.1 hw with rfl | hw'
    · have : (g.map (fun x => if w = x then 1 else 0)).sum = 0 := by
        apply sum_map_zero
        intro y hy; have : w ≠ y := fun h => hx (h ▸ hy); simp [this]
      simp [this]
    · have : w ≠ x := fun h => hx (h ▸ hw')
      simp [this, ih hg hw']

theorem length_eq_sum_count {g ws : List Nat} (hnd : g.Nodup) (hws : ∀ w ∈ ws, w ∈ g) :
    ws.length = (g.map (fun o => ws.count o)).sum := by
  induction ws with
  | nil => rw [sum_map_zero]; · rfl
           intro y _; rfl
  | cons w ws ih =>
    have hw := hws w (by simp)
    have ih' := ih (fun x hx => hws x (by simp [hx]))
    have hfun : (fun o => (w :: ws).count o) = (fun o => ws.count o + (if w = o then 1 else 0)) := by
      funext o; simp [List.count_cons]
    rw [hfun, sum_map_add, sum_indicator hnd hw, ← ih']
    simp

theorem genLang_total {g : List Nat} {b : List Event} (h : GenLang d g b) (hnd : g.Nodup) :
    (b.filter isTaskEnd).length = (g.map d.ntasks).sum := by
  obtain ⟨ws, rfl, hws, hcnt⟩ := h
  have h1 : (g.map Event.opStart).filter isTaskEnd = [] := by
    apply List.filter_eq_nil_iff.2; intro e he; obtain ⟨x, _, rfl⟩ := List.mem_map.1 he; simp [isTaskEnd]
  have h2 : (g.map Event.opEnd).filter isTaskEnd = [] := by
    apply List.filter_eq_nil_iff.2; intro e he; obtain ⟨x, _, rfl⟩ := List.mem_map.1 he; simp [isTaskEnd]
  have h3 : (ws.map Event.taskEnd).filter isTaskEnd = ws.map Event.taskEnd := by
    apply List.filter_eq_self.2; intro e he; obtain ⟨x, _, rfl⟩ := List.mem_map.1 he; simp [isTaskEnd]
  simp only [List.filter_append, h1, h2, h3, List.nil_append, List.append_nil, List.length_map]
  rw [length_eq_sum_count hnd hws]
  congr 1
  exact List.map_congr_left (fun o ho => hcnt o ho)

theorem langGens_total {gs : List (List Nat)} {tr : List Event} (h : LangGens d gs tr)
    (hnd : gs.flatten.Nodup) : (tr.filter isTaskEnd).length = (gs.flatten.map d.ntasks).sum := by
  induction gs generalizing tr with
  | nil => simp only [LangGens] at h; subst h; simp
  | cons g gs ih =>
    obtain ⟨b, rest, hb, hrest, rfl⟩ := h
    simp only [List.flatten_cons] at hnd
    obtain ⟨hg, hgs, _⟩ := List.nodup_append.1 hnd
    simp [List.filter_append, genLang_total hb hg, ih hrest hgs]

theorem lang_total {sched : List (List Nat)} {tr : List Event} (h : Lang d sched tr)
    (hnd : sched.flatten.Nodup) : (tr.filter isTaskEnd).length = (sched.flatten.map d.ntasks).sum := by
  obtain ⟨body, hb, rfl⟩ := h
  simp [List.filter_append, isTaskEnd, langGens_total hb hnd]

/-! ## Soundness of the membership test: an accepted observation sequence is a run -/

/-- the permissive policy (no batching, unbounded workers) -/
def anyPolicy : St → Nat → Nat → Bool := fun _ _ _ => true

theorem stripPrefix_sound {α : Type} [DecidableEq α] {p r r1 : List α}
    (h : stripPrefix p r = some r1) : r = p ++ r1 := by
  induction p generalizing r with
  | nil => simp [stripPrefix] at h; simp [h]
  | cons x xs ih =>
    cases r with
    | nil => simp [stripPrefix] at h
    | cons y ys =>
      simp only [stripPrefix] at h
      split at h
      · rename_i hxy; subst hxy; rw [ih h]; rfl
      · cases h

def allTasks (d : Dag) (g : List Nat) : List (Nat × Nat) :=
  g.flatMap (fun o => (List.range (d.ntasks o)).map (fun t => (o, t)))

theorem mem_allTasks {g : List Nat} {o t : Nat} : (o, t) ∈ allTasks d g ↔ o ∈ g ∧ t < d.ntasks o := by
  simp only [allTasks, List.mem_flatMap, List.mem_map, List.mem_range, Prod.mk.injEq]
  constructor
  · rintro ⟨x, hx, y, hy, rfl, rfl⟩; exact ⟨hx, hy⟩
  · rintro ⟨h1, h2⟩; exact ⟨o, h1, t, h2, rfl, rfl⟩

/-- Submit a list of tasks of the open generation (those not yet submitted). -/
theorem launchAll {g : List Nat} (ts : List (Nat × Nat)) :
    ∀ s : St, s.opened = some g → s.finished = [] → (∀ p ∈ ts, p.1 ∈ g ∧ p.2 < d.ntasks p.1) →
    ∃ ls s', Run d anyPolicy s ls s' ∧ obsBody ls = [] ∧ s'.opened = some g ∧ s'.todo = s.todo ∧
      s'.closed = s.closed ∧ s'.finished = [] ∧ ∀ p, p ∈ s'.running ↔ p ∈ s.running ∨ p ∈ ts := by
  induction ts with
  | nil => intro s ho hf _; exact ⟨[], s, Run.nil s, rfl, ho, rfl, rfl, hf, by simp⟩
  | cons q ts ih =>
    intro s ho hf hts
    obtain ⟨hq1, hq2⟩ := hts q (by simp)
    by_cases hrun : q ∈ s.running
    · obtain ⟨ls, s', hr, hobs, h1, h2, h3, h4, h5⟩ := ih s ho hf (fun p hp => hts p (by simp [hp]))
      refine ⟨ls, s', hr, hobs, h1, h2, h3, h4, ?_⟩
      intro p; rw [h5 p]; simp only [List.mem_cons]
      constructor
      · rintro (h | h); exact Or.inl h; exact Or.inr (Or.inr h)
      · rintro (h | h | h); exact Or.inl h; exact Or.inl (h ▸ hrun); exact Or.inr h
    · have hstep : Step d anyPolicy s (.launch q.1 q.2) { s with running := (q.1, q.2) :: s.running } :=
        Step.launch ho hq1 hq2 hrun (by simp [hf]) rfl
      obtain ⟨ls, s', hr, hobs, h1, h2, h3, h4, h5⟩ :=
        ih { s with running := (q.1, q.2) :: s.running } ho hf (fun p hp => hts p (by simp [hp]))
      refine ⟨.launch q.1 q.2 :: ls, s', Run.cons hstep hr, ?_, h1, h2, h3, h4, ?_⟩
      · simpa [obsBody, emit] using hobs
      · intro p; rw [h5 p]; simp only [List.mem_cons]
        constructor
        · rintro ((h | h) | h); exact Or.inr (Or.inl h); exact Or.inl h; exact Or.inr (Or.inr h)
        · rintro (h | h | h); exact Or.inl (Or.inr h); exact Or.inl (Or.inl h); exact Or.inr h

/-- State of the constructed run in the middle of a generation: task `k` of `o` has ended iff
`k < fin.count o`; all the others are running. -/
structure MidInv (d : Dag) (g : List Nat) (fin : List Nat) (s : St) : Prop where
  opened : s.opened = some g
  running : ∀ o t, (o, t) ∈ s.running ↔ o ∈ g ∧ fin.count o ≤ t ∧ t < d.ntasks o
  finished : ∀ o t, (o, t) ∈ s.finished ↔ o ∈ g ∧ t < fin.count o ∧ t < d.ntasks o

theorem midInv_finish {g fin : List Nat} {s : St} {o : Nat} (hi : MidInv d g fin s) (hog : o ∈ g)
    (hlt : fin.count o < d.ntasks o) :
    MidInv d g (o :: fin)
      { s with running := s.running.filter (fun p => p != (o, fin.count o)),
               finished := (o, fin.count o) :: s.finished } := by
  refine ⟨hi.opened, ?_, ?_⟩
  · intro o' t'
    simp only [List.mem_filter, hi.running o' t', List.count_cons, bne_iff_ne, ne_eq, Prod.mk.injEq,
      beq_iff_eq]
    by_cases h : o = o'
    · subst h; simp only [true_and, if_true]; constructor
      · rintro ⟨⟨h1, h2, h3⟩, h4⟩; exact ⟨h1, by omega, h3⟩
      · rintro ⟨h1, h2, h3⟩; exact ⟨⟨h1, by omega, h3⟩, by omega⟩
    · have h' : ¬ o' = o := fun hh => h hh.symm
      simp [h, h']
  · intro o' t'
    simp only [List.mem_cons, hi.finished o' t', List.count_cons, Prod.mk.injEq, beq_iff_eq]
    by_cases h : o = o'
    · subst h; simp only [true_and, if_true]; constructor
      · rintro (h1 | ⟨h1, h2, h3⟩); exact ⟨hog, by omega, by omega⟩; exact ⟨h1, by omega, h3⟩
      · rintro ⟨h1, h2, h3⟩
        by_cases ht : t' = fin.count o
        · exact Or.inl ht
        · exact Or.inr ⟨h1, by omega, h3⟩
    · have h' : ¬ o' = o := fun hh => h hh.symm
      simp [h, h']

theorem acceptMid_sound {g : List Nat} (r : List Obs) :
    ∀ (fin : List Nat) (s : St) (fin' : List Nat) (r' : List Obs), MidInv d g fin s →
      acceptMid d g fin r = some (fin', r') →
      ∃ ls s', Run d anyPolicy s ls s' ∧ MidInv d g fin' s' ∧ s'.todo = s.todo ∧ s'.closed = s.closed ∧
        r = obsBody ls ++ r' := by
  induction r with
  | nil =>
    intro fin s fin' r' hi h
    simp only [acceptMid, Option.some.injEq, Prod.mk.injEq] at h
    obtain ⟨rfl, rfl⟩ := h
    exact ⟨[], s, Run.nil s, hi, rfl, rfl, rfl⟩
  | cons x r ih =>
    intro fin s fin' r' hi h
    have stop : ∀ {y : Obs}, acceptMid d g fin (y :: r) = some (fin, y :: r) →
        some (fin, y :: r) = some (fin', r') →
        ∃ ls s', Run d anyPolicy s ls s' ∧ MidInv d g fin' s' ∧ s'.todo = s.todo ∧ s'.closed = s.closed ∧
          y :: r = obsBody ls ++ r' := by
      intro y _ h2
      simp only [Option.some.injEq, Prod.mk.injEq] at h2
      obtain ⟨rfl, rfl⟩ := h2
      exact ⟨[], s, Run.nil s, hi, rfl, rfl, rfl⟩
    cases x with
    | ev e =>
      cases e with
      | taskEnd o =>
        simp only [acceptMid] at h
        split at h
        · rename_i hc
          simp only [Bool.and_eq_true, List.contains_iff_mem, decide_eq_true_eq] at hc
          obtain ⟨hog, hlt⟩ := hc
          have hrun : (o, fin.count o) ∈ s.running := (hi.running _ _).2 ⟨hog, Nat.le_refl _, hlt⟩
          obtain ⟨ls, s', hr, hi', ht, hcl, hobs⟩ := ih (o :: fin) _ fin' r' (midInv_finish hi hog hlt) h
          exact ⟨.finish o (fin.count o) :: ls, s', Run.cons (Step.finish hrun) hr, hi', ht, hcl,
            by simp [obsBody, emit, List.flatMap_cons] at hobs ⊢; exact hobs⟩
        · cases h
      | computeStart => exact stop (by simp [acceptMid]) (by simpa [acceptMid] using h)
      | opStart o => exact stop (by simp [acceptMid]) (by simpa [acceptMid] using h)
      | opEnd o => exact stop (by simp [acceptMid]) (by simpa [acceptMid] using h)
      | computeEnd => exact stop (by simp [acceptMid]) (by simpa [acceptMid] using h)
    | read a =>
      simp only [acceptMid] at h
      split at h
      · rename_i hc
        simp only [List.any_eq_true, Bool.and_eq_true, List.contains_iff_mem, decide_eq_true_eq] at hc
        obtain ⟨o, hog, hedge, hlt⟩ := hc
        have hrun : (o, fin.count o) ∈ s.running := (hi.running _ _).2 ⟨hog, Nat.le_refl _, hlt⟩
        obtain ⟨ls, s', hr, hi', ht, hcl, hobs⟩ := ih fin s fin' r' hi h
        exact ⟨.read o (fin.count o) a :: ls, s', Run.cons (Step.read hrun hedge) hr, hi', ht, hcl,
          by simp [obsBody, emit, List.flatMap_cons] at hobs ⊢; exact hobs⟩
      · cases h
    | write a =>
      simp only [acceptMid] at h
      split at h
      · rename_i hc
        simp only [List.any_eq_true, Bool.and_eq_true, List.contains_iff_mem, decide_eq_true_eq] at hc
        obtain ⟨o, hog, hedge, hlt⟩ := hc
        have hrun : (o, fin.count o) ∈ s.running := (hi.running _ _).2 ⟨hog, Nat.le_refl _, hlt⟩
        obtain ⟨ls, s', hr, hi', ht, hcl, hobs⟩ := ih fin s fin' r' hi h
        exact ⟨.write o (fin.count o) a :: ls, s', Run.cons (Step.write hrun hedge) hr, hi', ht, hcl,
          by simp [obsBody, emit, List.flatMap_cons] at hobs ⊢; exact hobs⟩
      · cases h
    | create a =>
      simp only [acceptMid] at h
      split at h
      · rename_i c hcr
        split at h
        · rename_i hc
          simp only [Bool.and_eq_true, List.contains_iff_mem, decide_eq_true_eq] at hc
          obtain ⟨hcg, hlt⟩ := hc
          have hrun : (c, fin.count c) ∈ s.running := (hi.running _ _).2 ⟨hcg, Nat.le_refl _, hlt⟩
          obtain ⟨ls, s', hr, hi', ht, hcl, hobs⟩ := ih fin s fin' r' hi h
          exact ⟨.create (fin.count c) a :: ls, s', Run.cons (Step.create hcr hrun) hr, hi', ht, hcl,
            by simp [obsBody, emit, List.flatMap_cons] at hobs ⊢; exact hobs⟩
        · cases h
      · cases h

theorem acceptGen_sound {g : List Nat} {r r' : List Obs} (C gs : List (List Nat))
    (h : acceptGen d g r = some r') :
    ∃ ls, Run d anyPolicy (idle C (g :: gs)) ls (idle (C ++ [g]) gs) ∧ r = obsBody ls ++ r' := by
  simp only [acceptGen] at h
  split at h
  · cases h
  · rename_i r1 hsp
    have hr1 := stripPrefix_sound hsp
    split at h
    · cases h
    · rename_i fin r2 hmid
      split at h
      · rename_i hall
        have hr2 := stripPrefix_sound h
        simp only [List.all_eq_true, beq_iff_eq] at hall
        -- open the generation
        let s0 : St := { todo := gs, opened := some g, closed := C, running := [], finished := [] }
        have hopen : Step d anyPolicy (idle C (g :: gs)) (.openGen g) s0 := Step.openGen rfl rfl
        -- submit every task
        obtain ⟨l1, s1, hrun1, hobs1, ho1, ht1, hc1, hf1, hr1'⟩ :=
          launchAll (d := d) (g := g) (allTasks d g) s0 rfl rfl (by
            intro p hp; cases p; exact mem_allTasks.1 hp)
        have hmi : MidInv d g [] s1 := by
          refine ⟨ho1, ?_, ?_⟩
          · intro o t; rw [hr1' (o, t)]; simp [s0, mem_allTasks]
          · intro o t; simp [hf1]
        obtain ⟨l2, s2, hrun2, hmi2, ht2, hc2, hobs2⟩ := acceptMid_sound r1 [] s1 fin r2 hmi hmid
        have hrunning : s2.running = [] := by
          apply List.eq_nil_iff_forall_not_mem.2
          intro p hp
          obtain ⟨h1, h2, h3⟩ := (hmi2.running p.1 p.2).1 hp
          have := hall p.1 h1; omega
        have hclose : Step d anyPolicy s2 (.closeGen g)
            { s2 with opened := none, closed := s2.closed ++ [g], finished := [] } := by
          apply Step.closeGen hmi2.opened hrunning
          intro o hog t ht
          exact (hmi2.finished o t).2 ⟨hog, by rw [hall o hog]; exact ht, ht⟩
        have hfinal : { s2 with opened := none, closed := s2.closed ++ [g], finished := [] }
            = idle (C ++ [g]) gs := by
          cases s2
          simp only [idle, St.mk.injEq] at *
          simp_all [s0]
        rw [hfinal] at hclose
        refine ⟨.openGen g :: (l1 ++ (l2 ++ [.closeGen g])),
          Run.cons hopen (Run.append hrun1 (Run.append hrun2 (Run.single hclose))), ?_⟩
        simp only [obsBody] at hobs1 hobs2 ⊢
        simp only [List.flatMap_cons, List.flatMap_append, hobs1, List.flatMap_nil, emit,
          List.nil_append, List.append_nil, List.append_assoc]
        rw [hr1, hobs2, hr2]
      · cases h

theorem acceptGens_sound (sched : List (List Nat)) :
    ∀ (C : List (List Nat)) (r r' : List Obs), acceptGens d sched r = some r' →
      ∃ ls, Run d anyPolicy (idle C sched) ls (idle (C ++ sched) []) ∧ r = obsBody ls ++ r' := by
  induction sched with
  | nil =>
    intro C r r' h
    simp only [acceptGens, Option.some.injEq] at h
    exact ⟨[], by simpa using Run.nil _, by simp [obsBody, h]⟩
  | cons g gs ih =>
    intro C r r' h
    simp only [acceptGens] at h
    split at h
    · rename_i r1 hg
      obtain ⟨l1, hrun1, hobs1⟩ := acceptGen_sound C gs hg
      obtain ⟨l2, hrun2, hobs2⟩ := ih (C ++ [g]) r1 r' h
      refine ⟨l1 ++ l2, ?_, ?_⟩
      · have := Run.append hrun1 hrun2
        simpa [List.append_assoc] using this
      · simp only [obsBody, List.flatMap_append] at *
        rw [hobs1, hobs2]; simp
    · cases h

/-- **Trace inclusion.** An observation sequence accepted by the executable test is the observation
sequence of a complete run of the transition system. -/
theorem acceptsObs_sound {sched : List (List Nat)} {obs : List Obs} (h : acceptsObs d sched obs = true) :
    ∃ ls s, Run d anyPolicy (init sched) ls s ∧ s.complete ∧ observations ls = obs := by
  cases obs with
  | nil => simp [acceptsObs] at h
  | cons x r =>
    cases x with
    | ev e =>
      cases e with
      | computeStart =>
        simp only [acceptsObs] at h
        split at h
        · rename_i hg
          obtain ⟨ls, hrun, hobs⟩ := acceptGens_sound sched [] r _ hg
          refine ⟨ls, idle sched [], by simpa [idle, init] using hrun, ⟨rfl, rfl⟩, ?_⟩
          simp [observations, hobs]
        · cases h
      | opStart o => simp [acceptsObs] at h
      | taskEnd o => simp [acceptsObs] at h
      | opEnd o => simp [acceptsObs] at h
      | computeEnd => simp [acceptsObs] at h
    | read a => simp [acceptsObs] at h
    | write a => simp [acceptsObs] at h
    | create a => simp [acceptsObs] at h

theorem filterMap_evOf_map_ev (tr : List Event) : (tr.map Obs.ev).filterMap evOf = tr := by
  induction tr with
  | nil => rfl
  | cons e tr ih => simp [evOf, ih]

/-- An accepted callback event list is the event list of a complete run. -/
theorem accepts_sound {sched : List (List Nat)} {tr : List Event} (h : accepts d sched tr = true) :
    ∃ ls s, Run d anyPolicy (init sched) ls s ∧ s.complete ∧ events ls = tr := by
  obtain ⟨ls, s, hr, hc, hobs⟩ := acceptsObs_sound h
  exact ⟨ls, s, hr, hc, by rw [events, hobs, filterMap_evOf_map_ev]⟩

/-! ## Task enumeration: `itertools.product`, `ChunkKeys`, `product_from` -/

theorem numTasks_cons (l : Nat) (ls : List Nat) : numTasks (l :: ls) = l * numTasks ls := rfl

theorem length_flatMap_const {α β : Type} {p : List α} {f : α → List β} {m : Nat}
    (hf : ∀ x, (f x).length = m) : (p.flatMap f).length = p.length * m := by
  induction p with
  | nil => simp
  | cons x p ih => simp [List.flatMap_cons, hf, ih, Nat.succ_mul, Nat.add_comm]

/-- `len(list(itertools.product(*pools))) = prod(len(p) for p in pools)` -/
theorem length_product {α : Type} (ps : List (List α)) :
    (product ps).length = numTasks (ps.map List.length) := by
  induction ps with
  | nil => rfl
  | cons p ps ih =>
    simp only [product, List.map_cons, numTasks_cons]
    rw [length_flatMap_const (m := numTasks (ps.map List.length))]
    intro x; simp [ih]

theorem length_chunkKeys (nb : List Nat) : (chunkKeys nb).length = numTasks nb := by
  rw [chunkKeys, length_product]
  congr 1
  induction nb with
  | nil => rfl
  | cons n nb ih => simp [ih]

/-- mixed-radix digits of `k`, most significant first -/
def digits : List Nat → Nat → List Nat
  | [], _ => []
  | l :: ls, k => (k / numTasks ls % l) :: digits ls k

theorem digitsR_eq (ls : List Nat) (k : Nat) : digitsR ls k = (digits ls k, k / numTasks ls) := by
  induction ls with
  | nil => simp [digitsR, digits, numTasks]
  | cons l ls ih =>
    simp only [digitsR, ih, digits, numTasks_cons, Nat.div_div_eq_div_mul]
    rw [Nat.mul_comm]

theorem length_digits (ls : List Nat) (k : Nat) : (digits ls k).length = ls.length := by
  induction ls with
  | nil => rfl
  | cons l ls ih => simp [digits, ih]

theorem digits_mod (ls : List Nat) (k : Nat) : digits ls (k % numTasks ls) = digits ls k := by
  induction ls generalizing k with
  | nil => rfl
  | cons l ls ih =>
    simp only [digits, numTasks_cons]
    rw [Nat.mod_mul_left_div_self, Nat.mod_mod, ← ih (k % (l * numTasks ls)), Nat.mod_mul_left_mod, ih]

theorem digits_zero (ls : List Nat) : digits ls 0 = ls.map (fun _ => 0) := by
  induction ls with
  | nil => rfl
  | cons l ls ih => simp [digits, ih]

theorem digits_cons_decomp {l : Nat} {ls : List Nat} {i k' : Nat} (hi : i < l)
    (hk' : k' < numTasks ls) :
    digits (l :: ls) (numTasks ls * i + k') = i :: digits ls k' := by
  have hT : 0 < numTasks ls := by omega
  simp only [digits]
  rw [Nat.mul_add_div hT, Nat.div_eq_of_lt hk', Nat.add_zero, Nat.mod_eq_of_lt hi,
    ← digits_mod ls (numTasks ls * i + k'), Nat.mul_add_mod, Nat.mod_eq_of_lt hk']

theorem flatMap_range_getElem? {β : Type} {f : Nat → List β} {m : Nat} (hf : ∀ x, (f x).length = m)
    (l k : Nat) (hk : k < l * m) : ((List.range l).flatMap f)[k]? = (f (k / m))[k % m]? := by
  induction l with
  | zero => simp at hk
  | succ l ih =>
    rw [List.range_succ, List.flatMap_append]
    have hlen : ((List.range l).flatMap f).length = l * m := by
      rw [length_flatMap_const hf]; simp
    by_cases h : k < l * m
    · rw [List.getElem?_append_left (by omega)]; exact ih h
    · have hle : l * m ≤ k := by omega
      rw [List.getElem?_append_right (by omega), hlen]
      have hdiv : k / m = l := Nat.div_eq_of_lt_le hle hk
      have hmod : k % m = k - l * m := by
        rw [Nat.mod_eq_sub_mul_div, hdiv, Nat.mul_comm]
      simp [hdiv, hmod]

theorem numTasks_pos {ls : List Nat} (h : ∀ l ∈ ls, 0 < l) : 0 < numTasks ls := by
  induction ls with
  | nil => simp [numTasks]
  | cons l ls ih =>
    rw [numTasks_cons]
    exact Nat.mul_pos (h l (by simp)) (ih (fun x hx => h x (by simp [hx])))

theorem numTasks_zero {ls : List Nat} (h : 0 ∈ ls) : numTasks ls = 0 := by
  induction ls with
  | nil => simp at h
  | cons l ls ih =>
    rw [numTasks_cons]
    rcases List.mem_cons.1 h with h | h
    · subst h; simp
    · simp [ih h]

/-- the `k`-th key of `ChunkKeys` is the mixed-radix representation of `k` -/
theorem chunkKeys_getElem? (lens : List Nat) (k : Nat) (hk : k < numTasks lens) :
    (chunkKeys lens)[k]? = some (digits lens k) := by
  induction lens generalizing k with
  | nil =>
    simp only [numTasks, List.foldr_nil] at hk
    have : k = 0 := by omega
    subst this; rfl
  | cons l ls ih =>
    rw [numTasks_cons] at hk
    have hlenP : ∀ x : Nat, ((product (ls.map List.range)).map (fun t => x :: t)).length = numTasks ls := by
      intro x; rw [List.length_map]; exact length_chunkKeys ls
    have hT : 0 < numTasks ls := by
      rcases Nat.eq_zero_or_pos (numTasks ls) with h | h
      · rw [h] at hk; simp at hk
      · exact h
    simp only [chunkKeys, List.map_cons, product]
    rw [flatMap_range_getElem? hlenP l k hk, List.getElem?_map]
    have hmod : k % numTasks ls < numTasks ls := Nat.mod_lt _ hT
    have := ih (k % numTasks ls) hmod
    simp only [chunkKeys] at this
    rw [this]
    have hi : k / numTasks ls < l := Nat.div_lt_of_lt_mul (by rw [Nat.mul_comm]; exact hk)
    have hk2 : numTasks ls * (k / numTasks ls) + k % numTasks ls = k := Nat.div_add_mod k _
    have := digits_cons_decomp (ls := ls) hi hmod
    rw [hk2] at this
    simp [this]

theorem chunkKeys_eq_map (lens : List Nat) :
    chunkKeys lens = (List.range (numTasks lens)).map (digits lens) := by
  apply List.ext_getElem?
  intro k
  by_cases hk : k < numTasks lens
  · rw [chunkKeys_getElem? lens k hk, List.getElem?_map, List.getElem?_range hk]; rfl
  · have h1 : (chunkKeys lens).length ≤ k := by rw [length_chunkKeys]; omega
    have h2 : ((List.range (numTasks lens)).map (digits lens)).length ≤ k := by simp; omega
    rw [List.getElem?_eq_none h1, List.getElem?_eq_none h2]

/-- One round of the `while True` loop of `product_from` moves from the `k`-th key to the `k+1`-st,
and leaves the loop after the last one. -/
theorem incr_digits (lens : List Nat) (hpos : ∀ l ∈ lens, 0 < l) (k : Nat) (hk : k < numTasks lens) :
    incr lens (digits lens k) = if k + 1 < numTasks lens then some (digits lens (k + 1)) else none := by
  induction lens generalizing k with
  | nil =>
    simp only [numTasks, List.foldr_nil] at hk ⊢
    have : k = 0 := by omega
    subst this; simp [incr]
  | cons l ls ih =>
    have hT : 0 < numTasks ls := numTasks_pos (fun x hx => hpos x (by simp [hx]))
    rw [numTasks_cons] at hk ⊢
    have hi : k / numTasks ls < l := Nat.div_lt_of_lt_mul (by rw [Nat.mul_comm]; exact hk)
    have hmod : k % numTasks ls < numTasks ls := Nat.mod_lt _ hT
    have hk2 : numTasks ls * (k / numTasks ls) + k % numTasks ls = k := Nat.div_add_mod k _
    generalize hi' : k / numTasks ls = i at hi hk2
    generalize hk'' : k % numTasks ls = k' at hmod hk2
    subst hk2
    rw [digits_cons_decomp hi hmod]
    have ih' := ih (fun x hx => hpos x (by simp [hx])) k' hmod
    simp only [incr, ih']
    by_cases hlast : k' + 1 < numTasks ls
    · simp only [hlast, if_true]
      have h1 : numTasks ls * i + k' + 1 < l * numTasks ls := by
        have : numTasks ls * (i + 1) ≤ numTasks ls * l := Nat.mul_le_mul_left _ hi
        rw [Nat.mul_add, Nat.mul_one, Nat.mul_comm _ l] at this
        omega
      rw [if_pos h1, Nat.add_assoc, digits_cons_decomp hi hlast]
    · simp only [hlast, if_false]
      have hk'eq : k' + 1 = numTasks ls := by omega
      by_cases hil : i < l - 1
      · simp only [hil, if_true]
        have hi1 : i + 1 < l := by omega
        have h1 : numTasks ls * i + k' + 1 < l * numTasks ls := by
          have : numTasks ls * (i + 2) ≤ numTasks ls * l := Nat.mul_le_mul_left _ hi1
          rw [Nat.mul_add, Nat.mul_comm _ l] at this
          omega
        rw [if_pos h1]
        have h2 : numTasks ls * i + k' + 1 = numTasks ls * (i + 1) + 0 := by
          rw [Nat.mul_add, Nat.mul_one]; omega
        rw [h2, digits_cons_decomp hi1 hT, digits_zero]
        congr 2
        apply List.ext_getElem
        · simp [length_digits]
        · intro n h1 h2; simp
      · simp only [hil, if_false]
        have hil' : i + 1 = l := by omega
        have h1 : ¬ numTasks ls * i + k' + 1 < l * numTasks ls := by
          rw [← hil', Nat.add_mul, Nat.one_mul, Nat.mul_comm i]
          omega
        rw [if_neg h1]

theorem iterFrom_digits (lens : List Nat) (hpos : ∀ l ∈ lens, 0 < l) :
    ∀ (fuel k : Nat), k < numTasks lens → numTasks lens - k - 1 ≤ fuel →
      iterFrom lens fuel (digits lens k) = (List.range' k (numTasks lens - k)).map (digits lens) := by
  intro fuel
  induction fuel with
  | zero =>
    intro k hk hf
    have : numTasks lens - k = 1 := by omega
    simp [iterFrom, this]
  | succ fuel ih =>
    intro k hk hf
    simp only [iterFrom, incr_digits lens hpos k hk]
    by_cases hlast : k + 1 < numTasks lens
    · simp only [hlast, if_true]
      rw [ih (k + 1) hlast (by omega)]
      have : numTasks lens - k = (numTasks lens - (k + 1)) + 1 := by omega
      rw [this, List.range'_succ]
      simp
    · have : numTasks lens - k = 1 := by omega
      simp [hlast, this]

/-- **`product_from` is the tail of the full product** (`ChunkKeys.range(start)` = the keys from
`start` on), for arrays of rank ≥ 1. -/
theorem productFrom_eq_drop (lens : List Nat) (hne : lens ≠ []) (start : Nat) :
    productFrom lens start = (chunkKeys lens).drop start := by
  unfold productFrom
  have hemp : lens.isEmpty = false := by cases lens <;> simp_all
  simp only [hemp, Bool.false_or]
  by_cases hz : lens.any (· == 0) = true
  · simp only [hz, if_true]
    have : 0 ∈ lens := by
      obtain ⟨x, hx, hx0⟩ := List.any_eq_true.1 hz
      simp only [beq_iff_eq] at hx0; exact hx0 ▸ hx
    have hlen : (chunkKeys lens).length = 0 := by rw [length_chunkKeys, numTasks_zero this]
    rw [List.eq_nil_of_length_eq_zero hlen]; simp
  · simp only [hz]
    have hpos : ∀ l ∈ lens, 0 < l := by
      intro l hl
      rcases Nat.eq_zero_or_pos l with h | h
      · exfalso; apply hz; exact List.any_eq_true.2 ⟨l, hl, by simp [h]⟩
      · exact h
    by_cases hs : start ≥ numTasks lens
    · simp only [hs, if_true]
      have : (chunkKeys lens).drop start = [] :=
        List.drop_eq_nil_of_le (by rw [length_chunkKeys]; exact hs)
      rw [this]; simp
    · simp only [hs, if_false, Bool.false_eq_true]
      rw [digitsR_eq, iterFrom_digits lens hpos (numTasks lens) start (by omega) (by omega),
        chunkKeys_eq_map, ← List.map_drop, List.range_eq_range', List.drop_range']
      simp

/-- for a 0-d array the two enumerations differ: iteration yields the one empty key, `range(0)` nothing -/
theorem productFrom_nil : productFrom [] 0 = [] ∧ chunkKeys [] = [[]] := ⟨rfl, rfl⟩

theorem chunkKeysRange_eq (nb : List Nat) (hne : nb ≠ []) (start stop : Nat) :
    chunkKeysRange nb start (some stop) = ((chunkKeys nb).drop start).take (stop - start) := by
  simp [chunkKeysRange, productFrom_eq_drop nb hne]

/-! ### every block exactly once -/

def rank : List Nat → List Nat → Nat
  | _ :: ls, i :: is => i * numTasks ls + rank ls is
  | _, _ => 0

theorem rank_digits (lens : List Nat) (k : Nat) (hk : k < numTasks lens) : rank lens (digits lens k) = k := by
  induction lens generalizing k with
  | nil => simp only [numTasks, List.foldr_nil] at hk; simp [rank]; omega
  | cons l ls ih =>
    rw [numTasks_cons] at hk
    have hT : 0 < numTasks ls := by
      rcases Nat.eq_zero_or_pos (numTasks ls) with h | h
      · rw [h] at hk; simp at hk
      · exact h
    have hi : k / numTasks ls < l := Nat.div_lt_of_lt_mul (by rw [Nat.mul_comm]; exact hk)
    simp only [digits, rank, Nat.mod_eq_of_lt hi]
    rw [← digits_mod, ih _ (Nat.mod_lt _ hT)]
    have := Nat.div_add_mod k (numTasks ls)
    rw [Nat.mul_comm] at this; exact this

theorem chunkKeys_nodup (nb : List Nat) : (chunkKeys nb).Nodup := by
  rw [chunkKeys_eq_map, List.Nodup, List.pairwise_map]
  have h := List.pairwise_lt_range (n := numTasks nb)
  apply List.Pairwise.imp_of_mem _ h
  intro a b ha hb hab heq
  have h1 := rank_digits nb a (List.mem_range.1 ha)
  have h2 := rank_digits nb b (List.mem_range.1 hb)
  rw [heq] at h1; omega

/-- key `c` lies in the grid `nb` -/
def InGrid : List Nat → List Nat → Prop
  | [], [] => True
  | c :: cs, n :: ns => c < n ∧ InGrid cs ns
  | _, _ => False

theorem mem_chunkKeys (nb key : List Nat) : key ∈ chunkKeys nb ↔ InGrid key nb := by
  induction nb generalizing key with
  | nil => cases key <;> simp [chunkKeys, product, InGrid]
  | cons n nb ih =>
    simp only [chunkKeys, List.map_cons, product, List.mem_flatMap, List.mem_range, List.mem_map]
    constructor
    · rintro ⟨x, hx, t, ht, rfl⟩
      exact ⟨hx, (ih t).1 ht⟩
    · intro h
      cases key with
      | nil => simp [InGrid] at h
      | cons c cs => exact ⟨c, h.1, cs, (ih cs).2 h.2, rfl⟩

theorem planTotal_eq_sum (counts : List Nat) : planTotal counts = counts.sum := by
  induction counts with
  | nil => rfl
  | cons c cs ih => simp [planTotal] at ih ⊢; omega

/-! ## C07: what holds at the steps of a run -/

/-- every reachable state is safe -/
theorem safe_run {sched : List (List Nat)} (hok : SchedOK d sched) {ls : List Label} {s : St}
    (hr : Run d allow (init sched) ls s) : Safe d s :=
  safe_of_inv hok (inv_run (inv_init sched) hr)

/-- ops of the open generation are ops of the schedule -/
theorem running_in_sched {sched : List (List Nat)} {ls : List Label} {s : St} {o t : Nat}
    (hr : Run d allow (init sched) ls s) (h : (o, t) ∈ s.running) : ∃ g ∈ sched, o ∈ g := by
  have hi := inv_run (inv_init sched) hr
  obtain ⟨g, hg, hog⟩ := hi.run_open o t h
  refine ⟨g, ?_, hog⟩
  rw [hi.pos, hg]; simp

/-- When a task reads a chunk of `a`, every non-skipped producer of `a` has been closed. -/
theorem read_safe {sched : List (List Nat)} (hok : SchedOK d sched) {l1 : List Label} {s1 s1' : St}
    {o t a : Nat} (h1 : Run d allow (init sched) l1 s1) (hs : Step d allow s1 (.read o t a) s1') :
    ∀ p, (p, a) ∈ d.edges → d.skip p = false → p ∈ s1.closed.flatten := by
  intro p hpa hp
  cases hs with
  | read hrun hao => exact safe_run hok h1 o t hrun p (Reach.step (Reach.edge hpa) hao) hp

/-- After a chunk of `a` has been read, no chunk of `a` is written any more: all writes of an array
precede all of its reads. -/
theorem no_write_after_read {sched : List (List Nat)} (hok : SchedOK d sched)
    (hnd : sched.flatten.Nodup) (hns : ∀ g ∈ sched, ∀ o ∈ g, d.skip o = false)
    {l1 l2 : List Label} {s1 s1' s2 s2' : St} {o t o' t' a : Nat}
    (h1 : Run d allow (init sched) l1 s1) (hread : Step d allow s1 (.read o t a) s1')
    (h2 : Run d allow s1' l2 s2) : ¬ Step d allow s2 (.write o' t' a) s2' := by
  intro hw
  have hs1 : s1' = s1 := by cases hread; rfl
  subst hs1
  cases hw with
  | write hrun hoa =>
    have hrun2 := Run.append h1 h2
    obtain ⟨g, hg, hog⟩ := running_in_sched hrun2 hrun
    have hcl := read_safe hok h1 hread o' hoa (hns g hg o' hog)
    exact closed_never_runs hnd h1 hcl h2 hrun

/-- `create-arrays` is closed before a task of any other op runs. -/
theorem create_closed {sched : List (List Nat)} {c : Nat} (hok : SchedOK d sched)
    (hcf : CreateFirst d c) (hc : d.skip c = false)
    (hns : ∀ g ∈ sched, ∀ o ∈ g, d.skip o = false)
    {ls : List Label} {s : St} {o t : Nat}
    (hr : Run d allow (init sched) ls s) (hrun : (o, t) ∈ s.running) (hoc : o ≠ c) :
    c ∈ s.closed.flatten := by
  obtain ⟨g, hg, hog⟩ := running_in_sched hr hrun
  have hsk := hns g hg o hog
  have hp : d.pipeline o = true := by
    simp only [Dag.skip, Bool.or_eq_false_iff, Bool.not_eq_false'] at hsk; exact hsk.1
  obtain ⟨a, h1, h2⟩ := hcf.2 o hp hoc
  exact safe_run hok hr o t hrun c (Reach.step (Reach.edge h1) h2) hc

/-- `create-arrays` is the only op of the first generation. -/
theorem create_opens_first {sched : List (List Nat)} {c : Nat} (hok : SchedOK d sched)
    (hcf : CreateFirst d c) (hc : d.skip c = false)
    (hns : ∀ g ∈ sched, ∀ o ∈ g, d.skip o = false)
    {g : List Nat} {rest : List (List Nat)} (hs : sched = g :: rest) : ∀ o ∈ g, o = c := by
  intro o hog
  apply Classical.byContradiction
  intro hoc
  have hsk := hns g (by rw [hs]; simp) o hog
  have hp : d.pipeline o = true := by
    simp only [Dag.skip, Bool.or_eq_false_iff, Bool.not_eq_false'] at hsk; exact hsk.1
  obtain ⟨a, h1, h2⟩ := hcf.2 o hp hoc
  have := hok [] g rest (by simpa using hs) o hog c (Reach.step (Reach.edge h1) h2) hc
  simp at this

/-- Once a task of another op has run, no array is created any more. -/
theorem no_create_after_task {sched : List (List Nat)} {c : Nat} (hok : SchedOK d sched)
    (hnd : sched.flatten.Nodup) (hcf : CreateFirst d c) (hc : d.skip c = false)
    (hns : ∀ g ∈ sched, ∀ o ∈ g, d.skip o = false)
    {l1 l2 : List Label} {s1 s2 s2' : St} {o t t' a : Nat}
    (h1 : Run d allow (init sched) l1 s1) (hrun : (o, t) ∈ s1.running) (hoc : o ≠ c)
    (h2 : Run d allow s1 l2 s2) : ¬ Step d allow s2 (.create t' a) s2' := by
  intro hcr
  cases hcr with
  | create hdc hrun' =>
    have : d.create = some c := hcf.1
    rw [this] at hdc; cases hdc
    exact closed_never_runs hnd h1 (create_closed hok hcf hc hns h1 hrun hoc) h2 hrun'

/-! ## The sequential language, compute events -/

/-- events of one op run on its own: `opStart · taskEnd^n · opEnd` -/
def opBlock (d : Dag) (o : Nat) : List Event :=
  .opStart o :: List.replicate (d.ntasks o) (.taskEnd o) ++ [.opEnd o]

theorem genLang_singleton (o : Nat) (b : List Event) : GenLang d [o] b ↔ b = opBlock d o := by
  constructor
  · rintro ⟨ws, rfl, hws, hcnt⟩
    have hall : ∀ w ∈ ws, w = o := by intro w hw; simpa using hws w hw
    have hlen : ws.length = d.ntasks o := by
      rw [← hcnt o (by simp)]
      exact (List.count_eq_length.2 (fun w hw => (hall w hw).symm)).symm
    have : ws = List.replicate (d.ntasks o) o := List.eq_replicate_iff.2 ⟨hlen, hall⟩
    rw [this]; simp [opBlock]
  · rintro rfl
    refine ⟨List.replicate (d.ntasks o) o, by simp [opBlock], ?_, ?_⟩
    · intro w hw; simp [(List.mem_replicate.1 hw).2]
    · intro o' ho'; simp only [List.mem_singleton] at ho'; subst ho'; simp

/-- In sequential mode the language is `(opStart · taskEnd^n · opEnd)*` in schedule order. -/
theorem langGens_seq (l : List Nat) (tr : List Event) :
    LangGens d (l.map fun o => [o]) tr ↔ tr = l.flatMap (opBlock d) := by
  induction l generalizing tr with
  | nil => simp [LangGens]
  | cons o l ih =>
    simp only [List.map_cons, LangGens, List.flatMap_cons]
    constructor
    · rintro ⟨b, rest, hb, hrest, rfl⟩
      rw [(genLang_singleton o b).1 hb, (ih rest).1 hrest]
    · rintro rfl
      exact ⟨opBlock d o, l.flatMap (opBlock d), (genLang_singleton o _).2 rfl, (ih _).2 rfl, rfl⟩

theorem lang_seq (l : List Nat) (tr : List Event) :
    Lang d (l.map fun o => [o]) tr ↔ tr = .computeStart :: l.flatMap (opBlock d) ++ [.computeEnd] := by
  constructor
  · rintro ⟨body, hb, rfl⟩; rw [(langGens_seq l body).1 hb]
  · rintro rfl; exact ⟨_, (langGens_seq l _).2 rfl, rfl⟩

/-- exactly one compute start, first, and exactly one compute end, last -/
theorem lang_compute_once {sched : List (List Nat)} {tr : List Event} (h : Lang d sched tr) :
    ∃ body, tr = .computeStart :: body ++ [.computeEnd] ∧
      body.count .computeStart = 0 ∧ body.count .computeEnd = 0 := by
  obtain ⟨body, hb, rfl⟩ := h
  refine ⟨body, rfl, ?_, ?_⟩ <;>
  · apply List.count_eq_zero.2
    intro hm
    obtain ⟨o, _, ho⟩ := langGens_ops hb _ hm
    simp [Event.op] at ho

/-! ## Region stores -/

/-- along one axis: a source with the target's chunk size, stored at a chunk-aligned offset, has as
many blocks as the region meets target blocks -/
theorem axisBlocks_eq_region {start stop tc : Nat} (htc : 0 < tc) (hal : start % tc = 0)
    (hlt : start ≤ stop) : axisBlocks (stop - start) tc = regionAxisBlocks start stop tc := by
  unfold axisBlocks regionAxisBlocks
  have hk : tc * (start / tc) = start := by
    have := Nat.div_add_mod start tc; omega
  generalize start / tc = k at hk
  subst hk
  have h1 : stop - tc * k + tc - 1 = (stop + tc - 1) - tc * k := by omega
  rw [h1, Nat.sub_mul_div]

/-- the old variant: equal only when the source is chunked like the target -/
theorem region_count_old_eq (axes : List (Nat × Nat × Nat × Nat))
    (h : ∀ a ∈ axes, 0 < a.2.2.2 ∧ a.2.2.1 = a.2.2.2 ∧ a.1 % a.2.2.2 = 0 ∧ a.1 ≤ a.2.1) :
    regionAdvertisedOld axes = regionReal axes := by
  unfold regionAdvertisedOld regionReal
  congr 1
  apply List.map_congr_left
  intro a ha
  obtain ⟨h1, h2, h3, h4⟩ := h a ha
  rw [h2]; exact axisBlocks_eq_region h1 h3 h4

/-- along one axis, a non-empty source chunked `min tc len` has as many blocks as the region meets -/
theorem axisBlocks_min_eq_region {start stop tc c : Nat} (htc : 0 < tc) (hal : start % tc = 0)
    (hlt : start < stop) (hc : min c (stop - start) = min tc (stop - start)) :
    axisBlocks (stop - start) c = regionAxisBlocks start stop tc := by
  rw [← axisBlocks_eq_region htc hal (Nat.le_of_lt hlt)]
  unfold axisBlocks
  generalize hl : stop - start = len at hc
  have hlen : 0 < len := by omega
  by_cases h1 : c = tc
  · rw [h1]
  · have h2 : len ≤ c ∧ len ≤ tc := by omega
    have e1 : (len + c - 1) / c = 1 := by
      apply Nat.div_eq_of_lt_le <;> omega
    have e2 : (len + tc - 1) / tc = 1 := by
      apply Nat.div_eq_of_lt_le <;> omega
    rw [e1, e2]

/-- **Region stores advertise the number of tasks they run**, for every accepted region (aligned
start, positive target chunks), whatever the chunking of the source. -/
theorem region_count_eq (axes : List (Nat × Nat × Nat × Nat))
    (h : ∀ a ∈ axes, 0 < a.2.2.2 ∧ a.1 % a.2.2.2 = 0 ∧ a.1 ≤ a.2.1) :
    regionAdvertised axes = regionReal axes := by
  unfold regionAdvertised regionRechunked
  by_cases hempty : axes.any (fun a => a.2.1 - a.1 == 0) = true
  · -- an empty source: no rechunk, and both counts are 0
    simp only [hempty, Bool.not_true, Bool.false_and, Bool.false_eq_true, if_false]
    obtain ⟨a, ha, ha0⟩ := List.any_eq_true.1 hempty
    simp only [beq_iff_eq] at ha0
    obtain ⟨h1, h2, h3⟩ := h a ha
    have z1 : regionAdvertisedOld axes = 0 := by
      unfold regionAdvertisedOld
      apply numTasks_zero
      refine List.mem_map.2 ⟨a, ha, ?_⟩
      rw [ha0]; unfold axisBlocks
      rcases Nat.eq_zero_or_pos a.2.2.1 with hz | hz
      · rw [hz]
      · apply Nat.div_eq_of_lt; omega
    have z2 : regionReal axes = 0 := by
      unfold regionReal
      apply numTasks_zero
      refine List.mem_map.2 ⟨a, ha, ?_⟩
      have hle : a.1 ≤ a.2.1 := h3
      have := axisBlocks_eq_region h1 h2 hle
      rw [← this, ha0]; unfold axisBlocks
      apply Nat.div_eq_of_lt; omega
    rw [z1, z2]
  · have hne : ∀ a ∈ axes, a.1 < a.2.1 := by
      intro a ha
      have h3 := (h a ha).2.2
      rcases Nat.lt_or_ge a.1 a.2.1 with hlt | hge
      · exact hlt
      · exfalso; apply hempty
        exact List.any_eq_true.2 ⟨a, ha, by simp; omega⟩
    simp only [hempty, Bool.not_false, Bool.true_and]
    split
    · -- rechunked to `min tc len`
      unfold regionAdvertisedOld regionReal
      rw [List.map_map]
      congr 1
      apply List.map_congr_left
      intro a ha
      obtain ⟨h1, h2, _⟩ := h a ha
      simp only [Function.comp]
      exact axisBlocks_min_eq_region h1 h2 (hne a ha) (by simp)
    · -- already chunked `min tc len`
      rename_i heq
      have heq' : axes.map (fun a => min a.2.2.1 (a.2.1 - a.1)) = axes.map (fun a => min a.2.2.2 (a.2.1 - a.1)) := by
        simpa using heq
      unfold regionAdvertisedOld regionReal
      congr 1
      apply List.map_congr_left
      intro a ha
      obtain ⟨h1, h2, _⟩ := h a ha
      have := List.map_inj_left.1 heq' a ha
      exact axisBlocks_min_eq_region h1 h2 (hne a ha) this

/-! ## Locating a step in a run -/

/-- an observed read comes from a read step -/
theorem read_label_of_obs {ls : List Label} {a : Nat} (h : Obs.read a ∈ obsBody ls) :
    ∃ l1 o t l2, ls = l1 ++ Label.read o t a :: l2 := by
  obtain ⟨l, hl, hemit⟩ := List.mem_flatMap.1 h
  obtain ⟨l1, l2, rfl⟩ := List.append_of_mem hl
  cases l with
  | openGen g => simp [emit] at hemit
  | launch o t => simp [emit] at hemit
  | finish o t => simp [emit] at hemit
  | closeGen g => simp [emit] at hemit
  | read o t a' => simp [emit] at hemit; subst hemit; exact ⟨l1, o, t, l2, rfl⟩
  | write o t a' => simp [emit] at hemit
  | create t a' => simp [emit] at hemit
  | backup o t => simp [emit] at hemit
  | copyFail o t => simp [emit] at hemit

/-- … taken in some reachable state of the run -/
theorem read_step_of_obs {s0 s : St} {ls : List Label} {a : Nat} (hr : Run d allow s0 ls s)
    (h : Obs.read a ∈ obsBody ls) :
    ∃ l1 s1 s1' o t l2, Run d allow s0 l1 s1 ∧ Step d allow s1 (.read o t a) s1' ∧ Run d allow s1' l2 s := by
  obtain ⟨l1, o, t, l2, rfl⟩ := read_label_of_obs h
  obtain ⟨s1, h1, h2⟩ := Run.split hr
  cases h2 with
  | cons hs hrest => exact ⟨l1, s1, _, o, t, l2, h1, hs, hrest⟩

end Cubed.Sched
