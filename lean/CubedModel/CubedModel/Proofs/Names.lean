/-
  Lemmas about `Model/Names.lean` (property C20): association lists, `merge`, monotonicity of the
  demand-driven denotation, the n-ary combination step, and the single-process invariant.
-/
import CubedModel.Model.Names

namespace Cubed.Names

/-! ### association lists and `merge` -/

theorem assocGet_append {κ β : Type} [DecidableEq κ] (l₁ l₂ : List (κ × β)) (q : κ) :
    assocGet (l₁ ++ l₂) q = match assocGet l₁ q with
                             | some v => some v
                             | none => assocGet l₂ q := by
  induction l₁ with
  | nil => simp [assocGet]
  | cons e rest ih =>
    obtain ⟨k, v⟩ := e
    by_cases h : k = q
    · simp [assocGet, h]
    · simp [assocGet, h, ih]

theorem assocGet_mem {κ β : Type} [DecidableEq κ] (l : List (κ × β)) (q : κ) (v : β)
    (h : assocGet l q = some v) : (q, v) ∈ l := by
  induction l with
  | nil => simp [assocGet] at h
  | cons e rest ih =>
    obtain ⟨k, w⟩ := e
    by_cases hk : k = q
    · simp [assocGet, hk] at h
      subst hk; subst h; simp
    · simp [assocGet, hk] at h
      exact List.mem_cons_of_mem _ (ih h)

theorem assocGet_isSome_of_mem {κ β : Type} [DecidableEq κ] (l : List (κ × β)) (q : κ) (v : β)
    (h : (q, v) ∈ l) : ∃ w, assocGet l q = some w := by
  induction l with
  | nil => simp at h
  | cons e rest ih =>
    obtain ⟨k, w⟩ := e
    by_cases hk : k = q
    · exact ⟨w, by simp [assocGet, hk]⟩
    · have : (q, v) ∈ rest := by
        rcases List.mem_cons.mp h with h | h
        · exact absurd (congrArg Prod.fst h).symm hk
        · exact h
      obtain ⟨w', hw'⟩ := ih this
      exact ⟨w', by simp [assocGet, hk, hw']⟩

theorem combine_self (x : Node) : combine x x = x := by
  cases x with
  | arr l p => rfl
  | op o =>
    simp only [combine]
    cases o with
    | mk fn prim srcs reads writes =>
      cases prim <;> simp

theorem foldl_combine_const (x : Node) (xs : List Node) (h : ∀ y ∈ xs, y = x) :
    xs.foldl combine x = x := by
  induction xs with
  | nil => rfl
  | cons y ys ih =>
    have hy : y = x := h y (by simp)
    subst hy
    simp only [List.foldl_cons, combine_self]
    exact ih (fun z hz => h z (List.mem_cons_of_mem _ hz))

theorem combineList_const (x : Node) (xs : List Node) (hne : xs ≠ []) (h : ∀ y ∈ xs, y = x) :
    combineList xs = some x := by
  cases xs with
  | nil => exact absurd rfl hne
  | cons y ys =>
    have hy : y = x := h y (by simp)
    subst hy
    simp only [combineList]
    rw [foldl_combine_const y ys (fun z hz => h z (List.mem_cons_of_mem _ hz))]

theorem assocGet_keyed {β : Type} (keys : List Name) (f : Name → Option β) (q : Name) :
    assocGet (keys.filterMap fun k => (f k).map fun x => (k, x)) q = if q ∈ keys then f q else none := by
  induction keys with
  | nil => simp [assocGet]
  | cons k ks ih =>
    simp only [List.filterMap_cons]
    cases hk : f k with
    | none =>
      simp only [Option.map_none]
      rw [ih]
      by_cases e : q = k
      · subst e; simp [hk]
      · simp [e]
    | some x =>
      simp only [Option.map_some, assocGet]
      by_cases e : k = q
      · subst e; simp [hk]
      · have e' : ¬ q = k := fun h => e h.symm
        simp [e, e', ih]

theorem assocGet_none_of_not_key (d : Dag) (q : Name) (h : q ∉ d.map (·.1)) : assocGet d q = none := by
  induction d with
  | nil => rfl
  | cons e rest ih =>
    obtain ⟨k, v⟩ := e
    simp only [List.map_cons, List.mem_cons, not_or] at h
    have hk : ¬ k = q := fun e => h.1 e.symm
    simp [assocGet, hk, ih h.2]

/-- The node map of the composed graph. -/
theorem assocGet_merge (dags : List Dag) (q : Name) : assocGet (merge dags) q = nodeAt dags q := by
  unfold merge
  rw [assocGet_keyed]
  by_cases h : q ∈ dags.flatten.map (·.1)
  · rw [if_pos h]
  · rw [if_neg h]
    unfold nodeAt
    have : dags.filterMap (assocGet · q) = [] := by
      rw [List.filterMap_eq_nil_iff]
      intro d hd
      apply assocGet_none_of_not_key
      intro hq
      apply h
      obtain ⟨e, he, hk⟩ := List.mem_map.mp hq
      exact List.mem_map.mpr ⟨e, List.mem_flatten.mpr ⟨d, hd, he⟩, hk⟩
    rw [this]; rfl

/-- Key lemma: when names agree, composing keeps every binding of every constituent graph. -/
theorem assocGet_merge_of_agree (dags : List Dag) (hag : NamesAgree dags) (d : Dag) (hd : d ∈ dags)
    (q : Name) (x : Node) (h : assocGet d q = some x) : assocGet (merge dags) q = some x := by
  rw [assocGet_merge]
  unfold nodeAt
  apply combineList_const
  · intro hnil
    have : x ∈ dags.filterMap (assocGet · q) := List.mem_filterMap.mpr ⟨d, hd, h⟩
    rw [hnil] at this; simp at this
  · intro y hy
    obtain ⟨d', hd', hy'⟩ := List.mem_filterMap.mp hy
    exact hag d' hd' d hd q y x hy' h

/-- Composing sub-maps of one map gives a sub-map of it. -/
theorem assocGet_merge_subMap (dags : List Dag) (G : Dag)
    (hsub : ∀ d ∈ dags, ∀ n x, assocGet d n = some x → assocGet G n = some x)
    (q : Name) (x : Node) (h : assocGet (merge dags) q = some x) : assocGet G q = some x := by
  rw [assocGet_merge] at h
  unfold nodeAt at h
  cases hL : dags.filterMap (assocGet · q) with
  | nil => rw [hL] at h; simp [combineList] at h
  | cons y ys =>
    have hy : y ∈ dags.filterMap (assocGet · q) := by rw [hL]; simp
    obtain ⟨d, hd, hy'⟩ := List.mem_filterMap.mp hy
    have hG := hsub d hd q y hy'
    have hall : ∀ z ∈ dags.filterMap (assocGet · q), z = y := by
      intro z hz
      obtain ⟨d', hd', hz'⟩ := List.mem_filterMap.mp hz
      have := hsub d' hd' q z hz'
      rw [hG] at this; exact (Option.some.inj this).symm
    have := combineList_const y _ (by rw [hL]; simp) hall
    rw [this] at h
    rw [← Option.some.inj h]; exact hG

/-- Graphs that are all sub-maps of one map agree. -/
theorem namesAgree_of_subMap (dags : List Dag) (G : Dag)
    (h : ∀ d ∈ dags, ∀ n x, assocGet d n = some x → assocGet G n = some x) : NamesAgree dags := by
  intro d₁ h₁ d₂ h₂ n x₁ x₂ e₁ e₂
  have a := h d₁ h₁ n x₁ e₁
  have b := h d₂ h₂ n x₂ e₂
  rw [a] at b; exact Option.some.inj b

theorem namesAgree_sublist (dags dags' : List Dag) (h : ∀ d ∈ dags', d ∈ dags)
    (hag : NamesAgree dags) : NamesAgree dags' :=
  fun d₁ h₁ d₂ h₂ => hag d₁ (h d₁ h₁) d₂ (h d₂ h₂)

/-- Soundness of the executable agreement test. -/
theorem namesAgree_of_check (dags : List Dag) (h : namesAgreeB dags = true) : NamesAgree dags := by
  intro d₁ h₁ d₂ h₂ n x₁ x₂ e₁ e₂
  simp only [namesAgreeB, List.all_eq_true] at h
  have hm := assocGet_mem d₁ n x₁ e₁
  have := h d₁ h₁ d₂ h₂ (n, x₁) hm
  simp only [e₁, e₂] at this
  exact of_decide_eq_true this

/-- Completeness of the executable agreement test. -/
theorem check_of_namesAgree (dags : List Dag) (h : NamesAgree dags) : namesAgreeB dags = true := by
  simp only [namesAgreeB, List.all_eq_true]
  intro d₁ h₁ d₂ h₂ e _
  cases e₁ : assocGet d₁ e.1 with
  | none => simp
  | some x₁ =>
    cases e₂ : assocGet d₂ e.1 with
    | none => simp
    | some x₂ => simp [h d₁ h₁ d₂ h₂ e.1 x₁ x₂ e₁ e₂]

instance (dags : List Dag) : Decidable (NamesAgree dags) :=
  if h : namesAgreeB dags = true then isTrue (namesAgree_of_check dags h)
  else isFalse (fun hn => h (check_of_namesAgree dags hn))

/-! ### monotonicity of the denotation -/

theorem mapOpt_mono {α β : Type} (f g : α → Option β) (l : List α) (ys : List β)
    (h : ∀ x ∈ l, ∀ y, f x = some y → g x = some y) (hf : mapOpt f l = some ys) :
    mapOpt g l = some ys := by
  induction l generalizing ys with
  | nil => simpa [mapOpt] using hf
  | cons x xs ih =>
    simp only [mapOpt] at hf ⊢
    cases hx : f x with
    | none => simp [hx] at hf
    | some y =>
      cases hxs : mapOpt f xs with
      | none => simp [hx, hxs] at hf
      | some zs =>
        simp [hx, hxs] at hf
        have h1 := h x (by simp) y hx
        have h2 := ih zs (fun x' hx' => h x' (List.mem_cons_of_mem _ hx')) hxs
        simp [h1, h2, hf]

theorem applyOp_mono {V : Type} (I : Interp V) (o : OpInfo) (rec rec' : Name → Loc → Option V)
    (hrec : ∀ s ls v, rec s ls = some v → rec' s ls = some v) (v : V)
    (h : applyOp I o rec = some v) : applyOp I o rec' = some v := by
  unfold applyOp at h ⊢
  cases hm : mapOpt (readArg o.reads rec) o.srcs with
  | none => simp [hm] at h
  | some vs =>
    rw [hm] at h
    have : mapOpt (readArg o.reads rec') o.srcs = some vs := by
      apply mapOpt_mono _ _ _ _ _ hm
      intro s _ y hy
      unfold readArg at hy ⊢
      cases hr : assocGet o.reads s with
      | none => simp [hr] at hy
      | some ls =>
        simp only [hr] at hy ⊢
        exact hrec s ls y hy
    rw [this]; exact h

/-- `stepVal` is monotone in the node map and in the values one level down. -/
theorem stepVal_mono {V : Type} (I : Interp V) (get get' : Name → Option Node)
    (rec rec' : Name → Loc → Option V)
    (hget : ∀ n x, get n = some x → get' n = some x)
    (hrec : ∀ s ls v, rec s ls = some v → rec' s ls = some v)
    (a : Name) (l : Loc) (v : V) (h : stepVal I get rec a l = some v) :
    stepVal I get' rec' a l = some v := by
  unfold stepVal at h ⊢
  cases ha : get a with
  | none => simp [ha] at h
  | some node =>
    rw [ha] at h
    rw [hget a node ha]
    cases node with
    | op o => simp at h
    | arr l' prod =>
      simp only at h ⊢
      by_cases hl : l' = l
      · simp only [hl, if_true] at h ⊢
        cases prod with
        | none => exact h
        | some p =>
          simp only at h ⊢
          cases hp : get p with
          | none => simp [hp] at h
          | some pn =>
            rw [hp] at h
            rw [hget p pn hp]
            cases pn with
            | arr _ _ => simp at h
            | op o =>
              simp only at h ⊢
              by_cases hprim : o.prim = true
              · simp only [hprim, if_true] at h ⊢
                by_cases hw : (a, l) ∈ o.writes
                · simp only [hw, if_true] at h ⊢
                  exact applyOp_mono I o rec rec' hrec v h
                · simp [hw] at h
              · simp only [hprim] at h ⊢
                exact h
      · simp [hl] at h

theorem valArr_succ {V : Type} (I : Interp V) (d : Dag) (n : Nat) (a : Name) (l : Loc) (v : V)
    (h : valArr I d n a l = some v) : valArr I d (n + 1) a l = some v := by
  induction n generalizing a l v with
  | zero => simp [valArr] at h
  | succ n ih =>
    simp only [valArr] at h ⊢
    exact stepVal_mono I _ _ _ _ (fun _ _ e => e) (fun s ls w e => ih s ls w e) a l v h

theorem valArr_le {V : Type} (I : Interp V) (d : Dag) (n m : Nat) (hnm : n ≤ m) (a : Name) (l : Loc)
    (v : V) (h : valArr I d n a l = some v) : valArr I d m a l = some v := by
  induction hnm with
  | refl => exact h
  | step _ ih => exact valArr_succ I d _ a l v ih

/-- A plan determines at most one value. -/
theorem denotes_unique {V : Type} (I : Interp V) (x : Arr) (v w : V)
    (hv : Denotes I x v) (hw : Denotes I x w) : v = w := by
  obtain ⟨n, hn⟩ := hv
  obtain ⟨m, hm⟩ := hw
  have a := valArr_le I x.dag n (max n m) (Nat.le_max_left _ _) _ _ _ hn
  have b := valArr_le I x.dag m (max n m) (Nat.le_max_right _ _) _ _ _ hm
  rw [a] at b; exact Option.some.inj b

/-- Composition with agreeing graphs preserves every value a constituent graph determines. -/
theorem valArr_merge {V : Type} (I : Interp V) (dags : List Dag) (hag : NamesAgree dags) (d : Dag)
    (hd : d ∈ dags) (n : Nat) (a : Name) (l : Loc) (v : V) (h : valArr I d n a l = some v) :
    valArr I (merge dags) n a l = some v := by
  induction n generalizing a l v with
  | zero => simp [valArr] at h
  | succ n ih =>
    simp only [valArr] at h ⊢
    exact stepVal_mono I _ _ _ _ (fun q x e => assocGet_merge_of_agree dags hag d hd q x e)
      (fun s ls w e => ih s ls w e) a l v h

/-- A denoting handle names its own array node. -/
theorem denotes_wf {V : Type} (I : Interp V) (x : Arr) (v : V) (h : Denotes I x v) :
    ∃ p, assocGet x.dag x.name = some (.arr x.loc p) := by
  obtain ⟨n, hn⟩ := h
  cases n with
  | zero => simp [valArr] at hn
  | succ n =>
    simp only [valArr, stepVal] at hn
    cases hg : assocGet x.dag x.name with
    | none => simp [hg] at hn
    | some node =>
      rw [hg] at hn
      cases node with
      | op o => simp at hn
      | arr l' p =>
        by_cases hl : l' = x.loc
        · exact ⟨p, by rw [hl]⟩
        · simp [hl] at hn

/-! ### the combination step -/

theorem apply_eq (P : Proc) (fn : String) (xs : List Arr) :
    (P.apply fn xs).1 =
      { name := ⟨"array", P.cArray + 1⟩, loc := Loc.zarr P.ctx ⟨"array", P.cArray + 1⟩,
        dag := merge (xs.map (·.dag) ++ [P.newNodes fn xs]) } := rfl

theorem apply_proc (P : Proc) (fn : String) (xs : List Arr) :
    (P.apply fn xs).2 = { P with cArray := P.cArray + 1, cPlan := P.cPlan + 1, cBlockwise := P.cBlockwise + 1 } := rfl

theorem mapOpt_map {α β γ : Type} (g : β → Option γ) (f : α → β) (h : α → γ) (xs : List α)
    (hx : ∀ p ∈ xs, g (f p) = some (h p)) : mapOpt g (xs.map f) = some (xs.map h) := by
  induction xs with
  | nil => simp [mapOpt]
  | cons x xs ih =>
    have h1 := hx x (by simp)
    have h2 := ih (fun p hp => hx p (List.mem_cons_of_mem _ hp))
    simp [mapOpt, h1, h2]

theorem uniform_fuel {V : Type} (I : Interp V) (xs : List (Arr × V))
    (hx : ∀ p ∈ xs, Denotes I p.1 p.2) :
    ∃ N, ∀ p ∈ xs, valArr I p.1.dag N p.1.name p.1.loc = some p.2 := by
  induction xs with
  | nil => exact ⟨0, by simp⟩
  | cons x xs ih =>
    obtain ⟨N, hN⟩ := ih (fun p hp => hx p (List.mem_cons_of_mem _ hp))
    obtain ⟨n, hn⟩ := hx x (by simp)
    refine ⟨max n N, ?_⟩
    intro p hp
    rcases List.mem_cons.mp hp with e | e
    · subst e; exact valArr_le I _ n _ (Nat.le_max_left _ _) _ _ _ hn
    · exact valArr_le I _ N _ (Nat.le_max_right _ _) _ _ _ (hN p e)

theorem op_ne_array (i j : Nat) : (⟨"op", i⟩ : Name) ≠ ⟨"array", j⟩ := by
  intro h; injection h with h1 _; exact absurd h1 (by decide)

theorem applyNodes_get_arr (o a : Name) (hoa : o ≠ a) (loc : Loc) (fn : String) (xs : List Arr) :
    assocGet (applyNodes o a loc fn xs) a = some (.arr loc (some o)) := by
  simp [applyNodes, assocGet, hoa]

theorem applyNodes_get_op (o a : Name) (loc : Loc) (fn : String) (xs : List Arr) :
    assocGet (applyNodes o a loc fn xs) o =
      some (.op { fn := fn, prim := true, srcs := xs.map (·.name),
                  reads := (xs.map fun x => (x.name, x.loc)).reverse, writes := [(a, loc)] }) := by
  simp [applyNodes, assocGet]

theorem applyNodes_keys (o a : Name) (loc : Loc) (fn : String) (xs : List Arr) (n : Name) (x : Node)
    (h : assocGet (applyNodes o a loc fn xs) n = some x) : n = o ∨ n = a := by
  by_cases h1 : o = n
  · exact Or.inl h1.symm
  · by_cases h2 : a = n
    · exact Or.inr h2.symm
    · simp [applyNodes, assocGet, h1, h2] at h

theorem newNodes_get_arr (P : Proc) (fn : String) (as : List Arr) :
    assocGet (P.newNodes fn as) ⟨"array", P.cArray + 1⟩ =
      some (.arr (Loc.zarr P.ctx ⟨"array", P.cArray + 1⟩) (some ⟨"op", P.cPlan + 1⟩)) :=
  applyNodes_get_arr _ _ (op_ne_array _ _) _ fn as

theorem newNodes_get_op (P : Proc) (fn : String) (as : List Arr) :
    assocGet (P.newNodes fn as) ⟨"op", P.cPlan + 1⟩ =
      some (.op { fn := fn, prim := true, srcs := as.map (·.name),
                  reads := (as.map fun x => (x.name, x.loc)).reverse,
                  writes := [(⟨"array", P.cArray + 1⟩, Loc.zarr P.ctx ⟨"array", P.cArray + 1⟩)] }) :=
  applyNodes_get_op _ _ _ fn as

theorem apply_denotes_aux {V : Type} (I : Interp V) (P : Proc) (fn : String) (xs : List (Arr × V))
    (hx : ∀ p ∈ xs, Denotes I p.1 p.2) (dags : List Dag) (hag : NamesAgree dags)
    (hnew : P.newNodes fn (xs.map (·.1)) ∈ dags) (hmem : ∀ p ∈ xs, p.1.dag ∈ dags)
    (N : Nat) (hN : ∀ p ∈ xs, valArr I p.1.dag N p.1.name p.1.loc = some p.2) :
    valArr I (merge dags) (N + 1) ⟨"array", P.cArray + 1⟩ (Loc.zarr P.ctx ⟨"array", P.cArray + 1⟩)
      = some (I.app fn (xs.map (·.2))) := by
  have hga := assocGet_merge_of_agree dags hag _ hnew _ _ (newNodes_get_arr P fn (xs.map (·.1)))
  have hgo := assocGet_merge_of_agree dags hag _ hnew _ _ (newNodes_get_op P fn (xs.map (·.1)))
  have hargs : mapOpt (readArg ((List.map (fun x => (x.name, x.loc)) (List.map (fun x => x.1) xs)).reverse)
      (valArr I (merge dags) N)) (List.map (fun x => x.name) (List.map (fun x => x.1) xs))
      = some (xs.map (·.2)) := by
    have e : List.map (fun x => x.name) (List.map (fun x => x.1) xs) = List.map (fun p => p.1.name) xs := by
      simp [List.map_map, Function.comp_def]
    rw [e]
    apply mapOpt_map
    intro p hp
    unfold readArg
    have hin : (p.1.name, p.1.loc) ∈ (List.map (fun x => (x.name, x.loc)) (List.map (fun x => x.1) xs)).reverse := by
      rw [List.mem_reverse, List.map_map]
      exact List.mem_map.mpr ⟨p, hp, rfl⟩
    obtain ⟨w, hw⟩ := assocGet_isSome_of_mem _ _ _ hin
    have hwm := assocGet_mem _ _ _ hw
    rw [List.mem_reverse, List.map_map] at hwm
    obtain ⟨q, hq, hqe⟩ := List.mem_map.mp hwm
    simp only [Function.comp, Prod.mk.injEq] at hqe
    obtain ⟨pp, hpw⟩ := denotes_wf I p.1 p.2 (hx p hp)
    obtain ⟨pq, hqw⟩ := denotes_wf I q.1 q.2 (hx q hq)
    rw [hqe.1] at hqw
    have := hag _ (hmem p hp) _ (hmem q hq) _ _ _ hpw hqw
    injection this with hloc _
    rw [hw]
    simp only
    rw [← hqe.2, ← hloc]
    exact valArr_merge I dags hag _ (hmem p hp) N _ _ _ (hN p hp)
  simp only [valArr]
  unfold stepVal
  rw [hga]
  simp only [if_true]
  rw [hgo]
  simp only [if_true, List.mem_singleton]
  unfold applyOp
  simp only
  rw [hargs]

/-- The n-ary combination step is correct whenever the operand plans and the two new nodes agree on
names.  (`xs` pairs every operand with the value its own plan determines.) -/
theorem apply_denotes {V : Type} (I : Interp V) (P : Proc) (fn : String) (xs : List (Arr × V))
    (hx : ∀ p ∈ xs, Denotes I p.1 p.2)
    (hag : NamesAgree (xs.map (·.1.dag) ++ [P.newNodes fn (xs.map (·.1))])) :
    Denotes I (P.apply fn (xs.map (·.1))).1 (I.app fn (xs.map (·.2))) := by
  obtain ⟨N, hN⟩ := uniform_fuel I xs hx
  refine ⟨N + 1, ?_⟩
  rw [apply_eq]
  simp only [List.map_map, Function.comp_def]
  have := apply_denotes_aux I P fn xs hx _ hag (by simp)
    (fun p hp => List.mem_append_left _ (List.mem_map.mpr ⟨p, hp, rfl⟩)) N hN
  simpa [List.map_map, Function.comp_def] using this

/-! ### the single-process invariant -/

/-- `G` is the union of everything the process has created so far. -/
structure Inv {V : Type} (I : Interp V) (P : Proc) (regs : Regs V) (G : Dag) : Prop where
  sub : ∀ p ∈ regs, ∀ n x, assocGet p.1.dag n = some x → assocGet G n = some x
  bound : ∀ n x, assocGet G n = some x →
    (n.kind = "array" ∧ n.idx ≤ P.cArray) ∨ (n.kind = "op" ∧ n.idx ≤ P.cPlan)
  den : ∀ p ∈ regs, Denotes I p.1 p.2

theorem pick_mem {α : Type} (regs : List α) (args : List Nat) (p : α) (h : p ∈ pick regs args) :
    p ∈ regs := by
  unfold pick at h
  obtain ⟨i, _, hi⟩ := List.mem_filterMap.mp h
  exact List.mem_of_getElem? hi

/-- Adding two nodes with the next counter values to the union keeps all old bindings. -/
theorem fresh_get (P : Proc) (G new : Dag)
    (hb : ∀ n x, assocGet G n = some x →
      (n.kind = "array" ∧ n.idx ≤ P.cArray) ∨ (n.kind = "op" ∧ n.idx ≤ P.cPlan))
    (hk : ∀ n x, assocGet new n = some x → n = ⟨"op", P.cPlan + 1⟩ ∨ n = ⟨"array", P.cArray + 1⟩)
    (n : Name) (x : Node) (h : assocGet G n = some x) : assocGet (new ++ G) n = some x := by
  rw [assocGet_append]
  cases hn : assocGet new n with
  | none => exact h
  | some y =>
    exfalso
    rcases hb n x h with ⟨hk1, hi⟩ | ⟨hk1, hi⟩ <;> rcases hk n y hn with e | e <;> subst e <;>
      simp at hk1 hi <;> omega

theorem leafNodes_keys (o a : Name) (data : Loc) (n : Name) (x : Node)
    (h : assocGet (leafNodes o a data) n = some x) : n = o ∨ n = a := by
  by_cases h1 : o = n
  · exact Or.inl h1.symm
  · by_cases h2 : a = n
    · exact Or.inr h2.symm
    · simp [leafNodes, assocGet, h1, h2] at h

theorem leaf_eq (P : Proc) (data : Loc) :
    (P.leaf data) = ({ name := ⟨"array", P.cArray + 1⟩, loc := data,
                       dag := leafNodes ⟨"op", P.cPlan + 1⟩ ⟨"array", P.cArray + 1⟩ data },
                     { P with cArray := P.cArray + 1, cPlan := P.cPlan + 1 }) := rfl

theorem leaf_denotes {V : Type} (I : Interp V) (P : Proc) (data : Loc) :
    Denotes I (P.leaf data).1 (I.input data) := by
  refine ⟨1, ?_⟩
  rw [leaf_eq]
  have h : (⟨"op", P.cPlan + 1⟩ : Name) ≠ ⟨"array", P.cArray + 1⟩ := op_ne_array _ _
  simp [valArr, stepVal, leafNodes, assocGet, h]

theorem bound_new (P : Proc) (G new : Dag)
    (hb : ∀ n x, assocGet G n = some x →
      (n.kind = "array" ∧ n.idx ≤ P.cArray) ∨ (n.kind = "op" ∧ n.idx ≤ P.cPlan))
    (hk : ∀ n x, assocGet new n = some x → n = ⟨"op", P.cPlan + 1⟩ ∨ n = ⟨"array", P.cArray + 1⟩)
    (n : Name) (x : Node) (h : assocGet (new ++ G) n = some x) :
    (n.kind = "array" ∧ n.idx ≤ P.cArray + 1) ∨ (n.kind = "op" ∧ n.idx ≤ P.cPlan + 1) := by
  rw [assocGet_append] at h
  cases hn : assocGet new n with
  | none =>
    rw [hn] at h
    rcases hb n x h with ⟨a, b⟩ | ⟨a, b⟩
    · exact Or.inl ⟨a, by omega⟩
    · exact Or.inr ⟨a, by omega⟩
  | some y =>
    rcases hk n y hn with e | e <;> subst e <;> simp

theorem step_inv {V : Type} (I : Interp V) (P : Proc) (regs : Regs V) (G : Dag) (ins : Instr V)
    (hloc : ins.isLocal = true) (inv : Inv I P regs G) :
    ∃ G', Inv I (step I (P, regs) ins).1 (step I (P, regs) ins).2 G' := by
  cases ins with
  | recv w v => simp [Instr.isLocal] at hloc
  | bump =>
    refine ⟨G, ⟨inv.sub, ?_, inv.den⟩⟩
    intro n x h
    rcases inv.bound n x h with ⟨a, b⟩ | ⟨a, b⟩
    · exact Or.inl ⟨a, by simp [step, Proc.bump]; omega⟩
    · exact Or.inr ⟨a, by simpa [step, Proc.bump] using b⟩
  | roundtrip i =>
    simp only [step]
    cases hi : regs[i]? with
    | none => exact ⟨G, inv⟩
    | some p =>
      obtain ⟨x, v⟩ := p
      have hp : (x, v) ∈ regs := List.mem_of_getElem? hi
      refine ⟨G, ⟨?_, inv.bound, ?_⟩⟩
      · intro q hq
        simp only [unpickle, pickle] at hq
        rcases List.mem_append.mp hq with h | h
        · exact inv.sub q h
        · simp at h; subst h; exact inv.sub _ hp
      · intro q hq
        simp only [unpickle, pickle] at hq
        rcases List.mem_append.mp hq with h | h
        · exact inv.den q h
        · simp at h; subst h; exact inv.den _ hp
  | leaf k =>
    simp only [step]
    rw [leaf_eq]
    simp only
    generalize hnew : leafNodes ⟨"op", P.cPlan + 1⟩ ⟨"array", P.cArray + 1⟩ (Loc.data k) = new
    have hk : ∀ n x, assocGet new n = some x → n = ⟨"op", P.cPlan + 1⟩ ∨ n = ⟨"array", P.cArray + 1⟩ := by
      intro n x h; rw [← hnew] at h; exact leafNodes_keys _ _ _ n x h
    refine ⟨new ++ G, ⟨?_, ?_, ?_⟩⟩
    · intro q hq n x h
      rcases List.mem_append.mp hq with h' | h'
      · exact fresh_get P G new inv.bound hk n x (inv.sub q h' n x h)
      · simp at h'; subst h'
        simp only at h
        rw [assocGet_append, h]
    · exact bound_new P G new inv.bound hk
    · intro q hq
      rcases List.mem_append.mp hq with h' | h'
      · exact inv.den q h'
      · simp at h'; subst h'
        have := leaf_denotes I P (Loc.data k)
        rw [leaf_eq, hnew] at this
        exact this
  | apply fn args =>
    simp only [step]
    generalize hxs : pick regs args = xs
    have hsub : ∀ p ∈ xs, p ∈ regs := by
      intro p hp; rw [← hxs] at hp; exact pick_mem regs args p hp
    generalize hnew : P.newNodes fn (xs.map (·.1)) = new
    have hk : ∀ n x, assocGet new n = some x → n = ⟨"op", P.cPlan + 1⟩ ∨ n = ⟨"array", P.cArray + 1⟩ := by
      intro n x h; rw [← hnew] at h; exact applyNodes_keys _ _ _ _ _ n x h
    have hall : ∀ d ∈ xs.map (·.1.dag) ++ [new], ∀ n x, assocGet d n = some x →
        assocGet (new ++ G) n = some x := by
      intro d hd n x h
      rcases List.mem_append.mp hd with h' | h'
      · obtain ⟨p, hp, e⟩ := List.mem_map.mp h'
        subst e
        exact fresh_get P G new inv.bound hk n x (inv.sub p (hsub p hp) n x h)
      · simp at h'; subst h'
        rw [assocGet_append, h]
    have hag : NamesAgree (xs.map (·.1.dag) ++ [P.newNodes fn (xs.map (·.1))]) := by
      rw [hnew]; exact namesAgree_of_subMap _ (new ++ G) hall
    have hden := apply_denotes I P fn xs (fun p hp => inv.den p (hsub p hp)) hag
    refine ⟨new ++ G, ⟨?_, ?_, ?_⟩⟩
    · intro q hq n x h
      rcases List.mem_append.mp hq with h' | h'
      · exact fresh_get P G new inv.bound hk n x (inv.sub q h' n x h)
      · simp at h'; subst h'
        rw [apply_eq] at h
        simp only at h
        rw [hnew] at h
        refine assocGet_merge_subMap _ (new ++ G) ?_ n x h
        intro d hd
        exact hall d (by simpa [List.map_map, Function.comp_def] using hd)
    · rw [apply_proc]
      exact bound_new P G new inv.bound hk
    · intro q hq
      rcases List.mem_append.mp hq with h' | h'
      · exact inv.den q h'
      · simp at h'; subst h'
        exact hden

theorem run_inv {V : Type} (I : Interp V) (prog : List (Instr V)) (P : Proc) (regs : Regs V) (G : Dag)
    (hloc : ∀ ins ∈ prog, ins.isLocal = true) (inv : Inv I P regs G) :
    ∃ G', Inv I (prog.foldl (step I) (P, regs)).1 (prog.foldl (step I) (P, regs)).2 G' := by
  induction prog generalizing P regs G with
  | nil => exact ⟨G, inv⟩
  | cons ins prog ih =>
    obtain ⟨G₁, inv₁⟩ := step_inv I P regs G ins (hloc ins (by simp)) inv
    simp only [List.foldl_cons]
    exact ih _ _ G₁ (fun i hi => hloc i (List.mem_cons_of_mem _ hi)) inv₁

end Cubed.Names
