/-
  Lemmas about chunk grids (Model/Grid.lean).  Structure:

  1. offsets of a grid are monotone; a grid with positive sizes partitions `[0, sum)`.
  2. `Refines s w` (every boundary of `w` is a boundary of `s`)  ⇔  per axis every stored chunk of `s`
     has exactly one writer among the regions of `w`, and is written whole (`Axis1 s w`).
  3. lifting to n dimensions: `AxesOK gs ws ⇔ SingleWriter gs ws` (a box covers a chunk iff each axis does).
  4. boundaries of regular grids and of `splitChunksizes`; `_fix_copy_chunks`.
  5. region stores.
  6. the guards added to `_store_array` by the fixes d416aac / ba97b91.
-/
import CubedModel.Model.Grid

namespace Cubed.Grid

/-! ## 1. offsets -/

@[simp] theorem off_zero (g : List Nat) : off g 0 = 0 := by simp [off]

theorem off_succ (g : List Nat) (i : Nat) (h : i < g.length) : off g (i + 1) = off g i + g[i] := by
  unfold off; rw [List.take_add_one, List.sum_append, List.getElem?_eq_getElem h]; simp

theorem off_length (g : List Nat) : off g g.length = g.sum := by simp [off]

theorem off_le_succ (g : List Nat) (i : Nat) : off g i ≤ off g (i + 1) := by
  by_cases h : i < g.length
  · rw [off_succ g i h]; omega
  · have h1 : g.take i = g := List.take_of_length_le (by omega)
    have h2 : g.take (i + 1) = g := List.take_of_length_le (by omega)
    simp [off, h1, h2]

theorem off_mono (g : List Nat) {i j : Nat} (h : i ≤ j) : off g i ≤ off g j := by
  induction j with
  | zero => have : i = 0 := by omega
            subst this; exact Nat.le_refl _
  | succ j ih =>
    by_cases hij : i = j + 1
    · subst hij; exact Nat.le_refl _
    · exact Nat.le_trans (ih (by omega)) (off_le_succ g j)

theorem off_lt_succ (g : List Nat) (hpos : Pos g) (i : Nat) (h : i < g.length) : off g i < off g (i + 1) := by
  rw [off_succ g i h]
  have := hpos g[i] (List.getElem_mem h)
  omega

theorem off_strictMono (g : List Nat) (hpos : Pos g) {i j : Nat} (h : i < j) (hj : j ≤ g.length) :
    off g i < off g j :=
  Nat.lt_of_lt_of_le (off_lt_succ g hpos i (by omega)) (off_mono g (by omega))

/-- monotone converse: a strictly smaller offset has a strictly smaller index. -/
theorem lt_of_off_lt (g : List Nat) {i j : Nat} (h : off g i < off g j) : i < j := by
  apply Nat.lt_of_not_le
  intro hji
  have := off_mono g hji
  omega

/-- every point below the total lies in some chunk. -/
theorem exists_chunk (g : List Nat) (x : Nat) :
    ∀ m, m ≤ g.length → x < off g m → ∃ c, c < m ∧ off g c ≤ x ∧ x < off g (c + 1) := by
  intro m
  induction m with
  | zero => intro _ h; simp at h
  | succ m ih =>
    intro hm hx
    by_cases h : x < off g m
    · obtain ⟨c, hc, h1, h2⟩ := ih (by omega) h
      exact ⟨c, by omega, h1, h2⟩
    · exact ⟨m, by omega, by omega, hx⟩

/-! ## 2. one axis: refinement ⇔ single whole writer -/

theorem getItem_eq_some {g : List Nat} {i : Nat} {r : Nat × Nat} :
    getItem g i = some r ↔ i < g.length ∧ r = (off g i, off g (i + 1)) := by
  unfold getItem; by_cases h : i < g.length <;> simp [h, eq_comm]

theorem touchesB_iff {g : List Nat} {r : Nat × Nat} {k : Nat} :
    touchesB g r k = true ↔ k < g.length ∧ max (off g k) r.1 < min (off g (k + 1)) r.2 := by
  unfold touchesB getItem; by_cases h : k < g.length <;> simp [h]

theorem wholeB_iff {g : List Nat} {r : Nat × Nat} {k : Nat} :
    wholeB g r k = true ↔ k < g.length ∧ r.1 ≤ off g k ∧ off g (k + 1) ≤ r.2 := by
  unfold wholeB getItem; by_cases h : k < g.length <;> simp [h]

theorem mem_writesAxis {g : List Nat} {r : Nat × Nat} {k : Nat} :
    k ∈ writesAxis g r ↔ k < g.length ∧ max (off g k) r.1 < min (off g (k + 1)) r.2 := by
  simp [writesAxis, touchesB_iff]

theorem writesAxis_nodup (g : List Nat) (r : Nat × Nat) : (writesAxis g r).Nodup :=
  List.Nodup.sublist List.filter_sublist List.nodup_range

/-- along one axis every stored chunk of `s` is touched by the region of exactly one block `c` of the write
grid `w`, and that region covers it entirely. -/
def Axis1 (s w : List Nat) : Prop :=
  ∀ k, k < s.length → ∃ c r, getItem w c = some r ∧ k ∈ writesAxis s r ∧ wholeB s r k = true ∧
    ∀ c' r', getItem w c' = some r' → k ∈ writesAxis s r' → c' = c

theorem axis1_of_refines (s w : List Nat) (hs : Pos s) (hsum : s.sum = w.sum) (href : Refines s w) :
    Axis1 s w := by
  intro k hk
  have hab := off_lt_succ s hs k hk
  have hb : off s (k + 1) ≤ off w w.length := by
    rw [off_length, ← hsum, ← off_length]; exact off_mono s (by omega)
  obtain ⟨c, hc, hc1, hc2⟩ := exists_chunk w (off s k) w.length (Nat.le_refl _) (by omega)
  obtain ⟨j, hj, hje⟩ := href (c + 1) (by omega)
  have hkj : k < j := lt_of_off_lt s (by omega)
  have hbj : off s (k + 1) ≤ off s j := off_mono s (by omega)
  refine ⟨c, (off w c, off w (c + 1)), getItem_eq_some.2 ⟨hc, rfl⟩, mem_writesAxis.2 ⟨hk, ?_⟩,
    wholeB_iff.2 ⟨hk, hc1, by simp only; omega⟩, ?_⟩
  · simp only; omega
  · intro c' r' hg hw
    obtain ⟨hc', rfl⟩ := getItem_eq_some.1 hg
    obtain ⟨_, ht⟩ := mem_writesAxis.1 hw
    simp only at ht
    by_cases h1 : c' < c
    · have := off_mono w (show c' + 1 ≤ c by omega); omega
    · by_cases h2 : c < c'
      · have := off_mono w (show c + 1 ≤ c' by omega); omega
      · omega

theorem refines_of_axis1 (s w : List Nat) (hw : Pos w) (hsum : s.sum = w.sum)
    (h : Axis1 s w) : Refines s w := by
  intro c hc
  by_cases hc0 : c = 0
  · exact ⟨0, by omega, by simp [hc0]⟩
  by_cases hcl : c = w.length
  · exact ⟨s.length, Nat.le_refl _, by rw [hcl, off_length, off_length, hsum]⟩
  -- an interior boundary x of w
  have hx1 : off w (c - 1) < off w c := by
    have := off_lt_succ w hw (c - 1) (by omega)
    rwa [show c - 1 + 1 = c by omega] at this
  have hx2 : off w c < off w (c + 1) := off_lt_succ w hw c (by omega)
  have hx3 : off w (c + 1) ≤ off s s.length := by
    rw [off_length, hsum, ← off_length]; exact off_mono w (by omega)
  obtain ⟨k, hk, hk1, hk2⟩ := exists_chunk s (off w c) s.length (Nat.le_refl _) (by omega)
  by_cases heq : off s k = off w c
  · exact ⟨k, by omega, heq⟩
  · exfalso
    obtain ⟨c0, r0, _, _, _, huniq⟩ := h k hk
    have e1 := huniq (c - 1) (off w (c - 1), off w c)
      (getItem_eq_some.2 ⟨by omega, by rw [show c - 1 + 1 = c by omega]⟩)
      (mem_writesAxis.2 ⟨hk, by simp only; omega⟩)
    have e2 := huniq c (off w c, off w (c + 1)) (getItem_eq_some.2 ⟨by omega, rfl⟩)
      (mem_writesAxis.2 ⟨hk, by simp only; omega⟩)
    omega

/-- same grid on both sides: block `c` writes exactly chunk `c`, whole. -/
theorem refines_refl (g : List Nat) : Refines g g := fun c hc => ⟨c, hc, rfl⟩

theorem writesAxis_self (g : List Nat) (hg : Pos g) (c : Nat) (r : Nat × Nat)
    (h : getItem g c = some r) (k : Nat) : k ∈ writesAxis g r ↔ k = c := by
  obtain ⟨hc, rfl⟩ := getItem_eq_some.1 h
  rw [mem_writesAxis]
  simp only
  constructor
  · rintro ⟨hk, ht⟩
    by_cases h1 : k < c
    · have := off_mono g (show k + 1 ≤ c by omega); omega
    · by_cases h2 : c < k
      · have := off_mono g (show c + 1 ≤ k by omega); omega
      · omega
  · rintro rfl
    have := off_lt_succ g hg k hc
    exact ⟨hc, by omega⟩

theorem wholeB_self (g : List Nat) (c : Nat) (r : Nat × Nat) (h : getItem g c = some r) :
    wholeB g r c = true := by
  obtain ⟨hc, rfl⟩ := getItem_eq_some.1 h
  exact wholeB_iff.2 ⟨hc, Nat.le_refl _, Nat.le_refl _⟩

/-! ## 3. n dimensions -/

def AxesOK : List (List Nat) → List (List Nat) → Prop
  | [], [] => True
  | g :: gs, w :: ws => Axis1 g w ∧ AxesOK gs ws
  | _, _ => False

theorem mem_chunkKeys_cons {g : List Nat} {gs : List (List Nat)} {ks : List Nat} :
    ks ∈ chunkKeys (g :: gs) ↔ ∃ k ks', ks = k :: ks' ∧ k < g.length ∧ ks' ∈ chunkKeys gs := by
  simp only [chunkKeys, List.mem_flatMap, List.mem_range, List.mem_map]
  constructor
  · rintro ⟨k, hk, ks', hks', rfl⟩; exact ⟨k, ks', rfl, hk, hks'⟩
  · rintro ⟨k, ks', rfl, hk, hks'⟩; exact ⟨k, hk, ks', hks', rfl⟩

theorem mem_writesN_cons {g : List Nat} {gs : List (List Nat)} {r : Nat × Nat} {rs : List (Nat × Nat)}
    {ks : List Nat} :
    ks ∈ writesN (g :: gs) (r :: rs) ↔ ∃ k ks', ks = k :: ks' ∧ k ∈ writesAxis g r ∧ ks' ∈ writesN gs rs := by
  simp only [writesN, List.mem_flatMap, List.mem_map]
  constructor
  · rintro ⟨k, hk, ks', hks', rfl⟩; exact ⟨k, ks', rfl, hk, hks'⟩
  · rintro ⟨k, ks', rfl, hk, hks'⟩; exact ⟨k, hk, ks', hks', rfl⟩

theorem getItemN_cons_eq_some {w : List Nat} {ws : List (List Nat)} {c : Nat} {cs : List Nat}
    {R : List (Nat × Nat)} :
    getItemN (w :: ws) (c :: cs) = some R ↔ ∃ r rs, getItem w c = some r ∧ getItemN ws cs = some rs ∧ R = r :: rs := by
  simp only [getItemN]
  cases h1 : getItem w c <;> cases h2 : getItemN ws cs <;> simp [eq_comm]

theorem getItemN_nil_eq_some {cs : List Nat} {R : List (Nat × Nat)} :
    getItemN [] cs = some R ↔ cs = [] ∧ R = [] := by
  cases cs <;> simp [getItemN, eq_comm]

theorem getItemN_cons_nil (w : List Nat) (ws : List (List Nat)) : getItemN (w :: ws) [] = none := by
  simp [getItemN]

theorem singleWriter_of_axes : ∀ (gs ws : List (List Nat)), AxesOK gs ws → SingleWriter gs ws
  | [], [], _ => by
    intro ks hks
    simp [chunkKeys] at hks
    subst hks
    refine ⟨[], [], by simp [getItemN], by simp [writesN], by simp [wholeN], ?_⟩
    intro cs' rs' h _
    exact (getItemN_nil_eq_some.1 h).1
  | [], _ :: _, h => by simp [AxesOK] at h
  | _ :: _, [], h => by simp [AxesOK] at h
  | g :: gs, w :: ws, h => by
    obtain ⟨h1, h2⟩ := h
    have ih := singleWriter_of_axes gs ws h2
    intro ks hks
    obtain ⟨k, ks', rfl, hk, hks'⟩ := mem_chunkKeys_cons.1 hks
    obtain ⟨c, r, hg, hw, hwh, hu⟩ := h1 k hk
    obtain ⟨cs, rs, hgs, hws, hwhs, hus⟩ := ih ks' hks'
    refine ⟨c :: cs, r :: rs, getItemN_cons_eq_some.2 ⟨r, rs, hg, hgs, rfl⟩,
      mem_writesN_cons.2 ⟨k, ks', rfl, hw, hws⟩, by simp [wholeN, hwh, hwhs], ?_⟩
    intro cs' rs' hg' hw'
    cases cs' with
    | nil => simp [getItemN] at hg'
    | cons c' cs'' =>
      obtain ⟨r', rs'', hg1, hg2, rfl⟩ := getItemN_cons_eq_some.1 hg'
      obtain ⟨k2, ks2, heq, hw1, hw2⟩ := mem_writesN_cons.1 hw'
      simp only [List.cons.injEq] at heq
      obtain ⟨rfl, rfl⟩ := heq
      rw [hu c' r' hg1 hw1, hus cs'' rs'' hg2 hw2]

theorem chunkKeys_nonempty : ∀ (gs : List (List Nat)), (∀ g ∈ gs, 0 < g.length) → ∃ ks, ks ∈ chunkKeys gs
  | [], _ => ⟨[], by simp [chunkKeys]⟩
  | g :: gs, h => by
    obtain ⟨ks, hks⟩ := chunkKeys_nonempty gs (fun g' hg' => h g' (List.mem_cons_of_mem _ hg'))
    exact ⟨0 :: ks, mem_chunkKeys_cons.2 ⟨0, ks, rfl, h g (List.mem_cons_self ..), hks⟩⟩

theorem axes_of_singleWriter : ∀ (gs ws : List (List Nat)), gs.length = ws.length →
    (∀ g ∈ gs, 0 < g.length) → SingleWriter gs ws → AxesOK gs ws
  | [], [], _, _, _ => trivial
  | [], _ :: _, h, _, _ => by simp at h
  | _ :: _, [], h, _, _ => by simp at h
  | g :: gs, w :: ws, hlen, hne, hsw => by
    have hne' : ∀ g' ∈ gs, 0 < g'.length := fun g' hg' => hne g' (List.mem_cons_of_mem _ hg')
    have hg0 : 0 < g.length := hne g (List.mem_cons_self ..)
    obtain ⟨ks0, hks0⟩ := chunkKeys_nonempty gs hne'
    refine ⟨?_, axes_of_singleWriter gs ws (by simpa using hlen) hne' ?_⟩
    · intro k hk
      obtain ⟨cs, rs, hg, hw, hwh, hu⟩ := hsw (k :: ks0) (mem_chunkKeys_cons.2 ⟨k, ks0, rfl, hk, hks0⟩)
      cases cs with
      | nil => simp [getItemN] at hg
      | cons c cs =>
        obtain ⟨r, rs', hg1, hg2, rfl⟩ := getItemN_cons_eq_some.1 hg
        obtain ⟨k2, ks2, heq, hw1, hw2⟩ := mem_writesN_cons.1 hw
        simp only [List.cons.injEq] at heq
        obtain ⟨rfl, rfl⟩ := heq
        simp only [wholeN, Bool.and_eq_true] at hwh
        refine ⟨c, r, hg1, hw1, hwh.1, ?_⟩
        intro c' r' hg' hw'
        have := hu (c' :: cs) (r' :: rs') (getItemN_cons_eq_some.2 ⟨r', rs', hg', hg2, rfl⟩)
          (mem_writesN_cons.2 ⟨k, ks0, rfl, hw', hw2⟩)
        simpa using this
    · intro ks hks
      obtain ⟨cs, rs, hg, hw, hwh, hu⟩ := hsw (0 :: ks) (mem_chunkKeys_cons.2 ⟨0, ks, rfl, hg0, hks⟩)
      cases cs with
      | nil => simp [getItemN] at hg
      | cons c cs =>
        obtain ⟨r, rs', hg1, hg2, rfl⟩ := getItemN_cons_eq_some.1 hg
        obtain ⟨k2, ks2, heq, hw1, hw2⟩ := mem_writesN_cons.1 hw
        simp only [List.cons.injEq] at heq
        obtain ⟨rfl, rfl⟩ := heq
        simp only [wholeN, Bool.and_eq_true] at hwh
        refine ⟨cs, rs', hg2, hw2, hwh.2, ?_⟩
        intro cs' rs'' hg' hw'
        have := hu (c :: cs') (r :: rs'') (getItemN_cons_eq_some.2 ⟨r, rs'', hg1, hg', rfl⟩)
          (mem_writesN_cons.2 ⟨0, ks, rfl, hw1, hw'⟩)
        simpa using this

theorem axesOK_map {α : Type} (f h : α → List Nat) : ∀ (l : List α), (∀ a ∈ l, Axis1 (f a) (h a)) →
    AxesOK (l.map f) (l.map h)
  | [], _ => trivial
  | a :: l, hl => ⟨hl a (List.mem_cons_self ..),
      axesOK_map f h l (fun b hb => hl b (List.mem_cons_of_mem _ hb))⟩

theorem axesOK_map_inv {α : Type} (f h : α → List Nat) : ∀ (l : List α), AxesOK (l.map f) (l.map h) →
    ∀ a ∈ l, Axis1 (f a) (h a)
  | [], _ => by simp
  | a :: l, hl => by
    intro b hb
    rcases List.mem_cons.1 hb with rfl | hb
    · exact hl.1
    · exact axesOK_map_inv f h l hl.2 b hb


/-! ## 4. regular grids, split_chunksizes, _fix_copy_chunks -/

theorem refines_iff_bounds (s w : List Nat) : Refines s w ↔ ∀ x, IsBound w x → IsBound s x := by
  constructor
  · rintro h x ⟨c, hc, rfl⟩; exact h c hc
  · intro h c hc; exact h _ ⟨c, hc, rfl⟩

theorem regular_eq (n c : Nat) (hn : 0 < n) :
    regular n c = List.replicate (n / c) c ++ (if n % c = 0 then [] else [n % c]) := by
  unfold regular; simp [Nat.ne_of_gt hn]

theorem regular_length (n c : Nat) (hn : 0 < n) :
    (regular n c).length = n / c + (if n % c = 0 then 0 else 1) := by
  rw [regular_eq n c hn]; split <;> simp

theorem off_regular (n c : Nat) (hn : 0 < n) (hc : 0 < c) (i : Nat) (hi : i ≤ (regular n c).length) :
    off (regular n c) i = min (i * c) n := by
  rw [regular_length n c hn] at hi
  rw [regular_eq n c hn]
  have hdm := Nat.div_add_mod n c
  have hml := Nat.mod_lt n hc
  have hmul : c * (n / c) = (n / c) * c := Nat.mul_comm _ _
  unfold off
  rw [List.take_append, List.sum_append, List.take_replicate, List.length_replicate]
  simp only [List.sum_replicate_nat]
  by_cases hle : i ≤ n / c
  · have h1 : min i (n / c) = i := Nat.min_eq_left hle
    have h2 : i - n / c = 0 := by omega
    have h3 : i * c ≤ (n / c) * c := Nat.mul_le_mul_right c hle
    rw [h1, h2]; simp; omega
  · have hi' : i = n / c + 1 := by split at hi <;> omega
    have hne : n % c ≠ 0 := by intro h; simp [h] at hi; omega
    have h1 : min i (n / c) = n / c := Nat.min_eq_right (by omega)
    have h3 : i * c = (n / c) * c + c := by rw [hi', Nat.add_mul]; omega
    rw [h1, show i - n / c = 1 by omega]; simp [hne]; omega

theorem regular_sum (n c : Nat) (hn : 0 < n) (hc : 0 < c) : (regular n c).sum = n := by
  rw [← off_length, off_regular n c hn hc _ (Nat.le_refl _), regular_length n c hn]
  have hdm := Nat.div_add_mod n c
  have hml := Nat.mod_lt n hc
  have hmul : c * (n / c) = (n / c) * c := Nat.mul_comm _ _
  split
  · simp; omega
  · rw [Nat.add_mul]; omega

theorem regular_pos (n c : Nat) (hn : 0 < n) (hc : 0 < c) : Pos (regular n c) := by
  rw [regular_eq n c hn]
  intro x hx
  rw [List.mem_append] at hx
  rcases hx with hx | hx
  · rw [List.mem_replicate] at hx; omega
  · split at hx
    · simp at hx
    · simp at hx; omega

theorem lt_regular_length (n c : Nat) (hn : 0 < n) (hc : 0 < c) (i : Nat) :
    i < (regular n c).length ↔ i * c < n := by
  rw [regular_length n c hn]
  have hdm := Nat.div_add_mod n c
  have hml := Nat.mod_lt n hc
  have hmul : c * (n / c) = (n / c) * c := Nat.mul_comm _ _
  constructor
  · intro h
    by_cases hle : i < n / c
    · have := Nat.mul_le_mul_right c (show i + 1 ≤ n / c by omega)
      rw [Nat.add_mul] at this; omega
    · have : i = n / c := by split at h <;> omega
      subst this
      split at h <;> omega
  · intro h
    have : i ≤ n / c := by
      apply Nat.le_of_not_lt; intro hlt
      have := Nat.mul_le_mul_right c (show n / c + 1 ≤ i by omega)
      rw [Nat.add_mul] at this; omega
    split
    · rename_i h0
      have : i ≠ n / c := by intro e; subst e; omega
      omega
    · omega

theorem isBound_regular (n c : Nat) (hn : 0 < n) (hc : 0 < c) (x : Nat) :
    IsBound (regular n c) x ↔ x = n ∨ (x < n ∧ x % c = 0) := by
  constructor
  · rintro ⟨j, hj, rfl⟩
    rw [off_regular n c hn hc j hj]
    by_cases h : j * c < n
    · right; rw [Nat.min_eq_left (by omega)]; exact ⟨h, Nat.mul_mod_left _ _⟩
    · left; exact Nat.min_eq_right (by omega)
  · rintro (rfl | ⟨hx, hm⟩)
    · exact ⟨_, Nat.le_refl _, by rw [off_length, regular_sum x c hn hc]⟩
    · have hxc : x / c * c = x := Nat.div_mul_cancel (Nat.dvd_of_mod_eq_zero hm)
      have hlt : x / c < (regular n c).length := (lt_regular_length n c hn hc _).2 (by omega)
      refine ⟨x / c, by omega, ?_⟩
      rw [off_regular n c hn hc _ (by omega), hxc]; exact Nat.min_eq_left (by omega)

/-- regular stored grid `st` under a regular write grid `cc`: refinement ⇔ multiple or spanning. -/
theorem refines_regular_iff (n st cc : Nat) (hn : 0 < n) (hst : 0 < st) (hcc : 0 < cc) :
    Refines (regular n st) (regular n cc) ↔ (cc % st = 0 ∨ n ≤ cc) := by
  rw [refines_iff_bounds]
  constructor
  · intro h
    by_cases hle : n ≤ cc
    · exact Or.inr hle
    · left
      have := (isBound_regular n st hn hst cc).1 (h cc ((isBound_regular n cc hn hcc cc).2
        (Or.inr ⟨by omega, Nat.mod_self cc⟩)))
      omega
  · intro h x hx
    rw [isBound_regular n cc hn hcc] at hx
    rw [isBound_regular n st hn hst]
    rcases hx with rfl | ⟨hx, hm⟩
    · exact Or.inl rfl
    · right
      refine ⟨hx, ?_⟩
      rcases h with h | h
      · have : x % cc % st = x % st := Nat.mod_mod_of_dvd x (Nat.dvd_of_mod_eq_zero h)
        rw [← this, hm]; simp
      · have hx0 : x = 0 := by
          have := Nat.mod_eq_of_lt (show x < cc by omega)
          omega
        subst hx0; simp

/-! split -/

theorem off_cons_succ (a : Nat) (g : List Nat) (i : Nat) : off (a :: g) (i + 1) = a + off g i := by
  simp [off]

theorem diffs_length : ∀ (L : List Nat), (diffs L).length = L.length - 1
  | [] => rfl
  | [_] => rfl
  | a :: b :: rest => by simp [diffs, diffs_length (b :: rest)]

theorem off_diffs : ∀ (L : List Nat), L.Pairwise (· < ·) → ∀ (j : Nat) (hj : j < L.length),
    off (diffs L) j + L[0]'(by omega) = L[j]
  | [], _, j, hj => by simp at hj
  | [a], _, j, hj => by
    have : j = 0 := by simpa using hj
    subst this; simp [diffs]
  | a :: b :: rest, hp, j, hj => by
    cases j with
    | zero => simp
    | succ j =>
      have hp' : (b :: rest).Pairwise (· < ·) := (List.pairwise_cons.1 hp).2
      have hab : a < b := (List.pairwise_cons.1 hp).1 b (List.mem_cons_self ..)
      have ih := off_diffs (b :: rest) hp' j (by simpa using hj)
      have hbj : b ≤ (b :: rest)[j]'(by simpa using hj) := by
        cases j with
        | zero => simp
        | succ j' =>
          have := (List.pairwise_cons.1 hp').1 ((b :: rest)[j' + 1]'(by simpa using hj)) (by simp)
          omega
      simp only [diffs, off_cons_succ, List.getElem_cons_zero, List.getElem_cons_succ] at ih ⊢
      omega

theorem diffs_pos : ∀ (L : List Nat), L.Pairwise (· < ·) → Pos (diffs L)
  | [], _ => by intro x hx; simp [diffs] at hx
  | [_], _ => by intro x hx; simp [diffs] at hx
  | a :: b :: rest, hp => by
    have hp' : (b :: rest).Pairwise (· < ·) := (List.pairwise_cons.1 hp).2
    have hab : a < b := (List.pairwise_cons.1 hp).1 b (List.mem_cons_self ..)
    intro x hx
    simp only [diffs, List.mem_cons] at hx
    rcases hx with rfl | hx
    · omega
    · exact diffs_pos (b :: rest) hp' x hx

theorem isBound_diffs (L : List Nat) (hp : L.Pairwise (· < ·)) (hne : 0 < L.length) (h0 : L[0] = 0)
    (x : Nat) : IsBound (diffs L) x ↔ x ∈ L := by
  constructor
  · rintro ⟨j, hj, rfl⟩
    rw [diffs_length] at hj
    have := off_diffs L hp j (by omega)
    rw [h0] at this
    simp only [Nat.add_zero] at this
    rw [this]; exact List.getElem_mem _
  · intro hx
    obtain ⟨j, hj, rfl⟩ := List.getElem_of_mem hx
    refine ⟨j, by rw [diffs_length]; omega, ?_⟩
    have := off_diffs L hp j hj
    rw [h0] at this
    simpa using this

theorem splitBounds_pairwise (n sc tc : Nat) : (splitBounds n sc tc).Pairwise (· < ·) :=
  List.Pairwise.filter _ List.pairwise_lt_range

theorem mem_splitBounds {n sc tc x : Nat} :
    x ∈ splitBounds n sc tc ↔ x ≤ n ∧ (x = n ∨ x % sc = 0 ∨ x % tc = 0) := by
  simp [splitBounds, List.mem_filter, List.mem_range, Nat.lt_succ_iff, or_assoc]

theorem splitBounds_zero (n sc tc : Nat) :
    ∃ h : 0 < (splitBounds n sc tc).length, (splitBounds n sc tc)[0] = 0 := by
  have hmem : 0 ∈ splitBounds n sc tc := mem_splitBounds.2 ⟨Nat.zero_le _, Or.inr (Or.inl (Nat.zero_mod _))⟩
  obtain ⟨j, hj, hj0⟩ := List.getElem_of_mem hmem
  refine ⟨by omega, ?_⟩
  cases j with
  | zero => exact hj0
  | succ j =>
    have := (List.pairwise_iff_getElem.1 (splitBounds_pairwise n sc tc)) 0 (j + 1) (by omega) hj (by omega)
    omega

theorem isBound_split (n sc tc x : Nat) :
    IsBound (splitChunksizes n sc tc) x ↔ x ≤ n ∧ (x = n ∨ x % sc = 0 ∨ x % tc = 0) := by
  obtain ⟨hne, h0⟩ := splitBounds_zero n sc tc
  unfold splitChunksizes
  rw [isBound_diffs _ (splitBounds_pairwise n sc tc) hne h0, mem_splitBounds]

theorem split_pos (n sc tc : Nat) : Pos (splitChunksizes n sc tc) :=
  diffs_pos _ (splitBounds_pairwise n sc tc)

theorem split_sum (n sc tc : Nat) : (splitChunksizes n sc tc).sum = n := by
  rw [← off_length]
  have h1 : IsBound (splitChunksizes n sc tc) (off (splitChunksizes n sc tc) (splitChunksizes n sc tc).length) :=
    ⟨_, Nat.le_refl _, rfl⟩
  have h1' := ((isBound_split n sc tc _).1 h1).1
  obtain ⟨j, hj, hjn⟩ := (isBound_split n sc tc n).2 ⟨Nat.le_refl _, Or.inl rfl⟩
  have := off_mono (splitChunksizes n sc tc) hj
  omega

theorem split_refines_copy (n sc tc : Nat) (hn : 0 < n) (hsc : 0 < sc) :
    Refines (splitChunksizes n sc tc) (regular n sc) := by
  rw [refines_iff_bounds]
  intro x hx
  rw [isBound_regular n sc hn hsc] at hx
  rw [isBound_split]
  rcases hx with rfl | ⟨h1, h2⟩
  · exact ⟨Nat.le_refl _, Or.inl rfl⟩
  · exact ⟨by omega, Or.inr (Or.inl h2)⟩

theorem split_refines_target (n sc tc : Nat) (hn : 0 < n) (htc : 0 < tc) :
    Refines (splitChunksizes n sc tc) (regular n tc) := by
  rw [refines_iff_bounds]
  intro x hx
  rw [isBound_regular n tc hn htc] at hx
  rw [isBound_split]
  rcases hx with rfl | ⟨h1, h2⟩
  · exact ⟨Nat.le_refl _, Or.inl rfl⟩
  · exact ⟨by omega, Or.inr (Or.inr h2)⟩

/-- … and it is the coarsest such grid: it has no other boundaries. -/
theorem split_bounds_only (n sc tc : Nat) (hn : 0 < n) (hsc : 0 < sc) (htc : 0 < tc) (x : Nat)
    (hx : IsBound (splitChunksizes n sc tc) x) : IsBound (regular n sc) x ∨ IsBound (regular n tc) x := by
  rw [isBound_split] at hx
  rw [isBound_regular n sc hn hsc, isBound_regular n tc hn htc]
  omega

theorem fixCopy_spec (n cc tc : Nat) (hcc : 0 < cc) (htc : 0 < tc) :
    (fixCopy n cc tc % sharedChunk (fixCopy n cc tc) tc = 0 ∨ n ≤ fixCopy n cc tc) ∧
      0 < fixCopy n cc tc ∧ fixCopy n cc tc ≤ cc ∧ 0 < sharedChunk (fixCopy n cc tc) tc := by
  unfold fixCopy sharedChunk
  split
  · rename_i h
    refine ⟨?_, hcc, Nat.le_refl _, by omega⟩
    rcases h with h | h | h
    · left; rw [Nat.min_eq_left h]; exact Nat.mod_self _
    · right; omega
    · by_cases hle : cc ≤ tc
      · left; rw [Nat.min_eq_left hle]; exact Nat.mod_self _
      · left; rw [Nat.min_eq_right (by omega)]; exact h
  · rename_i h
    have h1 : tc < cc := by omega
    have h2 : 1 ≤ cc / tc := (Nat.le_div_iff_mul_le htc).2 (by omega)
    have h3 : tc ≤ cc / tc * tc := by
      have := Nat.mul_le_mul_right tc h2; omega
    have h4 := Nat.div_mul_le_self cc tc
    refine ⟨Or.inl ?_, by omega, h4, by omega⟩
    rw [Nat.min_eq_right h3]; exact Nat.mul_mod_left _ _

/-! ## 5. region stores -/

theorem getItem_regular (n c : Nat) (hn : 0 < n) (hc : 0 < c) (i : Nat) (hi : i * c < n) :
    getItem (regular n c) i = some (i * c, min (i * c + c) n) := by
  have hlt := (lt_regular_length n c hn hc i).2 hi
  rw [getItem_eq_some]
  refine ⟨hlt, ?_⟩
  rw [off_regular n c hn hc i (by omega), off_regular n c hn hc (i + 1) (by omega), Nat.add_mul,
    Nat.one_mul, (Nat.min_eq_left (Nat.le_of_lt hi) : min (i * c) n = i * c)]

theorem region_taskOK (r : RegionAxis) (hct : 0 < r.ct) (hcs : 0 < r.cs) (hab : r.a < r.b) (hb : r.b ≤ r.nt)
    (hal : r.aligned = true) (hsrc : r.cs = r.ct ∨ (r.b - r.a ≤ r.cs ∧ r.b - r.a ≤ r.ct))
    (j : Nat) (hj : j ∈ r.tasks) : r.taskOK j = true := by
  obtain ⟨nt, ct, a, b, cs⟩ := r
  simp only at hct hcs hab hb hsrc
  have hn : 0 < nt := by omega
  simp only [RegionAxis.aligned, Bool.and_eq_true, Bool.or_eq_true, beq_iff_eq] at hal
  obtain ⟨ha, hbal⟩ := hal
  simp only [RegionAxis.tasks, mem_writesAxis] at hj
  obtain ⟨hjl, hjt⟩ := hj
  have hjn : j * ct < nt := (lt_regular_length nt ct hn hct j).1 hjl
  rw [off_regular nt ct hn hct j (by omega), off_regular nt ct hn hct (j + 1) (by omega), Nat.add_mul,
    Nat.one_mul] at hjt
  have hao : a / ct * ct = a := Nat.div_mul_cancel (Nat.dvd_of_mod_eq_zero ha)
  have hoj : a / ct ≤ j := by
    have h1 : a / ct * ct < (j + 1) * ct := by rw [Nat.add_mul, Nat.one_mul]; omega
    have := Nat.lt_of_mul_lt_mul_right h1
    omega
  have haj : a ≤ j * ct := by have := Nat.mul_le_mul_right ct hoj; omega
  have hhi : min (j * ct + ct) nt ≤ b := by
    rcases hbal with hbm | hbn
    · have hbq : b / ct * ct = b := Nat.div_mul_cancel (Nat.dvd_of_mod_eq_zero hbm)
      have h1 : j * ct < b / ct * ct := by omega
      have h2 := Nat.lt_of_mul_lt_mul_right h1
      have h3 := Nat.mul_le_mul_right ct (show j + 1 ≤ b / ct by omega)
      rw [Nat.add_mul, Nat.one_mul] at h3
      omega
    · omega
  have hw : RegionAxis.write ⟨nt, ct, a, b, cs⟩ j = some (j * ct, min (j * ct + ct) nt) := by
    simp only [RegionAxis.write]; exact getItem_regular nt ct hn hct j hjn
  have hsub : (j - a / ct) * ct = j * ct - a := by rw [Nat.sub_mul, hao]
  have hm : 0 < b - a := by omega
  rcases hsrc with hsc | ⟨hs1, hs2⟩
  · subst hsc
    have hr : RegionAxis.read ⟨nt, cs, a, b, cs⟩ j =
        some (j * cs - a, min (j * cs - a + cs) (b - a)) := by
      have h0 : RegionAxis.read ⟨nt, cs, a, b, cs⟩ j = getItem (regular (b - a) cs) (j - a / cs) :=
        if_neg (show ¬ j < a / cs by omega)
      rw [h0, getItem_regular (b - a) cs hm hcs (j - a / cs) (by omega), hsub]
    simp only [RegionAxis.taskOK, hw, hr, decide_eq_true_eq]
    omega
  · have hjo : j = a / ct := by
      have h1 : j * ct < (a / ct + 1) * ct := by rw [Nat.add_mul, Nat.one_mul]; omega
      have := Nat.lt_of_mul_lt_mul_right h1
      omega
    have hr : RegionAxis.read ⟨nt, ct, a, b, cs⟩ j = some (0, b - a) := by
      have h0 : RegionAxis.read ⟨nt, ct, a, b, cs⟩ j = getItem (regular (b - a) cs) (j - a / ct) :=
        if_neg (show ¬ j < a / ct by omega)
      rw [h0, show j - a / ct = 0 by omega,
        getItem_regular (b - a) cs hm hcs 0 (by omega)]
      simp only [Nat.zero_mul, Nat.zero_add]
      rw [Nat.min_eq_right hs1]
    simp only [RegionAxis.taskOK, hw, hr, decide_eq_true_eq]
    rw [hjo, hao] at hhi ⊢
    omega

theorem nodup_prodCons (l : List Nat) (L : List (List Nat)) (hl : l.Nodup) (hL : L.Nodup) :
    (l.flatMap (fun k => L.map (fun ks => k :: ks))).Nodup := by
  unfold List.Nodup at *
  rw [List.pairwise_flatMap]
  constructor
  · intro a _
    rw [List.pairwise_map]
    exact hL.imp (fun h e => h (List.cons.inj e).2)
  · refine hl.imp ?_
    intro a b hab x hx y hy e
    simp only [List.mem_map] at hx hy
    obtain ⟨_, _, rfl⟩ := hx
    obtain ⟨_, _, rfl⟩ := hy
    exact hab (List.cons.inj e).1

theorem chunkKeys_nodup : ∀ (gs : List (List Nat)), (chunkKeys gs).Nodup
  | [] => by simp [chunkKeys]
  | g :: gs => nodup_prodCons _ _ List.nodup_range (chunkKeys_nodup gs)

theorem writesN_nodup : ∀ (gs : List (List Nat)) (rs : List (Nat × Nat)), (writesN gs rs).Nodup
  | [], [] => by simp [writesN]
  | [], _ :: _ => by simp [writesN]
  | _ :: _, [] => by simp [writesN]
  | g :: gs, r :: rs => nodup_prodCons _ _ (writesAxis_nodup g r) (writesN_nodup gs rs)

/-- the tasks `ChunkKeys` enumerates depend on the number of blocks per axis only. -/
theorem chunkKeys_congr : ∀ (gs hs : List (List Nat)), gs.map List.length = hs.map List.length →
    chunkKeys gs = chunkKeys hs
  | [], [], _ => rfl
  | [], _ :: _, h => by simp at h
  | _ :: _, [], h => by simp at h
  | g :: gs, h :: hs, e => by
    simp only [List.map_cons, List.cons.injEq] at e
    simp only [chunkKeys, e.1, chunkKeys_congr gs hs e.2]

/-- a coordinate is a task of `ChunkKeys` iff `get_item` accepts it. -/
theorem mem_chunkKeys_iff : ∀ (gs : List (List Nat)) (cs : List Nat),
    cs ∈ chunkKeys gs ↔ (getItemN gs cs).isSome = true
  | [], [] => by simp [chunkKeys, getItemN]
  | [], _ :: _ => by simp [chunkKeys, getItemN]
  | _ :: _, [] => by simp [mem_chunkKeys_cons, getItemN]
  | g :: gs, c :: cs => by
    rw [mem_chunkKeys_cons]
    have ih := mem_chunkKeys_iff gs cs
    constructor
    · rintro ⟨k, ks, e, hk, hks⟩
      simp only [List.cons.injEq] at e
      obtain ⟨rfl, rfl⟩ := e
      obtain ⟨rs, hrs⟩ := Option.isSome_iff_exists.1 (ih.1 hks)
      rw [Option.isSome_iff_exists]
      exact ⟨_, getItemN_cons_eq_some.2 ⟨_, rs, getItem_eq_some.2 ⟨hk, rfl⟩, hrs, rfl⟩⟩
    · intro h
      obtain ⟨R, hR⟩ := Option.isSome_iff_exists.1 h
      obtain ⟨r, rs, h1, h2, _⟩ := getItemN_cons_eq_some.1 hR
      exact ⟨c, cs, rfl, (getItem_eq_some.1 h1).1, ih.2 (by rw [h2]; rfl)⟩

theorem mem_regionTasks_cons {r : RegionAxis} {rs : List RegionAxis} {js : List Nat} :
    js ∈ regionTasks (r :: rs) ↔ ∃ j js', js = j :: js' ∧ j ∈ r.tasks ∧ js' ∈ regionTasks rs := by
  simp only [regionTasks, List.mem_flatMap, List.mem_map]
  constructor
  · rintro ⟨k, hk, ks', hks', rfl⟩; exact ⟨k, ks', rfl, hk, hks'⟩
  · rintro ⟨k, ks', rfl, hk, hks'⟩; exact ⟨k, hk, ks', hks', rfl⟩

theorem regionTaskOK_of_axes : ∀ (axes : List RegionAxis),
    (∀ r ∈ axes, ∀ j ∈ r.tasks, r.taskOK j = true) → ∀ js ∈ regionTasks axes, regionTaskOK axes js = true
  | [], _, js, hjs => by
    simp [regionTasks] at hjs; subst hjs; rfl
  | r :: rs, h, js, hjs => by
    obtain ⟨j, js', rfl, hj, hjs'⟩ := mem_regionTasks_cons.1 hjs
    simp only [regionTaskOK, Bool.and_eq_true]
    exact ⟨h r (List.mem_cons_self ..) j hj,
      regionTaskOK_of_axes rs (fun r' hr' => h r' (List.mem_cons_of_mem _ hr')) js' hjs'⟩

/-- the tasks of a region store are the target chunks that meet the region box. -/
theorem regionTasks_eq_writesN : ∀ (axes : List RegionAxis),
    regionTasks axes = writesN (axes.map fun r => regular r.nt r.ct) (axes.map fun r => (r.a, r.b))
  | [] => rfl
  | r :: rs => by simp only [regionTasks, List.map_cons, writesN, regionTasks_eq_writesN rs, RegionAxis.tasks]

/-- write grid = stored grid (plain blockwise): the task with coords `cs` touches exactly chunk `cs`. -/
theorem writesN_self : ∀ (gs : List (List Nat)), (∀ g ∈ gs, Pos g) → ∀ (cs : List Nat) (rs : List (Nat × Nat)),
    getItemN gs cs = some rs → (∀ ks, ks ∈ writesN gs rs ↔ ks = cs) ∧ wholeN gs rs cs = true
  | [], _, cs, rs, h => by
    obtain ⟨rfl, rfl⟩ := getItemN_nil_eq_some.1 h
    simp [writesN, wholeN]
  | g :: gs, hpos, [], rs, h => by simp [getItemN] at h
  | g :: gs, hpos, c :: cs, R, h => by
    obtain ⟨r, rs, h1, h2, rfl⟩ := getItemN_cons_eq_some.1 h
    have ih := writesN_self gs (fun g' hg' => hpos g' (List.mem_cons_of_mem _ hg')) cs rs h2
    have hg := hpos g (List.mem_cons_self ..)
    constructor
    · intro ks
      rw [mem_writesN_cons]
      constructor
      · rintro ⟨k, ks', rfl, hk, hks'⟩
        rw [(writesAxis_self g hg c r h1 k).1 hk, (ih.1 ks').1 hks']
      · rintro rfl
        exact ⟨c, cs, rfl, (writesAxis_self g hg c r h1 c).2 rfl, (ih.1 cs).2 rfl⟩
    · simp [wholeN, wholeB_self g c r h1, ih.2]

theorem axesOK_self (gs : List (List Nat)) (hpos : ∀ g ∈ gs, Pos g) : AxesOK gs gs := by
  have := axesOK_map (fun g => g) (fun g => g) gs
    (fun g hg => axis1_of_refines g g (hpos g hg) rfl (refines_refl g))
  simpa using this

/-! ## 6. the repaired `_store_array` (d416aac, ba97b91) -/

theorem clampIdx_le (n : Nat) (i : Int) : clampIdx n i ≤ n := by
  unfold clampIdx
  split
  · omega
  · exact Nat.min_le_right _ _

theorem sliceIndices_le (n : Nat) (s : SliceReq) : (sliceIndices n s).1 ≤ n ∧ (sliceIndices n s).2 ≤ n := by
  unfold sliceIndices
  constructor
  · cases s.start <;> simp [clampIdx_le]
  · cases s.stop <;> simp [clampIdx_le]

theorem regionAccept_spec (nt ct cs : Nat) (s : SliceReq) (a b : Nat) (h : regionAccept nt ct s = some (a, b)) :
    (s.step = none ∨ s.step = some 1) ∧ (a, b) = sliceIndices nt s ∧ a ≤ nt ∧ b ≤ nt ∧
      RegionAxis.aligned ⟨nt, ct, a, b, cs⟩ = true := by
  unfold regionAccept at h
  split at h
  · rename_i hs
    simp only at h
    split at h
    · rename_i hal
      simp only [Option.some.injEq] at h
      have hle := sliceIndices_le nt s
      rw [h] at hal hle
      simp only at hal hle
      refine ⟨hs, h.symm, hle.1, hle.2, ?_⟩
      simp only [RegionAxis.aligned, Bool.and_eq_true, Bool.or_eq_true, beq_iff_eq]
      exact hal
    · simp at h
  · simp at h

theorem effective_tasks (r : RegionAxis) : r.effective.tasks = r.tasks := rfl

theorem regionTasks_effective : ∀ (axes : List RegionAxis),
    regionTasks (axes.map RegionAxis.effective) = regionTasks axes
  | [] => rfl
  | r :: rs => by simp only [List.map_cons, regionTasks, regionTasks_effective rs, effective_tasks]

/-- after the inserted rechunk the source grid agrees with the target grid restricted to the region. -/
theorem effective_chunks_agree (r : RegionAxis) (hct : 0 < r.ct) (hcs : 0 < r.cs) (hab : r.a < r.b) :
    0 < r.effective.cs ∧ (r.effective.cs = r.effective.ct ∨
      (r.effective.b - r.effective.a ≤ r.effective.cs ∧ r.effective.b - r.effective.a ≤ r.effective.ct)) := by
  obtain ⟨nt, ct, a, b, cs⟩ := r
  simp only [RegionAxis.effective] at *
  split <;> omega

theorem storeGuard_iff (axes : List StoreReq) :
    storeGuard axes = true ↔ ∀ a ∈ axes, a.src % a.tgt = 0 ∨ a.n ≤ a.src := by
  simp [storeGuard, StoreReq.alignedB, List.all_eq_true]

end Cubed.Grid
