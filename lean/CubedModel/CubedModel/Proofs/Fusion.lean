import CubedModel.Model.Fusion

namespace Cubed

open Tree

theorem mapL_eq_map {α β : Type} (f : α → β) (ts : List (Tree α)) :
    Tree.mapL f ts = ts.map (Tree.map f) := by
  induction ts with
  | nil => simp [Tree.mapL]
  | cons t ts ih => simp [Tree.mapL, ih]

theorem applyFuncL_eq_map {V : Type} (preds : Preds V) (ts : List (Tree V)) :
    applyFuncL preds ts = ts.map (applyFunc preds) := by
  induction ts with
  | nil => simp [applyFuncL]
  | cons t ts ih => simp [applyFuncL, ih]

/-- Element of a list / stream argument. -/
theorem apply_relabel_leaf {V : Type} (preds : Preds V) (read : CK → V)
    (hname : ∀ n p, preds n = some p → NameIndep p) (k : CK) :
    applyFunc preds (Tree.map read (relabel preds (.leaf k))) = .leaf (readThrough preds read k) := by
  unfold relabel keyToFArgs readThrough
  cases h : preds k.name with
  | none => simp [Tree.map, Tree.mapL, applyFunc, h]
  | some p =>
    have hn := (hname _ _ h k).2
    simp [Tree.map, applyFunc, h, evalSpec, hn]

/-- Single-key argument. -/
theorem apply_fuse_leaf {V : Type} (preds : Preds V) (read : CK → V)
    (hname : ∀ n p, preds n = some p → NameIndep p) (k : CK) :
    applyFunc preds (Tree.map read (fuseKeyArg preds (.leaf k))) = .leaf (readThrough preds read k) := by
  unfold fuseKeyArg keyToFArgs readThrough
  cases h : preds k.name with
  | none => simp [Tree.map, Tree.mapL, applyFunc, h]
  | some p =>
    have hn := hname _ _ h k
    simp [Tree.map, applyFunc, hn.1, h, evalSpec, hn.2]

theorem apply_relabel_leaves {V : Type} (preds : Preds V) (read : CK → V)
    (hname : ∀ n p, preds n = some p → NameIndep p) (ts : List (Tree CK))
    (hts : ∀ t ∈ ts, ∃ a, t = .leaf a) :
    (ts.map (relabel preds)).map (fun t => applyFunc preds (Tree.map read t))
      = ts.map (Tree.map (readThrough preds read)) := by
  induction ts with
  | nil => simp
  | cons t ts ih =>
    obtain ⟨a, rfl⟩ := hts t (by simp)
    have ih' := ih (fun t ht => hts t (by simp [ht]))
    simp only [List.map_cons, ih']
    rw [apply_relabel_leaf preds read hname a]
    simp [Tree.map]

/-- The per-argument core of fusion correctness: reading the fused key tree and applying the
predecessor functions equals reading *through* the predecessors. -/
theorem apply_fuse_arg {V : Type} (preds : Preds V) (read : CK → V)
    (hname : ∀ n p, preds n = some p → NameIndep p) (t : Tree CK) (ht : Tree.Unfused t) :
    applyFunc preds (Tree.map read (fuseKeyArg preds t)) = Tree.map (readThrough preds read) t := by
  cases t with
  | leaf k => simpa [Tree.map] using apply_fuse_leaf preds read hname k
  | list ts =>
    have := apply_relabel_leaves preds read hname ts ht
    simp only [fuseKeyArg, Tree.map, applyFunc, mapL_eq_map, applyFuncL_eq_map, List.map_map] at *
    simpa [Function.comp_def] using this
  | iter ts =>
    have := apply_relabel_leaves preds read hname ts ht
    simp only [fuseKeyArg, Tree.map, applyFunc, mapL_eq_map, applyFuncL_eq_map, List.map_map] at *
    simpa [Function.comp_def] using this
  | fargs o ts => exact absurd ht (by simp [Tree.Unfused])

/-- **Fusion correctness** (`fuse_multiple` / `fuse_blockwise_specs`): the fused spec computes, for
every output block, exactly what the unfused successor computes when each fused-away input block is
replaced by the value its predecessor would have written.  Predecessors are arbitrary specs (they may
themselves be fused), arguments may be single keys, lists or streams, repeated or not. -/
theorem fuse_multiple_correct {V R : Type} (s : BSpec V R) (preds : Preds V) (read : CK → V)
    (coords : List Nat)
    (hname : ∀ n p, preds n = some p → NameIndep p)
    (hs : ∀ t ∈ (s.keyfn ⟨"out", coords⟩).args, Tree.Unfused t) :
    evalSpec (fuseMultiple s preds) read coords = evalSpec s (readThrough preds read) coords := by
  unfold evalSpec fuseMultiple fusedFn fusedKeyFn
  simp only [mapL_eq_map, applyFuncL_eq_map, List.map_map]
  congr 1
  apply List.map_congr_left
  intro t ht
  simpa [Function.comp_def] using apply_fuse_arg preds read hname t (hs t ht)

/-- Fused key functions are again name-independent, so fusion can be iterated to any depth. -/
theorem fused_nameIndep {V R : Type} (s : BSpec V R) (preds : Preds V) (hs : NameIndep s) :
    NameIndep (fuseMultiple s preds) := by
  intro k
  have h := hs k
  simp only [fuseMultiple, fusedKeyFn]
  exact ⟨h.1, by rw [h.2]⟩

/-- Grouping is preserved: a list argument stays a list, a stream stays a stream, of the same length,
and a single key becomes a single nested call. -/
theorem fuseKeyArg_kind {V : Type} (preds : Preds V) (t : Tree CK) :
    match t, fuseKeyArg preds t with
    | .leaf _, .fargs _ _ => True
    | .list ts, .list us => us.length = ts.length
    | .iter ts, .iter us => us.length = ts.length
    | .fargs _ _, .fargs _ _ => True
    | _, _ => False := by
  cases t <;> simp [fuseKeyArg]

/-- Legacy pairwise fusion is correct when the successor reads one single key first. -/
theorem fuse_pair_correct {V R : Type} (s1 : BSpec V V) (s2 : BSpec V R) (read : CK → V)
    (coords : List Nat) (k : CK) (fa : FArgs CK)
    (h2 : (s2.keyfn ⟨"out", coords⟩).args = [.leaf k])
    (h1 : NameIndep s1)
    (hk : fusePairKey s1.keyfn s2.keyfn ⟨"out", coords⟩ = some fa) :
    s2.fn [.leaf (s1.fn (Tree.mapL read fa.args))]
      = evalSpec s2 (fun k' => if k' = k then evalSpec s1 read k.coords else read k') coords := by
  unfold fusePairKey at hk
  rw [h2] at hk
  simp only [Option.some.injEq] at hk
  subst hk
  unfold evalSpec
  rw [h2]
  simp [Tree.mapL, Tree.map, (h1 k).2]

end Cubed
