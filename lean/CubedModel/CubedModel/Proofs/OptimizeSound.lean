/-
  Link between the two layers of the optimizer model:

    structural layer  (Model/Optimize.lean, `Opt.canFuse` / `Opt.fusePreds` over `DagRec`; this is the
                       layer that is compared differentially with the real `can_fuse_predecessors` /
                       `fuse_predecessors` on every generated plan)
    semantic layer    (Model/Dag.lean, `fuseStep` over `List (Op V)`; `fuse_step_preserves`)

  `guards_imply_side_conditions`: when the structural guard answers True on a record dag that *describes*
  a semantic plan, the dag-shaped side conditions of the semantic theorem hold for exactly the ops the
  structural rewrite removes:
    * no op other than the fusing successor reads a removed array           (`StepOK.only`)
    * no requested array (`array_names`) is removed                         (`FuseSeq.step` premise)
    * every removed op has exactly one output                               (first half of `SingleOut`)
-/
import CubedModel.Proofs.Dag
import CubedModel.Proofs.Optimize

namespace Cubed.Opt

open Cubed Cubed.Dag

/-- The structural record `r` describes the semantic op `x`: same name, same outputs, and every
source array of `x` is an in-edge of `r` in the dag. -/
def Describes {V : Type} (r : OpRec) (x : Op V) : Prop :=
  r.name = x.name ∧ r.outputs = x.outputs ∧ ∀ m ∈ x.sources, r.inEdges.contains m = true

/-- The record dag `d` describes the semantic plan `ops`; op names identify records. -/
structure Shadow {V : Type} (d : DagRec) (ops : List (Op V)) : Prop where
  each : ∀ x ∈ ops, ∃ r ∈ d.ops, Describes r x
  recNames : ∀ r₁ ∈ d.ops, ∀ r₂ ∈ d.ops, r₁.name = r₂.name → r₁ = r₂

/-- names of the ops the structural rewrite removes (`fusePreds`: `removedOps`). -/
def removedOps (triples : List (OpRec × String × Bool)) : List String :=
  (triples.filter (·.2.2)).map (·.1.name)

/-- the corresponding selector on semantic ops (the `inP` argument of `fuseStep`). -/
def removedSel {V : Type} (triples : List (OpRec × String × Bool)) : Op V → Bool :=
  fun p => (removedOps triples).contains p.name

theorem poaAux_mem (d : DagRec) (srcs : List String) (triples : List (OpRec × String × Bool))
    (h : poaAux d srcs = some triples) : ∀ t ∈ triples, t.2.1 ∈ srcs := by
  induction srcs generalizing triples with
  | nil => simp [poaAux] at h; subst h; simp
  | cons a rest ih =>
    unfold poaAux at h
    cases hp : producer d a with
    | none => simp [hp] at h
    | some pre =>
      cases hr : poaAux d rest with
      | none => simp [hp, hr] at h
      | some r =>
        simp [hp, hr] at h
        subst h
        intro t ht
        rcases List.mem_cons.mp ht with rfl | ht
        · simp [poaEntry]
        · exact List.mem_cons_of_mem _ (ih r hr t ht)

theorem producer_mem (d : DagRec) (a : String) (p : OpRec) (h : producer d a = some p) :
    p ∈ d.ops ∧ p.outputs.contains a = true := by
  unfold producer at h
  exact ⟨List.mem_of_find?_eq_some h, by simpa using List.find?_some h⟩

theorem outputs_singleton (p : OpRec) (a : String) (hc : p.outputs.contains a = true)
    (hl : p.outputs.length ≤ 1) : p.outputs = [a] := by
  cases hp : p.outputs with
  | nil => simp [hp] at hc
  | cons x xs =>
    cases xs with
    | nil =>
      rw [hp] at hc
      have : a = x := by simpa using hc
      rw [this]
    | cons y ys => rw [hp] at hl; simp at hl

/-- A semantic op selected by `removedSel` is described by the record of one fusable triple, and its
only output is that triple's array. -/
theorem removed_is_triple {V : Type} (d : DagRec) (ops : List (Op V)) (hsh : Shadow d ops)
    (triples : List (OpRec × String × Bool))
    (hlen : ∀ t ∈ triples, t.1.outputs.length ≤ 1)
    (hprod : ∀ t ∈ triples, t.2.2 = true → producer d t.2.1 = some t.1)
    (p : Op V) (hp : p ∈ ops) (hsel : removedSel triples p = true) :
    ∃ t ∈ triples, t.2.2 = true ∧ p.outputs = [t.2.1] := by
  unfold removedSel removedOps at hsel
  have hmem : p.name ∈ (triples.filter (·.2.2)).map (·.1.name) := by simpa using hsel
  obtain ⟨t, ht, hname⟩ := List.mem_map.mp hmem
  obtain ⟨htm, ht2⟩ := List.mem_filter.mp ht
  obtain ⟨r, hr, hrn, hro, _⟩ := hsh.each p hp
  obtain ⟨htd, htc⟩ := producer_mem d t.2.1 t.1 (hprod t htm ht2)
  have : r = t.1 := hsh.recNames r hr t.1 htd (by rw [hrn, hname])
  refine ⟨t, htm, ht2, ?_⟩
  rw [← hro, this]
  exact outputs_singleton t.1 t.2.1 htc (hlen t htm)

theorem mem_outs_filter {V : Type} (l : List (Op V)) (f : Op V → Bool) (n : String)
    (h : n ∈ outs (l.filter f)) : ∃ p ∈ l, f p = true ∧ n ∈ p.outputs := by
  simp only [outs, List.mem_flatMap, List.mem_filter] at h
  obtain ⟨p, ⟨hp, hf⟩, hn⟩ := h
  exact ⟨p, hp, hf, hn⟩

theorem name_ne_of_nodup {V : Type} (pre : List (Op V)) (s : Op V) (post : List (Op V))
    (h : ((pre ++ s :: post).map (·.name)).Nodup) : ∀ x ∈ pre ++ post, x.name ≠ s.name := by
  intro x hx heq
  simp only [List.map_append, List.map_cons] at h
  rw [List.nodup_append] at h
  obtain ⟨_, h2, h3⟩ := h
  rcases List.mem_append.mp hx with hx | hx
  · exact h3 x.name (List.mem_map.mpr ⟨x, hx, rfl⟩) s.name (List.mem_cons_self) heq
  · rw [List.nodup_cons] at h2
    exact h2.1 (List.mem_map.mpr ⟨x, hx, heq⟩)

/-- **Structural guard ⇒ semantic side conditions.** -/
theorem guards_imply_side_conditions {V : Type} (d : DagRec) (o : OpRec) (ps : Params)
    (pre : List (Op V)) (s : Op V) (post : List (Op V))
    (triples : List (OpRec × String × Bool))
    (ho : o ∈ d.ops) (hdesc : Describes o s)
    (hsrc : ∀ a ∈ o.sources, o.inEdges.contains a = true)
    (hsh : Shadow d (pre ++ s :: post))
    (hnames : ((pre ++ s :: post).map (·.name)).Nodup)
    (hcan : canFuse d o ps = some true)
    (hpoa : poa d o = some triples) :
    (∀ x ∈ pre ++ post, ∀ m ∈ x.sources, m ∉ outs (pre.filter (removedSel triples))) ∧
    (∀ n ∈ ps.arrayNames, n ∉ outs (pre.filter (removedSel triples))) ∧
    (∀ p ∈ pre, removedSel triples p = true → ∃ n, p.outputs = [n]) := by
  obtain ⟨triples', hpoa', hreq, hlen, hfus⟩ := canFuse_guards d o ps hcan
  rw [hpoa] at hpoa'
  cases hpoa'
  have hprod : ∀ t ∈ triples, t.2.2 = true → producer d t.2.1 = some t.1 :=
    fun t ht h2 => (hfus t ht h2).1
  have hpre_sub : ∀ p ∈ pre, p ∈ pre ++ s :: post := fun p hp => List.mem_append_left _ hp
  -- every array written by a removed op is the array of a fusable triple
  have hremoved : ∀ n, n ∈ outs (pre.filter (removedSel triples)) →
      ∃ t ∈ triples, t.2.2 = true ∧ n = t.2.1 := by
    intro n hn
    obtain ⟨p, hp, hf, hnp⟩ := mem_outs_filter pre _ n hn
    obtain ⟨t, ht, ht2, hout⟩ := removed_is_triple d _ hsh triples hlen hprod p (hpre_sub p hp) hf
    rw [hout] at hnp
    exact ⟨t, ht, ht2, by simpa using hnp⟩
  refine ⟨?_, ?_, ?_⟩
  · intro x hx m hm hmo
    obtain ⟨t, ht, ht2, rfl⟩ := hremoved m hmo
    have hx' : x ∈ pre ++ s :: post := by
      rcases List.mem_append.mp hx with h | h
      · exact List.mem_append_left _ h
      · exact List.mem_append_right _ (List.mem_cons_of_mem _ h)
    obtain ⟨r, hr, hrn, _, hre⟩ := hsh.each x hx'
    have hoa : o.inEdges.contains t.2.1 = true := hsrc _ (poaAux_mem d o.sources triples hpoa t ht)
    have h1 : outDegreeUnique d t.2.1 = 1 := (hfus t ht ht2).2.2.2
    have : r = o := single_consumer d t.2.1 o r ho hr hoa (hre _ hm) h1
    have hne := name_ne_of_nodup pre s post hnames x hx
    apply hne
    rw [← hrn, this, hdesc.1]
  · intro n hn hno
    obtain ⟨t, ht, _, rfl⟩ := hremoved n hno
    have := hreq t ht
    have hc : ps.arrayNames.contains t.2.1 = true := by simpa using hn
    rw [hc] at this
    cases this
  · intro p hp hf
    obtain ⟨t, _, _, hout⟩ := removed_is_triple d _ hsh triples hlen hprod p (hpre_sub p hp) hf
    exact ⟨t.2.1, hout⟩

/-- **The structural rewrite never drops a requested array**: every array of `array_names` that some op of the dag
produces is still produced by an op of the rewritten dag (`fuse_predecessors` removes only ops whose single output is not
requested, and the fused op keeps the successor's outputs). -/
theorem fusePreds_keeps_requested (d d' : DagRec) (name : String) (ps : Params) (a : String)
    (hnames : ∀ r₁ ∈ d.ops, ∀ r₂ ∈ d.ops, r₁.name = r₂.name → r₁ = r₂)
    (ha : ps.arrayNames.contains a = true)
    (h : fusePreds d name ps = some d')
    (hp : ∃ q ∈ d.ops, q.outputs.contains a = true) :
    ∃ q' ∈ d'.ops, q'.outputs.contains a = true := by
  unfold fusePreds at h
  cases hf : findOp d name with
  | none => simp only [hf] at h; cases h; exact hp
  | some o =>
    simp only [hf] at h
    cases hc : canFuse d o ps with
    | none => simp only [hc] at h; cases h
    | some b =>
      cases b with
      | false => simp only [hc] at h; cases h; exact hp
      | true =>
        simp only [hc] at h
        cases hpo : poa d o with
        | none => simp only [hpo] at h; cases h
        | some triples =>
          simp only [hpo] at h
          cases h
          obtain ⟨triples', hpoa', hreq, hlen, hfus⟩ := canFuse_guards d o ps hc
          rw [hpo] at hpoa'
          cases hpoa'
          obtain ⟨q, hq, hqa⟩ := hp
          have ho : o ∈ d.ops ∧ (o.name == name) = true := by
            unfold findOp at hf
            exact ⟨List.mem_of_find?_eq_some hf, by simpa using List.find?_some hf⟩
          -- q is not among the removed ops
          have hkeep : ((triples.filter (·.2.2)).map (·.1.name)).contains q.name = false := by
            cases hcon : ((triples.filter (·.2.2)).map (·.1.name)).contains q.name with
            | false => rfl
            | true =>
              exfalso
              have hmem : q.name ∈ (triples.filter (·.2.2)).map (·.1.name) := by simpa using hcon
              obtain ⟨t, ht, hname⟩ := List.mem_map.mp hmem
              obtain ⟨htm, ht2⟩ := List.mem_filter.mp ht
              obtain ⟨htd, htc⟩ := producer_mem d t.2.1 t.1 ((hfus t htm ht2).1)
              have hqt : q = t.1 := hnames q hq t.1 htd hname.symm
              have hout := outputs_singleton t.1 t.2.1 htc (hlen t htm)
              rw [hqt, hout] at hqa
              have hat : a = t.2.1 := by simpa using hqa
              have := hreq t htm
              rw [← hat, ha] at this
              cases this
          by_cases hqn : (q.name == name) = true
          · -- q is the fusing op itself: replaced by the fused record, which keeps its outputs
            have hqo : q = o := hnames q hq o ho.1 (by
              have h1 : q.name = name := by simpa using hqn
              have h2 : o.name = name := by simpa using ho.2
              rw [h1, h2])
            refine ⟨_, List.mem_map.mpr ⟨q, List.mem_filter.mpr ⟨hq, by simp only [hkeep, Bool.not_false]⟩, rfl⟩, ?_⟩
            simp only [hqn, if_true]
            simp only [fuseRec]
            rw [← hqo]; exact hqa
          · refine ⟨q, List.mem_map.mpr ⟨q, List.mem_filter.mpr ⟨hq, by simp only [hkeep, Bool.not_false]⟩, ?_⟩, hqa⟩
            simp [hqn]

/-- Op names identify records (a networkx graph has one node per name). -/
def NamesUnique (d : DagRec) : Prop :=
  ∀ r₁ ∈ d.ops, ∀ r₂ ∈ d.ops, r₁.name = r₂.name → r₁ = r₂

/-- `fuse_predecessors` keeps op names unique: it drops records and replaces one record by a record of the same name. -/
theorem fusePreds_names_unique (d d' : DagRec) (name : String) (ps : Params)
    (hnames : NamesUnique d) (h : fusePreds d name ps = some d') : NamesUnique d' := by
  unfold fusePreds at h
  cases hf : findOp d name with
  | none => simp only [hf] at h; cases h; exact hnames
  | some o =>
    simp only [hf] at h
    cases hc : canFuse d o ps with
    | none => simp only [hc] at h; cases h
    | some b =>
      cases b with
      | false => simp only [hc] at h; cases h; exact hnames
      | true =>
        simp only [hc] at h
        cases hpo : poa d o with
        | none => simp only [hpo] at h; cases h
        | some triples =>
          simp only [hpo] at h
          cases h
          have ho : o ∈ d.ops ∧ (o.name == name) = true := by
            unfold findOp at hf
            exact ⟨List.mem_of_find?_eq_some hf, by simpa using List.find?_some hf⟩
          have hon : o.name = name := by simpa using ho.2
          intro r₁ hr₁ r₂ hr₂ hn
          obtain ⟨q₁, hq₁, rfl⟩ := List.mem_map.mp hr₁
          obtain ⟨q₂, hq₂, rfl⟩ := List.mem_map.mp hr₂
          have hq₁d := (List.mem_filter.mp hq₁).1
          have hq₂d := (List.mem_filter.mp hq₂).1
          -- the replacement keeps the name
          have hname : ∀ q : OpRec,
              (if (q.name == name) = true then
                { fuseRec o (triples.map (fun t => if t.2.2 then some t.1 else none)) with
                  inEdges := (o.inEdges.filter (fun a => !((triples.filter (·.2.2)).map (·.2.1)).contains a))
                    ++ (triples.filter (·.2.2)).flatMap (fun t => t.1.inEdges) }
               else q).name = q.name := by
            intro q
            by_cases hq : (q.name == name) = true
            · simp only [hq, if_true, fuseRec]
              have : q.name = name := by simpa using hq
              rw [this, hon]
            · simp [hq]
          have hqq : q₁ = q₂ := hnames q₁ hq₁d q₂ hq₂d (by rw [← hname q₁, ← hname q₂]; exact hn)
          rw [hqq]

/-- **The whole structural optimizer run never drops a requested array.** -/
theorem optimize_keeps_requested (order : List String) (d d' : DagRec) (ps : Params) (a : String)
    (hnames : NamesUnique d) (ha : ps.arrayNames.contains a = true)
    (h : optimize d order ps = some d')
    (hp : ∃ q ∈ d.ops, q.outputs.contains a = true) :
    (∃ q' ∈ d'.ops, q'.outputs.contains a = true) ∧ NamesUnique d' := by
  unfold optimize at h
  induction order generalizing d with
  | nil =>
    rw [List.foldlM_nil] at h
    cases h; exact ⟨hp, hnames⟩
  | cons n rest ih =>
    rw [List.foldlM_cons] at h
    cases h1 : (if n.startsWith "array-" = true then some d else fusePreds d n ps) with
    | none => rw [h1] at h; cases h
    | some d1 =>
      rw [h1] at h
      have hstep : (∃ q ∈ d1.ops, q.outputs.contains a = true) ∧ NamesUnique d1 := by
        by_cases hs : n.startsWith "array-" = true
        · rw [if_pos hs] at h1; cases h1; exact ⟨hp, hnames⟩
        · rw [if_neg hs] at h1
          exact ⟨fusePreds_keeps_requested d d1 n ps a hnames ha h1 hp, fusePreds_names_unique d d1 n ps hnames h1⟩
      exact ih d1 hstep.2 h hstep.1

end Cubed.Opt
