import CubedModel.Model.Blockwise

namespace Cubed.Bw

theorem lastIdx_lt (i : Nat) (l : List Nat) (p : Nat) (h : lastIdx i l = some p) : p < l.length := by
  induction l generalizing p with
  | nil => simp [lastIdx] at h
  | cons x xs ih =>
    unfold lastIdx at h
    cases hx : lastIdx i xs with
    | some q =>
      rw [hx] at h; simp at h; subst h
      have := ih q hx; simp; omega
    | none =>
      rw [hx] at h
      by_cases hxi : (x == i) = true
      · simp [hxi] at h; subst h; simp
      · simp [hxi] at h

theorem lastIdx_get (i : Nat) (l : List Nat) (p : Nat) (h : lastIdx i l = some p) : l[p]? = some i := by
  induction l generalizing p with
  | nil => simp [lastIdx] at h
  | cons x xs ih =>
    unfold lastIdx at h
    cases hx : lastIdx i xs with
    | some q =>
      rw [hx] at h; simp at h; subst h
      simpa using ih q hx
    | none =>
      rw [hx] at h
      by_cases hxi : (x == i) = true
      · simp [hxi] at h; subst h; simp at hxi; simp [hxi]
      · simp [hxi] at h

theorem lastIdx_none (i : Nat) (l : List Nat) (h : lastIdx i l = none) : i ∉ l := by
  induction l with
  | nil => simp
  | cons x xs ih =>
    unfold lastIdx at h
    cases hx : lastIdx i xs with
    | some q => rw [hx] at h; simp at h
    | none =>
      rw [hx] at h
      by_cases hxi : (x == i) = true
      · simp [hxi] at h
      · simp at hxi
        simp only [List.mem_cons, not_or]
        exact ⟨fun h' => hxi h'.symm, ih hx⟩

theorem firstIdx_some (i : Nat) (l : List Nat) (j : Nat) (h : firstIdx i l = some j) :
    l[j]? = some i := by
  induction l generalizing j with
  | nil => simp [firstIdx] at h
  | cons x xs ih =>
    unfold firstIdx at h
    by_cases hxi : (x == i) = true
    · simp [hxi] at h; subst h; simp at hxi; simp [hxi]
    · simp [hxi] at h
      obtain ⟨q, hq, rfl⟩ := h
      simpa using ih q hq

theorem firstIdx_none (i : Nat) (l : List Nat) (h : firstIdx i l = none) : i ∉ l := by
  induction l with
  | nil => simp
  | cons x xs ih =>
    unfold firstIdx at h
    by_cases hxi : (x == i) = true
    · simp [hxi] at h
    · simp [hxi] at h
      simp at hxi
      simp only [List.mem_cons, not_or]
      exact ⟨fun h' => hxi h'.symm, ih h⟩

theorem firstIdx_of_mem (i : Nat) (l : List Nat) (h : i ∈ l) : ∃ j, firstIdx i l = some j := by
  cases hf : firstIdx i l with
  | some j => exact ⟨j, rfl⟩
  | none => exact absurd h (firstIdx_none i l hf)

/-- Layout of the two-entries-per-dummy part of `coords`. -/
theorem pairs_even {α β : Type} (A B : α → β) (ds : List α) (j : Nat) :
    (ds.flatMap (fun d => [A d, B d]))[2 * j]? = (ds[j]?).map A := by
  induction ds generalizing j with
  | nil => simp
  | cons d ds ih =>
    cases j with
    | zero => simp
    | succ j =>
      have : 2 * (j + 1) = (2 * j) + 1 + 1 := by omega
      simp only [List.flatMap_cons, this]
      simpa using ih j

theorem pairs_odd {α β : Type} (A B : α → β) (ds : List α) (j : Nat) :
    (ds.flatMap (fun d => [A d, B d]))[2 * j + 1]? = (ds[j]?).map B := by
  induction ds generalizing j with
  | nil => simp
  | cons d ds ih =>
    cases j with
    | zero => simp
    | succ j =>
      have : 2 * (j + 1) + 1 = (2 * j + 1) + 1 + 1 := by omega
      simp only [List.flatMap_cons, this]
      simpa using ih j

theorem pairs_length {α β : Type} (A B : α → β) (ds : List α) :
    (ds.flatMap (fun d => [A d, B d])).length = 2 * ds.length := by
  induction ds with
  | nil => simp
  | cons d ds ih => simp [List.flatMap_cons, ih]; omega

/-- **The positional dask algebra equals the reference** for every index expression, every axis of
every argument and every out key of the right length: the entry looked up through
`index_pos` / `zero_pos` in the `coords` tuple is the reference entry.  In particular the result does
not depend on the iteration order of the `dummy_indices` set. -/
theorem entry_eq_ref (e : Expr) (dims : Nat → Nat) (out : List Nat) (i nb : Nat)
    (hlen : out.length = e.outInd.length) :
    entry e dims out i nb = refEntry e dims out i nb := by
  unfold entry refEntry indexPos zeroPos coordsArr
  have hlen1 : (List.map Ent.one out).length = e.outInd.length := by simp [hlen]
  cases hl : lastIdx i e.outInd with
  | some p =>
    have hp := lastIdx_lt i e.outInd p hl
    cases hnb : (nb == 1) with
    | true =>
      simp only [if_true]
      have hlen2 : (List.map Ent.one out ++
          (dummies e).flatMap (fun d => [Ent.many (List.range (dims d)), Ent.many (List.replicate (dims d) 0)])).length
          = e.outInd.length + 2 * (dummies e).length := by
        rw [List.length_append, pairs_length, hlen1]
      rw [List.getElem?_append_right (by omega)]
      simp [hlen2]
    | false =>
      simp only [Bool.false_eq_true, if_false]
      have : p < (List.map Ent.one out).length := by omega
      rw [List.append_assoc, List.getElem?_append_left this]
      simp
  | none =>
    cases hf : firstIdx i (dummies e) with
    | some j =>
      have hj := firstIdx_some i (dummies e) j hf
      have hmem : (dummies e).contains i = true := by
        simp only [List.contains_iff_mem]
        exact List.mem_of_getElem? hj
      have hjlt : j < (dummies e).length := by
        rcases List.getElem?_eq_some_iff.mp hj with ⟨h, _⟩; exact h
      simp only [hmem, if_true, Option.map_some]
      cases hnb : (nb == 1) with
      | true =>
        simp only [if_true]
        have h1 : 2 * j + 1 + e.outInd.length = (List.map Ent.one out).length + (2 * j + 1) := by
          omega
        rw [List.append_assoc, h1, List.getElem?_append_right (by omega)]
        simp only [Nat.add_sub_cancel_left]
        rw [List.getElem?_append_left (by rw [pairs_length]; omega)]
        rw [pairs_odd]; simp [hj]
      | false =>
        simp only [Bool.false_eq_true, if_false]
        have h1 : 2 * j + e.outInd.length = (List.map Ent.one out).length + 2 * j := by
          omega
        rw [List.append_assoc, h1, List.getElem?_append_right (by omega)]
        simp only [Nat.add_sub_cancel_left]
        rw [List.getElem?_append_left (by rw [pairs_length]; omega)]
        rw [pairs_even]; simp [hj]
    | none =>
      have hnm := firstIdx_none i (dummies e) hf
      have : (dummies e).contains i = false := by
        simpa [List.contains_iff_mem] using hnm
      simp only [this]
      simp


/-- If `_make_dims` succeeds, every argument has, along an axis labelled `i`, either one block
(broadcast) or exactly `dims[i]` blocks. -/
theorem dimOf_consistent (e : Expr) (i d nb : Nat) (hnew : e.newAxes.find? (fun p => p.1 == i) = none)
    (hd : dimOf e i = some d) (hmem : (i, nb) ∈ pairs e) : nb = 1 ∨ nb = d := by
  unfold dimOf at hd
  rw [hnew] at hd
  have hseen : nb ∈ seen e i := by
    unfold seen
    rw [List.mem_eraseDups]
    simp only [List.mem_map, List.mem_filter]
    exact ⟨(i, nb), ⟨hmem, by simp⟩, rfl⟩
  simp only at hd
  by_cases hlen : (seen e i).length > 1
  · simp only [hlen, if_true] at hd
    by_cases h1 : nb = 1
    · exact Or.inl h1
    · right
      have : nb ∈ (seen e i).filter (· != 1) := by
        simp [List.mem_filter, hseen, h1]
      split at hd
      · rename_i v heq
        rw [heq] at this
        simp at this
        simp at hd
        omega
      · simp at hd
  · simp only [hlen, if_false] at hd
    split at hd
    · rename_i v heq
      rw [heq] at hseen
      simp at hseen
      simp at hd
      right; omega
    · simp at hd

/-- **Keys stay in bounds**: for an out key inside the output block grid, the coordinate chosen for a
non-contracted axis of an argument is a valid block index of that argument. -/
theorem refCoord_in_bounds (e : Expr) (dims : Nat → Nat) (out : List Nat) (i nb c : Nat)
    (hnb : nb = 1 ∨ nb = dims i)
    (hout : ∀ (p v : Nat), e.outInd[p]? = some i → out[p]? = some v → v < dims i)
    (hc : refCoord e out i nb = some c) : c < nb := by
  unfold refCoord at hc
  by_cases h1 : (nb == 1) = true
  · simp [h1] at hc; simp at h1; omega
  · simp only [h1] at hc
    cases hl : lastIdx i e.outInd with
    | none => simp [hl] at hc
    | some p =>
      simp only [hl] at hc
      have := hout p c (lastIdx_get i e.outInd p hl) hc
      simp at h1
      omega

end Cubed.Bw
