import CubedModel.Model.Dag
import CubedModel.Proofs.Fusion

namespace Cubed.Dag

open Cubed

/-! ### map depends only on the leaves -/

mutual
theorem map_congr_leaves {α β : Type} (f g : α → β) :
    (t : Tree α) → (∀ k ∈ Tree.leaves t, f k = g k) → Tree.map f t = Tree.map g t
  | .leaf a, h => by simp [Tree.map, h a (by simp [Tree.leaves])]
  | .list ts, h => by
      simp only [Tree.map]; rw [mapL_congr_leaves f g ts (by simpa [Tree.leaves] using h)]
  | .iter ts, h => by
      simp only [Tree.map]; rw [mapL_congr_leaves f g ts (by simpa [Tree.leaves] using h)]
  | .fargs o ts, h => by
      simp only [Tree.map]; rw [mapL_congr_leaves f g ts (by simpa [Tree.leaves] using h)]
theorem mapL_congr_leaves {α β : Type} (f g : α → β) :
    (ts : List (Tree α)) → (∀ k ∈ Tree.leavesL ts, f k = g k) → Tree.mapL f ts = Tree.mapL g ts
  | [], _ => by simp [Tree.mapL]
  | t :: ts, h => by
      simp only [Tree.mapL]
      rw [map_congr_leaves f g t (fun k hk => h k (by simp [Tree.leavesL, hk])),
          mapL_congr_leaves f g ts (fun k hk => h k (by simp [Tree.leavesL, hk]))]
end

theorem evalSpec_congr {V : Type} (o : Op V) (env env' : CK → V) (c : List Nat)
    (hr : ReadsFrom o) (h : ∀ k : CK, k.name ∈ o.sources → env k = env' k) :
    evalSpec o.spec env c = evalSpec o.spec env' c := by
  unfold evalSpec
  rw [mapL_congr_leaves env env' _ (fun k hk => h k (hr c k hk))]

/-! ### frame and congruence of `writeOp` / `denote` -/

theorem idxOf?_none (n : String) (l : List String) (h : n ∉ l) : idxOf? n l = none := by
  induction l with
  | nil => rfl
  | cons x xs ih =>
    simp only [List.mem_cons, not_or] at h
    have hx : ¬ x = n := fun e => h.1 e.symm
    simp [idxOf?, hx, ih h.2]

theorem writeOp_frame {V : Type} (o : Op V) (env : CK → V) (k : CK) (h : k.name ∉ o.outputs) :
    writeOp o env k = env k := by
  unfold writeOp; rw [idxOf?_none _ _ h]

theorem denote_append {V : Type} (a b : List (Op V)) (base : CK → V) :
    denote (a ++ b) base = denote b (denote a base) := by
  unfold denote; rw [List.foldl_append]

theorem denote_cons {V : Type} (o : Op V) (l : List (Op V)) (base : CK → V) :
    denote (o :: l) base = denote l (writeOp o base) := rfl

theorem denote_frame {V : Type} (l : List (Op V)) (env : CK → V) (k : CK) (h : k.name ∉ outs l) :
    denote l env k = env k := by
  induction l generalizing env with
  | nil => rfl
  | cons o rest ih =>
    rw [denote_cons]
    have h1 : k.name ∉ o.outputs := fun hm => h (by simp [outs, hm])
    have h2 : k.name ∉ outs rest := fun hm => h (by
      simp only [outs, List.flatMap_cons, List.mem_append]; exact Or.inr hm)
    rw [ih _ h2, writeOp_frame _ _ _ h1]

/-- A (non-removed) op preserves agreement outside `S` if it reads nothing in `S`. -/
theorem writeOp_congr {V : Type} (S : List String) (o : Op V) (env env' : CK → V)
    (ha : Agree S env env') (hs : ∀ n ∈ o.sources, n ∉ S) (hr : ReadsFrom o) :
    Agree S (writeOp o env) (writeOp o env') := by
  intro k hk
  unfold writeOp
  rw [evalSpec_congr o env env' k.coords hr (fun k' hk' => ha k' (hs _ hk')), ha k hk]

/-- A removed op only touches arrays in `S`. -/
theorem writeOp_removed {V : Type} (S : List String) (o : Op V) (env env' : CK → V)
    (ha : Agree S env env') (ho : ∀ n ∈ o.outputs, n ∈ S) : Agree S (writeOp o env) env' := by
  intro k hk
  rw [writeOp_frame _ _ _ (fun hm => hk (ho _ hm))]
  exact ha k hk

theorem denote_congr {V : Type} (S : List String) (l : List (Op V)) (env env' : CK → V)
    (ha : Agree S env env')
    (hl : ∀ o ∈ l, (∀ n ∈ o.sources, n ∉ S) ∧ ReadsFrom o) :
    Agree S (denote l env) (denote l env') := by
  induction l generalizing env env' with
  | nil => exact ha
  | cons o rest ih =>
    rw [denote_cons, denote_cons]
    have ho := hl o (by simp)
    exact ih _ _ (writeOp_congr S o env env' ha ho.1 ho.2) (fun o' ho' => hl o' (by simp [ho']))

/-- Dropping ops whose outputs nobody (kept) reads leaves every other array unchanged. -/
theorem denote_drop {V : Type} (S : List String) (inP : Op V → Bool) (l : List (Op V))
    (env env' : CK → V) (ha : Agree S env env')
    (hP : ∀ o ∈ l, inP o = true → ∀ n ∈ o.outputs, n ∈ S)
    (hK : ∀ o ∈ l, inP o = false → (∀ n ∈ o.sources, n ∉ S) ∧ ReadsFrom o) :
    Agree S (denote l env) (denote (l.filter (fun o => !inP o)) env') := by
  induction l generalizing env env' with
  | nil => exact ha
  | cons o rest ih =>
    rw [denote_cons]
    cases h : inP o with
    | true =>
      simp only [List.filter_cons, h, Bool.not_true, Bool.false_eq_true, if_false]
      exact ih _ _ (writeOp_removed S o env env' ha (hP o (by simp) h))
        (fun o' ho' => hP o' (by simp [ho'])) (fun o' ho' => hK o' (by simp [ho']))
    | false =>
      simp only [List.filter_cons, h, Bool.not_false, if_true]
      rw [denote_cons]
      have hk := hK o (by simp) h
      exact ih _ _ (writeOp_congr S o env env' ha hk.1 hk.2)
        (fun o' ho' => hP o' (by simp [ho'])) (fun o' ho' => hK o' (by simp [ho']))

theorem topo_suffix {V : Type} (a b : List (Op V)) (h : Topo (a ++ b)) : Topo b := by
  induction a with
  | nil => simpa using h
  | cons o rest ih => exact ih h.2

theorem topo_prefix {V : Type} (a b : List (Op V)) (h : Topo (a ++ b)) : Topo a := by
  induction a with
  | nil => trivial
  | cons o rest ih =>
    refine ⟨fun n hn hm => h.1 n hn ?_, ih h.2⟩
    simp only [outs, List.flatMap_cons, List.mem_append] at hm
    show n ∈ outs (o :: (rest ++ b))
    simp only [outs, List.flatMap_cons, List.flatMap_append, List.mem_append]
    rcases hm with h' | h'
    · exact Or.inl h'
    · exact Or.inr (Or.inl h')

theorem outs_append {V : Type} (a b : List (Op V)) : outs (a ++ b) = outs a ++ outs b := by
  simp [outs]

theorem outs_cons {V : Type} (o : Op V) (l : List (Op V)) : outs (o :: l) = o.outputs ++ outs l := by
  simp [outs]

theorem idxOf?_head (n : String) (rest : List String) : idxOf? n (n :: rest) = some 0 := by
  simp [idxOf?]

/-- The value stored for a removed array is what its producer computes from the *surviving* store. -/
theorem removed_value {V : Type} (S : List String) (inP : Op V → Bool) (pre : List (Op V))
    (base : CK → V) (p : Op V) (n : String) (c : List Nat)
    (hp : p ∈ pre) (hso : SingleOut p n)
    (hnodup : (outs pre).Nodup) (htopo : Topo pre)
    (hreads : ∀ o ∈ pre, ReadsFrom o)
    (hP : ∀ o ∈ pre, inP o = true → ∀ m ∈ o.outputs, m ∈ S)
    (honly : ∀ o ∈ pre, ∀ m ∈ o.sources, m ∉ S) :
    denote pre base ⟨n, c⟩ = evalSpec p.spec (denote (pre.filter (fun o => !inP o)) base) c := by
  obtain ⟨l1, l2, rfl⟩ := List.append_of_mem hp
  have hagree : Agree S (denote (l1 ++ p :: l2) base)
      (denote ((l1 ++ p :: l2).filter (fun o => !inP o)) base) :=
    denote_drop S inP _ base base (fun _ _ => rfl) hP
      (fun o ho _ => ⟨honly o ho, hreads o ho⟩)
  -- n is written by p only
  have hn_l2 : n ∉ outs l2 := by
    rw [outs_append, outs_cons, hso.1] at hnodup
    have := (List.nodup_append.mp hnodup).2.1
    have h2 := (List.nodup_append.mp this).2.2
    intro hm
    exact h2 n (by simp) n hm rfl
  rw [denote_append, denote_cons, denote_frame l2 _ _ (by simpa using hn_l2)]
  have : writeOp p (denote l1 base) ⟨n, c⟩ = evalSpec p.spec (denote l1 base) c := by
    unfold writeOp
    simp only [hso.1, idxOf?_head, hso.2]
  rw [this]
  apply evalSpec_congr p _ _ c (hreads p hp)
  intro k hk
  have hkS : k.name ∉ S := honly p hp _ hk
  have ht : Topo (p :: l2) := topo_suffix l1 _ htopo
  have hk_out : k.name ∉ outs (p :: l2) := ht.1 _ hk
  rw [← hagree k hkS, denote_append, denote_frame (p :: l2) _ _ hk_out]

theorem find_outputs {V : Type} (P : List (Op V)) (n : String) :
    (∀ p, P.find? (fun p => p.outputs == [n]) = some p → p ∈ P ∧ p.outputs = [n]) := by
  intro p hp
  have h1 := List.mem_of_find?_eq_some hp
  have h2 := List.find?_some hp
  exact ⟨h1, by simpa using h2⟩

/-- **One optimizer step preserves the value of every surviving array** (`fuse_predecessors`):
if the removed predecessors are single-output ops located before `s` whose arrays are read by no
other op, then every array other than the removed ones holds the same blocks after executing the
rewritten plan as after executing the original one. -/
theorem fuse_step_preserves {V : Type} (pre : List (Op V)) (s : Op V) (post : List (Op V))
    (inP : Op V → Bool) (newSources : List String) (base : CK → V)
    (hnodup : (outs (pre ++ s :: post)).Nodup)
    (htopo : Topo (pre ++ s :: post))
    (hreads : ∀ o ∈ pre ++ s :: post, ReadsFrom o)
    (hsingle : ∀ p ∈ pre, inP p = true → ∃ n, SingleOut p n ∧ NameIndep p.spec)
    (honly : ∀ o ∈ pre ++ post, ∀ m ∈ o.sources, m ∉ outs (pre.filter inP))
    (hunf : ∀ c, ∀ t ∈ (s.spec.keyfn ⟨"out", c⟩).args, Tree.Unfused t) :
    Agree (outs (pre.filter inP))
      (denote (pre ++ s :: post) base)
      (denote (fuseStep pre s post inP newSources) base) := by
  let S := outs (pre.filter inP)
  have hPre_nodup : (outs pre).Nodup := by
    rw [outs_append] at hnodup; exact (List.nodup_append.mp hnodup).1
  have hPre_topo : Topo pre := topo_prefix pre _ htopo
  have hP_out : ∀ o ∈ pre, inP o = true → ∀ m ∈ o.outputs, m ∈ S := by
    intro o ho hin m hm
    show m ∈ outs (pre.filter inP)
    simp only [outs, List.mem_flatMap, List.mem_filter]
    exact ⟨o, ⟨ho, hin⟩, hm⟩
  have hreads_pre : ∀ o ∈ pre, ReadsFrom o := fun o ho => hreads o (by simp [ho])
  have honly_pre : ∀ o ∈ pre, ∀ m ∈ o.sources, m ∉ S := fun o ho => honly o (by simp [ho])
  have h0 : Agree S (denote pre base) (denote (pre.filter (fun o => !inP o)) base) :=
    denote_drop S inP pre base base (fun _ _ => rfl) hP_out
      (fun o ho _ => ⟨honly_pre o ho, hreads_pre o ho⟩)
  -- reading through the removed predecessors from the surviving store = reading the full store
  have hrt : readThrough (predsOf (pre.filter inP)) (denote (pre.filter (fun o => !inP o)) base)
      = denote pre base := by
    funext k
    unfold readThrough predsOf
    cases hf : (pre.filter inP).find? (fun p => p.outputs == [k.name]) with
    | none =>
      simp only [Option.map_none]
      have hk : k.name ∉ S := by
        intro hm
        simp only [S, outs, List.mem_flatMap] at hm
        obtain ⟨p, hpP, hpk⟩ := hm
        have hpin := List.mem_filter.mp hpP
        obtain ⟨n, hso, _⟩ := hsingle p hpin.1 hpin.2
        rw [hso.1] at hpk
        simp only [List.mem_singleton] at hpk
        have := List.find?_eq_none.mp hf p hpP
        simp [hso.1, hpk] at this
      exact (h0 k hk).symm
    | some p =>
      simp only [Option.map_some]
      obtain ⟨hpP, hpo⟩ := find_outputs _ _ p hf
      have hpin := List.mem_filter.mp hpP
      obtain ⟨n, hso, _⟩ := hsingle p hpin.1 hpin.2
      have hn : n = k.name := by
        have := hso.1; rw [hpo] at this; simpa using this.symm
      have := removed_value S inP pre base p n k.coords hpin.1 hso hPre_nodup hPre_topo hreads_pre
        hP_out honly_pre
      rw [← this, hn]
  have hnameP : ∀ n p, predsOf (pre.filter inP) n = some p → NameIndep p := by
    intro n p hp
    unfold predsOf at hp
    cases hf : (pre.filter inP).find? (fun p => p.outputs == [n]) with
    | none => simp [hf] at hp
    | some q =>
      simp only [hf, Option.map_some, Option.some.injEq] at hp
      subst hp
      obtain ⟨hqP, _⟩ := find_outputs _ _ q hf
      have hqin := List.mem_filter.mp hqP
      obtain ⟨_, _, hni⟩ := hsingle q hqin.1 hqin.2
      exact hni
  -- the step at `s`
  have h1 : Agree S (writeOp s (denote pre base))
      (writeOp (fuseOp s (pre.filter inP) newSources) (denote (pre.filter (fun o => !inP o)) base)) := by
    intro k hk
    unfold writeOp fuseOp
    simp only
    rw [fuse_multiple_correct s.spec _ _ k.coords hnameP (hunf k.coords), hrt, h0 k hk]
  -- the suffix
  have h2 := denote_congr S post _ _ h1
    (fun o ho => ⟨honly o (by simp [ho]), hreads o (by simp [ho])⟩)
  unfold fuseStep
  rw [denote_append, denote_cons, denote_append, denote_cons]
  exact h2

end Cubed.Dag
