/-
  Helper lemmas for C17 (see Model/Validate.lean).  Core tactics only.
-/
import CubedModel.Model.Validate

namespace Cubed.Validate

/-! ## chunk grid arithmetic -/

theorem le_cdiv_mul (n c : Nat) (hc : 0 < c) : n ≤ (n + c - 1) / c * c := by
  have h := Nat.lt_div_mul_add (a := n + c - 1) hc
  omega

/-- an element position inside the axis lies in an existing block. -/
theorem pos_block_lt (n c p : Nat) (hc : 0 < c) (hp : p < n) : p / c < nblocks n c := by
  have hn : n ≠ 0 := by omega
  simp only [nblocks, hn, if_false]
  rw [Nat.div_lt_iff_lt_mul hc]
  have := le_cdiv_mul n c hc
  omega

theorem nblocks_pos (n c : Nat) (hc : 0 < c) : 0 < nblocks n c := by
  unfold nblocks
  split
  · omega
  · rename_i hn
    have : c ≤ n + c - 1 := by omega
    exact Nat.div_pos this hc

/-- a block index below `nblocks` starts inside the axis (for a non-empty axis). -/
theorem block_start_lt (n c b : Nat) (hc : 0 < c) (hn : 0 < n) (hb : b < nblocks n c) : b * c < n := by
  have hn' : n ≠ 0 := by omega
  simp only [nblocks, hn', if_false] at hb
  have h1 : (b + 1) ≤ (n + c - 1) / c := hb
  have h2 : (b + 1) * c ≤ n + c - 1 := (Nat.le_div_iff_mul_le hc).mp h1
  have : (b + 1) * c = b * c + c := by rw [Nat.add_mul, Nat.one_mul]
  omega

theorem mem_sliceBlocks (c a b k : Nat) (h : k ∈ sliceBlocks c a b) : a / c ≤ k ∧ k ≤ (b - 1) / c := by
  simp only [sliceBlocks, List.mem_range'_1] at h
  omega

/-- the blocks met by a non-empty unit-step slice inside the axis all exist. -/
theorem sliceBlocks_lt (n c a b : Nat) (hc : 0 < c) (hab : a < b) (hbn : b ≤ n) :
    ∀ k ∈ sliceBlocks c a b, k < nblocks n c := by
  intro k hk
  have h := (mem_sliceBlocks c a b k hk).2
  have h2 : (b - 1) / c < nblocks n c := pos_block_lt n c (b - 1) hc (by omega)
  omega

theorem sliceBlocks_ne_nil (c a b : Nat) (hab : a < b) : sliceBlocks c a b ≠ [] := by
  intro h
  have h1 : a / c ≤ (b - 1) / c := Nat.div_le_div_right (by omega)
  have hm : a / c ∈ sliceBlocks c a b := by
    simp only [sliceBlocks, List.mem_range'_1]; omega
  rw [h] at hm
  cases hm

/-! ## partial_reduce -/

theorem prKeys_mem (nb k bi j : Nat) (h : j ∈ prKeys nb k bi) : bi * k ≤ j ∧ j < min ((bi + 1) * k) nb := by
  simp only [prKeys, List.mem_range'_1] at h
  omega

theorem prKeys_lt (nb k bi j : Nat) (h : j ∈ prKeys nb k bi) : j < nb := by
  have := (prKeys_mem nb k bi j h).2
  omega

theorem pr_start_lt (nb k bi : Nat) (hk : 0 < k) (hbi : bi < prOutBlocks nb k) : bi * k < nb := by
  unfold prOutBlocks at hbi
  have h1 : bi + 1 ≤ (nb + k - 1) / k := hbi
  have h2 : (bi + 1) * k ≤ nb + k - 1 := (Nat.le_div_iff_mul_le hk).mp h1
  have : (bi + 1) * k = bi * k + k := by rw [Nat.add_mul, Nat.one_mul]
  omega

theorem prKeys_ne_nil (nb k bi : Nat) (hk : 0 < k) (hbi : bi < prOutBlocks nb k) : prKeys nb k bi ≠ [] := by
  have hs := pr_start_lt nb k bi hk hbi
  have h1 : (bi + 1) * k = bi * k + k := by rw [Nat.add_mul, Nat.one_mul]
  intro h
  have hm : bi * k ∈ prKeys nb k bi := by
    simp only [prKeys, List.mem_range'_1]; omega
  rw [h] at hm
  cases hm

/-! ## repeat -/

theorem repeat_key_lt (n c r bi : Nat) (hc : 0 < c) (hr : 0 < r) (hbi : bi < nblocks (n * r) c) :
    bi / r < nblocks n c := by
  by_cases hn : n = 0
  · subst hn
    have hb : bi = 0 := by simpa [nblocks] using hbi
    subst hb
    simp [nblocks]
  · have hnr : 0 < n * r := Nat.mul_pos (by omega) hr
    have h1 : bi * c < n * r := block_start_lt (n * r) c bi hc hnr hbi
    -- (bi / r) * c < n
    have h2 : bi / r * r ≤ bi := Nat.div_mul_le_self bi r
    have h3 : bi / r * c * r ≤ bi * c := by
      calc bi / r * c * r = bi / r * r * c := by rw [Nat.mul_assoc, Nat.mul_comm c r, ← Nat.mul_assoc]
        _ ≤ bi * c := Nat.mul_le_mul_right c h2
    have h4 : bi / r * c * r < n * r := Nat.lt_of_le_of_lt h3 h1
    have h5 : bi / r * c < n := Nat.lt_of_mul_lt_mul_right h4
    have h6 := pos_block_lt n c (bi / r * c) hc h5
    rwa [Nat.mul_div_cancel _ hc] at h6

/-! ## scan -/

theorem scanBuildOld_some (s fuel len nb r : Nat) (h : scanBuildOld s fuel len nb = some r) : r = len := by
  cases fuel with
  | zero =>
    simp only [scanBuildOld] at h
    split at h
    · injection h with h; exact h.symm
    · cases h
  | succ f =>
    simp only [scanBuildOld] at h
    split at h
    · injection h with h; exact h.symm
    · split at h
      · cases h
      · split at h
        · injection h with h; exact h.symm
        · cases h

/-- more than `s` blocks, not a multiple of `s`: the assertion fails whatever the fuel. -/
theorem scanBuildOld_fails (s fuel len nb : Nat) (hs : 0 < s) (hgt : s < nb) (hmod : nb % s ≠ 0) :
    scanBuildOld s fuel len nb = none := by
  cases fuel with
  | zero =>
    have : nb ≠ 1 := by omega
    simp [scanBuildOld, this]
  | succ f =>
    have h1 : nb ≠ 1 := by omega
    have hmin : min s nb = s := by omega
    simp only [scanBuildOld, h1, if_false, hmin]
    cases hr : scanBuildOld s f (s * ((nb + s - 1) / s)) ((nb + s - 1) / s) with
    | none => rfl
    | some r =>
      have hr'   := scanBuildOld_some _ _ _ _ _ hr
      subst hr'
      have hne : s * ((nb + s - 1) / s) ≠ nb := by
        intro he
        apply hmod
        rw [← he]
        exact Nat.mul_mod_right s _
      simp [hne]

/-- at most `s` blocks (and at least one): accepted. -/
theorem scanBuildOld_small (s fuel len nb : Nat) (h1 : 1 ≤ nb) (hle : nb ≤ s) :
    scanBuildOld s (fuel + 1) len nb = some len := by
  by_cases hnb : nb = 1
  · simp [scanBuildOld, hnb]
  · have hmin : min s nb = nb := by omega
    have hdiv : (nb + nb - 1) / nb = 1 := by
      apply Nat.div_eq_of_lt_le <;> omega
    simp only [scanBuildOld, hnb, if_false, hmin, hdiv, Nat.mul_one]
    cases fuel with
    | zero => simp [scanBuildOld]
    | succ f => simp [scanBuildOld]

/-- an exact multiple of `s`: accepted iff the recursive call on `nb / s` blocks is. -/
theorem scanBuildOld_multiple (s fuel len q : Nat) (hs : 1 < s) (hq : 1 ≤ q) :
    scanBuildOld s (fuel + 1) len (s * q) = (scanBuildOld s fuel (s * q) q).map (fun _ => len) := by
  have h1 : s * q ≠ 1 := by
    intro h
    have : s ≤ s * q := Nat.le_mul_of_pos_right s hq
    omega
  have hsq : s ≤ s * q := Nat.le_mul_of_pos_right s hq
  have hmin : min s (s * q) = s := by omega
  have hdiv : (s * q + s - 1) / s = q := by
    apply Nat.div_eq_of_lt_le
    · rw [Nat.mul_comm q s]; omega
    · have : (q + 1) * s = s * q + s := by rw [Nat.add_mul, Nat.one_mul, Nat.mul_comm]
      omega
  simp only [scanBuildOld, h1, if_false, hmin, hdiv]
  cases hr : scanBuildOld s fuel (s * q) q with
  | none => rfl
  | some r =>
    have   := scanBuildOld_some _ _ _ _ _ hr
    subst this
    simp

/-- the increment block read by out block `bi` exists and the slot inside it is in range. -/
theorem scan_lookup_small (s nb bi : Nat) (hle : nb ≤ s) (hbi : bi < nb) :
    scanIncKey s bi < (nb + min s nb - 1) / min s nb ∧ scanIncSlot s bi < min s nb := by
  have hmin : min s nb = nb := by omega
  have hdiv : (nb + nb - 1) / nb = 1 := by
    apply Nat.div_eq_of_lt_le <;> omega
  have h0 : bi / s = 0 := Nat.div_eq_of_lt (by omega)
  have h1 : bi % s = bi := Nat.mod_eq_of_lt (by omega)
  simp only [scanIncKey, scanIncSlot, hmin, hdiv, h0, h1]
  omega

theorem scan_lookup_multiple (s q bi : Nat) (hs : 0 < s) (hq : 1 ≤ q) (hbi : bi < s * q) :
    scanIncKey s bi < (s * q + min s (s * q) - 1) / min s (s * q) ∧ scanIncSlot s bi < min s (s * q) := by
  have hsq : s ≤ s * q := Nat.le_mul_of_pos_right s hq
  have hmin : min s (s * q) = s := by omega
  have hdiv : (s * q + s - 1) / s = q := by
    apply Nat.div_eq_of_lt_le
    · rw [Nat.mul_comm q s]; omega
    · have : (q + 1) * s = s * q + s := by rw [Nat.add_mul, Nat.one_mul, Nat.mul_comm]
      omega
  simp only [scanIncKey, scanIncSlot, hmin, hdiv]
  constructor
  · rw [Nat.div_lt_iff_lt_mul hs, Nat.mul_comm]; exact hbi
  · exact Nat.mod_lt _ hs

/-! ## scan (repaired): the declared sizes of `reduced` add up to the number of blocks -/

theorem sum_replicate (k v : Nat) : (List.replicate k v).sum = k * v := by
  induction k with
  | zero => simp
  | succ n ih => rw [List.replicate_succ, List.sum_cons, ih, Nat.succ_mul]; omega

theorem reducedSizes_sum (ss nb : Nat) : (reducedSizes ss nb).sum = nb := by
  unfold reducedSizes
  rw [List.sum_append, sum_replicate]
  have := Nat.div_add_mod' nb ss
  split
  · rename_i h; simp; omega
  · simp; omega

theorem reducedSizes_length (ss nb : Nat) :
    (reducedSizes ss nb).length = nb / ss + (if nb % ss = 0 then 0 else 1) := by
  unfold reducedSizes
  split <;> simp

theorem scanBuild_some (s fuel len nb r : Nat) (h : scanBuild s fuel len nb = some r) : r = len := by
  cases fuel with
  | zero =>
    simp only [scanBuild] at h
    split at h
    · injection h with h; exact h.symm
    · cases h
  | succ f =>
    simp only [scanBuild] at h
    split at h
    · injection h with h; exact h.symm
    · split at h
      · cases h
      · split at h
        · injection h with h; exact h.symm
        · cases h

/-- with `split_every = 5` the repaired scan is accepted for every block count (enough fuel = `nb - 1` levels). -/
theorem scanBuild_total (fuel len nb : Nat) (h1 : 1 ≤ nb) (hf : nb ≤ fuel + 1) :
    scanBuild 5 fuel len nb = some len := by
  induction fuel generalizing len nb with
  | zero =>
    have : nb = 1 := by omega
    simp [scanBuild, this]
  | succ f ih =>
    by_cases hnb : nb = 1
    · simp [scanBuild, hnb]
    · simp only [scanBuild, hnb, if_false]
      have hsum := reducedSizes_sum (min 5 nb) nb
      have hlen := reducedSizes_length (min 5 nb) nb
      have hl1 : 1 ≤ (reducedSizes (min 5 nb) nb).length ∧ (reducedSizes (min 5 nb) nb).length ≤ f + 1 := by
        rw [hlen]
        by_cases h5 : nb ≤ 5
        · have hm : min 5 nb = nb := by omega
          rw [hm, Nat.div_self (by omega), Nat.mod_self]
          simp
        · have hm : min 5 nb = 5 := by omega
          rw [hm]
          split <;> omega
      rw [ih _ _ hl1.1 hl1.2, hsum]
      simp

/-- the increment block `bi // 5` exists and the slot `bi % 5` lies inside it (its declared size). -/
theorem scan_lookup (nb bi : Nat) (hbi : bi < nb) :
    ∃ sz, (reducedSizes (min 5 nb) nb)[scanIncKey 5 bi]? = some sz ∧ scanIncSlot 5 bi < sz := by
  unfold scanIncKey scanIncSlot reducedSizes
  by_cases h5 : nb ≤ 5
  · have hm : min 5 nb = nb := by omega
    have h0 : bi / 5 = 0 := by omega
    rw [hm, Nat.div_self (by omega), Nat.mod_self, h0]
    refine ⟨nb, by simp, by omega⟩
  · have hm : min 5 nb = 5 := by omega
    rw [hm]
    by_cases hin : bi / 5 < nb / 5
    · refine ⟨5, ?_, by omega⟩
      rw [List.getElem?_append_left (by simpa using hin)]
      simp [hin]
    · have heq : bi / 5 = nb / 5 := by omega
      have hne : nb % 5 ≠ 0 := by omega
      refine ⟨nb % 5, ?_, by omega⟩
      rw [List.getElem?_append_right (by simp; omega)]
      simp [hne, heq]

/-! ## concat: offsets, bisect, _array_slices -/

theorem offsetsFrom_length (base : Nat) (sizes : List Nat) : (offsetsFrom base sizes).length = sizes.length + 1 := by
  induction sizes generalizing base with
  | nil => rfl
  | cons s rest ih => simp [offsetsFrom, ih]

theorem offsetsFrom_head (base : Nat) (sizes : List Nat) : (offsetsFrom base sizes)[0]? = some base := by
  cases sizes <;> simp [offsetsFrom]

/-- consecutive offsets differ by the array size. -/
theorem offsetsFrom_succ (base : Nat) (sizes : List Nat) (i lo : Nat) (hlo : (offsetsFrom base sizes)[i]? = some lo)
    (hi : i < sizes.length) : (offsetsFrom base sizes)[i + 1]? = some (lo + sizes[i]) := by
  induction sizes generalizing base i lo with
  | nil => simp at hi
  | cons s rest ih =>
    cases i with
    | zero =>
      simp only [offsetsFrom, List.getElem?_cons_zero, Option.some.injEq] at hlo
      subst hlo
      simp only [offsetsFrom, List.getElem?_cons_succ, List.getElem_cons_zero]
      exact offsetsFrom_head _ _
    | succ j =>
      simp only [offsetsFrom, List.getElem?_cons_succ] at hlo
      have hj : j < rest.length := by simpa using hi
      have := ih (base + s) j lo hlo hj
      simpa [offsetsFrom] using this

theorem offsetsFrom_ge (base : Nat) (sizes : List Nat) (i v : Nat) (h : (offsetsFrom base sizes)[i]? = some v) :
    base ≤ v := by
  induction sizes generalizing base i v with
  | nil =>
    cases i with
    | zero => simp [offsetsFrom] at h; omega
    | succ j => simp [offsetsFrom] at h
  | cons s rest ih =>
    cases i with
    | zero => simp [offsetsFrom] at h; omega
    | succ j =>
      simp only [offsetsFrom, List.getElem?_cons_succ] at h
      have := ih (base + s) j v h
      omega

theorem offsetsFrom_last (base : Nat) (sizes : List Nat) :
    (offsetsFrom base sizes)[sizes.length]? = some (base + sizes.sum) := by
  induction sizes generalizing base with
  | nil => simp [offsetsFrom]
  | cons s rest ih =>
    simp only [offsetsFrom, List.length_cons, List.getElem?_cons_succ, List.sum_cons]
    rw [ih (base + s)]
    congr 1
    omega

/-- `bisect` result: everything before it is `≤ x`, the element at it (if any) is `> x`. -/
theorem bisect_le_length (l : List Nat) (x : Nat) : bisect l x ≤ l.length := by
  induction l with
  | nil => simp [bisect]
  | cons o rest ih =>
    simp only [bisect]
    split <;> simp <;> omega

theorem bisect_before (l : List Nat) (x j v : Nat) (hj : j < bisect l x) (hv : l[j]? = some v) : v ≤ x := by
  induction l generalizing j with
  | nil => simp [bisect] at hj
  | cons o rest ih =>
    simp only [bisect] at hj
    split at hj
    · rename_i hox
      cases j with
      | zero => simp at hv; omega
      | succ k =>
        simp only [List.getElem?_cons_succ] at hv
        exact ih k (by omega) hv
    · omega

theorem bisect_at (l : List Nat) (x v : Nat) (hv : l[bisect l x]? = some v) : x < v := by
  induction l with
  | nil => simp at hv
  | cons o rest ih =>
    simp only [bisect] at hv
    split at hv
    · simp only [List.getElem?_cons_succ] at hv
      exact ih hv
    · rename_i hox
      simp at hv
      omega

/-- with the offsets of `sizes` and a start below the total, bisect lands strictly inside. -/
theorem bisect_offsets (sizes : List Nat) (x : Nat) (hx : x < sizes.sum) :
    1 ≤ bisect (offsets sizes) x ∧ bisect (offsets sizes) x ≤ sizes.length := by
  constructor
  · unfold offsets
    cases sizes with
    | nil => simp at hx
    | cons s rest => simp [offsetsFrom, bisect]
  · -- if bisect were past the last offset, the last offset (= total) would be ≤ x
    have hlen := bisect_le_length (offsets sizes) x
    have hl : (offsets sizes).length = sizes.length + 1 := offsetsFrom_length 0 sizes
    by_cases h : bisect (offsets sizes) x ≤ sizes.length
    · exact h
    · have hlast := offsetsFrom_last 0 sizes
      have : bisect (offsets sizes) x = sizes.length + 1 := by omega
      have hb := bisect_before (offsets sizes) x sizes.length (0 + sizes.sum) (by omega) hlast
      omega

/-- Soundness of `_array_slices`: inside `[start, stop) ⊆ [0, total)` the generator never indexes outside
`offsets`, and every piece `(i, a, b)` names an existing array and a non-empty slice inside it. -/
theorem arraySlices_ok (sizes : List Nat) (fuel start stop : Nat) (hstop : stop ≤ sizes.sum)
    (hfuel : stop - start ≤ fuel) :
    ∃ l, arraySlices (offsets sizes) fuel start stop = some l ∧
      ∀ q ∈ l, ∃ h : q.1 < sizes.length, q.2.1 < q.2.2 ∧ q.2.2 ≤ sizes[q.1] := by
  induction fuel generalizing start with
  | zero =>
    have : ¬ start < stop := by omega
    exact ⟨[], by simp [arraySlices, this], by simp⟩
  | succ f ih =>
    by_cases hlt : start < stop
    · have hx : start < sizes.sum := by omega
      obtain ⟨hb1, hb2⟩ := bisect_offsets sizes start hx
      obtain ⟨i1, hi1⟩ : ∃ i1, bisect (offsets sizes) start = i1 + 1 := ⟨bisect (offsets sizes) start - 1, by omega⟩
      have hi1lt : i1 < sizes.length := by omega
      have hlenO : (offsets sizes).length = sizes.length + 1 := offsetsFrom_length 0 sizes
      obtain ⟨lo, hlo⟩ : ∃ lo, (offsets sizes)[i1]? = some lo := by
        have : i1 < (offsets sizes).length := by omega
        exact ⟨(offsets sizes)[i1], by simp [this]⟩
      have hhi : (offsets sizes)[i1 + 1]? = some (lo + sizes[i1]) := offsetsFrom_succ 0 sizes i1 lo hlo hi1lt
      have hlo_le : lo ≤ start := bisect_before (offsets sizes) start i1 lo (by omega) hlo
      have hhi_gt : start < lo + sizes[i1] := by
        apply bisect_at (offsets sizes) start
        rw [hi1]; exact hhi
      -- recursive call
      have hrec := ih (min stop (lo + sizes[i1])) (by omega)
      obtain ⟨rest, hrest, hall⟩ := hrec
      refine ⟨(i1, start - lo, min stop (lo + sizes[i1]) - lo) :: rest, ?_, ?_⟩
      · simp only [arraySlices, hlt, if_true, hi1, hlo, hhi, hrest]
      · intro q hq
        cases hq with
        | head => exact ⟨hi1lt, by simp only; omega, by simp only; omega⟩
        | tail _ hq' => exact hall q hq'
    · exact ⟨[], by simp [arraySlices, hlt], by simp⟩

/-! ## region store -/

theorem region_key_lt (L c s bi : Nat) (hc : 0 < c) (hs : s % c = 0) (hL : 0 < L)
    (hlo : s / c ≤ bi) (hhi : bi ≤ (s + L - 1) / c) : bi - s / c < nblocks L c := by
  -- s = c * (s / c)
  have hsd : c * (s / c) = s := by
    have := Nat.div_add_mod s c
    omega
  have h1 : (s + L - 1) / c = s / c + (L - 1) / c := by
    have : s + L - 1 = (L - 1) + c * (s / c) := by omega
    rw [this, Nat.add_mul_div_left _ _ hc]
    omega
  have h2 : (L - 1) / c < nblocks L c := pos_block_lt L c (L - 1) hc (by omega)
  omega

/-- repaired region store: for every target block the (unit-step, aligned, right-sized) region meets, the task reads an
existing block of the rechunked source, of exactly the shape of the region's share of that block. -/
theorem region_task_ok (p : RegionP) (hc : 0 < p.tgtChunk) (hmod : p.nlo % p.tgtChunk = 0)
    (hL : p.srcLen = p.nhi - p.nlo) (hpos : 0 < p.srcLen) (bi : Nat)
    (hlo : p.nlo / p.tgtChunk ≤ bi) (hhi : bi ≤ (p.nhi - 1) / p.tgtChunk) : regionTaskOk p bi = true := by
  unfold regionTaskOk regionKeyN RegionP.effChunk regionShare
  generalize p.tgtChunk = cs at *
  generalize p.nlo = lo at *
  generalize p.nhi = hi at *
  generalize p.srcLen = L at *
  obtain ⟨k, rfl⟩ := Nat.exists_eq_add_of_le hlo
  have hlo' : lo / cs * cs = lo := Nat.div_mul_cancel (Nat.dvd_of_mod_eq_zero hmod)
  have h1 : (lo / cs + k) * cs ≤ hi - 1 := (Nat.le_div_iff_mul_le hc).mp hhi
  have h2 : (lo / cs + k) * cs = lo / cs * cs + k * cs := Nat.add_mul _ _ _
  have h3 : (lo / cs + k + 1) * cs = lo / cs * cs + k * cs + cs := by
    rw [Nat.add_mul, Nat.add_mul, Nat.one_mul]
  have hkey : ((lo / cs + k : Nat) : Int) - ((lo / cs : Nat) : Int) = (k : Int) := by omega
  rw [hkey, h3, h2, hlo']
  simp only [Bool.and_eq_true, decide_eq_true_eq, beq_iff_eq, Int.toNat_natCast]
  rw [h2, hlo'] at h1
  generalize hX : k * cs = X at *
  refine ⟨⟨Int.natCast_nonneg k, ?_⟩, ?_⟩
  · by_cases hLc : cs ≤ L
    · have he : max (min cs L) 1 = cs := by omega
      rw [he]
      have := pos_block_lt L cs (k * cs) hc (by omega)
      rwa [Nat.mul_div_cancel k hc] at this
    · have hk : k = 0 := by
        rcases k with _ | k'
        · rfl
        · exfalso
          have : (k' + 1) * cs = k' * cs + cs := by rw [Nat.add_mul, Nat.one_mul]
          omega
      subst hk
      exact nblocks_pos L _ (by omega)
  · by_cases hLc : cs ≤ L
    · have he : max (min cs L) 1 = cs := by omega
      rw [he]
      unfold blockLen
      rw [hX]
      omega
    · have hk : k = 0 := by
        rcases k with _ | k'
        · rfl
        · exfalso
          have : (k' + 1) * cs = k' * cs + cs := by rw [Nat.add_mul, Nat.one_mul]
          omega
      subst hk
      have he : max (min cs L) 1 = L := by omega
      rw [he]
      unfold blockLen
      simp at hX
      omega

/-! ## vendored reshape helpers -/

theorem expandOne_sum (cond : Nat → Bool) (part fuel x : Nat) (hcond : ∀ y, cond y = true → part ≤ y) :
    (expandOne cond part fuel x).sum = x := by
  induction fuel generalizing x with
  | zero =>
    simp only [expandOne]
    split <;> simp_all
  | succ f ih =>
    simp only [expandOne]
    split
    · rename_i hc
      have := hcond x hc
      simp only [List.sum_cons, ih]
      omega
    · split <;> simp_all

theorem contract_divides (dleft cs din : Nat) (h : dleft * cs = din) : din % cs = 0 := by
  rw [← h]; exact Nat.mul_mod_left dleft cs

/-! ## rechunker headroom -/

theorem consolidateStep_le (maxMem rest c ub : Nat) :
    consolidateStep maxMem rest c ub ≤ maxMem := by
  show rest * min (c * (maxMem / (rest * c))) ub ≤ maxMem
  have h1 : rest * min (c * (maxMem / (rest * c))) ub ≤ rest * (c * (maxMem / (rest * c))) :=
    Nat.mul_le_mul_left rest (Nat.min_le_left _ _)
  have h2 : rest * (c * (maxMem / (rest * c))) = (rest * c) * (maxMem / (rest * c)) := by
    rw [Nat.mul_assoc]
  have h3 : (rest * c) * (maxMem / (rest * c)) ≤ maxMem := Nat.mul_div_le maxMem (rest * c)
  omega

/-! ## zip lengths (consolidate_chunks: `len(chunk_limits) == ndim`) -/

theorem zip_map_length {α β γ : Type} (f : α × β → γ) (l1 : List α) (l2 : List β) (n : Nat)
    (h1 : l1.length = n) (h2 : l2.length = n) : ((l1.zip l2).map f).length = n := by
  simp [h1, h2]

/-! ## stack: grids with an inserted axis -/

theorem inGrid_insert (g1 g2 : List Nat) (n : Nat) (out : List Nat) (h : inGrid (g1 ++ n :: g2) out = true) :
    ∃ i, out[g1.length]? = some i ∧ i < n ∧
      inGrid (g1 ++ g2) (out.take g1.length ++ out.drop (g1.length + 1)) = true := by
  induction g1 generalizing out with
  | nil =>
    cases out with
    | nil => simp [inGrid] at h
    | cons o rest =>
      simp only [List.nil_append, inGrid, Bool.and_eq_true, decide_eq_true_eq] at h
      exact ⟨o, by simp, h.1, by simpa using h.2⟩
  | cons g g1' ih =>
    cases out with
    | nil => simp [inGrid] at h
    | cons o rest =>
      simp only [List.cons_append, inGrid, Bool.and_eq_true, decide_eq_true_eq] at h
      obtain ⟨i, hi1, hi2, hi3⟩ := ih rest h.2
      refine ⟨i, by simpa using hi1, hi2, ?_⟩
      simp only [List.length_cons, List.take_succ_cons, List.drop_succ_cons, List.cons_append, inGrid,
        Bool.and_eq_true, decide_eq_true_eq]
      exact ⟨h.1, hi3⟩

/-! ## Bw.keyFn: when is the result malformed -/

theorem allSome_none {α : Type} (l : List (Option α)) (h : Bw.allSome l = none) : none ∈ l := by
  induction l with
  | nil => simp [Bw.allSome] at h
  | cons x rest ih =>
    cases x with
    | none => simp
    | some a =>
      simp only [Bw.allSome, Option.map_eq_none_iff] at h
      simp [ih h]

theorem allSome_fst {α β : Type} (l : List α) (g : α → Option β) (r : List (α × β))
    (h : Bw.allSome (l.map (fun a => (g a).map (fun es => (a, es)))) = some r) : r.map (·.1) = l := by
  induction l generalizing r with
  | nil => simp [Bw.allSome] at h; subst h; rfl
  | cons a rest ih =>
    simp only [List.map_cons] at h
    cases hg : g a with
    | none => simp [hg, Bw.allSome] at h
    | some b =>
      simp only [hg, Option.map_some, Bw.allSome] at h
      cases hr : Bw.allSome (rest.map (fun a => (g a).map (fun es => (a, es)))) with
      | none => simp [hr] at h
      | some r' =>
        simp only [hr, Option.map_some, Option.some.injEq] at h
        subst h
        simp [ih r' hr]

end Cubed.Validate
