/-
  Lemmas about spec threading (Model/SpecThread.lean), used by Properties/C19.lean.
-/
import CubedModel.Model.SpecThread

namespace Cubed.SpecThread

/-! ## chains -/

theorem step_threaded (dflt opnd freshS r : Spec) (st : Option Spec) (k : Kind)
    (hk : k.threaded = true) (hst : resolve dflt st = r) (ho : opnd = r) :
    ∃ st', step opnd freshS st k = some st' ∧ resolve dflt st' = r := by
  cases k <;> simp [Kind.threaded] at hk
  · exact ⟨some opnd, rfl, by simp [resolve, ho]⟩
  · exact ⟨st, rfl, hst⟩
  · exact ⟨some opnd, rfl, by simp [resolve, ho]⟩
  · cases st with
    | none => exact ⟨some opnd, rfl, by simp [resolve, ho]⟩
    | some s => exact ⟨some s, rfl, hst⟩

theorem chainState_threaded (dflt opnd freshS r : Spec) (chain : List Kind) :
    ∀ (st : Option Spec), chainThreaded chain = true → resolve dflt st = r → opnd = r →
      ∃ st', chainState opnd freshS st chain = some st' ∧ resolve dflt st' = r := by
  induction chain with
  | nil => intro st _ hst _; exact ⟨st, rfl, hst⟩
  | cons k ks ih =>
    intro st hth hst ho
    simp [chainThreaded] at hth
    obtain ⟨st1, h1, h1r⟩ := step_threaded dflt opnd freshS r st k hth.1 hst ho
    have hks : chainThreaded ks = true := by simp [chainThreaded]; exact hth.2
    obtain ⟨st2, h2, h2r⟩ := ih st1 hks h1r ho
    exact ⟨st2, by simp [chainState, h1, h2], h2r⟩

/-- A threaded chain gives the helper array the configuration's spec, whatever the default config is. -/
theorem helperSpec_threaded (dflt opnd freshS : Spec) (c : Option Spec) (chain : List Kind)
    (hth : chainThreaded chain = true) (ho : opnd = resolve dflt c) :
    helperSpec dflt opnd freshS c chain = some (resolve dflt c) := by
  obtain ⟨st', h, hr⟩ := chainState_threaded dflt opnd freshS (resolve dflt c) chain c hth rfl ho
  simp [helperSpec, h, hr]

theorem helperSpecs_threaded (dflt opnd freshS : Spec) (c : Option Spec) (chains : List (List Kind))
    (hth : chains.all chainThreaded = true) (ho : opnd = resolve dflt c) :
    ∃ l, helperSpecs dflt opnd freshS c chains = some l ∧ ∀ s ∈ l, s = resolve dflt c := by
  induction chains with
  | nil => exact ⟨[], rfl, by simp⟩
  | cons ch rest ih =>
    simp at hth
    have hrest : rest.all chainThreaded = true := by simp; exact hth.2
    obtain ⟨l, hl, hall⟩ := ih hrest
    refine ⟨resolve dflt c :: l, ?_, ?_⟩
    · simp [helperSpecs, helperSpec_threaded dflt opnd freshS c ch hth.1 ho, hl]
    · intro s hs
      cases hs with
      | head => rfl
      | tail _ h => exact hall s h

theorem checkSpecs_all_eq (s : Spec) (rest : List Spec) (h : ∀ t ∈ rest, t = s) :
    checkSpecs (s :: rest) = some s := by
  have : rest.all (fun t => t == s) = true := by
    simp only [List.all_eq_true]
    intro t ht
    simp [h t ht]
  simp [checkSpecs, this]

/-- `check_array_specs` refuses exactly when some array's spec differs from the first. -/
theorem checkSpecs_none_iff (s : Spec) (rest : List Spec) :
    checkSpecs (s :: rest) = none ↔ ∃ t ∈ rest, t ≠ s := by
  simp [checkSpecs]

/-! ## expressions -/

/-- If every creation site threads the spec, the expression builds, and the result carries the configuration's
spec — for every default config `dflt` and every configuration `c`. -/
theorem build_threaded (dflt freshS : Spec) (c : Option Spec) (e : Expr) (hth : e.threaded = true) :
    build dflt freshS c e = some (resolve dflt c) := by
  induction e with
  | create i chain =>
    simp [Expr.threaded] at hth
    simp [build, helperSpec_threaded dflt (resolve dflt c) freshS c chain hth rfl]
  | op1 f chains a iha =>
    simp [Expr.threaded] at hth
    have ha := iha hth.2
    have hch : chains.all chainThreaded = true := by simp; exact hth.1
    obtain ⟨l, hl, hall⟩ := helperSpecs_threaded dflt (resolve dflt c) freshS c chains hch rfl
    simp [build, ha, hl, checkSpecs_all_eq (resolve dflt c) l hall]
  | op2 f chains a b iha ihb =>
    simp [Expr.threaded] at hth
    have ha := iha hth.1.2
    have hb := ihb hth.2
    have hch : chains.all chainThreaded = true := by simp; exact hth.1.1
    obtain ⟨l, hl, hall⟩ := helperSpecs_threaded dflt (resolve dflt c) freshS c chains hch rfl
    have hall' : ∀ t ∈ resolve dflt c :: l, t = resolve dflt c := by
      intro t ht
      cases ht with
      | head => rfl
      | tail _ h => exact hall t h
    simp [build, ha, hb, hl, checkSpecs_all_eq (resolve dflt c) (resolve dflt c :: l) hall']

/-! ## memory admission -/

theorem admits_iff_headroom (s : Spec) (m : OpMem) :
    admits s m = true ↔ (dataMem (copies s) m : Int) ≤ headroom s := by
  unfold admits projected headroom
  rw [decide_eq_true_iff]
  omega

theorem accepts_iff_headroom (s : Spec) (plan : List OpMem) :
    accepts s plan = true ↔ ∀ m ∈ plan, (dataMem (copies s) m : Int) ≤ headroom s := by
  simp only [accepts, List.all_eq_true]
  constructor
  · intro h m hm; exact (admits_iff_headroom s m).1 (h m hm)
  · intro h m hm; exact (admits_iff_headroom s m).2 (h m hm)

/-- Admission looks at the spec only through `allowed − reserved` and the buffer-copy counts. -/
theorem accepts_congr (s₁ s₂ : Spec) (plan : List OpMem)
    (hh : headroom s₁ = headroom s₂) (hc : copies s₁ = copies s₂) :
    accepts s₁ plan = accepts s₂ plan := by
  have h := accepts_iff_headroom s₁ plan
  have h' := accepts_iff_headroom s₂ plan
  rw [hh, hc] at h
  have hiff : accepts s₁ plan = true ↔ accepts s₂ plan = true := h.trans h'.symm
  cases h1 : accepts s₁ plan <;> cases h2 : accepts s₂ plan <;> simp [h1, h2] at hiff ⊢

theorem accepts_mono (s₁ s₂ : Spec) (plan : List OpMem)
    (hh : headroom s₁ ≤ headroom s₂) (hc : copies s₁ = copies s₂) (h : accepts s₁ plan = true) :
    accepts s₂ plan = true := by
  rw [accepts_iff_headroom] at h ⊢
  intro m hm
  have := h m hm
  rw [hc] at this
  omega

/-- Buffer copies depend on nothing but the work directory's URL scheme. -/
theorem copies_of_workDir (s₁ s₂ : Spec) (h : s₁.workDir = s₂.workDir) : copies s₁ = copies s₂ := by
  simp [copies, isCloud, h]

theorem copies_local (s : Spec) (h : isCloud s = false) : copies s = GeneratedC19.bufferCopiesLocal := by
  simp [copies, h]

end Cubed.SpecThread
