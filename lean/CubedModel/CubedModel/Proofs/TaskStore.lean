/-
  Proofs/TaskStore — lemmas behind the C06 theorems (core Lean only).
-/
import CubedModel.Model.TaskStore

namespace Cubed.TaskStore

set_option linter.unusedSectionVars false

variable {K V : Type} [DecidableEq K]

/-! ## one task -/

theorem run_of_mem (t : Task K V) (s : Store K V) {k : K} (h : k ∈ t.writes) : run t s k = t.val s k := by
  simp [run, h]

theorem run_of_not_mem (t : Task K V) (s : Store K V) {k : K} (h : k ∉ t.writes) : run t s k = s k := by
  simp [run, h]

/-- values read are unchanged by running a task that writes none of the keys read -/
theorem map_run_eq (u : Task K V) (s : Store K V) (ks : List K) (h : ∀ k ∈ ks, k ∉ u.writes) :
    ks.map (run u s) = ks.map s := by
  apply List.map_congr_left
  intro k hk
  exact run_of_not_mem u s (h k hk)

/-- `val` only looks at the key itself and the keys read -/
theorem val_congr (t : Task K V) (s' s : Store K V) (k : K) (hk : s' k = s k)
    (hr : t.reads.map s' = t.reads.map s) : t.val s' k = t.val s k := by
  simp [Task.val, hk, hr]

/-- running `t` again on its own result reproduces the value (no self read) -/
theorem val_run_self (t : Task K V) (s : Store K V) (k : K) (hk : k ∈ t.writes)
    (hns : ∀ k ∈ t.reads, k ∉ t.writes) : t.val (run t s) k = t.val s k := by
  have hr : t.reads.map (run t s) = t.reads.map s := map_run_eq t s t.reads hns
  have hrun : run t s k = t.val s k := run_of_mem t s hk
  unfold Task.val
  rw [hr, hrun]
  unfold Task.val
  cases hab : t.ifAbsent <;> cases hs : s k <;> simp

theorem run_idem (t : Task K V) (s : Store K V) (hns : ∀ k ∈ t.reads, k ∉ t.writes) :
    run t (run t s) = run t s := by
  funext k
  by_cases hk : k ∈ t.writes
  · rw [run_of_mem t _ hk, run_of_mem t _ hk]; exact val_run_self t s k hk hns
  · rw [run_of_not_mem t _ hk]

theorem run_comm (t u : Task K V) (s : Store K V)
    (hw : ∀ k, k ∈ t.writes → k ∉ u.writes)
    (htu : ∀ k ∈ t.reads, k ∉ u.writes) (hut : ∀ k ∈ u.reads, k ∉ t.writes) :
    run t (run u s) = run u (run t s) := by
  funext k
  by_cases hkt : k ∈ t.writes
  · have hku : k ∉ u.writes := hw k hkt
    rw [run_of_mem t _ hkt, run_of_not_mem u _ hku, run_of_mem t _ hkt]
    exact val_congr t _ s k (run_of_not_mem u s hku) (map_run_eq u s _ htu)
  · by_cases hku : k ∈ u.writes
    · rw [run_of_not_mem t _ hkt, run_of_mem u _ hku, run_of_mem u _ hku]
      exact (val_congr u _ s k (run_of_not_mem t s hkt) (map_run_eq t s _ hut)).symm
    · rw [run_of_not_mem t _ hkt, run_of_not_mem u _ hku, run_of_not_mem u _ hku, run_of_not_mem t _ hkt]

/-! ## the tasks of one op, in any order with repetitions: closed form -/

theorem runAll_cons (t : Task K V) (l : List (Task K V)) (s : Store K V) :
    runAll (t :: l) s = runAll l (run t s) := rfl

theorem runAll_append (l₁ l₂ : List (Task K V)) (s : Store K V) :
    runAll (l₁ ++ l₂) s = runAll l₂ (runAll l₁ s) := by
  simp [runAll, List.foldl_append]

/-- a key nobody in `l` writes keeps its value -/
theorem runAll_not_written (l : List (Task K V)) (s : Store K V) (k : K)
    (h : ∀ t ∈ l, k ∉ t.writes) : runAll l s k = s k := by
  induction l generalizing s with
  | nil => rfl
  | cons u l ih =>
    rw [runAll_cons, ih _ (fun t ht => h t (List.mem_cons_of_mem _ ht))]
    exact run_of_not_mem u s (h u List.mem_cons_self)

/-- running one more task `u` of the op first does not change what the writer `t` of `k` leaves there -/
theorem val_after_other {o : List (Task K V)} (hop : OpOK o) {t u : Task K V} (ht : t ∈ o) (hu : u ∈ o)
    (s : Store K V) (k : K) (hk : k ∈ t.writes) : t.val (run u s) k = t.val s k := by
  by_cases hku : k ∈ u.writes
  · have : u = t := hop.single u hu t ht k hku hk
    subst this
    exact val_run_self u s k hk (fun k' hk' => hop.noSelfRead u hu u hu k' hk')
  · exact val_congr t _ s k (run_of_not_mem u s hku)
      (map_run_eq u s _ (fun k' hk' => hop.noSelfRead t ht u hu k' hk'))

/-- closed form of any execution list drawn from one op: a key written by some executed task holds
    what that task computes from the *initial* store. -/
theorem runAll_written {o : List (Task K V)} (hop : OpOK o) (l : List (Task K V)) (hl : ∀ t ∈ l, t ∈ o)
    (s : Store K V) (k : K) (t : Task K V) (ht : t ∈ l) (hk : k ∈ t.writes) :
    runAll l s k = t.val s k := by
  induction l generalizing s with
  | nil => cases ht
  | cons u l ih =>
    have hu : u ∈ o := hl u List.mem_cons_self
    have hl' : ∀ t ∈ l, t ∈ o := fun t h => hl t (List.mem_cons_of_mem _ h)
    have hto : t ∈ o := hl t ht
    rw [runAll_cons]
    by_cases hex : ∃ t' ∈ l, k ∈ t'.writes
    · obtain ⟨t', ht'l, hkt'⟩ := hex
      have : t' = t := hop.single t' (hl' t' ht'l) t hto k hkt' hk
      subst this
      rw [ih hl' (run u s) ht'l]
      exact val_after_other hop hto hu s k hk
    · have hnone : ∀ t' ∈ l, k ∉ t'.writes := fun t' h hk' => hex ⟨t', h, hk'⟩
      rw [runAll_not_written l _ k hnone]
      have htu : t = u := by
        cases ht with
        | head => rfl
        | tail _ h => exact absurd hk (hnone t h)
      subst htu
      exact run_of_mem t s hk

/-- any permutation with any duplications of an op's task list gives the same store -/
theorem perm_dup_invariant {o : List (Task K V)} (hop : OpOK o) (sched : List (Task K V))
    (hc : Covers sched o) (s : Store K V) : runAll sched s = runAll o s := by
  funext k
  by_cases hex : ∃ t ∈ o, k ∈ t.writes
  · obtain ⟨t, hto, hk⟩ := hex
    rw [runAll_written hop sched hc.1 s k t (hc.2 t hto) hk,
        runAll_written hop o (fun _ h => h) s k t hto hk]
  · have h1 : ∀ t ∈ o, k ∉ t.writes := fun t h hk => hex ⟨t, h, hk⟩
    rw [runAll_not_written o s k h1,
        runAll_not_written sched s k (fun t h => h1 t (hc.1 t h))]

/-- re-running a task of an op right after the op completed changes nothing -/
theorem rerun_after_op {o : List (Task K V)} (hop : OpOK o) (t : Task K V) (ht : t ∈ o) (s : Store K V) :
    run t (runAll o s) = runAll o s := by
  have hc : Covers (o ++ [t]) o := by
    constructor
    · intro u hu
      rcases List.mem_append.mp hu with h | h
      · exact h
      · simp at h; subst h; exact ht
    · intro u hu; exact List.mem_append_left _ hu
  have := perm_dup_invariant hop (o ++ [t]) hc s
  rw [runAll_append] at this
  exact this

/-! ## single-key granularity -/

theorem mem_splitOp {o : List (Task K V)} {u : Task K V} (hu : u ∈ splitOp o) :
    ∃ t ∈ o, ∃ k ∈ t.writes, u = { t with writes := [k] } := by
  obtain ⟨t, ht, hut⟩ := List.mem_flatMap.mp hu
  obtain ⟨k, hk, rfl⟩ := List.mem_map.mp hut
  exact ⟨t, ht, k, hk, rfl⟩

theorem splitOp_ok {o : List (Task K V)} (hop : OpOK o) : OpOK (splitOp o) := by
  constructor
  · intro u₁ h₁ u₂ h₂ k hk₁ hk₂
    obtain ⟨t₁, ht₁, k₁, hk₁', rfl⟩ := mem_splitOp h₁
    obtain ⟨t₂, ht₂, k₂, hk₂', rfl⟩ := mem_splitOp h₂
    simp at hk₁ hk₂
    subst hk₁; subst hk₂
    have : t₁ = t₂ := hop.single t₁ ht₁ t₂ ht₂ k hk₁' hk₂'
    subst this; rfl
  · intro u₁ h₁ u₂ h₂ k hk hkw
    obtain ⟨t₁, ht₁, k₁, _, rfl⟩ := mem_splitOp h₁
    obtain ⟨t₂, ht₂, k₂, hk₂', rfl⟩ := mem_splitOp h₂
    simp at hkw
    subst hkw
    exact hop.noSelfRead t₁ ht₁ t₂ ht₂ k hk hk₂'

theorem runAll_splitOp {o : List (Task K V)} (hop : OpOK o) (s : Store K V) :
    runAll (splitOp o) s = runAll o s := by
  funext k
  by_cases hex : ∃ t ∈ o, k ∈ t.writes
  · obtain ⟨t, hto, hk⟩ := hex
    have hmem : ({ t with writes := [k] } : Task K V) ∈ splitOp o :=
      List.mem_flatMap.mpr ⟨t, hto, List.mem_map.mpr ⟨k, hk, rfl⟩⟩
    rw [runAll_written (splitOp_ok hop) (splitOp o) (fun _ h => h) s k _ hmem (by simp),
        runAll_written hop o (fun _ h => h) s k t hto hk]
    rfl
  · have h1 : ∀ t ∈ o, k ∉ t.writes := fun t h hk => hex ⟨t, h, hk⟩
    rw [runAll_not_written o s k h1, runAll_not_written (splitOp o) s k]
    intro u hu hku
    obtain ⟨t, ht, k', hk', rfl⟩ := mem_splitOp hu
    simp at hku
    subst hku
    exact h1 t ht hk'

theorem write_level_invariant {o : List (Task K V)} (hop : OpOK o) (sched : List (Task K V))
    (hc : Covers sched (splitOp o)) (s : Store K V) : runAll sched s = runAll o s := by
  rw [perm_dup_invariant (splitOp_ok hop) sched hc s, runAll_splitOp hop s]

/-! ## later ops -/

/-- a fixed point of `run t` stays one after a task that writes nothing `t` reads or writes -/
theorem fixed_after (t u : Task K V) (s : Store K V) (hfix : run t s = s)
    (hu : ∀ k, k ∈ u.writes → k ∉ t.reads ∧ k ∉ t.writes) : run t (run u s) = run u s := by
  funext k
  by_cases hk : k ∈ t.writes
  · have hku : k ∉ u.writes := fun h => (hu k h).2 hk
    rw [run_of_mem t _ hk, run_of_not_mem u s hku]
    have hr : t.reads.map (run u s) = t.reads.map s :=
      map_run_eq u s _ (fun k' hk' h => (hu k' h).1 hk')
    rw [val_congr t _ s k (run_of_not_mem u s hku) hr, ← run_of_mem t s hk, hfix]
  · rw [run_of_not_mem t _ hk]

theorem fixed_after_all (t : Task K V) (later : List (Task K V)) (s : Store K V) (hfix : run t s = s)
    (hl : ∀ u ∈ later, ∀ k, k ∈ u.writes → k ∉ t.reads ∧ k ∉ t.writes) :
    run t (runAll later s) = runAll later s := by
  induction later generalizing s with
  | nil => exact hfix
  | cons u l ih =>
    rw [runAll_cons]
    exact ih (run u s) (fixed_after t u s hfix (hl u List.mem_cons_self))
      (fun u' hu' => hl u' (List.mem_cons_of_mem _ hu'))

/-- re-running a task after its op completed and any executions of downstream tasks ran changes nothing -/
theorem late_rerun_noop {o : List (Task K V)} (hop : OpOK o) (t : Task K V) (ht : t ∈ o)
    (later : List (Task K V)) (hl : ∀ u ∈ later, ∀ k, k ∈ u.writes → k ∉ t.reads ∧ k ∉ t.writes)
    (s : Store K V) : run t (runAll later (runAll o s)) = runAll later (runAll o s) :=
  fixed_after_all t later _ (rerun_after_op hop t ht s) hl

/-! ## whole plans -/

theorem runAll_flatten_append (pre : List (List (Task K V))) (o : List (Task K V)) (s : Store K V) :
    runAll (pre ++ [o]).flatten s = runAll o (runAll pre.flatten s) := by
  simp [List.flatten_append, runAll_append]

theorem pairwise_split {α : Type} {R : α → α → Prop} {pre post : List α} {a : α}
    (h : (pre ++ a :: post).Pairwise R) : ∀ b ∈ post, R a b := by
  have h2 := (List.pairwise_append.mp h).2.1
  exact (List.pairwise_cons.mp h2).1

/-- a task of any completed op is a fixed point of the store reached by the plain order -/
theorem rerun_in_plan (ops : List (List (Task K V))) (hp : PlanOK ops) (t : Task K V)
    (ht : t ∈ ops.flatten) (s : Store K V) : run t (runAll ops.flatten s) = runAll ops.flatten s := by
  obtain ⟨o, ho, hto⟩ := List.mem_flatten.mp ht
  obtain ⟨pre, post, rfl⟩ := List.append_of_mem ho
  have hfin : ∀ b ∈ post, Final o b := pairwise_split hp.final
  have hflat : (pre ++ o :: post).flatten = pre.flatten ++ (o ++ post.flatten) := by simp
  rw [hflat, runAll_append, runAll_append]
  apply late_rerun_noop (hp.ops_ok o ho) t hto
  intro u hu k hk
  obtain ⟨b, hb, hub⟩ := List.mem_flatten.mp hu
  exact hfin b hb u hub t hto k hk

theorem reruns_in_plan (ops : List (List (Task K V))) (hp : PlanOK ops) (late : List (Task K V))
    (hl : ∀ t ∈ late, t ∈ ops.flatten) (s : Store K V) :
    runAll late (runAll ops.flatten s) = runAll ops.flatten s := by
  induction late with
  | nil => rfl
  | cons t l ih =>
    rw [runAll_cons, rerun_in_plan ops hp t (hl t List.mem_cons_self) s]
    exact ih (fun t' h => hl t' (List.mem_cons_of_mem _ h))

theorem planOK_prefix {pre : List (List (Task K V))} {o : List (Task K V)} {rest : List (List (Task K V))}
    (hp : PlanOK (pre ++ o :: rest)) : PlanOK (pre ++ [o]) := by
  constructor
  · intro o' ho'
    apply hp.ops_ok
    rcases List.mem_append.mp ho' with h | h
    · exact List.mem_append_left _ h
    · simp at h; subst h; simp
  · have : (pre ++ o :: rest) = (pre ++ [o]) ++ rest := by simp
    have h := hp.final
    rw [this] at h
    exact (List.pairwise_append.mp h).1

/-- adversarial execution of the remaining ops = plain execution, from any completed prefix -/
theorem phases_invariant (ps : List (Phase K V)) (pre : List (List (Task K V))) (s : Store K V)
    (hp : PlanOK (pre ++ ps.map (·.op))) (hv : PhasesOK pre ps) :
    runAll (execPhases ps) (runAll pre.flatten s) = runAll (pre ++ ps.map (·.op)).flatten s := by
  induction ps generalizing pre with
  | nil => simp [execPhases, runAll]
  | cons p ps ih =>
    obtain ⟨hcov, hlate, hrest⟩ := hv
    have hpre : PlanOK (pre ++ [p.op]) := planOK_prefix (by simpa using hp)
    have hop : OpOK p.op := hpre.ops_ok p.op (by simp)
    have hexec : execPhases (p :: ps) = p.sched ++ (p.late ++ execPhases ps) := by
      simp [execPhases]
    rw [hexec, runAll_append, runAll_append, perm_dup_invariant hop p.sched hcov,
        ← runAll_flatten_append, reruns_in_plan _ hpre p.late hlate]
    have hlist : pre ++ (p :: ps).map (·.op) = (pre ++ [p.op]) ++ ps.map (·.op) := by simp
    rw [hlist]
    exact ih (pre ++ [p.op]) (by rw [← hlist]; exact hp) hrest

/-! ## placement -/

theorem pure_at_eq {G : Type} (p : PTask G K V) (hp : p.Pure) (g g' : G) : p.at g = p.at g' := by
  simp [PTask.at, hp g g']

/-! ## association-list store refines the function store -/

theorem lookupL_cons (a : K) (v : V) (r : StoreL K V) (k : K) :
    lookupL ((a, v) :: r) k = if k = a then some v else lookupL r k := rfl

theorem lookupL_eraseL (l : StoreL K V) (k k' : K) :
    lookupL (eraseL l k) k' = if k' = k then none else lookupL l k' := by
  induction l with
  | nil => simp [eraseL, lookupL]
  | cons p r ih =>
    obtain ⟨a, v⟩ := p
    by_cases hak : a = k
    · subst hak
      have : eraseL ((a, v) :: r) a = eraseL r a := by simp [eraseL]
      rw [this, ih]
      rw [lookupL_cons]
      by_cases hk' : k' = a <;> simp [hk']
    · have : eraseL ((a, v) :: r) k = (a, v) :: eraseL r k := by simp [eraseL, hak]
      rw [this, lookupL_cons, lookupL_cons, ih]
      by_cases hk'a : k' = a
      · subst hk'a; simp [hak]
      · simp [hk'a]

theorem lookupL_setL (l : StoreL K V) (k : K) (v : Option V) (k' : K) :
    lookupL (setL l k v) k' = if k' = k then v else lookupL l k' := by
  cases v with
  | none => simp [setL, lookupL_eraseL]
  | some v =>
    simp only [setL]
    rw [lookupL_cons, lookupL_eraseL]
    by_cases h : k' = k <;> simp [h]

theorem lookupL_foldl_setL (ws : List K) (g : K → Option V) (l : StoreL K V) (k : K) :
    lookupL (ws.foldl (fun acc k => setL acc k (g k)) l) k = if k ∈ ws then g k else lookupL l k := by
  induction ws generalizing l with
  | nil => simp
  | cons w ws ih =>
    rw [List.foldl_cons, ih]
    by_cases hk : k ∈ ws
    · simp [hk]
    · by_cases hkw : k = w
      · subst hkw; simp [hk, lookupL_setL]
      · simp [hk, hkw, lookupL_setL]

/-- the executable `runL` computes `run` -/
theorem lookupL_runL (t : Task K V) (l : StoreL K V) : lookupL (runL t l) = run t (lookupL l) := by
  funext k
  simp [runL, lookupL_foldl_setL, run]

theorem lookupL_runAllL (ts : List (Task K V)) (l : StoreL K V) :
    lookupL (runAllL ts l) = runAll ts (lookupL l) := by
  induction ts generalizing l with
  | nil => rfl
  | cons t ts ih =>
    show lookupL (runAllL ts (runL t l)) = runAll ts (run t (lookupL l))
    rw [ih, lookupL_runL]

/-! ## block offsets -/

theorem ravel_lt {is ns : List Nat} {o : Nat} (h : ravel? is ns = some o) : o < prod ns := by
  induction is generalizing ns o with
  | nil =>
    cases ns with
    | nil => simp [ravel?] at h; subst h; simp [prod]
    | cons n ns => simp [ravel?] at h
  | cons i is ih =>
    cases ns with
    | nil => simp [ravel?] at h
    | cons n ns =>
      unfold ravel? at h
      by_cases hin : i < n
      · simp only [hin, if_true] at h
        cases hr : ravel? is ns with
        | none => simp [hr] at h
        | some r =>
          simp [hr] at h
          have hrp := ih hr
          subst h
          show i * prod ns + r < n * prod ns
          have : (i + 1) * prod ns ≤ n * prod ns := Nat.mul_le_mul_right _ hin
          rw [Nat.add_mul] at this
          omega
      · simp [hin] at h

theorem unravel_ravel {is ns : List Nat} {o : Nat} (h : ravel? is ns = some o) : unravel? o ns = some is := by
  induction is generalizing ns o with
  | nil =>
    cases ns with
    | nil => simp [ravel?] at h; subst h; simp [unravel?]
    | cons n ns => simp [ravel?] at h
  | cons i is ih =>
    cases ns with
    | nil => simp [ravel?] at h
    | cons n ns =>
      have hlt := ravel_lt h
      unfold ravel? at h
      by_cases hin : i < n
      · simp only [hin, if_true] at h
        cases hr : ravel? is ns with
        | none => simp [hr] at h
        | some r =>
          simp [hr] at h
          have hrp : r < prod ns := ravel_lt hr
          have hpos : 0 < prod ns := by omega
          subst h
          have hmod : (i * prod ns + r) % prod ns = r := by
            rw [Nat.mul_comm, Nat.mul_add_mod]; exact Nat.mod_eq_of_lt hrp
          have hdiv : (i * prod ns + r) / prod ns = i := by
            rw [Nat.mul_comm, Nat.mul_add_div hpos, Nat.div_eq_of_lt hrp]; simp
          unfold unravel?
          have hlt' : i * prod ns + r < n * prod ns := hlt
          simp only [hlt', if_true, hmod, hdiv, ih hr]
      · simp [hin] at h

theorem ravel_unravel {ns is : List Nat} {o : Nat} (h : unravel? o ns = some is) : ravel? is ns = some o := by
  induction ns generalizing o is with
  | nil =>
    unfold unravel? at h
    by_cases ho : o = 0
    · simp [ho] at h; subst h; subst ho; simp [ravel?]
    · simp [ho] at h
  | cons n ns ih =>
    unfold unravel? at h
    by_cases hlt : o < n * prod ns
    · simp only [hlt, if_true] at h
      cases hr : unravel? (o % prod ns) ns with
      | none => simp [hr] at h
      | some r =>
        simp [hr] at h
        subst h
        have hpos : 0 < prod ns := by
          rcases Nat.eq_zero_or_pos (prod ns) with h0 | h0
          · rw [h0] at hlt; simp at hlt
          · exact h0
        have hdiv : o / prod ns < n := by
          apply (Nat.div_lt_iff_lt_mul hpos).mpr; exact hlt
        unfold ravel?
        simp only [hdiv, if_true, ih hr]
        have := Nat.div_add_mod o (prod ns)
        rw [Nat.mul_comm] at this
        simp [this]
    · simp [hlt] at h

theorem ravel_injective {a b ns : List Nat} {o : Nat} (ha : ravel? a ns = some o) (hb : ravel? b ns = some o) :
    a = b := by
  have h1 := unravel_ravel ha
  have h2 := unravel_ravel hb
  rw [h1] at h2
  exact Option.some.inj h2

theorem ravel_isSome_iff (is ns : List Nat) : (ravel? is ns).isSome ↔ InGrid is ns := by
  induction is generalizing ns with
  | nil => cases ns <;> simp [ravel?, InGrid]
  | cons i is ih =>
    cases ns with
    | nil => simp [ravel?, InGrid]
    | cons n ns =>
      unfold ravel? InGrid
      by_cases hin : i < n
      · simp only [hin, if_true, true_and]
        rw [← ih ns]
        cases ravel? is ns <;> simp
      · simp [hin]

theorem blockIdOf_eq {coords nbs : List Nat} (h : InGrid coords nbs) : blockIdOf coords nbs = some coords := by
  have := (ravel_isSome_iff coords nbs).mpr h
  cases hr : ravel? coords nbs with
  | none => simp [hr] at this
  | some o => simp [blockIdOf, hr, unravel_ravel hr]

theorem streamId_eq (coords nbs : List Nat) : streamId coords nbs = ravel? coords nbs := by
  unfold streamId blockIdOf
  cases hr : ravel? coords nbs with
  | none => rfl
  | some o => simp [unravel_ravel hr, hr]

end Cubed.TaskStore
